(* C09 — the counting invariant across obj.add_trait (Dyn.DAddTrait): registrations on a not-yet-defined optional
   trait are completed by the trait_added maintainers when the trait is added (possibly with a value already
   assigned by an earlier trait_added handler). *)
From Coq Require Import List Arith Bool PeanoNat Lia Permutation.
From TV Require Import C09.Model C09.Dyn C09.Law C09.Proofs C09.LawProofs C09.DynProofs C09.DynCount C09.DynSlot.
Import ListNotations.

Section AddTrait.
  Variable h : heap.
  Variable x0 : oid.
  Variable f0 : fname.
  Variable v : list oid.
  Let h' := add_trait_h h x0 f0 v.
  Hypothesis New : has_trait h x0 f0 = false.
  Hypothesis Ht : is_ht h x0 = true.

  (* the node names the added trait on the object it is added to *)
  Definition ahits (n : node) (x : oid) : bool :=
    match n with NNamed f _ _ => Nat.eqb x x0 && Nat.eqb f f0 | NItems _ _ _ => false end.

  Lemma a_hit_new n x : ahits n x = true -> observables h' n x = Some [(x0, f0)] /\ objects h' n x = Some v.
  Proof.
    destruct n as [f nt opt|ck nt opt]; cbn [ahits]; [|discriminate]. intros H. apply andb_true_iff in H.
    destruct H as [Qx Qf]. apply Nat.eqb_eq in Qx. apply Nat.eqb_eq in Qf. subst.
    unfold h'. cbn [observables objects has_trait links add_trait_h]. rewrite !Nat.eqb_refl. cbn. split; reflexivity.
  Qed.
  Lemma a_hit_old n x : ahits n x = true ->
    observables h n x = (if node_opt n then Some [] else None) /\ objects h n x = (if node_opt n then Some [] else None).
  Proof.
    destruct n as [f nt opt|ck nt opt]; cbn [ahits]; [|discriminate]. intros H. apply andb_true_iff in H.
    destruct H as [Qx Qf]. apply Nat.eqb_eq in Qx. apply Nat.eqb_eq in Qf. subst.
    cbn [observables objects node_opt]. rewrite New. split; reflexivity.
  Qed.
  Lemma a_nohit n x : ahits n x = false -> observables h' n x = observables h n x /\ objects h' n x = objects h n x.
  Proof.
    destruct n as [f nt opt|ck nt opt]; cbn [ahits]; [|intros _; split; reflexivity]. intros H.
    unfold h'. cbn [observables objects has_trait links add_trait_h]. rewrite H. cbn [orb]. split; reflexivity.
  Qed.
  Lemma a_is_ht x : is_ht h' x = is_ht h x.
  Proof. reflexivity. Qed.
  Lemma a_nexts_old n x : ahits n x = true -> nexts h n x = [].
  Proof. intros H. unfold nexts. rewrite (proj2 (a_hit_old n x H)). destruct (node_opt n); reflexivity. Qed.

  Fixpoint avisits (g : graph) (x : oid) {struct g} : bool :=
    match g with
    | G n cs => ahits n x || existsb (fun c => existsb (fun y => avisits c y) (nexts h n x)) cs
    end.
  Definition aacyclic : Prop := forall ch y, In y v -> avisits ch y = false.

  Lemma aframe k rm g : forall x, avisits g x = false -> plan h' k rm g x = plan h k rm g x.
  Proof.
    induction g as [n cs IH] using graph_ind'. intros x V. rewrite Forall_forall in IH. cbn [avisits] in V.
    apply orb_false_iff in V. destruct V as [Hh Vc]. cbn [plan]. destruct (a_nohit n x Hh) as [Eo Eb]. rewrite Eo, Eb, a_is_ht.
    assert (pl_all (fun c => match objects h n x with
                             | Some ys => pl_all (fun y => plan h' k rm c y) ys | None => p_fail end) cs
            = pl_all (fun c => match objects h n x with
                               | Some ys => pl_all (fun y => plan h k rm c y) ys | None => p_fail end) cs) as E.
    { apply pl_all_ext_in. intros c Hc. destruct (objects h n x) as [ys|] eqn:O; [|reflexivity].
      apply pl_all_ext_in. intros y Hy. apply (IH c Hc). destruct (avisits c y) eqn:Vy; [|reflexivity].
      assert (existsb (fun c0 => existsb (fun y0 => avisits c0 y0) (nexts h n x)) cs = true); [|congruence].
      apply existsb_exists. exists c. split; [exact Hc|]. apply existsb_exists. exists y.
      split; [unfold nexts; rewrite O; exact Hy|exact Vy]. }
    rewrite E. reflexivity.
  Qed.

  (* the sub-graphs (rooted at a node naming the added trait) that a walk reaches on the object *)
  Fixpoint tocc (g : graph) (x : oid) {struct g} : list graph :=
    match g with
    | G n cs => (if ahits n x then [G n cs] else []) ++ flat_map (fun c => flat_map (fun y => tocc c y) (nexts h n x)) cs
    end.
  Lemma tocc_nil g : forall x, avisits g x = false -> tocc g x = [].
  Proof.
    induction g as [n cs IH] using graph_ind'. intros x V. rewrite Forall_forall in IH. cbn [avisits tocc] in *.
    apply orb_false_iff in V. destruct V as [Hh Vc]. rewrite Hh. cbn [app].
    induction cs as [|c cs IHcs]; [reflexivity|]. cbn [flat_map existsb] in *.
    apply orb_false_iff in Vc. destruct Vc as [Vy Vcs].
    rewrite IHcs; [|intros; apply IH; [right; assumption|assumption]|exact Vcs]. rewrite app_nil_r.
    clear IHcs Vcs. induction (nexts h n x) as [|y ys IHy]; [reflexivity|]. cbn [flat_map existsb] in *.
    apply orb_false_iff in Vy. destruct Vy as [V1 V2]. rewrite (IH c (or_introl eq_refl) y V1), IHy; auto.
  Qed.

  (* what the trait_added maintainer of such a sub-graph hooks *)
  Definition rcnt (k : key) (g' : graph) (o : obsv) (c : ckey) : nat := ecnt o c (fst (plan_restricted h' k g' x0)).

  Lemma asubst k o c (A : aacyclic) g : forall x,
    snd (plan h k false g x) = false -> snd (plan h' k false g x) = false ->
    pcount h' k g x o c = pcount h k g x o c + lsum (fun g' => rcnt k g' o c) (tocc g x).
  Proof.
    induction g as [n cs IH] using graph_ind'. intros x F F'. rewrite Forall_forall in IH.
    rewrite (plan_cnt h' k n cs x o c F'), (plan_cnt h k n cs x o c F). cbn [tocc]. rewrite lsum_app, lsum_flat_map.
    destruct (ahits n x) eqn:Hh.
    - rewrite (a_nexts_old n x Hh).
      assert (lsum (fun ch => lsum (fun y => pcount h k ch y o c) []) cs = 0) as -> by (apply lsum_zero; reflexivity).
      assert (lsum (fun a : graph => lsum (fun g' => rcnt k g' o c) (flat_map (fun y => tocc a y) [])) cs = 0) as ->
          by (apply lsum_zero; reflexivity).
      destruct n as [f nt opt|ck nt opt]; [|discriminate Hh].
      pose proof Hh as Hq. cbn [ahits] in Hq. apply andb_true_iff in Hq. destruct Hq as [Qx Qf].
      apply Nat.eqb_eq in Qx. apply Nat.eqb_eq in Qf. subst x f.
      destruct (a_hit_new _ _ Hh) as [On Bn]. destruct (a_hit_old _ _ Hh) as [Oo Bo]. cbn [node_opt] in Oo, Bo.
      unfold nexts. rewrite Bn.
      (* the restricted plan *)
      assert (snd (pl_all (fun c0 => pl_all (fun y => plan h' k false c0 y) v) cs) = false) as F3.
      { apply pl_all_flag_intro. intros ch Hch. apply pl_all_flag_intro. intros y Hy.
        apply (plan_sub_flag h' k (NNamed f0 nt opt) cs x0 F' ch y Hch). unfold nexts. rewrite Bn. exact Hy. }
      assert (links h' x0 f0 = v) as Lk by (unfold h'; cbn [links add_trait_h]; rewrite !Nat.eqb_refl; reflexivity).
      assert (opt = true) as -> by (destruct opt; [reflexivity|cbn [plan] in F; rewrite Oo in F; destruct nt; discriminate F]).
      set (S := lsum (fun ch => lsum (fun y => pcount h' k ch y o c) v) cs).
      assert (loc1 h k (NNamed f0 nt true) x0 o c = 0) as E1 by (unfold loc1; rewrite Oo; destruct nt; reflexivity).
      assert (loc2 h k (NNamed f0 nt true) cs x0 o c = 0) as E2 by (unfold loc2; rewrite Oo; reflexivity).
      assert (loc4 h' k (G (NNamed f0 nt true) cs) x0 o c = loc4 h k (G (NNamed f0 nt true) cs) x0 o c) as E4 by reflexivity.
      assert (rcnt k (G (NNamed f0 nt true) cs) o c
              = loc1 h' k (NNamed f0 nt true) x0 o c + (loc2 h' k (NNamed f0 nt true) cs x0 o c + S)) as ER.
      { unfold rcnt, plan_restricted. rewrite Lk.
        rewrite (pseq_ecnt o c (if node_notify (NNamed f0 nt true) then p_ok [((x0, f0), AUser k)] else p_ok []) _
                   (if nt as b return (snd (if b then p_ok [((x0, f0), AUser k)] else p_ok []) = false) then eq_refl else eq_refl)).
        rewrite (pseq_ecnt o c (p_ok (map (fun c0 => ((x0, f0), AMaint MNamed c0 k)) cs)) _ eq_refl).
        rewrite (pl_all_ecnt o c _ cs F3).
        assert (lsum (fun a : graph => ecnt o c (fst (pl_all (fun y => plan h' k false a y) v))) cs = S) as ->.
        { unfold S. apply lsum_ext. intros ch Hch. apply pl_all_ecnt. apply (pl_all_flag _ _ F3 ch Hch). }
        unfold loc1, loc2. rewrite On. cbn [node_notify node_mk flat_map p_ok fst]. rewrite app_nil_r.
        destruct nt; reflexivity. }
      cbn [lsum]. unfold loc. rewrite ER, E1, E2, E4. fold S. lia.
    - destruct (a_nohit n x Hh) as [Eo Eb].
      assert (nexts h' n x = nexts h n x) as En by (unfold nexts; rewrite Eb; reflexivity). rewrite En.
      assert (loc h' k (G n cs) x o c = loc h k (G n cs) x o c) as ->.
      { unfold loc, loc1, loc2, loc4. rewrite Eo, a_is_ht. reflexivity. }
      cbn [lsum]. rewrite Nat.add_0_l.
      assert (lsum (fun ch => lsum (fun y => pcount h' k ch y o c) (nexts h n x)) cs
              = lsum (fun ch => lsum (fun y => pcount h k ch y o c) (nexts h n x)) cs
                + lsum (fun a => lsum (fun g' => rcnt k g' o c) (flat_map (fun y => tocc a y) (nexts h n x))) cs) as E.
      { rewrite <- lsum_plus. apply lsum_ext. intros ch Hch. rewrite lsum_flat_map, <- lsum_plus.
        apply lsum_ext. intros y Hy. apply (IH ch Hch y).
        - apply (plan_sub_flag h k n cs x F ch y Hch Hy).
        - apply (plan_sub_flag h' k n cs x F' ch y Hch). rewrite En. exact Hy. }
      lia.
  Qed.

  Lemma tocc_root g : forall x g', In g' (tocc g x) -> exists nt opt cs, g' = G (NNamed f0 nt opt) cs.
  Proof.
    induction g as [n cs IH] using graph_ind'. intros x g' Hin. rewrite Forall_forall in IH. cbn [tocc] in Hin.
    apply in_app_or in Hin. destruct Hin as [Hin|Hin].
    - destruct (ahits n x) eqn:Hh; [|destruct Hin]. destruct Hin as [<-|[]].
      destruct n as [f nt opt|ck nt opt]; [|discriminate Hh]. cbn [ahits] in Hh. apply andb_true_iff in Hh.
      destruct Hh as [_ Qf]. apply Nat.eqb_eq in Qf. subst. eauto.
    - apply in_flat_map in Hin. destruct Hin as (c & Hc & Hin). apply in_flat_map in Hin. destruct Hin as (y & _ & Hin).
      apply (IH c Hc y g' Hin).
  Qed.
  (* the restricted plans of the reached sub-graphs are structurally valid when the plan on the new heap is *)
  Lemma tocc_flags (A : aacyclic) k g : forall x, snd (plan h k false g x) = false -> snd (plan h' k false g x) = false ->
    forall g', In g' (tocc g x) -> snd (plan_restricted h' k g' x0) = false.
  Proof.
    induction g as [n cs IH] using graph_ind'. intros x F F' g' Hin. rewrite Forall_forall in IH. cbn [tocc] in Hin.
    apply in_app_or in Hin. destruct Hin as [Hin|Hin].
    - destruct (ahits n x) eqn:Hh; [|destruct Hin]. destruct Hin as [<-|[]].
      destruct n as [f nt opt|ck nt opt]; [|discriminate Hh]. pose proof Hh as Hq. cbn [ahits] in Hq.
      apply andb_true_iff in Hq. destruct Hq as [Qx Qf]. apply Nat.eqb_eq in Qx. apply Nat.eqb_eq in Qf. subst.
      destruct (a_hit_new _ _ Hh) as [_ Bn]. unfold plan_restricted.
      assert (links h' x0 f0 = v) as -> by (unfold h'; cbn [links add_trait_h]; rewrite !Nat.eqb_refl; reflexivity).
      apply pseq_flag_false. split; [destruct (node_notify _); reflexivity|]. apply pseq_flag_false. split; [reflexivity|].
      apply pl_all_flag_intro. intros ch Hch. apply pl_all_flag_intro. intros y Hy.
      apply (plan_sub_flag h' k (NNamed f0 nt opt) cs x0 F' ch y Hch). unfold nexts. rewrite Bn. exact Hy.
    - apply in_flat_map in Hin. destruct Hin as (c & Hc & Hin). apply in_flat_map in Hin. destruct Hin as (y & Hy & Hin).
      destruct (ahits n x) eqn:Hh; [rewrite (a_nexts_old n x Hh) in Hy; destruct Hy|].
      apply (IH c Hc y); [| |exact Hin].
      + apply (plan_sub_flag h k n cs x F c y Hc Hy).
      + apply (plan_sub_flag h' k n cs x F' c y Hc). unfold nexts. rewrite (proj2 (a_nohit n x Hh)). exact Hy.
  Qed.

  Definition root0 (g' : graph) : bool := match g' with G (NNamed f' _ _) _ => Nat.eqb f' f0 | _ => false end.
  Lemma tocc_root0 g x g' : In g' (tocc g x) -> root0 g' = true.
  Proof. intros Hin. destruct (tocc_root g x g' Hin) as (nt & opt & cs & ->). cbn. apply Nat.eqb_refl. Qed.

  (* the trait_added maintainers a walk places on the object for a sub-graph g' naming the added trait *)
  Lemma ta_on_slot k g' g : root0 g' = true ->
    forall x, snd (plan h k false g x) = false ->
    pcount h k g x (x0, F_TA) (CK (AMaint MTA g' k)) = lsum (fun a => b2n (graph_eqb a g')) (tocc g x).
  Proof.
    intros Rt. induction g as [n cs IH] using graph_ind'. intros x F. rewrite Forall_forall in IH.
    rewrite (plan_cnt h k n cs x _ _ F). cbn [tocc]. rewrite lsum_app, lsum_flat_map.
    assert (lsum (fun ch => lsum (fun y => pcount h k ch y (x0, F_TA) (CK (AMaint MTA g' k))) (nexts h n x)) cs
            = lsum (fun a => lsum (fun b => b2n (graph_eqb b g')) (flat_map (fun y => tocc a y) (nexts h n x))) cs) as E.
    { apply lsum_ext. intros ch Hch. rewrite lsum_flat_map. apply lsum_ext. intros y Hy.
      apply (IH ch Hch y). apply (plan_sub_flag h k n cs x F ch y Hch Hy). }
    rewrite E. f_equal. clear E IH. unfold loc.
    assert (forall es, (forall e, In e es -> match snd e with AMaint MTA _ _ => False | _ => True end) ->
                       ecnt (x0, F_TA) (CK (AMaint MTA g' k)) es = 0) as Zero.
    { intros es Hes. destruct (Nat.eq_dec (ecnt (x0, F_TA) (CK (AMaint MTA g' k)) es) 0) as [Z|Z]; [exact Z|].
      destruct (ecnt_pos_in (x0, F_TA) (CK (AMaint MTA g' k)) es) as (e & He & _ & Ek); [lia|]. specialize (Hes e He).
      inversion Ek as [Ek']. rewrite Ek' in Hes. destruct Hes. }
    assert (loc1 h k n x (x0, F_TA) (CK (AMaint MTA g' k)) = 0) as ->.
    { unfold loc1. apply Zero. intros e He. destruct (node_notify n); [|destruct He]. destruct (observables h n x); [|destruct He].
      cbn in He. apply in_map_iff in He. destruct He as (o' & <- & _). exact I. }
    assert (loc2 h k n cs x (x0, F_TA) (CK (AMaint MTA g' k)) = 0) as ->.
    { unfold loc2. apply Zero. intros e He. destruct (observables h n x); [|destruct He]. cbn in He.
      apply in_flat_map in He. destruct He as (o' & _ & He). apply in_map_iff in He. destruct He as (ch & <- & _).
      cbn [snd]. destruct n; exact I. }
    cbn [Nat.add]. unfold loc4.
    destruct n as [f nt opt|ck nt opt]; cbn [ahits]; [|reflexivity].
    destruct (is_ht h x) eqn:Q.
    - change [((x, F_TA), AMaint MTA (G (NNamed f nt opt) cs) k)]
        with (map (fun c => ((x, F_TA), AMaint MTA c k)) [G (NNamed f nt opt) cs]).
      cbn [p_ok fst]. rewrite ecnt_map_maint. unfold obsv_eqb. cbn [fst snd mkind_eqb]. rewrite Nat.eqb_refl, !andb_true_r.
      destruct (Nat.eqb x x0); cbn [andb]; [|reflexivity]. destruct (Nat.eqb f f0) eqn:Qf; [reflexivity|].
      cbn [lsum]. destruct (graph_eqb (G (NNamed f nt opt) cs) g') eqn:Qg; [|reflexivity].
      apply graph_eqb_spec in Qg. subst g'. cbn [root0] in Rt. congruence.
    - assert (Nat.eqb x x0 = false) as -> by (destruct (Nat.eqb_spec x x0); [subst; congruence|reflexivity]).
      cbn [andb lsum]. destruct opt; reflexivity.
  Qed.

  (* ------------------------------------------------------------ what the trait_added run does to the counts *)
  Lemma walk_plan_add_ok p H : snd p = false -> posH H ->
    exists H1, walk_plan p false H = (H1, None) /\ posH H1 /\ forall o c, cntH H1 o c = cntH H o c + ecnt o c (fst p).
  Proof.
    destruct p as [es sf]. cbn [fst snd]. intros -> P. unfold walk_plan.
    destruct (exec_add es H []) as (H1 & E1 & C1 & P1). rewrite E1. exists H1. split; [reflexivity|]. split; [apply P1, P|exact C1].
  Qed.
  Definition aadd (o : obsv) (cc : ckey) (n : notifier) : nat :=
    match n with NMaint MTA g' k => if root0 g' then rcnt k g' o cc else 0 | _ => 0 end.
  Lemma run_ta_acc s : dead_handlers s = [] -> dead_objs s = [] ->
    forall ns H calls, posH H ->
    (forall g' k, In (NMaint MTA g' k) ns -> root0 g' = true -> snd (plan_restricted h' k g' x0) = false) ->
    exists H' calls', run_ta_notifiers h' s x0 f0 ns H calls = (H', calls', None) /\ posH H' /\
      forall o cc, cntH H' o cc = cntH H o cc + lsum (aadd o cc) ns.
  Proof.
    intros Dh Do. assert (forall k, alive s k = true) as Al by (intros k; unfold alive; rewrite Dh, Do; reflexivity).
    induction ns as [|n r IH]; intros H calls P F; cbn [run_ta_notifiers].
    - exists H, calls. split; [reflexivity|]. split; [exact P|]. intros; cbn; lia.
    - assert (forall g' k, In (NMaint MTA g' k) r -> root0 g' = true -> snd (plan_restricted h' k g' x0) = false) as Fr
          by (intros; apply F; [right|]; assumption).
      assert (forall calls0, (forall o cc, aadd o cc n = 0) ->
                exists H' calls', run_ta_notifiers h' s x0 f0 r H calls0 = (H', calls', None) /\ posH H' /\
                  forall o cc, cntH H' o cc = cntH H o cc + lsum (aadd o cc) (n :: r)) as Skip.
      { intros calls0 Z. destruct (IH H calls0 P Fr) as (H' & calls' & E & P' & C'). exists H', calls'.
        split; [exact E|]. split; [exact P'|]. intros o cc. cbn [lsum]. rewrite Z, C'. lia. }
      destruct n as [k rc|m g' k|i]; [apply Skip; intros; reflexivity| |apply Skip; intros; reflexivity].
      destruct m; [apply Skip; intros; reflexivity|apply Skip; intros; reflexivity|].
      destruct g' as [[f' nt opt|ck nt opt] cs]; [|apply Skip; intros; reflexivity].
      rewrite Al. cbn [andb]. destruct (Nat.eqb f' f0) eqn:Qf.
      + assert (root0 (G (NNamed f' nt opt) cs) = true) as Rt by exact Qf.
        destruct (walk_plan_add_ok (plan_restricted h' k (G (NNamed f' nt opt) cs) x0) H
                    (F _ _ (or_introl eq_refl) Rt) P) as (H1 & E1 & P1 & C1).
        rewrite E1. destruct (IH H1 calls P1 Fr) as (H' & calls' & E & P' & C'). exists H', calls'.
        split; [exact E|]. split; [exact P'|]. intros o cc. cbn [lsum aadd]. rewrite Rt, C', C1. unfold rcnt. lia.
      + apply Skip. intros o cc. cbn [aadd root0]. rewrite Qf. reflexivity.
  Qed.

  (* the relevant trait_added maintainers of a notifier list *)
  Definition msA (ns : list notifier) : list gk :=
    flat_map (fun n => match n with NMaint MTA g' k => if root0 g' then [(g', k)] else [] | _ => [] end) ns.
  Lemma cnt_msA g' k ns : cntA gk_eqb (g', k) (msA ns) = if root0 g' then cnt (CK (AMaint MTA g' k)) ns else 0.
  Proof.
    unfold cntA. induction ns as [|n r IH]; [destruct (root0 g'); reflexivity|]. cbn [msA flat_map cnt]. rewrite lsum_app. fold (msA r).
    rewrite IH. destruct n as [k' rc|m g k'|i]; cbn [lsum weight matches]; try (destruct (root0 g'); reflexivity).
    destruct m; cbn [lsum mkind_eqb andb b2n]; try (destruct (root0 g'); reflexivity).
    destruct (root0 g) eqn:Rg.
    - cbn [lsum]. unfold gk_eqb. cbn [fst snd]. rewrite (graph_eqb_sym g g'), (key_eqb_sym k' k).
      destruct (root0 g') eqn:Rg'; [lia|]. destruct (graph_eqb g' g) eqn:Qg; [|reflexivity].
      apply graph_eqb_spec in Qg. subst. congruence.
    - cbn [lsum]. destruct (root0 g') eqn:Rg'; [|reflexivity]. destruct (graph_eqb g' g) eqn:Qg; [|reflexivity].
      apply graph_eqb_spec in Qg. subst. congruence.
  Qed.
  Lemma aadd_ms o cc ns : lsum (aadd o cc) ns = lsum (fun p : gk => rcnt (snd p) (fst p) o cc) (msA ns).
  Proof.
    induction ns as [|n r IH]; [reflexivity|]. cbn [lsum msA flat_map]. rewrite lsum_app. fold (msA r). rewrite IH. f_equal.
    destruct n as [k rc|m c k|i]; try reflexivity. destruct m; try reflexivity. cbn [aadd]. destruct (root0 c); cbn; lia.
  Qed.
  Definition slotA (R : list reg) : list gk :=
    flat_map (fun r : reg => let '(k, g, x) := r in map (fun g' => (g', k)) (tocc g x)) R.
  Lemma cnt_slotA R g' k : flags_ok h R ->
    cntA gk_eqb (g', k) (slotA R) = if root0 g' then tot h R (x0, F_TA) (CK (AMaint MTA g' k)) else 0.
  Proof.
    intros F. unfold cntA, slotA, tot. induction R as [|[[k' g] x] R IH]; [destruct (root0 g'); reflexivity|].
    cbn [flat_map lsum]. rewrite lsum_app, IH; [|intros ? ? ? Hin; apply F; right; exact Hin].
    assert (lsum (fun b => b2n (gk_eqb b (g', k))) (map (fun a => (a, k')) (tocc g x))
            = if key_eqb k' k then lsum (fun a => b2n (graph_eqb a g')) (tocc g x) else 0) as E.
    { induction (tocc g x) as [|a l IHl]; [cbn; destruct (key_eqb k' k); reflexivity|].
      cbn [map lsum]. rewrite IHl. unfold gk_eqb. cbn [fst snd]. destruct (key_eqb k' k); [rewrite andb_true_r|rewrite andb_false_r]; cbn; lia. }
    rewrite E. destruct (root0 g') eqn:Rt.
    - f_equal. destruct (key_eqb k' k) eqn:Q.
      + apply key_eqb_spec in Q. subst k'. symmetry. apply (ta_on_slot k g' g Rt). apply (F k g x). left. reflexivity.
      + symmetry. apply plan_other_key. cbn [akey_key]. intros Ek. subst. rewrite key_eqb_refl in Q. discriminate.
    - rewrite Nat.add_0_r. destruct (key_eqb k' k); [|reflexivity]. apply lsum_zero. intros a Ha.
      destruct (graph_eqb a g') eqn:Qg; [|reflexivity]. apply graph_eqb_spec in Qg. subst.
      rewrite (tocc_root0 g x g' Ha) in Rt. discriminate.
  Qed.
  Lemma slotA_sum (Q : key -> graph -> nat) R :
    lsum (fun p : gk => Q (snd p) (fst p)) (slotA R)
    = lsum (fun r : reg => let '(k, g, x) := r in lsum (fun g' => Q k g') (tocc g x)) R.
  Proof. unfold slotA. rewrite lsum_flat_map. apply lsum_ext. intros [[k g] x] _. rewrite lsum_map. reflexivity. Qed.

  (* one add_trait: the trait_added maintainers complete every live registration that names the new trait *)
  Theorem add_trait_step (A : aacyclic) R H s : dinv h H R -> flags_ok h' R ->
    dead_handlers s = [] -> dead_objs s = [] ->
    exists H' calls, run_ta_notifiers h' s x0 f0 (H (x0, F_TA)) H [] = (H', calls, None) /\ dinv h' H' R.
  Proof.
    intros (P & Inv & F) F' Dh Do.
    assert (forall Q : key -> graph -> nat,
              lsum (fun p : gk => Q (snd p) (fst p)) (msA (H (x0, F_TA)))
              = lsum (fun r : reg => let '(k, g, x) := r in lsum (fun g' => Q k g') (tocc g x)) R) as Sum.
    { intros Q. rewrite <- slotA_sum. apply (lsum_by_counts gk_eqb gk_eqb_spec). intros [c k].
      rewrite cnt_msA, (cnt_slotA R c k F). destruct (root0 c); [apply Inv|reflexivity]. }
    assert (forall c k, In (NMaint MTA c k) (H (x0, F_TA)) -> root0 c = true ->
              exists g x, In (k, g, x) R /\ In c (tocc g x)) as Src.
    { intros c k Hin Rt. pose proof (in_cnt_pos _ _ (P (x0, F_TA)) Hin) as Pos. cbn [ckey_of] in Pos.
      change (cnt (CK (AMaint MTA c k)) (H (x0, F_TA))) with (cntH H (x0, F_TA) (CK (AMaint MTA c k))) in Pos.
      rewrite Inv in Pos. pose proof (cnt_slotA R c k F) as Cs. rewrite Rt in Cs. rewrite <- Cs in Pos.
      apply (cntA_pos_in gk_eqb gk_eqb_spec) in Pos. unfold slotA in Pos. apply in_flat_map in Pos.
      destruct Pos as ([[k' g] x] & Hr & Hm). apply in_map_iff in Hm. destruct Hm as (ch & E & Hch).
      inversion E; subst. exists g, x. split; assumption. }
    destruct (run_ta_acc s Dh Do (H (x0, F_TA)) H [] P) as (H' & calls & E & P' & C).
    { intros c k Hin Rt. destruct (Src c k Hin Rt) as (g & x & Hr & Hc).
      apply (tocc_flags A k g x (F k g x Hr) (F' k g x Hr) c Hc). }
    exists H', calls. split; [exact E|]. split; [exact P'|]. split; [|exact F'].
    intros o a. rewrite (C o (CK a)), aadd_ms, (Sum (fun k g' => rcnt k g' o (CK a))), Inv.
    unfold tot. rewrite <- lsum_plus. apply lsum_ext. intros [[k g] x] Hr. symmetry.
    apply (asubst k o (CK a) A g x (F k g x Hr) (F' k g x Hr)).
  Qed.
End AddTrait.

(* ------------------------------------------------------------------ histories with link reassignments, container
   mutations AND add_trait *)
Inductive cop3 :=
| C2 (c : cop2)
| CAdd (x : oid) (f : fname) (v : list oid)       (* x.add_trait(f, ...) of a new name; the trait then holds v *)
| CReAdd (x : oid) (f : fname) (v : list oid).    (* x.add_trait(f, ...) of a name that already is a trait of x *)
Definition dop_of3 (c : cop3) : dop :=
  match c with C2 c' => dop_of2 c' | CAdd x f v | CReAdd x f v => DAddTrait x f v end.
Definition live_after3 (R : list reg) (c : cop3) (ob : obs) : list reg :=
  match c with C2 c' => live_after2 R c' ob | CAdd _ _ _ | CReAdd _ _ _ => R end.
(* add_trait is admissible if the name is new on a HasTraits object, the object's new trait is not reachable from the
   value the trait starts with, and the live registrations stay valid *)
Definition admissible3 (h : heap) (R : list reg) (c : cop3) : Prop :=
  match c with
  | C2 c' => admissible2 h R c'
  | CAdd x f v => has_trait h x f = false /\ is_ht h x = true /\ aacyclic h x f v /\ flags_ok (add_trait_h h x f v) R
  | CReAdd x f v => has_trait h x f = true
  end.
Fixpoint crun3 (d : dstate) (R : list reg) (ops : list cop3) : dstate * list reg * list (cop3 * obs) :=
  match ops with
  | [] => (d, R, [])
  | c :: r => let '(d1, ob) := dstep d (dop_of3 c) in
              let '(d2, R2, tr) := crun3 d1 (live_after3 R c ob) r in (d2, R2, (c, ob) :: tr)
  end.
Fixpoint admissible_run3 (d : dstate) (R : list reg) (ops : list cop3) : Prop :=
  match ops with
  | [] => True
  | c :: r => admissible3 (d_heap d) R c /\
              admissible_run3 (fst (dstep d (dop_of3 c))) (live_after3 R c (snd (dstep d (dop_of3 c)))) r
  end.
Definition quiet_outcome3 (c : cop3) (ob : obs) : Prop :=
  match c with
  | C2 c' => quiet_outcome c' ob
  | CAdd _ _ _ => o_out ob = None
  | CReAdd _ _ _ => o_out ob = None /\ o_calls ob = []      (* re-definition: trait_added is not fired, nobody is called *)
  end.

Lemma cstep3 d R c d1 ob : dstate_inv d R -> admissible3 (d_heap d) R c -> dstep d (dop_of3 c) = (d1, ob) ->
  dstate_inv d1 (live_after3 R c ob) /\ quiet_outcome3 c ob.
Proof.
  intros I Ad S. destruct c as [c'|x f v|x f v]; cbn [dop_of3 live_after3 admissible3 quiet_outcome3] in *.
  - apply (cstep2 d R c' d1 ob I Ad S).
  - destruct I as [I [Dh Do]]. destruct Ad as (New & Ht & A & F').
    cbn [dstep] in S. rewrite New in S.
    destruct (add_trait_step (d_heap d) x f v New Ht A R (st_hooks (d_st d)) (d_st d) I F' Dh Do) as (H' & calls & E & I').
    rewrite E in S. inversion S; subst d1 ob. cbn [o_out]. split; [|reflexivity].
    split; [exact I'|split; assumption].
  - cbn [dstep] in S. rewrite Ad in S. inversion S; subst d1 ob. split; [exact I|split; reflexivity].
Qed.

Lemma dyn3_hooks_are_expected : forall ops d R d' R' tr, dstate_inv d R -> admissible_run3 d R ops ->
  crun3 d R ops = (d', R', tr) ->
  dstate_inv d' R' /\ forall c ob, In (c, ob) tr -> quiet_outcome3 c ob.
Proof.
  induction ops as [|c ops IH]; intros d R d' R' tr I Ad Cr; cbn [crun3] in Cr.
  - inversion Cr; subst. split; [exact I|intros ? ? []].
  - destruct Ad as [Ad1 Ad2]. destruct (dstep d (dop_of3 c)) as [d1 ob] eqn:S. cbn [fst snd] in Ad2.
    destruct (crun3 d1 (live_after3 R c ob) ops) as [[d2 R2] tr2] eqn:Cr2. inversion Cr; subst.
    destruct (cstep3 d R c d1 ob I Ad1 S) as [I1 O1]. destruct (IH _ _ _ _ _ I1 Ad2 Cr2) as [I2 O2].
    split; [exact I2|]. intros c' ob' [E|Hin]; [inversion E; subst; exact O1|apply (O2 _ _ Hin)].
Qed.

(* who is called by add_trait: the handlers hooked on the object's trait_added, once each *)
Lemma run_ta_notifiers_calls h s x f : forall ns H calls H' calls',
  run_ta_notifiers h s x f ns H calls = (H', calls', None) -> calls' = calls ++ calls_of s ns.
Proof.
  induction ns as [|n r IH]; intros H calls H' calls' R; cbn [run_ta_notifiers] in R.
  - inversion R; subst. unfold calls_of. cbn. rewrite app_nil_r. reflexivity.
  - change (calls_of s (n :: r)) with
      ((match n with NUser k' _ => if alive s k' then [k'] else [] | _ => [] end) ++ calls_of s r).
    destruct n as [k rc|m g k|i].
    + rewrite (IH _ _ _ _ R). destruct (alive s k); [rewrite <- app_assoc|]; reflexivity.
    + cbn [app]. destruct m; try (apply (IH _ _ _ _ R)).
      destruct g as [[f' nt opt|ck nt opt] cs]; [|apply (IH _ _ _ _ R)].
      destruct (alive s k && Nat.eqb f' f); [|apply (IH _ _ _ _ R)].
      destruct (walk_plan _ false H) as [H1 [e|]]; [discriminate|apply (IH _ _ _ _ R)].
    + cbn [app]. apply (IH _ _ _ _ R).
Qed.
Lemma add_trait_calls (h hrun : heap) R H s x f H' calls k :
  dinv h H R -> wfH H -> dead_handlers s = [] -> dead_objs s = [] ->
  run_ta_notifiers hrun s x f (H (x, F_TA)) H [] = (H', calls, None) ->
  (ncalls k calls <= 1) /\
  (ncalls k calls = 1 <-> exists g y, In (k, g, y) R /\ l_matched h g y (x, F_TA) = true).
Proof.
  intros (P & Inv & F) W Dh Do Rn. rewrite (run_ta_notifiers_calls _ _ _ _ _ _ _ _ _ Rn). cbn [app].
  rewrite (calls_count s (H (x, F_TA)) k (proj1 W (x, F_TA)) (proj2 W (x, F_TA))).
  assert (alive s k = true) as -> by (unfold alive; rewrite Dh, Do; reflexivity). cbn [andb].
  change (cnt (CK (AUser k)) (H (x, F_TA))) with (cntH H (x, F_TA) (CK (AUser k))). rewrite Inv.
  split; [destruct (0 <? _); lia|].
  destruct (0 <? tot h R (x, F_TA) (CK (AUser k))) eqn:Z.
  - apply Nat.ltb_lt in Z. split; [intros _|reflexivity].
    destruct (tot_pos_in _ _ _ _ Z) as (k' & g & y & Hin & Pp).
    assert (k' = k) as ->.
    { destruct (key_eqb k' k) eqn:Q; [apply key_eqb_spec, Q|]. unfold pcount in Pp.
      rewrite plan_other_key in Pp; [lia|]. cbn [akey_key]. intros E. subst. rewrite key_eqb_refl in Q. discriminate. }
    exists g, y. split; [exact Hin|]. apply (plan_matched _ k g y (x, F_TA) (F k g y Hin)). exact Pp.
  - apply Nat.ltb_ge in Z. split; [discriminate|]. intros (g & y & Hin & M). exfalso.
    assert (0 < tot h R (x, F_TA) (CK (AUser k))); [|lia].
    apply (tot_in_pos _ _ _ _ k g y Hin). apply (plan_matched _ k g y (x, F_TA) (F k g y Hin)). exact M.
Qed.

(* ------------------------------------------------------------------ who is called, step by step *)
(* the slot (observable) a history step fires *)
Definition slot_of (c : cop) : option obsv :=
  match c with CChange o f => Some (o, f) | CLink x f _ => Some (x, f) | _ => None end.
Definition slot_of2 (c : cop2) : option obsv :=
  match c with C1 c' => slot_of c' | CItems c0 _ _ _ _ => Some (c0, F_ITEMS) end.
Definition slot_of3 (c : cop3) : option obsv :=
  match c with C2 c' => slot_of2 c' | CAdd x _ _ => Some (x, F_TA) | CReAdd _ _ _ => None end.

Lemma cstep3_calls d R c d1 ob k : dstate_inv d R -> wfH (st_hooks (d_st d)) -> admissible3 (d_heap d) R c ->
  dstep d (dop_of3 c) = (d1, ob) ->
  match slot_of3 c with
  | Some sg => ncalls k (o_calls ob) <= 1 /\
               (ncalls k (o_calls ob) = 1 <-> exists g x, In (k, g, x) R /\ l_matched (d_heap d) g x sg = true)
  | None => o_calls ob = []
  end.
Proof.
  intros I W Ad S. pose proof I as [I0 [Dh Do]].
  destruct c as [[[x hd dp g|x hd dp g|o f|x0 f0 v]|c0 v removed added rest]|x f v|x f v];
    cbn [slot_of3 slot_of2 slot_of dop_of3 dop_of2 dop_of admissible3 admissible2 admissible] in *.
  - cbn [dstep] in S. destruct (step (d_heap d) (d_st d) (Register x hd dp [g])) as [s' ob'] eqn:St. inversion S; subst d1 ob.
    cbn [step] in St. destruct (apply_observers _ _ _ _ _ _). inversion St; subst. reflexivity.
  - cbn [dstep] in S. destruct (step (d_heap d) (d_st d) (Unregister x hd dp [g])) as [s' ob'] eqn:St. inversion S; subst d1 ob.
    cbn [step] in St. destruct (apply_observers _ _ _ _ _ _). inversion St; subst. reflexivity.
  - cbn [dstep] in S. destruct (step (d_heap d) (d_st d) (Change o f)) as [s' ob'] eqn:St. inversion S; subst d1 ob.
    apply (dyn_once_per_change d R o f s' ob' k I W St).
  - destruct Ad as [A F']. cbn [dstep] in S.
    destruct (link_step (d_heap d) x0 f0 v A R (st_hooks (d_st d)) (d_st d) I0 F' Dh Do) as (H' & calls & E & _).
    rewrite E in S. inversion S; subst d1 ob. cbn [o_calls].
    apply (slot_calls (d_heap d) _ R (st_hooks (d_st d)) (d_st d) (x0, f0) true _ _ H' calls k I0 W Dh Do E).
  - destruct Ad as (Wf & Hc0 & Po & Pn & A & F'). cbn [dstep] in S.
    destruct (items_step (d_heap d) c0 v removed added rest Wf Hc0 Po Pn A R (st_hooks (d_st d)) (d_st d) I0 F' Dh Do)
      as (H' & calls & E & _).
    rewrite E in S. inversion S; subst d1 ob. cbn [o_calls].
    apply (slot_calls (d_heap d) _ R (st_hooks (d_st d)) (d_st d) (c0, F_ITEMS) false _ _ H' calls k I0 W Dh Do E).
  - destruct Ad as (New & Ht & A & F'). cbn [dstep] in S. rewrite New in S.
    destruct (add_trait_step (d_heap d) x f v New Ht A R (st_hooks (d_st d)) (d_st d) I0 F' Dh Do) as (H' & calls & E & _).
    rewrite E in S. inversion S; subst d1 ob. cbn [o_calls].
    apply (add_trait_calls (d_heap d) _ R (st_hooks (d_st d)) (d_st d) x f H' calls k I0 W Dh Do E).
  - cbn [dstep] in S. rewrite Ad in S. inversion S; subst. reflexivity.
Qed.

Lemma crun3_wf : forall ops d R d' R' tr, wfH (st_hooks (d_st d)) -> crun3 d R ops = (d', R', tr) ->
  wfH (st_hooks (d_st d')).
Proof.
  induction ops as [|c ops IH]; intros d R d' R' tr W Cr; cbn [crun3] in Cr.
  - inversion Cr; subst. exact W.
  - destruct (dstep d (dop_of3 c)) as [d1 ob] eqn:S.
    destruct (crun3 d1 (live_after3 R c ob) ops) as [[d2 R2] tr2] eqn:Cr2. inversion Cr; subst.
    apply (IH _ _ _ _ _ (dstep_wf _ _ _ _ W S) Cr2).
Qed.
