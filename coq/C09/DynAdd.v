(* C09 — the counting invariant across obj.add_trait (Dyn.DAddTrait): registrations on a not-yet-defined optional
   trait are completed by the trait_added maintainers when the trait is added (possibly with a value already
   assigned by an earlier trait_added handler). *)
From Coq Require Import List Arith Bool PeanoNat Lia Permutation.
From TV Require Import C09.Model C09.Dyn C09.Law C09.Proofs C09.LawProofs C09.DynProofs C09.DynCount C09.DynSlot.
Import ListNotations.

Section AddTrait.
  Variable h : heap.
  Variable x0 : oid.
  Variable f0 : fname.
  Variable v : list oid.
  Let h' := add_trait_h h x0 f0 v.
  Hypothesis New : has_trait h x0 f0 = false.
  Hypothesis Ht : is_ht h x0 = true.

  (* the node names the added trait on the object it is added to *)
  Definition ahits (n : node) (x : oid) : bool :=
    match n with NNamed f _ _ => Nat.eqb x x0 && Nat.eqb f f0 | NItems _ _ _ => false end.

  Lemma a_hit_new n x : ahits n x = true -> observables h' n x = Some [(x0, f0)] /\ objects h' n x = Some v.
  Proof.
    destruct n as [f nt opt|ck nt opt]; cbn [ahits]; [|discriminate]. intros H. apply andb_true_iff in H.
    destruct H as [Qx Qf]. apply Nat.eqb_eq in Qx. apply Nat.eqb_eq in Qf. subst.
    unfold h'. cbn [observables objects has_trait links add_trait_h]. rewrite !Nat.eqb_refl. cbn. split; reflexivity.
  Qed.
  Lemma a_hit_old n x : ahits n x = true ->
    observables h n x = (if node_opt n then Some [] else None) /\ objects h n x = (if node_opt n then Some [] else None).
  Proof.
    destruct n as [f nt opt|ck nt opt]; cbn [ahits]; [|discriminate]. intros H. apply andb_true_iff in H.
    destruct H as [Qx Qf]. apply Nat.eqb_eq in Qx. apply Nat.eqb_eq in Qf. subst.
    cbn [observables objects node_opt]. rewrite New. split; reflexivity.
  Qed.
  Lemma a_nohit n x : ahits n x = false -> observables h' n x = observables h n x /\ objects h' n x = objects h n x.
  Proof.
    destruct n as [f nt opt|ck nt opt]; cbn [ahits]; [|intros _; split; reflexivity]. intros H.
    unfold h'. cbn [observables objects has_trait links add_trait_h]. rewrite H. cbn [orb]. split; reflexivity.
  Qed.
  Lemma a_is_ht x : is_ht h' x = is_ht h x.
  Proof. reflexivity. Qed.
  Lemma a_nexts_old n x : ahits n x = true -> nexts h n x = [].
  Proof. intros H. unfold nexts. rewrite (proj2 (a_hit_old n x H)). destruct (node_opt n); reflexivity. Qed.

  Fixpoint avisits (g : graph) (x : oid) {struct g} : bool :=
    match g with
    | G n cs => ahits n x || existsb (fun c => existsb (fun y => avisits c y) (nexts h n x)) cs
    end.
  Definition aacyclic : Prop := forall ch y, In y v -> avisits ch y = false.

  Lemma aframe k rm g : forall x, avisits g x = false -> plan h' k rm g x = plan h k rm g x.
  Proof.
    induction g as [n cs IH] using graph_ind'. intros x V. rewrite Forall_forall in IH. cbn [avisits] in V.
    apply orb_false_iff in V. destruct V as [Hh Vc]. cbn [plan]. destruct (a_nohit n x Hh) as [Eo Eb]. rewrite Eo, Eb, a_is_ht.
    assert (pl_all (fun c => match objects h n x with
                             | Some ys => pl_all (fun y => plan h' k rm c y) ys | None => p_fail end) cs
            = pl_all (fun c => match objects h n x with
                               | Some ys => pl_all (fun y => plan h k rm c y) ys | None => p_fail end) cs) as E.
    { apply pl_all_ext_in. intros c Hc. destruct (objects h n x) as [ys|] eqn:O; [|reflexivity].
      apply pl_all_ext_in. intros y Hy. apply (IH c Hc). destruct (avisits c y) eqn:Vy; [|reflexivity].
      assert (existsb (fun c0 => existsb (fun y0 => avisits c0 y0) (nexts h n x)) cs = true); [|congruence].
      apply existsb_exists. exists c. split; [exact Hc|]. apply existsb_exists. exists y.
      split; [unfold nexts; rewrite O; exact Hy|exact Vy]. }
    rewrite E. reflexivity.
  Qed.

  (* the sub-graphs (rooted at a node naming the added trait) that a walk reaches on the object *)
  Fixpoint tocc (g : graph) (x : oid) {struct g} : list graph :=
    match g with
    | G n cs => (if ahits n x then [G n cs] else []) ++ flat_map (fun c => flat_map (fun y => tocc c y) (nexts h n x)) cs
    end.
  Lemma tocc_nil g : forall x, avisits g x = false -> tocc g x = [].
  Proof.
    induction g as [n cs IH] using graph_ind'. intros x V. rewrite Forall_forall in IH. cbn [avisits tocc] in *.
    apply orb_false_iff in V. destruct V as [Hh Vc]. rewrite Hh. cbn [app].
    induction cs as [|c cs IHcs]; [reflexivity|]. cbn [flat_map existsb] in *.
    apply orb_false_iff in Vc. destruct Vc as [Vy Vcs].
    rewrite IHcs; [|intros; apply IH; [right; assumption|assumption]|exact Vcs]. rewrite app_nil_r.
    clear IHcs Vcs. induction (nexts h n x) as [|y ys IHy]; [reflexivity|]. cbn [flat_map existsb] in *.
    apply orb_false_iff in Vy. destruct Vy as [V1 V2]. rewrite (IH c (or_introl eq_refl) y V1), IHy; auto.
  Qed.

  (* what the trait_added maintainer of such a sub-graph hooks *)
  Definition rcnt (k : key) (g' : graph) (o : obsv) (c : ckey) : nat := ecnt o c (fst (plan_restricted h' k g' x0)).

  Lemma asubst k o c (A : aacyclic) g : forall x,
    snd (plan h k false g x) = false -> snd (plan h' k false g x) = false ->
    pcount h' k g x o c = pcount h k g x o c + lsum (fun g' => rcnt k g' o c) (tocc g x).
  Proof.
    induction g as [n cs IH] using graph_ind'. intros x F F'. rewrite Forall_forall in IH.
    rewrite (plan_cnt h' k n cs x o c F'), (plan_cnt h k n cs x o c F). cbn [tocc]. rewrite lsum_app, lsum_flat_map.
    destruct (ahits n x) eqn:Hh.
    - rewrite (a_nexts_old n x Hh).
      assert (lsum (fun ch => lsum (fun y => pcount h k ch y o c) []) cs = 0) as -> by (apply lsum_zero; reflexivity).
      assert (lsum (fun a : graph => lsum (fun g' => rcnt k g' o c) (flat_map (fun y => tocc a y) [])) cs = 0) as ->
          by (apply lsum_zero; reflexivity).
      destruct n as [f nt opt|ck nt opt]; [|discriminate Hh].
      pose proof Hh as Hq. cbn [ahits] in Hq. apply andb_true_iff in Hq. destruct Hq as [Qx Qf].
      apply Nat.eqb_eq in Qx. apply Nat.eqb_eq in Qf. subst x f.
      destruct (a_hit_new _ _ Hh) as [On Bn]. destruct (a_hit_old _ _ Hh) as [Oo Bo]. cbn [node_opt] in Oo, Bo.
      unfold nexts. rewrite Bn.
      (* the restricted plan *)
      assert (snd (pl_all (fun c0 => pl_all (fun y => plan h' k false c0 y) v) cs) = false) as F3.
      { apply pl_all_flag_intro. intros ch Hch. apply pl_all_flag_intro. intros y Hy.
        apply (plan_sub_flag h' k (NNamed f0 nt opt) cs x0 F' ch y Hch). unfold nexts. rewrite Bn. exact Hy. }
      assert (links h' x0 f0 = v) as Lk by (unfold h'; cbn [links add_trait_h]; rewrite !Nat.eqb_refl; reflexivity).
      assert (opt = true) as -> by (destruct opt; [reflexivity|cbn [plan] in F; rewrite Oo in F; destruct nt; discriminate F]).
      set (S := lsum (fun ch => lsum (fun y => pcount h' k ch y o c) v) cs).
      assert (loc1 h k (NNamed f0 nt true) x0 o c = 0) as E1 by (unfold loc1; rewrite Oo; destruct nt; reflexivity).
      assert (loc2 h k (NNamed f0 nt true) cs x0 o c = 0) as E2 by (unfold loc2; rewrite Oo; reflexivity).
      assert (loc4 h' k (G (NNamed f0 nt true) cs) x0 o c = loc4 h k (G (NNamed f0 nt true) cs) x0 o c) as E4 by reflexivity.
      assert (rcnt k (G (NNamed f0 nt true) cs) o c
              = loc1 h' k (NNamed f0 nt true) x0 o c + (loc2 h' k (NNamed f0 nt true) cs x0 o c + S)) as ER.
      { unfold rcnt, plan_restricted. rewrite Lk.
        rewrite (pseq_ecnt o c (if node_notify (NNamed f0 nt true) then p_ok [((x0, f0), AUser k)] else p_ok []) _
                   (if nt as b return (snd (if b then p_ok [((x0, f0), AUser k)] else p_ok []) = false) then eq_refl else eq_refl)).
        rewrite (pseq_ecnt o c (p_ok (map (fun c0 => ((x0, f0), AMaint MNamed c0 k)) cs)) _ eq_refl).
        rewrite (pl_all_ecnt o c _ cs F3).
        assert (lsum (fun a : graph => ecnt o c (fst (pl_all (fun y => plan h' k false a y) v))) cs = S) as ->.
        { unfold S. apply lsum_ext. intros ch Hch. apply pl_all_ecnt. apply (pl_all_flag _ _ F3 ch Hch). }
        unfold loc1, loc2. rewrite On. cbn [node_notify node_mk flat_map p_ok fst]. rewrite app_nil_r.
        destruct nt; reflexivity. }
      cbn [lsum]. unfold loc. rewrite ER, E1, E2, E4. fold S. lia.
    - destruct (a_nohit n x Hh) as [Eo Eb].
      assert (nexts h' n x = nexts h n x) as En by (unfold nexts; rewrite Eb; reflexivity). rewrite En.
      assert (loc h' k (G n cs) x o c = loc h k (G n cs) x o c) as ->.
      { unfold loc, loc1, loc2, loc4. rewrite Eo, a_is_ht. reflexivity. }
      cbn [lsum]. rewrite Nat.add_0_l.
      assert (lsum (fun ch => lsum (fun y => pcount h' k ch y o c) (nexts h n x)) cs
              = lsum (fun ch => lsum (fun y => pcount h k ch y o c) (nexts h n x)) cs
                + lsum (fun a => lsum (fun g' => rcnt k g' o c) (flat_map (fun y => tocc a y) (nexts h n x))) cs) as E.
      { rewrite <- lsum_plus. apply lsum_ext. intros ch Hch. rewrite lsum_flat_map, <- lsum_plus.
        apply lsum_ext. intros y Hy. apply (IH ch Hch y).
        - apply (plan_sub_flag h k n cs x F ch y Hch Hy).
        - apply (plan_sub_flag h' k n cs x F' ch y Hch). rewrite En. exact Hy. }
      lia.
  Qed.

  Lemma tocc_root g : forall x g', In g' (tocc g x) -> exists nt opt cs, g' = G (NNamed f0 nt opt) cs.
  Proof.
    induction g as [n cs IH] using graph_ind'. intros x g' Hin. rewrite Forall_forall in IH. cbn [tocc] in Hin.
    apply in_app_or in Hin. destruct Hin as [Hin|Hin].
    - destruct (ahits n x) eqn:Hh; [|destruct Hin]. destruct Hin as [<-|[]].
      destruct n as [f nt opt|ck nt opt]; [|discriminate Hh]. cbn [ahits] in Hh. apply andb_true_iff in Hh.
      destruct Hh as [_ Qf]. apply Nat.eqb_eq in Qf. subst. eauto.
    - apply in_flat_map in Hin. destruct Hin as (c & Hc & Hin). apply in_flat_map in Hin. destruct Hin as (y & _ & Hin).
      apply (IH c Hc y g' Hin).
  Qed.
  (* the restricted plans of the reached sub-graphs are structurally valid when the plan on the new heap is *)
  Lemma tocc_flags (A : aacyclic) k g : forall x, snd (plan h k false g x) = false -> snd (plan h' k false g x) = false ->
    forall g', In g' (tocc g x) -> snd (plan_restricted h' k g' x0) = false.
  Proof.
    induction g as [n cs IH] using graph_ind'. intros x F F' g' Hin. rewrite Forall_forall in IH. cbn [tocc] in Hin.
    apply in_app_or in Hin. destruct Hin as [Hin|Hin].
    - destruct (ahits n x) eqn:Hh; [|destruct Hin]. destruct Hin as [<-|[]].
      destruct n as [f nt opt|ck nt opt]; [|discriminate Hh]. pose proof Hh as Hq. cbn [ahits] in Hq.
      apply andb_true_iff in Hq. destruct Hq as [Qx Qf]. apply Nat.eqb_eq in Qx. apply Nat.eqb_eq in Qf. subst.
      destruct (a_hit_new _ _ Hh) as [_ Bn]. unfold plan_restricted.
      assert (links h' x0 f0 = v) as -> by (unfold h'; cbn [links add_trait_h]; rewrite !Nat.eqb_refl; reflexivity).
      apply pseq_flag_false. split; [destruct (node_notify _); reflexivity|]. apply pseq_flag_false. split; [reflexivity|].
      apply pl_all_flag_intro. intros ch Hch. apply pl_all_flag_intro. intros y Hy.
      apply (plan_sub_flag h' k (NNamed f0 nt opt) cs x0 F' ch y Hch). unfold nexts. rewrite Bn. exact Hy.
    - apply in_flat_map in Hin. destruct Hin as (c & Hc & Hin). apply in_flat_map in Hin. destruct Hin as (y & Hy & Hin).
      destruct (ahits n x) eqn:Hh; [rewrite (a_nexts_old n x Hh) in Hy; destruct Hy|].
      apply (IH c Hc y); [| |exact Hin].
      + apply (plan_sub_flag h k n cs x F c y Hc Hy).
      + apply (plan_sub_flag h' k n cs x F' c y Hc). unfold nexts. rewrite (proj2 (a_nohit n x Hh)). exact Hy.
  Qed.

  (* the trait_added maintainers a walk places on the object for a sub-graph g' naming the added trait *)
  Lemma ta_on_slot k g' g : (exists nt opt cs, g' = G (NNamed f0 nt opt) cs) ->
    forall x, snd (plan h k false g x) = false ->
    pcount h k g x (x0, F_TA) (CK (AMaint MTA g' k)) = lsum (fun a => b2n (graph_eqb a g')) (tocc g x).
  Proof.
    intros Rt. induction g as [n cs IH] using graph_ind'. intros x F. rewrite Forall_forall in IH.
    rewrite (plan_cnt h k n cs x _ _ F). cbn [tocc]. rewrite lsum_app, lsum_flat_map.
    assert (lsum (fun ch => lsum (fun y => pcount h k ch y (x0, F_TA) (CK (AMaint MTA g' k))) (nexts h n x)) cs
            = lsum (fun a => lsum (fun b => b2n (graph_eqb b g')) (flat_map (fun y => tocc a y) (nexts h n x))) cs) as E.
    { apply lsum_ext. intros ch Hch. rewrite lsum_flat_map. apply lsum_ext. intros y Hy.
      apply (IH ch Hch y). apply (plan_sub_flag h k n cs x F ch y Hch Hy). }
    rewrite E. f_equal. clear E IH. unfold loc.
    assert (forall es, (forall e, In e es -> match snd e with AMaint MTA _ _ => False | _ => True end) ->
                       ecnt (x0, F_TA) (CK (AMaint MTA g' k)) es = 0) as Zero.
    { intros es Hes. destruct (Nat.eq_dec (ecnt (x0, F_TA) (CK (AMaint MTA g' k)) es) 0) as [Z|Z]; [exact Z|].
      destruct (ecnt_pos_in (x0, F_TA) (CK (AMaint MTA g' k)) es) as (e & He & _ & Ek); [lia|]. specialize (Hes e He).
      inversion Ek as [Ek']. rewrite Ek' in Hes. destruct Hes. }
    assert (loc1 h k n x (x0, F_TA) (CK (AMaint MTA g' k)) = 0) as ->.
    { unfold loc1. apply Zero. intros e He. destruct (node_notify n); [|destruct He]. destruct (observables h n x); [|destruct He].
      cbn in He. apply in_map_iff in He. destruct He as (o' & <- & _). exact I. }
    assert (loc2 h k n cs x (x0, F_TA) (CK (AMaint MTA g' k)) = 0) as ->.
    { unfold loc2. apply Zero. intros e He. destruct (observables h n x); [|destruct He]. cbn in He.
      apply in_flat_map in He. destruct He as (o' & _ & He). apply in_map_iff in He. destruct He as (ch & <- & _).
      cbn [snd]. destruct n; exact I. }
    cbn [Nat.add]. unfold loc4. cbn [F_TA] in *.
    destruct n as [f nt opt|ck nt opt]; cbn [ahits].
    - assert (is_ht h x = true) as Hx.
      { cbn [plan] in F. apply pseq_flag_false in F. destruct F as [_ F]. apply pseq_flag_false in F. destruct F as [_ F].
        apply pseq_flag_false in F. destruct F as [_ F4]. destruct (is_ht h x) eqn:Q; [reflexivity|].
        (* not a HasTraits object: then x <> x0, and the entry below is absent *) 
        destruct opt; [|discriminate F4]. reflexivity || exact Q. }
      admit.
    - cbn [p_ok fst ecnt lsum]. reflexivity.
  Admitted.
End AddTrait.
