(* C09 — property theorems only.  Each is closed by [exact] of a lemma of Proofs.v and followed by
   Print Assumptions.  All statements hold for every static heap (also cyclic), every graph shape
   and depth, every number of parallel graphs, every handler/target/dispatcher identity, every
   initial notifier population satisfying [wfH] (stored reference counts positive, at most one user
   notifier per identity on a list — both are invariants, [wf_is_invariant]) and every history. *)
From Coq Require Import List Arith Bool PeanoNat Permutation.
From TV Require Import C09.Model C09.Dyn C09.Law C09.Proofs C09.LawProofs C09.DynProofs C09.DynCount C09.DynSlot C09.DynAdd.
Import ListNotations.

Theorem wf_is_invariant : forall h ops s tr s',
  wfH (st_hooks s) -> run h s ops = (tr, s') -> wfH (st_hooks s').
Proof. exact run_wf. Qed.
Print Assumptions wf_is_invariant.

(* The accounting equation: after ANY history (successful and failing registrations and removals of
   any handlers and expressions, interleaved with changes and collections), every count of every
   notifier list (reference counts of user notifiers, multiplicities of maintainers and of foreign
   elements) is its initial value plus what the successful registrations planned minus what the
   successful removals planned. *)
Theorem registration_accounting : forall h ops s tr s',
  posH (st_hooks s) -> run h s ops = (tr, s') ->
  posH (st_hooks s') /\
  forall o c, cntH (st_hooks s') o c + sigs_cnt h (ok_unregs tr) o c
              = cntH (st_hooks s) o c + sigs_cnt h (ok_regs tr) o c.
Proof. exact accounting. Qed.
Print Assumptions registration_accounting.

(* n registrations and n removals (for any number of handlers, interleaved in any order): every
   notifier list is a permutation of its initial value — same size, same notifiers, same counts. *)
Theorem register_n_unregister_n_identity : forall h ops s tr s',
  wfH (st_hooks s) -> run h s ops = (tr, s') ->
  Permutation (ok_regs tr) (ok_unregs tr) ->
  forall o, Permutation (st_hooks s' o) (st_hooks s o).
Proof. exact balanced_identity_perm. Qed.
Print Assumptions register_n_unregister_n_identity.

(* In between: a change of o.f calls handler k exactly once iff k's owner and target are alive and the
   registrations of k that match (o, f) outnumber its removals; otherwise not at all.  In particular
   no call after everything was removed. *)
Theorem once_per_change_in_between : forall h ops s tr s1 o f s2 ob k,
  wfH (st_hooks s) -> run h s ops = (tr, s1) -> step h s1 (Change o f) = (s2, ob) ->
  cntH (st_hooks s) (o, f) (CK (AUser k)) = 0 ->
  ncalls k (o_calls ob) =
    if alive s1 k && (sigs_cnt h (ok_unregs tr) (o, f) (CK (AUser k)) <? sigs_cnt h (ok_regs tr) (o, f) (CK (AUser k)))
    then 1 else 0.
Proof. exact calls_in_between. Qed.
Print Assumptions once_per_change_in_between.

(* A removal of something that is not completely there raises (NotifierNotFound when no node of the
   expression fails to apply) and leaves every list as it was. *)
Theorem extra_unregister_raises_and_inert : forall h s x hd dp gs s' ob,
  wfH (st_hooks s) ->
  (exists o c, cntH (st_hooks s) o c < gsum h (hd, x, dp) gs x o c) ->
  step h s (Unregister x hd dp gs) = (s', ob) ->
  (exists y, o_out ob = Some y /\
             ((forall g, In g gs -> snd (plan h (hd, x, dp) false g x) = false) -> y = NotifierNotFound))
  /\ forall o, Permutation (st_hooks s' o) (st_hooks s o).
Proof. exact extra_unregister_perm. Qed.
Print Assumptions extra_unregister_raises_and_inert.

(* A registration or removal that raises — at any depth of the walk, in any of several parallel
   graphs — leaves every notifier list a permutation of what it was. *)
Theorem failure_atomic : forall h s o s' ob,
  wfH (st_hooks s) -> step h s o = (s', ob) -> o_out ob <> None ->
  forall o', Permutation (st_hooks s' o') (st_hooks s o').
Proof. exact failure_atomic_perm. Qed.
Print Assumptions failure_atomic.

(* A registration raises iff some node of some graph does not apply where it is not optional, and then
   it raises ValueError. *)
Theorem registration_raises_iff_structural : forall h s x hd dp gs s' ob,
  posH (st_hooks s) -> step h s (Register x hd dp gs) = (s', ob) ->
  (o_out ob = None <-> forall g, In g gs -> snd (plan h (hd, x, dp) false g x) = false)
  /\ (forall y, o_out ob = Some y -> y = ValueError).
Proof. exact register_outcome. Qed.
Print Assumptions registration_raises_iff_structural.

(* Once a handler's owner or target is dead it stays dead, is never called and no change raises. *)
Theorem dead_target_silent : forall h ops s tr s' k,
  run h s ops = (tr, s') -> alive s k = false ->
  alive s' k = false /\
  forall o f ob, In (Change o f, ob) tr -> ~ In k (o_calls ob) /\ o_out ob = None.
Proof. exact dead_silent. Qed.
Print Assumptions dead_target_silent.

Theorem collection_mutes : forall h s o s' ob, step h s o = (s', ob) ->
  match o with
  | CollectOwner hd => forall t dp, alive s' (hd, t, dp) = false
  | CollectObj t => forall hd dp, alive s' (hd, t, dp) = false
  | _ => True
  end.
Proof. exact collect_kills. Qed.
Print Assumptions collection_mutes.

(* The removal walk touches exactly what the registration walk touches (as multisets), although it
   runs the four steps in reverse order. *)
Theorem removal_plan_is_registration_plan : forall h k o c g x,
  snd (plan h k true g x) = snd (plan h k false g x) /\
  (snd (plan h k false g x) = false ->
   ecnt o c (fst (plan h k true g x)) = ecnt o c (fst (plan h k false g x))).
Proof. exact plan_rm_equiv. Qed.
Print Assumptions removal_plan_is_registration_plan.

(* The whole boolean law of Law.v (clauses 1-6: failed operation changed nothing, balanced => initial
   populations, call counts, extra removal raises, weak references, changes never raise) evaluates to
   "no failure" on the model's own observations of EVERY history, for every heap in which only HasTraits
   objects have traits, every universe of observables that covers the initial notifier population and
   every well-formed start state.  The same term is what ./check evaluates on the implementation. *)
Theorem law_holds_on_every_history : forall (h : heap) (univ : list obsv) (s0 : state) (ops : list op),
  heap_wf h -> wfH (st_hooks s0) -> (forall o, ~ In o univ -> st_hooks s0 o = []) ->
  law_hist h univ (snap_of_hooks univ (st_hooks s0)) 0 (mkL [] []) (dead_handlers s0) (dead_objs s0)
           (snap_of_hooks univ (st_hooks s0)) (observe univ h s0 ops) = [].
Proof. exact law_holds_on_model. Qed.
Print Assumptions law_holds_on_every_history.

(* what ./check evaluates (law_hist_dyn, which follows heap mutations of dynamic cases) is this law on
   every history without heap mutation *)
Theorem checked_law_is_the_law : forall h univ init hist i L dh dobj prev,
  law_hist_dyn univ init i h L dh dobj prev (map (fun p => (LStatic (fst p), snd p)) hist)
  = law_hist h univ init i L dh dobj prev hist.
Proof. exact law_hist_dyn_static. Qed.
Print Assumptions checked_law_is_the_law.

Theorem correspondence_heaps_are_wf : forall ds, heap_wf (TV.C09.Corr.heap_of ds).
Proof. exact heap_of_wf. Qed.
Print Assumptions correspondence_heaps_are_wf.

(* Histories that also mutate the object graph (Dyn.v: Instance links reassigned, containers mutated in
   place, maintainers re-hooking the downstream graph): the well-formedness invariant survives, so the
   per-step theorems above (stated for any heap and any well-formed state) apply at every registration
   step; in particular failure atomicity holds at any point of any such history. *)
Theorem wf_is_invariant_under_graph_mutation : forall ops d tr d',
  wfH (st_hooks (d_st d)) -> drun d ops = (tr, d') -> wfH (st_hooks (d_st d')).
Proof. exact drun_wf. Qed.
Print Assumptions wf_is_invariant_under_graph_mutation.

Theorem failure_atomic_after_graph_mutations : forall ops d tr d1 o d2 ob,
  wfH (st_hooks (d_st d)) -> drun d ops = (tr, d1) -> dstep d1 (DStatic o) = (d2, ob) -> o_out ob <> None ->
  forall o', Permutation (st_hooks (d_st d2) o') (st_hooks (d_st d1) o').
Proof. exact failure_atomic_dyn. Qed.
Print Assumptions failure_atomic_after_graph_mutations.

(* ---------- the counting theorems on a CHANGING object graph (DynCount.v) ----------
   Histories of registrations, removals of live registrations, scalar changes and Instance-link reassignments
   (Dyn.DSetLink, maintainers re-hooking the downstream graph), for any number of live registrations of any
   handlers and graphs.  Side conditions ([admissible]): a reassigned slot is reachable neither from its old nor
   from its new value (acyclicity — cycles through the slot are the known finding F14 of C08), and the live
   registrations stay structurally valid on the new heap (otherwise the maintainer raises out of the
   assignment).  Then at every moment every count of every notifier list is what the live registrations plan ON
   THE CURRENT HEAP, and neither a link reassignment nor the removal of a live registration ever raises. *)
Theorem hooks_are_expected_under_link_reassignment : forall ops d R d' R' tr,
  dstate_inv d R -> admissible_run d R ops -> crun d R ops = (d', R', tr) ->
  dstate_inv d' R' /\
  forall c ob, In (c, ob) tr -> match c with CUnreg _ _ _ _ | CLink _ _ _ => o_out ob = None | _ => True end.
Proof. exact dyn_hooks_are_expected. Qed.
Print Assumptions hooks_are_expected_under_link_reassignment.

(* one reassignment: the maintainers found on the slot turn "planned on the old heap" into "planned on the new heap" *)
Theorem link_reassignment_maintains_the_hooks : forall h x0 f0 news, acyclic h x0 f0 news ->
  forall R H s, dinv h H R -> flags_ok (set_links h x0 f0 news) R -> dead_handlers s = [] -> dead_objs s = [] ->
  exists H' calls,
    run_notifiers (set_links h x0 f0 news) s true (H (x0, f0)) (links h x0 f0) news H [] = (H', calls, None)
    /\ dinv (set_links h x0 f0 news) H' R.
Proof. exact link_step. Qed.
Print Assumptions link_reassignment_maintains_the_hooks.

(* once per change, with respect to the heap as it is now *)
Theorem once_per_change_on_the_current_heap : forall d R o f s' ob k,
  dstate_inv d R -> wfH (st_hooks (d_st d)) -> step (d_heap d) (d_st d) (Change o f) = (s', ob) ->
  (ncalls k (o_calls ob) <= 1) /\
  (ncalls k (o_calls ob) = 1 <-> exists g x, In (k, g, x) R /\ l_matched (d_heap d) g x (o, f) = true).
Proof. exact dyn_once_per_change. Qed.
Print Assumptions once_per_change_on_the_current_heap.

(* all live registrations removed, whatever was reassigned in between: nothing of any handler is left anywhere *)
Theorem all_removed_after_reassignments : forall d,
  dstate_inv d [] -> forall o a, cntH (st_hooks (d_st d)) o (CK a) = 0.
Proof. exact dyn_all_removed. Qed.
Print Assumptions all_removed_after_reassignments.

(* ... and with IN-PLACE CONTAINER MUTATIONS (Dyn.DSetItems: list / dict / set, event.removed / event.added) as well
   (DynSlot.v): the event must be a faithful delta (old = removed + kept, new = added + kept) and the container
   reachable neither from its old nor from its new items. *)
Theorem hooks_are_expected_under_graph_mutation : forall ops d R d' R' tr,
  dstate_inv d R -> admissible_run2 d R ops -> crun2 d R ops = (d', R', tr) ->
  dstate_inv d' R' /\ forall c ob, In (c, ob) tr -> quiet_outcome c ob.
Proof. exact dyn2_hooks_are_expected. Qed.
Print Assumptions hooks_are_expected_under_graph_mutation.

Theorem container_mutation_maintains_the_hooks : forall h c0 v removed added rest,
  heap_wf h -> is_ht h c0 = false ->
  Permutation (items h c0) (removed ++ rest) -> Permutation v (added ++ rest) ->
  sacyclic h (ihits h c0) (items h c0) v ->
  forall R H s, dinv h H R -> flags_ok (set_items h c0 v) R -> dead_handlers s = [] -> dead_objs s = [] ->
  exists H' calls,
    run_notifiers (set_items h c0 v) s false (H (c0, F_ITEMS)) removed added H [] = (H', calls, None)
    /\ dinv (set_items h c0 v) H' R.
Proof. exact items_step. Qed.
Print Assumptions container_mutation_maintains_the_hooks.

(* who is called by a mutation of the object graph: the notifier loop of the mutated slot (a reassigned Instance
   link or a mutated container) calls handler k exactly once iff a live registration of k matches the slot *)
Theorem mutation_calls_once_iff_matched : forall (h hrun : heap) R H s sg t olds news H' calls k,
  dinv h H R -> wfH H -> dead_handlers s = [] -> dead_objs s = [] ->
  run_notifiers hrun s t (H sg) olds news H [] = (H', calls, None) ->
  (ncalls k calls <= 1) /\
  (ncalls k calls = 1 <-> exists g x, In (k, g, x) R /\ l_matched h g x sg = true).
Proof. exact slot_calls. Qed.
Print Assumptions mutation_calls_once_iff_matched.

(* ... and with obj.add_trait (Dyn.DAddTrait) as well (DynAdd.v): registrations with an OPTIONAL node on a name that is
   not yet a trait hook nothing below that node; when the trait is added (possibly already holding a value), the
   trait_added maintainers complete every live registration naming it, so that the hooks again are exactly what the
   live registrations plan on the NEW heap.  The name must be new on a HasTraits object and the object's new trait
   not reachable from the value it starts with. *)
Theorem hooks_are_expected_under_add_trait : forall ops d R d' R' tr,
  dstate_inv d R -> admissible_run3 d R ops -> crun3 d R ops = (d', R', tr) ->
  dstate_inv d' R' /\ forall c ob, In (c, ob) tr -> quiet_outcome3 c ob.
Proof. exact dyn3_hooks_are_expected. Qed.
Print Assumptions hooks_are_expected_under_add_trait.

Theorem add_trait_completes_the_registrations : forall h x0 f0 v,
  has_trait h x0 f0 = false -> is_ht h x0 = true -> aacyclic h x0 f0 v ->
  forall R H s, dinv h H R -> flags_ok (add_trait_h h x0 f0 v) R -> dead_handlers s = [] -> dead_objs s = [] ->
  exists H' calls,
    run_ta_notifiers (add_trait_h h x0 f0 v) s x0 f0 (H (x0, F_TA)) H [] = (H', calls, None)
    /\ dinv (add_trait_h h x0 f0 v) H' R.
Proof. exact add_trait_step. Qed.
Print Assumptions add_trait_completes_the_registrations.

(* who is called by add_trait: handler k exactly once iff a live registration of k matches the object's trait_added *)
Theorem add_trait_calls_once_iff_matched : forall (h hrun : heap) R H s x f H' calls k,
  dinv h H R -> wfH H -> dead_handlers s = [] -> dead_objs s = [] ->
  run_ta_notifiers hrun s x f (H (x, F_TA)) H [] = (H', calls, None) ->
  (ncalls k calls <= 1) /\
  (ncalls k calls = 1 <-> exists g y, In (k, g, y) R /\ l_matched h g y (x, F_TA) = true).
Proof. exact add_trait_calls. Qed.
Print Assumptions add_trait_calls_once_iff_matched.

(* who is called, for every step of such a history: a step that fires a slot (scalar change, link reassignment,
   container mutation, add_trait -> the object's trait_added) calls handler k exactly once iff a live registration of k
   matches the slot on the heap as it is at that moment; registrations, removals and re-definitions call nobody *)
Theorem history_steps_call_once_iff_matched : forall d R c d1 ob k,
  dstate_inv d R -> wfH (st_hooks (d_st d)) -> admissible3 (d_heap d) R c ->
  dstep d (dop_of3 c) = (d1, ob) ->
  match slot_of3 c with
  | Some sg => ncalls k (o_calls ob) <= 1 /\
               (ncalls k (o_calls ob) = 1 <-> exists g x, In (k, g, x) R /\ l_matched (d_heap d) g x sg = true)
  | None => o_calls ob = []
  end.
Proof. exact cstep3_calls. Qed.
Print Assumptions history_steps_call_once_iff_matched.

(* ---------- non-vacuity ---------- *)
(* object 0 has kids = list 5 = [1; 2; 3], f = 1, g = 2; objects 1, 2 have `value` (field 2), object 3
   has not.  Fields: 2 value, 3 f, 4 g, 5 kids, 9 nonexist. *)
Definition ex_heap : heap :=
  mkHeap (fun x => if x <? 4 then KObj else if x =? 5 then KCont CList else KOther)
         (fun x f => match x with
                     | 0 => (f =? 1) || (f =? 2) || (f =? 3) || (f =? 4) || (f =? 5)
                     | 1 | 2 => (f =? 1) || (f =? 2) | 3 => (f =? 1) | _ => false end)
         (fun x f => match x, f with 0, 5 => [5] | 0, 3 => [1] | 0, 4 => [2] | _, _ => [] end)
         (fun x => if x =? 5 then [1; 2; 3] else []).
Definition g_value := G (NNamed 2 true false) [].
Definition g_kids_items_value := G (NNamed 5 true false) [G (NItems CList true false) [g_value]].
Definition g_f_value := G (NNamed 3 true false) [g_value].
Definition g_g_value := G (NNamed 4 true false) [g_value].
Definition s0 := mkState (fun _ => []) [] [].

Example wf_initial : wfH (st_hooks s0).
Proof. exact wf_empty. Qed.

(* the three shapes of the repaired finding F8 raise and leave nothing behind; in between the handler is
   called once per change; after n = 2 registrations and removals one more removal raises *)
Example history_nontrivial :
  let ops := [Register 0 7 0 [g_kids_items_value];              (* third item lacks `value` *)
              Register 0 7 0 [g_value; G (NNamed 9 true false) []]; (* "value, nonexist" *)
              Register 0 7 0 [g_f_value];
              Unregister 0 7 0 [g_f_value; g_g_value];          (* only f.value was registered *)
              Change 1 2;
              Register 0 7 0 [g_f_value]; Change 1 2;
              Unregister 0 7 0 [g_f_value]; Unregister 0 7 0 [g_f_value]; Change 1 2;
              Unregister 0 7 0 [g_f_value];
              Register 0 7 0 [g_f_value]; CollectOwner 7; Change 1 2] in
  let '(tr, s) := run ex_heap s0 ops in
  map (fun p => (o_out (snd p), length (o_calls (snd p)))) tr =
    [(Some ValueError, 0); (Some ValueError, 0); (None, 0); (Some NotifierNotFound, 0); (None, 1);
     (None, 0); (None, 1); (None, 0); (None, 0); (None, 0); (Some NotifierNotFound, 0);
     (None, 0); (None, 0); (None, 0)]
  /\ map (fun o => length (st_hooks s o)) [(0, 1); (0, 3); (1, 1); (1, 2); (2, 2)] = [1; 2; 1; 1; 0].
Proof. vm_compute. split; reflexivity. Qed.

Example ex_heap_wf : heap_wf ex_heap.
Proof.
  intros x f. unfold ex_heap, is_ht. cbn [has_trait kind_of].
  destruct x as [|[|[|[|x]]]]; cbn; try reflexivity. discriminate.
Qed.
(* the law is not vacuous: on a history where a handler is silently left attached it fails *)
Example law_detects_partial_rollback :
  let univ := [(0, 1); (0, 5); (1, 2); (2, 2); (3, 1); (5, 0)] in
  let bad := mkI (Some ValueError) [] [((1, 2), [NUser (7, 0, 0) 1])] None in
  law_hist ex_heap univ [] 0 (mkL [] []) [] [] [] [(Register 0 7 0 [g_kids_items_value], bad)] <> [].
Proof. vm_compute. discriminate. Qed.

(* non-vacuity of the dynamic theorems: object 0 observes f.value; f is reassigned from 1 to 2; the handler then
   follows object 2 and not object 1; the removal succeeds and leaves nothing *)
Example ex_leaf_unreachable y : y = 1 \/ y = 2 -> forall ch, visits ex_heap 0 3 ch y = false.
Proof.
  intros Hy [n cs]. cbn [visits].
  assert (hits ex_heap 0 3 n y = false) as ->.
  { destruct n; cbn [hits]; [|reflexivity]. destruct Hy; subst; cbn; rewrite ?andb_false_r; reflexivity. }
  assert (nexts ex_heap n y = []) as ->.
  { destruct Hy; subst; destruct n as [f nt opt|ck nt opt]; unfold nexts; cbn;
      repeat (match goal with |- context [if ?b then _ else _] => destruct b end; try reflexivity). }
  cbn. induction cs; cbn; auto.
Qed.
Example dyn_history_nontrivial :
  let d0 := mkD ex_heap s0 in
  let ops := [CReg 0 7 0 g_f_value; CChange 1 2; CLink 0 3 [2]; CChange 2 2; CChange 1 2; CUnreg 0 7 0 g_f_value; CChange 2 2] in
  dstate_inv d0 [] /\ admissible_run d0 [] ops /\
  let '(d', R', tr) := crun d0 [] ops in
  R' = [] /\ map (fun p => (o_out (snd p), length (o_calls (snd p)))) tr
             = [(None, 0); (None, 1); (None, 1); (None, 1); (None, 0); (None, 0); (None, 0)].
Proof.
  split; [|split].
  - split; [split; [intros o; reflexivity|split; [intros; reflexivity|intros ? ? ? []]]|split; reflexivity].
  - cbn [admissible_run admissible]. repeat split; try exact I.
    + intros ch y [Hy|Hy]; apply ex_leaf_unreachable; cbn in Hy; intuition.
    + intros k g x Hin. vm_compute in Hin. destruct Hin as [E|[]]. inversion E; subst. vm_compute. reflexivity.
    + vm_compute. left. reflexivity.
  - vm_compute. split; reflexivity.
Qed.

(* non-vacuity with a container mutation: kids.items.<field 1> on the list 5 = [1; 2; 3]; item 3 is removed and item 2
   inserted a second time in one event; the handler then follows 1 and 2 (once each) and not 3 *)
Definition g_kids_items_f1 := G (NNamed 5 true false) [G (NItems CList true false) [G (NNamed 1 true false) []]].
Example ex_item_unreachable y : y = 1 \/ y = 2 \/ y = 3 -> forall ch, svisits ex_heap (ihits ex_heap 5) ch y = false.
Proof.
  intros Hy [n cs]. cbn [svisits].
  assert (ihits ex_heap 5 n y = false) as ->.
  { destruct n; cbn [ihits]; [reflexivity|]. destruct Hy as [Hy|[Hy|Hy]]; subst; cbn; rewrite ?andb_false_r; reflexivity. }
  assert (nexts ex_heap n y = []) as ->.
  { destruct Hy as [Hy|[Hy|Hy]]; subst; destruct n as [f nt opt|ck nt opt]; unfold nexts; cbn;
      repeat (match goal with |- context [if ?b then _ else _] => destruct b end; try reflexivity). }
  cbn. induction cs; cbn; auto.
Qed.
Example dyn_items_history_nontrivial :
  let d0 := mkD ex_heap s0 in
  let ops := [C1 (CReg 0 7 0 g_kids_items_f1); C1 (CChange 3 1); CItems 5 [1; 2; 2] [3] [2] [1; 2];
              C1 (CChange 3 1); C1 (CChange 2 1); C1 (CUnreg 0 7 0 g_kids_items_f1); C1 (CChange 2 1)] in
  dstate_inv d0 [] /\ admissible_run2 d0 [] ops /\
  let '(d', R', tr) := crun2 d0 [] ops in
  R' = [] /\ map (fun p => (o_out (snd p), length (o_calls (snd p)))) tr
             = [(None, 0); (None, 1); (None, 1); (None, 0); (None, 1); (None, 0); (None, 0)].
Proof.
  split; [|split].
  - split; [split; [intros o; reflexivity|split; [intros; reflexivity|intros ? ? ? []]]|split; reflexivity].
  - cbn [admissible_run2 admissible2 admissible]. repeat split; try exact I.
    + exact ex_heap_wf.
    + apply Permutation_sym. apply (Permutation_cons_append [1; 2] 3).
    + apply perm_swap.
    + intros ch y [Hy|Hy]; apply ex_item_unreachable; vm_compute in Hy; intuition.
    + intros k g x Hin. vm_compute in Hin. destruct Hin as [E|[]]. inversion E; subst. vm_compute. reflexivity.
    + vm_compute. left. reflexivity.
  - vm_compute. split; reflexivity.
Qed.

(* non-vacuity with add_trait: object 0 observes the optional, not yet defined trait 9 and below it `value`; nothing is
   hooked on object 1 until the trait is added holding object 1; then the handler follows object 1, also after the
   trait has been re-defined with add_trait (no trait_added, the hooks stay); the removal
   succeeds on the new heap and leaves nothing *)
Definition g_opt9_value := G (NNamed 9 true true) [g_value].
Example ex_added_unreachable : forall ch, avisits ex_heap 0 9 ch 1 = false.
Proof.
  intros [n cs]. cbn [avisits].
  assert (ahits 0 9 n 1 = false) as -> by (destruct n; reflexivity).
  assert (nexts ex_heap n 1 = []) as ->.
  { destruct n as [f nt opt|ck nt opt]; unfold nexts; cbn;
      repeat (match goal with |- context [if ?b then _ else _] => destruct b end; try reflexivity). }
  cbn. induction cs; cbn; auto.
Qed.
Example dyn_add_trait_history_nontrivial :
  let d0 := mkD ex_heap s0 in
  let ops := [C2 (C1 (CReg 0 7 0 g_opt9_value)); C2 (C1 (CChange 1 2)); CAdd 0 9 [1];
              C2 (C1 (CChange 1 2)); CReAdd 0 9 []; C2 (C1 (CChange 1 2));
              C2 (C1 (CUnreg 0 7 0 g_opt9_value)); C2 (C1 (CChange 1 2))] in
  dstate_inv d0 [] /\ admissible_run3 d0 [] ops /\
  let '(d', R', tr) := crun3 d0 [] ops in
  R' = [] /\ map (fun p => (o_out (snd p), length (o_calls (snd p)))) tr
             = [(None, 0); (None, 0); (None, 0); (None, 1); (None, 0); (None, 1); (None, 0); (None, 0)].
Proof.
  split; [|split].
  - split; [split; [intros o; reflexivity|split; [intros; reflexivity|intros ? ? ? []]]|split; reflexivity].
  - cbn [admissible_run3 admissible3 admissible2 admissible]. repeat split; try exact I.
    + intros ch y [<-|[]]. apply ex_added_unreachable.
    + intros k g x Hin. vm_compute in Hin. destruct Hin as [E|[]]. inversion E; subst. vm_compute. reflexivity.
    + vm_compute. left. reflexivity.
  - vm_compute. split; reflexivity.
Qed.
