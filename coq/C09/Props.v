From Coq Require Import List Arith Bool PeanoNat.
From TV Require Import C09.Model C09.Proofs.
Import ListNotations.
Theorem placeholder_exec_nil : forall rm H L, exec rm [] H L = (H, L, None).
Proof. exact exec_nil. Qed.
Print Assumptions placeholder_exec_nil.
