(* C09 — observer registration: executable model (definitions only).

   Modelled code (enthought/traits, current tree):
     traits/observation/_observe.py           add_or_remove_notifiers, _AddOrRemoveNotifier
                                              (four steps :84-89, reversed on removal :93-94,
                                               shared undo log `_processed` :78-79, undone by the
                                               outermost call only :99-107)
     traits/observation/observe.py            apply_observers (:108-133: graphs already applied are
                                              re-applied with `not remove` when a later graph raises)
     traits/observation/_trait_event_notifier.py     add_to :129-158, remove_from :160-190,
                                              equals :192-211, __call__ :106-127 (weak target/handler)
     traits/observation/_observer_change_notifier.py add_to :98-107, remove_from :109-127, equals
     traits/observation/_named_trait_observer.py     iter_observables / iter_objects / iter_extra_graphs
     traits/observation/_{list,dict,set}_item_observer.py  iter_observables / iter_objects
     traits/observation/_trait_added_observer.py     iter_observables (the extra graph of a named node)

   The heap is static during a registration walk (the walk never mutates it), so the walk is
   factored exactly as the code executes it: [plan] is the iteration structure of the four steps
   (which observable receives which notifier, in which order, and where iter_observables /
   iter_objects raise ValueError), [exec] performs add_to / remove_from on the planned entries in
   that order, appending to the undo log, and stops at the first exception. *)
From Coq Require Import List Arith Bool PeanoNat.
Import ListNotations.

Definition oid := nat.
Definition fname := nat.
Definition F_ITEMS : fname := 0.   (* the `notifiers` list of a TraitList / TraitDict / TraitSet *)
Definition F_TA : fname := 1.      (* the `trait_added` event trait of a HasTraits object *)

Inductive ckind := CList | CDict | CSet.
Inductive okind := KObj | KCont (c : ckind) | KOther.

(* NamedTraitObserver(name, notify, optional); {List,Dict,Set}ItemObserver(notify, optional) *)
Inductive node :=
| NNamed (f : fname) (notify optional : bool)
| NItems (c : ckind) (notify optional : bool).
Inductive graph := G (n : node) (children : list graph).

(* The static heap.  [has_trait x f]: x is a HasTraits instance with a trait named f
   (_has_traits_helpers.object_has_named_trait); [links x f]: the value found in x.__dict__
   unless None/Undefined/Uninitialized (iter_objects :52-55): 0 or 1 object;
   [items x]: the members (list items / dict values / set members) in iteration order. *)
Record heap := mkHeap {
  kind_of : oid -> okind;
  has_trait : oid -> fname -> bool;
  links : oid -> fname -> list oid;
  items : oid -> list oid }.

(* handler identity as compared by `equals`: (handler ==, target is, dispatcher ==) *)
Definition key := (nat * oid * nat)%type.
Definition k_handler (k : key) : nat := fst (fst k).
Definition k_target (k : key) : oid := snd (fst k).

(* observer_handler identity of a maintainer (compared with `is`) *)
Inductive mkind := MNamed | MItems (c : ckind) | MTA.

(* a notifier as the walk creates it (fresh, before add_to / remove_from) *)
Inductive akey :=
| AUser (k : key)
| AMaint (m : mkind) (g : graph) (k : key).

(* an element of a `_notifiers(True)` / `notifiers` list *)
Inductive notifier :=
| NUser (k : key) (rc : nat)              (* TraitEventNotifier with _ref_count *)
| NMaint (m : mkind) (g : graph) (k : key) (* ObserverChangeNotifier *)
| NForeign (id : nat).                    (* anything else living in the list (static wrappers ...) *)

Inductive exn := ValueError | NotifierNotFound | RuntimeError | OtherError.

(* ---------- decidable equalities ---------- *)
Definition ckind_eqb (a b : ckind) : bool :=
  match a, b with CList, CList | CDict, CDict | CSet, CSet => true | _, _ => false end.
Definition node_eqb (a b : node) : bool :=
  match a, b with
  | NNamed f n o, NNamed f' n' o' => Nat.eqb f f' && Bool.eqb n n' && Bool.eqb o o'
  | NItems c n o, NItems c' n' o' => ckind_eqb c c' && Bool.eqb n n' && Bool.eqb o o'
  | _, _ => false
  end.
Fixpoint graph_eqb (g1 g2 : graph) {struct g1} : bool :=
  match g1, g2 with
  | G n1 cs1, G n2 cs2 =>
      node_eqb n1 n2 &&
      (fix go (l1 l2 : list graph) : bool :=
         match l1, l2 with
         | [], [] => true
         | a :: l1', b :: l2' => graph_eqb a b && go l1' l2'
         | _, _ => false
         end) cs1 cs2
  end.
Definition key_eqb (a b : key) : bool :=
  let '(h, t, d) := a in let '(h', t', d') := b in Nat.eqb h h' && Nat.eqb t t' && Nat.eqb d d'.
Definition mkind_eqb (a b : mkind) : bool :=
  match a, b with
  | MNamed, MNamed | MTA, MTA => true
  | MItems c, MItems c' => ckind_eqb c c'
  | _, _ => false
  end.
Definition akey_eqb (a b : akey) : bool :=
  match a, b with
  | AUser k, AUser k' => key_eqb k k'
  | AMaint m g k, AMaint m' g' k' => mkind_eqb m m' && graph_eqb g g' && key_eqb k k'
  | _, _ => false
  end.
Definition exn_eqb (a b : exn) : bool :=
  match a, b with
  | ValueError, ValueError | NotifierNotFound, NotifierNotFound
  | RuntimeError, RuntimeError | OtherError, OtherError => true
  | _, _ => false
  end.

(* `self.equals(other)` for a fresh notifier [a] against a list element [n]
   (TraitEventNotifier.equals :204-211: same type, handler ==, target is, dispatcher ==;
    ObserverChangeNotifier.equals: additionally observer_handler is, graph ==). *)
Definition matches (a : akey) (n : notifier) : bool :=
  match a, n with
  | AUser k, NUser k' _ => key_eqb k k'
  | AMaint m g k, NMaint m' g' k' => mkind_eqb m m' && graph_eqb g g' && key_eqb k k'
  | _, _ => false
  end.

(* ---------- add_to / remove_from on one notifier list ---------- *)
Fixpoint bump_first (a : akey) (l : list notifier) : option (list notifier) :=
  match l with
  | [] => None
  | n :: l' =>
      if matches a n then
        match n with NUser k rc => Some (NUser k (S rc) :: l') | _ => Some (n :: l') end
      else option_map (cons n) (bump_first a l')
  end.

(* TraitEventNotifier.add_to :146-158 — an equal notifier gets its count bumped, else append
   with count 1;  ObserverChangeNotifier.add_to :106-107 — always append. *)
Definition l_add (a : akey) (l : list notifier) : list notifier :=
  match a with
  | AUser k => match bump_first a l with Some l' => l' | None => l ++ [NUser k 1] end
  | AMaint m g k => l ++ [NMaint m g k]
  end.

(* remove_from: first equal element; a user notifier is removed when its count is 1, else
   decremented (:176-187); a maintainer is removed (:121-125); none equal -> NotifierNotFound.
   A stored count of 0 cannot occur (invariant [pos], Proofs.v); the code would raise
   RuntimeError there (:183-187). *)
Fixpoint l_rem (a : akey) (l : list notifier) : list notifier + exn :=
  match l with
  | [] => inr NotifierNotFound
  | n :: l' =>
      if matches a n then
        match n with
        | NUser k 0 => inr RuntimeError
        | NUser k 1 => inl l'
        | NUser k (S rc) => inl (NUser k rc :: l')
        | _ => inl l'
        end
      else match l_rem a l' with inl r => inl (n :: r) | inr e => inr e end
  end.

(* ---------- hook state ---------- *)
Definition obsv := (oid * fname)%type.
Definition obsv_eqb (a b : obsv) : bool := Nat.eqb (fst a) (fst b) && Nat.eqb (snd a) (snd b).
Definition hooks := obsv -> list notifier.
Definition upd (H : hooks) (o : obsv) (l : list notifier) : hooks :=
  fun o' => if obsv_eqb o' o then l else H o'.

Definition entry := (obsv * akey)%type.

(* ---------- the plan of one add_or_remove_notifiers call ---------- *)
Definition pl := (list entry * bool)%type.     (* entries in execution order; true = then ValueError *)
Definition p_ok (l : list entry) : pl := (l, false).
Definition p_fail : pl := ([], true).
Definition pseq (p q : pl) : pl := if snd p then p else (fst p ++ fst q, snd q).

(* `for a in l: <f a>` where each body may raise *)
Definition pl_all {A} (f : A -> pl) : list A -> pl :=
  fix go (l : list A) : pl :=
    match l with
    | [] => p_ok []
    | a :: r => pseq (f a) (go r)
    end.

Definition node_notify (n : node) : bool :=
  match n with NNamed _ b _ | NItems _ b _ => b end.
Definition node_mk (n : node) : mkind :=
  match n with NNamed _ _ _ => MNamed | NItems c _ _ => MItems c end.
Definition is_ht (h : heap) (x : oid) : bool :=
  match kind_of h x with KObj => true | _ => false end.
Definition is_cont (h : heap) (x : oid) (c : ckind) : bool :=
  match kind_of h x with KCont c' => ckind_eqb c c' | _ => false end.

(* iter_observables: None = raises ValueError *)
Definition observables (h : heap) (n : node) (x : oid) : option (list obsv) :=
  match n with
  | NNamed f _ opt => if has_trait h x f then Some [(x, f)] else if opt then Some [] else None
  | NItems c _ opt => if is_cont h x c then Some [(x, F_ITEMS)] else if opt then Some [] else None
  end.
(* iter_objects *)
Definition objects (h : heap) (n : node) (x : oid) : option (list oid) :=
  match n with
  | NNamed f _ opt => if has_trait h x f then Some (links h x f) else if opt then Some [] else None
  | NItems c _ opt => if is_cont h x c then Some (items h x) else if opt then Some [] else None
  end.

Section Plan.
  Variable h : heap.
  Variable k : key.
  Variable rm : bool.

  Fixpoint plan (g : graph) (x : oid) {struct g} : pl :=
    match g with
    | G n cs =>
        (* _add_or_remove_notifiers :175-194 *)
        let s1 := if node_notify n then
                    match observables h n x with
                    | None => p_fail
                    | Some os => p_ok (map (fun o => (o, AUser k)) os)
                    end
                  else p_ok [] in
        (* _add_or_remove_maintainers :153-173 *)
        let s2 := match observables h n x with
                  | None => p_fail
                  | Some os => p_ok (flat_map (fun o => map (fun c => (o, AMaint (node_mk n) c k)) cs) os)
                  end in
        (* _add_or_remove_children_notifiers :137-151 *)
        let s3 := pl_all (fun c => match objects h n x with
                                   | None => p_fail
                                   | Some ys => pl_all (fun y => plan c y) ys
                                   end) cs in
        (* _add_or_remove_extra_graphs :123-135: NamedTraitObserver.iter_extra_graphs yields
           G(TraitAddedObserver(optional), [g]); walking it touches only x.trait_added with one
           maintainer whose graph is g itself; the item observers yield nothing *)
        let s4 := match n with
                  | NNamed _ _ opt =>
                      if is_ht h x then p_ok [((x, F_TA), AMaint MTA g k)]
                      else if opt then p_ok [] else p_fail
                  | NItems _ _ _ => p_ok []
                  end in
        if rm then pseq s4 (pseq s3 (pseq s2 s1)) else pseq s1 (pseq s2 (pseq s3 s4))
    end.
End Plan.

(* ---------- executing a plan: add_to / remove_from + the undo log ---------- *)
Definition do_entry (rm : bool) (e : entry) (H : hooks) : hooks + exn :=
  let '(o, a) := e in
  if rm then match l_rem a (H o) with inl l => inl (upd H o l) | inr x => inr x end
  else inl (upd H o (l_add a (H o))).

(* returns the hooks, the log (processed entries, oldest first) and the exception if any *)
Fixpoint exec (rm : bool) (es : list entry) (H : hooks) (L : list entry) : hooks * list entry * option exn :=
  match es with
  | [] => (H, L, None)
  | e :: es' =>
      match do_entry rm e H with
      | inr x => (H, L, Some x)
      | inl H' => exec rm es' H' (L ++ [e])
      end
  end.

(* _observe.py:99-107: pop the log, undoing each entry; an exception inside the undo replaces
   the original one *)
Fixpoint undo (rm : bool) (Lrev : list entry) (H : hooks) : hooks * option exn :=
  match Lrev with
  | [] => (H, None)
  | e :: r =>
      match do_entry (negb rm) e H with
      | inr x => (H, Some x)
      | inl H' => undo rm r H'
      end
  end.

(* one outermost add_or_remove_notifiers call *)
Definition walk_outer (h : heap) (k : key) (rm : bool) (g : graph) (x : oid) (H : hooks)
  : hooks * option exn :=
  let '(es, sf) := plan h k rm g x in
  let '(H1, L, e) := exec rm es H [] in
  let e' := match e with Some x => Some x | None => if sf then Some ValueError else None end in
  match e' with
  | None => (H1, None)
  | Some x => match undo rm (rev L) H1 with
              | (H2, None) => (H2, Some x)
              | (H2, Some x2) => (H2, Some x2)
              end
  end.

(* observe.py apply_observers: the `except` branch *)
Fixpoint reapply (h : heap) (k : key) (rm : bool) (applied : list graph) (x : oid) (H : hooks)
  : hooks * option exn :=
  match applied with
  | [] => (H, None)
  | g :: r => match walk_outer h k rm g x H with
              | (H1, None) => reapply h k rm r x H1
              | (H1, Some e) => (H1, Some e)
              end
  end.

Fixpoint apply_loop (h : heap) (k : key) (rm : bool) (gs : list graph) (x : oid) (H : hooks)
         (applied : list graph) : hooks * option exn :=
  match gs with
  | [] => (H, None)
  | g :: gs' =>
      match walk_outer h k rm g x H with
      | (H1, None) => apply_loop h k rm gs' x H1 (g :: applied)
      | (H1, Some e) =>
          match reapply h k (negb rm) applied x H1 with
          | (H2, None) => (H2, Some e)
          | (H2, Some e2) => (H2, Some e2)
          end
      end
  end.

Definition apply_observers (h : heap) (k : key) (rm : bool) (gs : list graph) (x : oid) (H : hooks) :=
  apply_loop h k rm gs x H [].

(* ---------- operations of a history ---------- *)
Inductive op :=
| Register (x : oid) (hd dp : nat) (gs : list graph)   (* x.observe(handler, expr, dispatch): target = x *)
| Unregister (x : oid) (hd dp : nat) (gs : list graph) (* ..., remove=True *)
| Change (o : oid) (f : fname)                        (* a real change of the scalar trait o.f *)
| CollectOwner (hd : nat)                             (* the owner of bound-method handler hd dies *)
| CollectObj (o : oid).                               (* the observing object (target) o dies *)

Record state := mkState { st_hooks : hooks; dead_handlers : list nat; dead_objs : list oid }.

Record obs := mkObs { o_out : option exn; o_calls : list key }.

Definition memb (x : nat) (l : list nat) : bool := existsb (Nat.eqb x) l.
(* TraitEventNotifier.__call__ :110-117: a dead target or a dead handler owner mutes the notifier *)
Definition alive (s : state) (k : key) : bool :=
  negb (memb (k_handler k) (dead_handlers s)) && negb (memb (k_target k) (dead_objs s)).

(* the notifiers of o.f are called on a copy of the list, in order; each user notifier calls its
   handler once whatever its reference count *)
Definition calls_of (s : state) (l : list notifier) : list key :=
  flat_map (fun n => match n with NUser k _ => if alive s k then [k] else [] | _ => [] end) l.

Definition step (h : heap) (s : state) (o : op) : state * obs :=
  match o with
  | Register x hd dp gs =>
      let '(H, e) := apply_observers h (hd, x, dp) false gs x (st_hooks s) in
      (mkState H (dead_handlers s) (dead_objs s), mkObs e [])
  | Unregister x hd dp gs =>
      let '(H, e) := apply_observers h (hd, x, dp) true gs x (st_hooks s) in
      (mkState H (dead_handlers s) (dead_objs s), mkObs e [])
  | Change o f => (s, mkObs None (calls_of s (st_hooks s (o, f))))
  | CollectOwner hd => (mkState (st_hooks s) (hd :: dead_handlers s) (dead_objs s), mkObs None [])
  | CollectObj o => (mkState (st_hooks s) (dead_handlers s) (o :: dead_objs s), mkObs None [])
  end.

Fixpoint run (h : heap) (s : state) (ops : list op) : list (op * obs) * state :=
  match ops with
  | [] => ([], s)
  | o :: r => let '(s1, ob) := step h s o in
              let '(tr, s2) := run h s1 r in ((o, ob) :: tr, s2)
  end.
