From Coq Require Import ZArith List Bool Arith.
From TV Require Import Common.Harness C20.ListSem C20.Model C20.Law.
Import ListNotations.
Open Scope Z_scope.
Example placeholder : 1 = 1. Proof. reflexivity. Qed.
