(* C20 — property theorems only.  Each is closed by [exact] of a lemma of Proofs.v / ListProofs.v
   and followed by Print Assumptions.

   Scope of the theorems: the two-object protocol (objects 0 and 1; one link at a time between
   any two traits of the same kind - same name or alias -, mutual or one-way, created, upgraded,
   removed from either side, re-created; object 1 garbage-collected at any point; in between ANY
   history of assignments and list mutations on all eight traits, any values, any lists).
   List mutators: any set [allowed] whose events replay (C05's law, [replay_ok]); proved for all
   mutators except extended slices (all_but_extended_slices_replay).  Termination is proved for arbitrary pools
   (propagation_depth_bounded); convergence for link graphs with several partners is covered by the
   correspondence only - cyclic_links_diverge shows why no general convergence theorem holds. *)
From Coq Require Import ZArith List Bool Arith.
From TV Require Import Common.Harness C20.ListSem C20.ListProofs C20.Model C20.Law C20.Steps C20.Proofs C20.Termination C20.SliceProofs C20.Star C20.StarProofs.
From TV Require C20.Spread C20.TreeSpread C20.GraphProtocol C20.GraphMut C20.Notes.
Import ListNotations.
Open Scope Z_scope.

(* The whole law (all 8 clauses of Law.v) holds at every step of every accepted history. *)
Theorem law_holds_on_two_object_protocol :
  (* from fresh objects, any replaying set of mutators *)
  (forall (allowed : mut -> Prop), (forall mu, allowed mu -> forall l, replay_ok l mu) ->
  forall (F : nat) (h : list op) (va vb : list val),
    typed va -> typed vb -> accepts allowed MFresh h ->
    law_hist 0 [] [va; vb] (run (S (S F)) (init_state [va; vb]) h) = []) /\
  (* law_holds_from_every_mode: from every reachable mode (mutual / one-way / partner dead) *)
  (forall (allowed : mut -> Prop), (forall mu, allowed mu -> forall l, replay_ok l mu) ->
  forall (F : nat) (h : list op) (md : mode) (va vb : list val) nts i,
    inv md va vb -> accepts allowed md h ->
    law_hist i (edges_of md) (snap_of md va vb) (run (S (S F)) (st_of md va vb nts) h) = []) /\
  (* law_holds_without_extended_slices: outright for every mutator except extended slices *)
  (forall (F : nat) (h : list op) (va vb : list val),
    typed va -> typed vb -> accepts (fun mu => replayable_mut mu = true) MFresh h ->
    law_hist 0 [] [va; vb] (run (S (S F)) (init_state [va; vb]) h) = []).
Proof.
  split; [|split].
  - intros allowed Hr F h va vb Ta Tb Ha.
  exact (protocol_law allowed Hr F h MFresh va vb [] 0 (conj Ta (conj Tb I)) Ha).
  - exact protocol_law.
  - intros F h va vb Ta Tb Ha.
  exact (protocol_law (fun mu => replayable_mut mu = true) (fun mu H l => replayable_replay_ok l mu H)
                      F h MFresh va vb [] 0 (conj Ta (conj Tb I)) Ha).
Qed.
Print Assumptions law_holds_on_two_object_protocol.

(* ... from any reachable mode as well (mutual / one-way / partner dead) *)

(* the replay hypothesis holds for every mutator that does not take a slice key *)
Theorem simple_mutators_replay :
  forall (l : list Z) (m : mut), simple_mut m = true -> replay_ok l m.
Proof. exact simple_replay_ok. Qed.
Print Assumptions simple_mutators_replay.

(* ... and for slice keys with step None or 1: everything except extended slices *)
Theorem all_but_extended_slices_replay :
  forall (l : list Z) (m : mut), replayable_mut m = true -> replay_ok l m.
Proof. exact replayable_replay_ok. Qed.
Print Assumptions all_but_extended_slices_replay.

(* the law on every accepted history whose mutators are not extended-slice operations, outright *)

(* Several partners: a pool of three objects, object 0 linked mutually to objects 1 and 2 on one
   trait (a star; relabelled, the chain 1 - 0 - 2): links created and removed one after the other,
   any history of assignments and of list mutations (all mutators except extended slices) on all
   twelve traits in between: the whole law at every step, recursion depth 3. *)
Theorem law_holds_with_two_partners :
  (* the whole law *)
  (forall (F : nat) (h : list op) (va vb vc : list val),
    typed va -> typed vb -> typed vc ->
    accepts3 (fun mu => replayable_mut mu = true) M3Fresh h ->
    law_hist 0 [] [va; vb; vc] (run (S (S (S F))) (init_state [va; vb; vc]) h) = []) /\
  (* two_partners_converge *)
  (forall (allowed : mut -> Prop), (forall mu, allowed mu -> replay2_ok mu) ->
  forall F n va vb vc nts o,
    inv3 (M3Star n) va vb vc -> trans3 allowed (M3Star n) o (M3Star n) ->
    let r := step (S (S (S F))) (st3 (M3Star n) va vb vc nts) o in
    sval (ob_vals (snd r)) (0%nat, n) = sval (ob_vals (snd r)) (1%nat, n) /\
    sval (ob_vals (snd r)) (0%nat, n) = sval (ob_vals (snd r)) (2%nat, n) /\
    overflow (fst r) = false).
Proof.
  split.
  - intros F h va vb vc Ta Tb Tc Ha.
  exact (star_protocol_law (fun mu => replayable_mut mu = true) (fun mu H => replayable_replay2 mu H)
                           F h M3Fresh va vb vc [] 0 (conj Ta (conj Tb (conj Tc I))) Ha).
  - exact star_converges.
Qed.
Print Assumptions law_holds_with_two_partners.


(* ASSIGNMENTS converge on EVERY link graph: arbitrary pool, arbitrary tables (stars, chains, trees,
   cycles, aliases, one-way and mutual links, scalar and list traits).  If the linked traits agreed
   before, then after setattr(o, n, v) every trait reachable from (o, n) holds v, nothing else is
   touched, no RecursionError, tables / handlers / locks as before. *)
Theorem assignment_converges_on_every_graph :
  forall v f st o n,
  Spread.wf st v -> Spread.consistent st -> Spread.no_locks st -> overflow st = false -> (Phi st < f)%nat ->
  kind_ok n v = true -> Spread.in_range st (o, n) ->
  let st' := fst (assign f st o n v) in
  overflow st' = false /\ same_frame st st' /\
  (forall y, Spread.reach st (o, n) y -> Spread.val st' y = v) /\
  (forall y, ~ Spread.reach st (o, n) y -> Spread.val st' y = Spread.val st y).
Proof.
  intros v f st o n W C NL Hov HPhi Hk Hr st'.
  destruct (Spread.assign_converges v f st o n W C NL Hov HPhi Hk Hr) as (O' & F' & Hall & _).
  split; [exact O'|]. split; [exact F'|]. split; [exact Hall|].
  intros y Hnr. destruct (Spread.val_dec (Spread.val st' y) (Spread.val st y)) as [E|E]; [exact E|].
  exfalso. apply Hnr. eapply Spread.assign_touches_only_reachable; [exact Hov|apply (NL (o, n))|exact HPhi|exact E].
Qed.
Print Assumptions assignment_converges_on_every_graph.

(* ... hence on every MUTUAL link graph every history of assignments (through Model.step) leaves all
   linked traits equal after every operation *)
Theorem assignment_histories_converge_on_mutual_graphs :
  forall fuel ops st,
  Spread.symmetric st -> Spread.consistent st -> Spread.no_locks st -> overflow st = false -> (Phi st < fuel)%nat ->
  Spread.assigns_ok st ops ->
  Spread.consistent (Spread.final fuel st ops) /\ overflow (Spread.final fuel st ops) = false /\
  same_frame st (Spread.final fuel st ops).
Proof. exact Spread.assignment_histories_converge. Qed.
Print Assumptions assignment_histories_converge_on_mutual_graphs.

(* PROTOCOL ON GENERAL GRAPHS, FROM FRESH OBJECTS: every history of sync_trait(mutual) calls (between
   distinct traits of one kind: same name or alias, several links per trait, any resulting graph -
   stars, chains, cycles), of sync_trait(mutual, remove=True) calls (any two traits, linked or not), of
   assignments, of PARTNER DEATHS (any object garbage-collected at any time) and of IN-PLACE LIST MUTATIONS
   (every mutator except extended slices) issued while the link graph is a tree, on any pool of well-typed
   fresh objects, leaves every still-linked pair equal, the tables symmetric, no lock behind and no
   RecursionError (fuel 4 per operation).  [run_ok5] asks each operation, when it runs, to name traits of
   live objects that accept the value / are of one kind; the graph may be cyclic between mutations. *)
Theorem graph_histories_converge_from_fresh_objects :
  forall fuel vs ops,
  GraphProtocol.typed_pool vs -> (4 * length ops < fuel)%nat ->
  GraphMut.run_ok5 fuel (init_state vs) ops ->
  let st' := Spread.final fuel (init_state vs) ops in
  Spread.consistent st' /\ Spread.symmetric st' /\ Spread.no_locks st' /\ overflow st' = false.
Proof. exact GraphMut.fresh_graph_histories5. Qed.
Print Assumptions graph_histories_converge_from_fresh_objects.

(* NOTIFICATIONS, ON EVERY GRAPH: during one setattr with all its propagation - any pool, any link graph
   whose links end at existing traits, cycles and aliases included - the change handlers of a trait fire
   exactly once if its value changed and not at all otherwise ([Notes.nc st (o, n)] is the observed
   count: count_notes st o n = Z.of_nat (nc st (o, n)) by definition). *)
Theorem assignment_notifies_each_changed_trait_once :
  forall v f st o n,
  Notes.ranged st -> overflow st = false -> lockedb st o n = false -> (Phi st < f)%nat ->
  Spread.in_range st (o, n) ->
  let st' := fst (assign f st o n v) in
  (forall x, Spread.val st' x = Spread.val st x \/ Spread.val st' x = v) /\
  (forall y, (Spread.val st y <> v -> Spread.val st' y = v -> Notes.nc st' y = S (Notes.nc st y)) /\
             (Spread.val st y = v \/ Spread.val st' y <> v -> Notes.nc st' y = Notes.nc st y)).
Proof. exact Notes.assign_noted. Qed.
Print Assumptions assignment_notifies_each_changed_trait_once.

(* ... so in every state the protocol reaches, an assignment that changes the value notifies every trait of
   the link component exactly once and no other trait; one that does not change it notifies nobody. *)
Theorem assignment_notifies_exactly_the_component :
  forall fuel st o n v,
  GraphProtocol.ginv st -> Spread.in_range st (o, n) -> kind_ok n v = true -> (GraphProtocol.A st < fuel)%nat ->
  let st' := fst (step fuel st (Assign o n v)) in
  (Spread.val st (o, n) = v -> forall y, Notes.nc st' y = 0%nat) /\
  (Spread.val st (o, n) <> v ->
     forall y, (Spread.reach st (o, n) y -> Notes.nc st' y = 1%nat) /\
               (~ Spread.reach st (o, n) y -> Notes.nc st' y = 0%nat)).
Proof. exact GraphMut.assign_notifies_exactly_the_component. Qed.
Print Assumptions assignment_notifies_exactly_the_component.

(* A DEAD PARTNER DROPS OUT OF EVERY GRAPH: when object d is collected, exactly the links from and to d
   leave the tables, every other trait keeps its value, and the protocol invariant (symmetry, agreement
   along the remaining links, no locks) survives - so what was joined only through d no longer follows. *)
Theorem dead_partner_leaves_every_graph :
  forall fuel st d,
  GraphProtocol.ginv st -> GraphProtocol.keys_nodup st ->
  let st' := fst (step fuel st (Collect d)) in
  GraphProtocol.ginv st' /\ GraphProtocol.keys_nodup st' /\ (GraphProtocol.A st' <= GraphProtocol.A st)%nat /\
  (forall a b, Spread.edge st' a b <-> (Spread.edge st a b /\ fst a <> d /\ fst b <> d)) /\
  (forall x, Spread.in_range st' x <-> (Spread.in_range st x /\ fst x <> d)) /\
  (forall x, fst x <> d -> Spread.val st' x = Spread.val st x).
Proof. exact GraphProtocol.collect_step_inv. Qed.
Print Assumptions dead_partner_leaves_every_graph.

(* STOP WHEN UNSYNCHRONISED, ON EVERY GRAPH: remove=True takes exactly the two directions of that link out
   of the tables (first conjunct); a later assignment to one end then reaches exactly what is still
   connected to it WITHOUT that link, and every other trait - the former partner included, unless another
   path still joins the two - keeps the value it had. *)
Theorem removed_link_inert_on_every_graph :
  forall fuel st o n p m v,
  GraphProtocol.ginv st -> GraphProtocol.keys_nodup st ->
  Spread.in_range st (o, n) -> Spread.in_range st (p, m) ->
  kind_ok n v = true -> (GraphProtocol.A st < fuel)%nat ->
  let st1 := fst (step fuel st (Unsync o n p m true)) in
  let st2 := fst (step fuel st1 (Assign o n v)) in
  (forall a b, Spread.edge st1 a b <->
     (Spread.edge st a b /\ ~ (a = (o, n) /\ b = (p, m)) /\ ~ (a = (p, m) /\ b = (o, n)))) /\
  GraphProtocol.ginv st2 /\
  (forall y, Spread.reach st1 (o, n) y -> Spread.val st2 y = v) /\
  (forall y, ~ Spread.reach st1 (o, n) y -> Spread.val st2 y = Spread.val st y).
Proof. exact GraphProtocol.removed_link_inert_on_graphs. Qed.
Print Assumptions removed_link_inert_on_every_graph.

(* IN-PLACE LIST MUTATIONS converge on every TREE-shaped link graph (any number of objects, any
   branching and depth, aliases; mutual trees, and also one-way "out-trees": [otree] only asks that the
   parts explored through two different partners of a trait do not meet): one mutation whose event
   replays (every mutator except extended slices) brings every list trait reachable from the mutated
   one - all of which held the same list - to the new list, touches nothing else, and stays within the
   recursion bound.  (On graphs with a cycle this is false: cyclic_links_diverge.) *)
Theorem list_mutation_converges_on_every_tree :
  forall f st o n mu L,
  TreeSpread.otree st -> Spread.no_locks st -> overflow st = false -> (Phi st < f)%nat ->
  Spread.in_range st (o, n) -> is_list_name n = true -> replayable_mut mu = true ->
  (forall y, Spread.reach st (o, n) y -> Spread.val st y = VL L) ->
  let st' := fst (step f st (Mut o n mu)) in
  overflow st' = false /\ same_frame st st' /\
  exists L'', (forall y, Spread.reach st (o, n) y -> Spread.val st' y = VL L'') /\
              (forall y, Spread.val st' y = Spread.val st y \/ Spread.reach st (o, n) y).
Proof. exact TreeSpread.mut_step_converges. Qed.
Print Assumptions list_mutation_converges_on_every_tree.

(* ... and its <name>_items handlers fire at most once per trait, only for traits reachable from the mutated one *)
Theorem list_mutation_notifies_each_trait_at_most_once :
  forall f st o n mu L,
  TreeSpread.otree st -> Spread.no_locks st -> overflow st = false -> (Phi st < f)%nat ->
  Spread.in_range st (o, n) -> is_list_name n = true -> replayable_mut mu = true ->
  (forall y, Spread.reach st (o, n) y -> Spread.val st y = VL L) ->
  let st' := fst (step f st (Mut o n mu)) in
  forall y, Notes.nc st' y = 0%nat \/ (Spread.reach st (o, n) y /\ Notes.nc st' y = 1%nat).
Proof. exact TreeSpread.mut_step_notes. Qed.
Print Assumptions list_mutation_notifies_each_trait_at_most_once.

(* ... hence every history of assignments and list mutations on a mutual tree keeps all linked traits equal *)
Theorem mutual_trees_are_out_trees : forall st, TreeSpread.tree st -> TreeSpread.otree st.
Proof. exact TreeSpread.tree_otree. Qed.
Print Assumptions mutual_trees_are_out_trees.

Theorem histories_converge_on_every_mutual_tree :
  forall fuel ops st,
  TreeSpread.tree st -> Spread.consistent st -> Spread.no_locks st -> overflow st = false ->
  (Phi st < fuel)%nat -> TreeSpread.ops_ok st ops ->
  Spread.consistent (Spread.final fuel st ops) /\ overflow (Spread.final fuel st ops) = false /\
  same_frame st (Spread.final fuel st ops).
Proof. exact TreeSpread.tree_histories_converge. Qed.
Print Assumptions histories_converge_on_every_mutual_tree.

Theorem mutual_converges :
  forall F n m va vb nts o,
  inv (MMutual n m) va vb ->
  (match o with
   | Assign x k _ => (x < 2)%nat /\ (k < 4)%nat
   | Mut x k mu => (x < 2)%nat /\ (k < 4)%nat /\ (forall l, replay_ok l mu)
   | _ => False end) ->
  let r := step (S (S F)) (st_of (MMutual n m) va vb nts) o in
  sval (ob_vals (snd r)) (0%nat, n) = sval (ob_vals (snd r)) (1%nat, m) /\
  exists va' vb', objs (fst r) = shape (MMutual n m) va' vb' /\ inv (MMutual n m) va' vb' /\
                  overflow (fst r) = false.
Proof. exact mutual_converges_step. Qed.
Print Assumptions mutual_converges.

(* termination: recursion depth 2 (fuel S (S F) for every F, in particular F = 0) is never exceeded *)
(* three corollaries in one theorem: each Print Assumptions walks the whole symbolic-execution development *)
Theorem two_object_protocol_corollaries :
  (* propagation_depth_le_2 *)
  (forall (allowed : mut -> Prop), (forall mu, allowed mu -> forall l, replay_ok l mu) ->
  forall F h md va vb nts, inv md va vb -> accepts allowed md h ->
    Forall (fun p => ob_out (snd p) <> Raised RecursionError) (run (S (S F)) (st_of md va vb nts) h)) /\
  (* at_most_one_notification_per_real_change *)
  (forall (allowed : mut -> Prop), (forall mu, allowed mu -> forall l, replay_ok l mu) ->
  forall F h md va vb nts, inv md va vb -> accepts allowed md h ->
    Forall (fun p => clause7 (snd p) = true /\ ob_logged (snd p) = 0)
           (run (S (S F)) (st_of md va vb nts) h)) /\
  (* dead_partner_inert *)
  (forall (allowed : mut -> Prop), (forall mu, allowed mu -> forall l, replay_ok l mu) ->
  forall F h md va vb nts, inv md va vb -> not_dead md -> accepts allowed (dead_of md) h ->
    law_hist 0 (edges_of md) (snap_of md va vb) (run (S (S F)) (st_of md va vb nts) (Collect 1%nat :: h)) = []).
Proof.
  split; [|split].
  - exact protocol_no_overflow.
  - exact protocol_one_notification.
  - intros allowed Hr F h md va vb nts Hi Hd Ha.
  apply (protocol_law allowed Hr); [exact Hi|].
  eapply A_cons; [apply T_collect; exact Hd|exact Ha].
Qed.
Print Assumptions two_object_protocol_corollaries.

(* ... and for ARBITRARY pools, tables, link graphs and values: a call of setattr / of the item-event
   propagation on a trait that is not locked never exceeds recursion depth Phi + 1, where Phi <= the
   number of attached sync handlers, and returns with tables, handlers and LOCKS exactly as it found
   them (the lock invariant) *)
Theorem propagation_depth_bounded :
  (forall f st o n v, overflow st = false -> lockedb st o n = false -> (Phi st < f)%nat ->
     overflow (fst (assign f st o n v)) = false /\ same_frame st (fst (assign f st o n v))) /\
  (forall f st o n ev, overflow st = false -> lockedb st o n = false -> (Phi st < f)%nat ->
     overflow (forward f st o n ev) = false /\ same_frame st (forward f st o n ev)) /\
  (forall st, (Phi st <= list_sum (map (fun ob => length (o_att_s ob ++ o_att_i ob)) (objs st)))%nat).
Proof.
  split; [exact assign_terminates|]. split; [exact forward_terminates|exact Phi_le_attached].
Qed.
Print Assumptions propagation_depth_bounded.


Theorem one_way_is_one_way :
  forall F n m va vb nts,
  inv (MOneway n m) va vb ->
  (forall v, kind_ok n v = true -> nth_error va n <> Some v ->
     let r := step (S (S F)) (st_of (MOneway n m) va vb nts) (Assign 0%nat n v) in
     sval (ob_vals (snd r)) (0%nat, n) = Some v /\ sval (ob_vals (snd r)) (1%nat, m) = Some v) /\
  (forall o,
     (match o with
      | Assign x k _ => x = 1%nat /\ (k < 4)%nat
      | Mut x k mu => x = 1%nat /\ (k < 4)%nat /\ (forall l, replay_ok l mu)
      | _ => False end) ->
     let r := step (S (S F)) (st_of (MOneway n m) va vb nts) o in
     forall j, (j < 4)%nat ->
       sval (ob_vals (snd r)) (0%nat, j) = nth_error va j /\ scnt (ob_cnt (snd r)) (0%nat, j) = 0).
Proof.
  intros F n m va vb nts Hi. split.
  - intros v. exact (oneway_source_assign F n m va vb nts v Hi).
  - intros o. exact (oneway_reverse_inert F n m va vb nts o Hi).
Qed.
Print Assumptions one_way_is_one_way.

(* removal restores the pristine pool (no table entry, no handler): the objects are as if never linked *)
Theorem removed_link_inert :
  forall F n m va vb nts, inv (MMutual n m) va vb ->
  exists va' vb',
    objs (fst (step (S (S F)) (st_of (MMutual n m) va vb nts) (Unsync 0%nat n 1%nat m true))) = map fresh [va'; vb'] /\
    ob_vals (snd (step (S (S F)) (st_of (MMutual n m) va vb nts) (Unsync 0%nat n 1%nat m true))) = [va'; vb'].
Proof. exact removed_link_pristine. Qed.
Print Assumptions removed_link_inert.

(* after the partner died every operation on the survivor is lawful: plain result, nothing raised
   or logged, one notification (clauses 4-8), although the sync handlers are still attached *)

(* New finding: with three mutually linked lists (a trait reachable along two link paths) one
   append is delivered twice - the model, which follows the code, violates clauses 1, 3 and 7. *)
Definition tri_init : list (list val) :=
  [[VS 0; VS 0; VL [1]; VL []]; [VS 0; VS 0; VL []; VL []]; [VS 0; VS 0; VL []; VL []]].
Definition tri_ops : list op :=
  [Sync 0 2 1 2 true; Sync 0 2 2 2 true; Sync 1 2 2 2 true; Mut 0 2 (MAppend 5)]%nat.
Theorem cyclic_links_diverge :
  law_hist 0 [] tri_init (run 40 (init_state tri_init) tri_ops) = [301; 303; 307]
  /\ map (fun p => ob_vals (snd p)) (skipn 3 (run 40 (init_state tri_init) tri_ops))
     = [[[VS 0; VS 0; VL [1; 5]; VL []]; [VS 0; VS 0; VL [1; 5; 5]; VL []]; [VS 0; VS 0; VL [1; 5; 5]; VL []]]].
Proof. vm_compute. split; reflexivity. Qed.
Print Assumptions cyclic_links_diverge.

(* Non-vacuity of the graph theorems: five objects, a cycle 0 - 1 - 2 - 0 with an alias, a tail 2 - 3 - 4,
   built by sync_trait itself; its hypotheses are decided by the (sound) boolean checkers of Spread.v. *)
Definition graph_ops : list op :=
  [Sync 0 0 1 0 true; Sync 1 0 2 1 true; Sync 2 1 0 0 true; Sync 2 1 3 0 true; Sync 3 0 4 0 true]%nat.
Definition graph_st : state :=
  Spread.final 40 (init_state [tv 5 0 [] []; tv 1 1 [] []; tv 2 2 [] []; tv 3 3 [] []; tv 4 4 [] []]) graph_ops.
Example graph_history_converges :
  let h := [Assign 4 0 (VS 7); Assign 1 0 (VS 9); Assign 2 1 (VS 3); Assign 0 1 (VS 8)]%nat in
  Spread.consistent (Spread.final 40 graph_st h)
  /\ map (fun x => Spread.val (Spread.final 40 graph_st h) x) [(0, 0); (1, 0); (2, 1); (3, 0); (4, 0); (0, 1)]%nat
     = [VS 3; VS 3; VS 3; VS 3; VS 3; VS 8]
  /\ Phi graph_st = 5%nat.
Proof.
  split; [|vm_compute; split; reflexivity].
  apply Spread.assignment_histories_converge_checked; vm_compute; reflexivity.
Qed.

(* Non-vacuity: the graph of [graph_ops] (cycle, alias, tail) interleaved with assignments, removals, a death
   and list mutations, from fresh objects; the hypotheses are decided by sound checkers.  After the link 0-1 is
   removed the cycle still joins them through 2 (8 everywhere); after 1-2 goes as well, object 1 keeps 8 while
   the rest follows 9; when object 2 dies, object 0 is on its own (4) and 3-4 still follow each other (6); the
   list chain 0.l - 4.m - 3.l built afterwards carries two in-place mutations.  A mutation issued while the
   graph still has its cycle is not admitted (last conjunct), nor is any operation on the dead object. *)
Example fresh_history_converges :
  let vs := [tv 5 0 [] []; tv 1 1 [] []; tv 2 2 [] []; tv 3 3 [] []; tv 4 4 [] []] in
  let h := [Sync 0 0 1 0 true; Assign 1 0 (VS 7); Sync 1 0 2 1 true; Sync 2 1 0 0 true; Sync 2 1 3 0 true;
            Sync 3 0 4 0 true; Sync 0 2 4 3 true; Assign 4 3 (VL [1; 2]%Z);
            Unsync 0 0 1 0 true; Assign 0 0 (VS 8); Unsync 2 1 1 0 true; Unsync 3 1 4 1 true;
            Assign 4 0 (VS 9); Unsync 4 3 0 2 true; Assign 0 2 (VL [3]%Z);
            Collect 2; Assign 0 0 (VS 4); Assign 3 0 (VS 6);
            Sync 0 2 4 3 true; Sync 4 3 3 2 true; Mut 3 2 (MAppend 7); Mut 0 2 (MInsert 0 5)]%nat in
  Spread.consistent (Spread.final 100 (init_state vs) h)
  /\ map (fun x => Spread.val (Spread.final 100 (init_state vs) h) x) [(0, 0); (1, 0); (3, 0); (4, 0); (0, 2); (4, 3); (3, 2)]%nat
     = [VS 4; VS 8; VS 6; VS 6; VL [5; 3; 7]%Z; VL [5; 3; 7]%Z; VL [5; 3; 7]%Z]
  /\ GraphMut.run_ok5b 100 (init_state vs) (h ++ [Assign 2%nat 1%nat (VS 1)]) = false
  /\ GraphMut.run_ok5b 100 (init_state vs) (firstn 5 h ++ [Mut 0%nat 2%nat (MAppend 1)]) = false.
Proof.
  split; [|vm_compute; repeat split; reflexivity].
  apply graph_histories_converge_from_fresh_objects.
  - apply GraphProtocol.typed_poolb_sound. vm_compute. reflexivity.
  - vm_compute. repeat constructor.
  - apply GraphMut.run_ok5b_sound. vm_compute. reflexivity.
Qed.

(* Non-vacuity of the notification theorems: a three-object cycle with an alias reached by the protocol from
   fresh objects; an assignment notifies the three linked traits once each, the unlinked one not, and assigning
   the same value again notifies nobody. *)
Example notifications_nontrivial :
  let vs := [tv 5 0 [] []; tv 1 1 [] []; tv 2 2 [] []; tv 3 3 [] []] in
  let ops := [Sync 0 0 1 0 true; Sync 1 0 2 1 true; Sync 2 1 0 0 true]%nat in
  let st := Spread.final 41 (init_state vs) ops in
  let st1 := fst (step 41 st (Assign 0%nat 0%nat (VS 9))) in
  GraphProtocol.ginv st
  /\ map (Notes.nc st1) [(0, 0); (1, 0); (2, 1); (3, 0)]%nat = [1; 1; 1; 0]%nat
  /\ map (Notes.nc (fst (step 41 st1 (Assign 1%nat 0%nat (VS 9))))) [(0, 0); (1, 0); (2, 1); (3, 0)]%nat = [0; 0; 0; 0]%nat.
Proof.
  intros vs ops st st1. split; [|vm_compute; split; reflexivity].
  destruct (GraphProtocol.ginv_fresh vs) as [I0 A0]; [apply GraphProtocol.typed_poolb_sound; vm_compute; reflexivity|].
  apply (GraphMut.graph_histories5 41 ops (init_state vs) I0 (GraphProtocol.keys_fresh vs)).
  - rewrite A0. vm_compute. repeat constructor.
  - apply GraphMut.run_ok5b_sound. vm_compute. reflexivity.
Qed.

(* Non-vacuity of the tree theorems: five objects, the list traits linked as the tree
   1 - 0 - 2 - {3, 4} (the link 0 - 2 with an alias), built by sync_trait itself; [treeb] decides the
   hypotheses (symmetry, acyclicity by a checked closure, items handlers attached, ranges). *)
Definition tree_ops : list op :=
  [Sync 0 2 1 2 true; Sync 0 2 2 3 true; Sync 2 3 3 2 true; Sync 2 3 4 2 true]%nat.
Definition tree_st : state :=
  Spread.final 40 (init_state [tv 0 0 [1; 2] []; tv 1 1 [] []; tv 2 2 [] [9]; tv 3 3 [] []; tv 4 4 [] []]) tree_ops.
Example tree_history_converges :
  let h := [Mut 4 2 (MAppend 7); Mut 1 2 (MSetS (Some 0%Z, Some 1%Z, None) [5; 6]%Z); Mut 2 3 (MSort true);
            Assign 3 2 (VL [4; 4]%Z); Mut 0 2 (MPop None); Mut 3 2 (MInsert 0 8)]%nat in
  Spread.consistent (Spread.final 40 tree_st h)
  /\ map (fun x => Spread.val (Spread.final 40 tree_st h) x) [(0, 2); (1, 2); (2, 3); (3, 2); (4, 2)]%nat
     = [VL [8; 4]; VL [8; 4]; VL [8; 4]; VL [8; 4]; VL [8; 4]]%Z
  /\ TreeSpread.treeb tree_st = true /\ TreeSpread.treeb graph_st = false.
Proof.
  split; [|vm_compute; repeat split; reflexivity].
  apply TreeSpread.tree_histories_converge_checked; vm_compute; reflexivity.
Qed.

Example tree_mutation_notifies_once :
  map (Notes.nc (fst (step 40 tree_st (Mut 4%nat 2%nat (MAppend 7))))) [(0, 2); (1, 2); (2, 3); (3, 2); (4, 2); (0, 0); (2, 2)]%nat
  = [1; 1; 1; 1; 1; 0; 0]%nat.
Proof. vm_compute. reflexivity. Qed.

(* ... and a ONE-WAY fan-out 0 -> 1, 0 -> 2 (alias), 2 -> 3 on list traits that agree: not a mutual tree, but an
   out-tree ([otreeb], sound); a mutation at the root reaches all four, a mutation at 2 only 2 and 3. *)
Definition fan_ops : list op :=
  [Sync 0 2 1 2 false; Sync 0 2 2 3 false; Sync 2 3 3 2 false]%nat.
Definition fan_st : state :=
  Spread.final 40 (init_state [tv 0 0 [1; 2] []; tv 1 1 [] []; tv 2 2 [] [9]; tv 3 3 [] []]) fan_ops.
Example one_way_tree_mutation :
  TreeSpread.otreeb fan_st = true /\ TreeSpread.treeb fan_st = false
  /\ map (fun x => Spread.val (fst (step 40 fan_st (Mut 0%nat 2%nat (MAppend 7)))) x) [(0, 2); (1, 2); (2, 3); (3, 2)]%nat
     = [VL [1; 2; 7]; VL [1; 2; 7]; VL [1; 2; 7]; VL [1; 2; 7]]%Z
  /\ (exists L'', forall y, Spread.reach fan_st (0, 2)%nat y ->
                           Spread.val (fst (step 40 fan_st (Mut 0%nat 2%nat (MAppend 7)))) y = VL L'').
Proof.
  split; [vm_compute; reflexivity|]. split; [vm_compute; reflexivity|]. split; [vm_compute; reflexivity|].
  destruct (list_mutation_converges_on_every_tree 40 fan_st 0%nat 2%nat (MAppend 7) [1; 2]%Z) as (_ & _ & L'' & H & _).
  - apply TreeSpread.otreeb_sound. vm_compute. reflexivity.
  - apply Spread.no_locksb_sound. vm_compute. reflexivity.
  - vm_compute. reflexivity.
  - vm_compute. repeat constructor.
  - vm_compute. split; repeat constructor.
  - reflexivity.
  - reflexivity.
  - apply TreeSpread.component_agrees_checked; vm_compute; reflexivity.
  - exists L''. exact H.
Qed.

(* Non-vacuity: an accepted history in which values propagate in both directions, an extended-slice
   mutation (outside simple_mut) is replayed, an operation raises, the link is removed, re-created
   one-way and the partner is collected; the law holds at every step. *)
Example history_nontrivial :
  let h := [Sync 0 2 1 3 true; Mut 0 2 (MAppend 7); Mut 1 3 (MSetS (None, None, Some 2%Z) [8; 9]%Z);
            Mut 1 3 (MPop (Some 9%Z)); Assign 1 3 (VL [4]%Z); Unsync 0 2 1 3 true; Mut 0 2 MClear;
            Sync 0 2 1 3 false; Mut 0 2 (MDelS (None, None, Some (-2)%Z)); Collect 1; Mut 0 2 (MAppend 1)]%nat in
  let init := [tv 0 0 [1; 2; 3] []; tv 1 1 [] [6]] in
  let tr := run 2 (init_state init) h in
  law_hist 0 [] init tr = []
  /\ map (fun p => ob_cnt (snd p)) (firstn 5 tr)
     = [[[0;0;0;0];[0;0;0;1]]; [[0;0;1;0];[0;0;0;1]]; [[0;0;1;0];[0;0;0;1]]; [[0;0;0;0];[0;0;0;0]]; [[0;0;1;0];[0;0;0;1]]]
  /\ map (fun p => ob_out (snd p)) tr
     = [Done; Done; Done; Raised IndexError; Done; Done; Done; Done; Done; Done; Done].
Proof. vm_compute. repeat split; reflexivity. Qed.
