(* C20 — proofs.  The two-object protocol: objects 0 and 1, any link (0,n) -> / <-> (1,m)
   between traits of the same kind (alias or not), any values, any history of assignments and
   list mutations on all eight traits, link removal, re-linking, collection of object 1.
   The proofs are symbolic executions of Model.step on a state whose *structure* (tables,
   handlers) is concrete and whose trait values are universally quantified, followed by
   induction over the history.  Propagation needs recursion depth 2 (fuel S (S F)). *)
From Coq Require Import ZArith List Bool Arith Lia.
From TV Require Import Common.Harness C20.ListSem C20.ListProofs C20.Model C20.Law.
Import ListNotations.
Open Scope Z_scope.

(* ---------- values ---------- *)
Definition tv (s0 s1 : Z) (l0 l1 : list Z) : list val := [VS s0; VS s1; VL l0; VL l1].
Definition typed (vs : list val) : Prop := exists s0 s1 l0 l1, vs = tv s0 s1 l0 l1.
Definition link_ok (n m : name) : Prop := (n < 4)%nat /\ (m < 4)%nat /\ is_list_name n = is_list_name m.

Lemma zlist_eqb_eq a : forall b, zlist_eqb a b = true -> a = b.
Proof.
  induction a as [|x a IH]; destruct b as [|y b]; cbn; try discriminate; auto.
  intros H. apply andb_prop in H. destruct H as [H1 H2]. apply Z.eqb_eq in H1. apply IH in H2. congruence.
Qed.
Lemma zlist_eqb_refl a : zlist_eqb a a = true.
Proof. induction a; cbn; auto. rewrite Z.eqb_refl. exact IHa. Qed.

(* ---------- the four shapes of the two-object pool ---------- *)
Definition att_i_of (n m : name) : list name := if is_list_name n && is_list_name m then [n] else [].

Inductive mode :=
| MFresh                                  (* no link *)
| MMutual (n m : name)                    (* (0,n) <-> (1,m) *)
| MOneway (n m : name)                    (* (0,n) -> (1,m) *)
| MDead (atts atti : list name).          (* object 1 collected; handlers of object 0 still attached *)

Definition shape (md : mode) (va vb : list val) : list ostate :=
  match md with
  | MFresh => [fresh va; fresh vb]
  | MMutual n m =>
      [ mkO true va [(n, [(1%nat, m)])] [] [n] (att_i_of n m);
        mkO true vb [(m, [(0%nat, n)])] [] [m] (att_i_of m n) ]
  | MOneway n m => [ mkO true va [(n, [(1%nat, m)])] [] [n] (att_i_of n m); fresh vb ]
  | MDead atts atti => [ mkO true va [] [] atts atti; dead_obj ]
  end.

Definition edges_of (md : mode) : list edge :=
  match md with
  | MMutual n m => [((0%nat, n), (1%nat, m)); ((1%nat, m), (0%nat, n))]
  | MOneway n m => [((0%nat, n), (1%nat, m))]
  | _ => []
  end.

Definition snap_of (md : mode) (va vb : list val) : snap :=
  match md with MDead _ _ => [va; []] | _ => [va; vb] end.

(* what holds between operations *)
Definition inv (md : mode) (va vb : list val) : Prop :=
  typed va /\ typed vb /\
  match md with
  | MMutual n m => link_ok n m /\ nth_error va n = nth_error vb m
  | MOneway n m => link_ok n m
  | _ => True
  end.

(* after one step from mode md (before-values va vb) into mode md' *)
Definition post (md md' : mode) (va vb : list val) (o : op) (r : state * obs) : Prop :=
  exists va' vb',
    objs (fst r) = shape md' va' vb' /\ inv md' va' vb' /\ overflow (fst r) = false /\
    ob_vals (snd r) = snap_of md' va' vb' /\
    law_step (edges_of md) (snap_of md va vb) o (snd r) = [].

Definition st_of (md : mode) (va vb : list val) (nts : list (oid * name)) : state :=
  mkS (shape md va vb) nts false.

(* ---------- tactics ---------- *)
Ltac names_cases n m H :=
  let Hn := fresh in let Hm := fresh in let Hk := fresh in
  destruct H as (Hn & Hm & Hk);
  destruct n as [|[|[|[|n]]]]; try lia; destruct m as [|[|[|[|m]]]]; try lia;
  try discriminate Hk; clear Hn Hm Hk.

Ltac cb := cbn -[Z.eqb zlist_eqb mutate apply_event Z.leb].

Ltac split_ifs :=
  rewrite ?Z.eqb_refl, ?zlist_eqb_refl; cb;
  repeat (match goal with
          | |- context [?a =? ?b] =>
              tryif constr_eq a b then fail else
              (let E := fresh "E" in destruct (a =? b) eqn:E; [apply Z.eqb_eq in E; subst|])
          | |- context [zlist_eqb ?a ?b] =>
              tryif constr_eq a b then fail else
              (let E := fresh "E" in destruct (zlist_eqb a b) eqn:E; [apply zlist_eqb_eq in E; subst|])
          end; rewrite ?Z.eqb_refl, ?zlist_eqb_refl; cb).

Ltac typed_ok := do 4 eexists; reflexivity.

Ltac solve_post :=
  rewrite ?Z.eqb_refl, ?zlist_eqb_refl; cb;
  do 2 eexists; split; [reflexivity|];
  split; [ repeat split; try typed_ok; try lia; try reflexivity |];
  repeat split; reflexivity.

Ltac values va vb :=
  let s0 := fresh "s0" in let s1 := fresh "s1" in let l0 := fresh "l0" in let l1 := fresh "l1" in
  let t0 := fresh "t0" in let t1 := fresh "t1" in let k0 := fresh "k0" in let k1 := fresh "k1" in
  destruct va as (s0 & s1 & l0 & l1 & ->); destruct vb as (t0 & t1 & k0 & k1 & ->).

Ltac op_cases x k Hx Hk :=
  destruct x as [|[|x]]; try lia; destruct k as [|[|[|[|k]]]]; try lia; clear Hx Hk.

(* after [mutate] has been destructed: the event branch (replay on an equal partner, any outcome on
   an unequal one), the silent branch, the raising branch *)
Ltac mut_cases Hr :=
  match goal with
  | |- context [mutate ?l ?mu] =>
      let H := fresh "Hmu" in
      destruct (mutate l mu) as [[?l' [?ev|]]|?e] eqn:H; cb;
      [ split_ifs;
        try (let oev := fresh "oev" in let Hap := fresh "Hap" in
             destruct (proj1 (Hr l) _ _ H) as [oev Hap]; rewrite ?Hap; cb; destruct oev; cb);
        repeat (match goal with
                | |- context [apply_event ?pl ?e0] =>
                    destruct (apply_event pl e0) as [[?pl' [?ev'|]]|?e'] eqn:?; cb
                end)
      | pose proof (proj2 (Hr l) _ H); subst
      | destruct (mutate_raises _ _ _ H) as [-> | ->] ]
  end.

(* ---------- value operations keep the mode and satisfy the law ---------- *)
Lemma mutual_assign F n m va vb nts x k v :
  inv (MMutual n m) va vb -> (x < 2)%nat -> (k < 4)%nat ->
  post (MMutual n m) (MMutual n m) va vb (Assign x k v)
       (step (S (S F)) (st_of (MMutual n m) va vb nts) (Assign x k v)).
Proof.
  intros (Ta & Tb & Hl & He) Hx Hk. values Ta Tb.
  names_cases n m Hl; op_cases x k Hx Hk; cbn in He; injection He as He; subst;
  destruct v as [z|l]; unfold post; cb; split_ifs; solve_post.
Qed.

Lemma mutual_mut F n m va vb nts x k mu :
  inv (MMutual n m) va vb -> (x < 2)%nat -> (k < 4)%nat -> (forall l, replay_ok l mu) ->
  post (MMutual n m) (MMutual n m) va vb (Mut x k mu)
       (step (S (S F)) (st_of (MMutual n m) va vb nts) (Mut x k mu)).
Proof.
  intros (Ta & Tb & Hl & He) Hx Hk Hr. values Ta Tb.
  names_cases n m Hl; op_cases x k Hx Hk; cbn in He; injection He as He; subst;
  unfold post; cb; try solve [solve_post].
  all: mut_cases Hr; split_ifs; solve_post.
Qed.
