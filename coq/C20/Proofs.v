(* C20 — proofs, part 2: link creation / removal / partner death between the shapes of Steps.v,
   the protocol automaton, and the induction over histories. *)
From Coq Require Import ZArith List Bool Arith Lia.
From TV Require Import Common.Harness C20.ListSem C20.ListProofs C20.Model C20.Law C20.Steps.
Import ListNotations.
Open Scope Z_scope.

Ltac finish_dead :=
  eexists; exists (@nil val); split; [reflexivity|];
  split; [ repeat split; try typed_ok; try lia; try reflexivity |];
  repeat split; reflexivity.
Ltac solve_dead :=
  unfold post, law_step; lazy beta iota zeta delta [plain sval nth nth_error fst snd tv snap_of]; use_hyps; cb; use_hyps; rewrite ?Z.eqb_refl, ?zlist_eqb_refl; cb; split_ifs2; finish_dead.

(* ---------- object 1 is dead: object 0 behaves like an unlinked object ---------- *)
Lemma dead_assign F w va vb nts k v :
  inv (MDead w) va vb -> (k < 4)%nat ->
  post (MDead w) (MDead w) va vb (Assign 0%nat k v) (step (S (S F)) (st_of (MDead w) va vb nts) (Assign 0%nat k v)).
Proof.
  intros (Ta & _ & Hl) Hk. destruct Ta as (s0 & s1 & l0 & l1 & ->). destruct w as [[n m]|].
  - names_cases n m Hl; destruct k as [|[|[|[|k]]]]; try lia; clear Hk;
    destruct v as [z|l]; eval_step; split_ifs; solve_dead.
  - destruct k as [|[|[|[|k]]]]; try lia; clear Hk;
    destruct v as [z|l]; eval_step; split_ifs; solve_dead.
Qed.

Lemma dead_mut F w va vb nts k mu :
  inv (MDead w) va vb -> (k < 4)%nat -> (forall l, replay_ok l mu) ->
  post (MDead w) (MDead w) va vb (Mut 0%nat k mu) (step (S (S F)) (st_of (MDead w) va vb nts) (Mut 0%nat k mu)).
Proof.
  intros (Ta & _ & Hl) Hk Hr. destruct Ta as (s0 & s1 & l0 & l1 & ->). destruct w as [[n m]|].
  - names_cases n m Hl; destruct k as [|[|[|[|k]]]]; try lia; clear Hk;
    eval_step; mut_cases Hr; split_ifs; solve_dead.
  - destruct k as [|[|[|[|k]]]]; try lia; clear Hk;
    eval_step; mut_cases Hr; split_ifs; solve_dead.
Qed.

(* ---------- link creation ---------- *)
Lemma fresh_sync F n m (mutual : bool) va vb nts :
  inv MFresh va vb -> link_ok n m ->
  post MFresh (if mutual then MMutual n m else MOneway n m) va vb (Sync 0%nat n 1%nat m mutual)
       (step (S (S F)) (st_of MFresh va vb nts) (Sync 0%nat n 1%nat m mutual)).
Proof.
  intros (Ta & Tb & _) Hl. values Ta Tb.
  names_cases n m Hl; destruct mutual; eval_step; split_ifs; solve_post.
Qed.

(* a one-way link completed to a mutual one from the other side *)
Lemma oneway_upgrade F n m va vb nts :
  inv (MOneway n m) va vb ->
  post (MOneway n m) (MMutual n m) va vb (Sync 1%nat m 0%nat n false)
       (step (S (S F)) (st_of (MOneway n m) va vb nts) (Sync 1%nat m 0%nat n false)).
Proof.
  intros (Ta & Tb & Hl). values Ta Tb.
  names_cases n m Hl; eval_step; split_ifs; solve_post.
Qed.

(* ---------- link removal restores the pristine pool ---------- *)
Lemma mutual_unsync F n m va vb nts :
  inv (MMutual n m) va vb ->
  post (MMutual n m) MFresh va vb (Unsync 0%nat n 1%nat m true)
       (step (S (S F)) (st_of (MMutual n m) va vb nts) (Unsync 0%nat n 1%nat m true)).
Proof.
  intros (Ta & Tb & Hl & He). values Ta Tb.
  names_cases n m Hl; cbn in He; injection He as He; subst; eval_step; split_ifs; solve_post.
Qed.

Lemma mutual_unsync_rev F n m va vb nts :
  inv (MMutual n m) va vb ->
  post (MMutual n m) MFresh va vb (Unsync 1%nat m 0%nat n true)
       (step (S (S F)) (st_of (MMutual n m) va vb nts) (Unsync 1%nat m 0%nat n true)).
Proof.
  intros (Ta & Tb & Hl & He). values Ta Tb.
  names_cases n m Hl; cbn in He; injection He as He; subst; eval_step; split_ifs; solve_post.
Qed.

Lemma oneway_unsync F n m (mutual : bool) va vb nts :
  inv (MOneway n m) va vb ->
  post (MOneway n m) MFresh va vb (Unsync 0%nat n 1%nat m mutual)
       (step (S (S F)) (st_of (MOneway n m) va vb nts) (Unsync 0%nat n 1%nat m mutual)).
Proof.
  intros (Ta & Tb & Hl). values Ta Tb.
  names_cases n m Hl; destruct mutual; eval_step; split_ifs; solve_post.
Qed.

(* ---------- the partner is garbage-collected ---------- *)
Definition dead_of (md : mode) : mode :=
  match md with
  | MMutual n m | MOneway n m => MDead (Some (n, m))
  | MFresh => MDead None
  | MDead w => MDead w
  end.

Lemma collect_partner F md va vb nts :
  inv md va vb -> (match md with MDead _ => False | _ => True end) ->
  post md (dead_of md) va vb (Collect 1%nat) (step (S (S F)) (st_of md va vb nts) (Collect 1%nat)).
Proof.
  intros Hi Hd. destruct md as [|n m|n m|w]; try contradiction.
  - destruct Hi as (Ta & Tb & _). values Ta Tb. eval_step; split_ifs; solve_dead.
  - destruct Hi as (Ta & Tb & Hl & He). values Ta Tb.
    names_cases n m Hl; cbn in He; injection He as He; subst; eval_step; split_ifs; solve_dead.
  - destruct Hi as (Ta & Tb & Hl). values Ta Tb.
    names_cases n m Hl; eval_step; split_ifs; solve_dead.
Qed.

(* ---------- the protocol automaton and the induction over histories ---------- *)
Definition on_live (md : mode) (x : oid) : Prop :=
  match md with MDead _ => x = 0%nat | _ => (x < 2)%nat end.
Definition not_dead (md : mode) : Prop := match md with MDead _ => False | _ => True end.

Section Protocol.
  (* the list mutators allowed in histories: any set whose events replay (C05's replay law);
     [simple_mut] (everything but slice keys) is proved to qualify in ListProofs.v *)
  Variable allowed : mut -> Prop.
  Hypothesis allowed_replays : forall mu, allowed mu -> forall l, replay_ok l mu.

  Inductive trans : mode -> op -> mode -> Prop :=
  | T_assign md x k v : on_live md x -> (k < 4)%nat -> trans md (Assign x k v) md
  | T_mut md x k mu : on_live md x -> (k < 4)%nat -> allowed mu -> trans md (Mut x k mu) md
  | T_sync n m b : link_ok n m ->
      trans MFresh (Sync 0%nat n 1%nat m b) (if b then MMutual n m else MOneway n m)
  | T_upgrade n m : trans (MOneway n m) (Sync 1%nat m 0%nat n false) (MMutual n m)
  | T_unsync n m : trans (MMutual n m) (Unsync 0%nat n 1%nat m true) MFresh
  | T_unsync_rev n m : trans (MMutual n m) (Unsync 1%nat m 0%nat n true) MFresh
  | T_unsync1 n m b : trans (MOneway n m) (Unsync 0%nat n 1%nat m b) MFresh
  | T_collect md : not_dead md -> trans md (Collect 1%nat) (dead_of md).

  Inductive accepts : mode -> list op -> Prop :=
  | A_nil md : accepts md []
  | A_cons md o md' r : trans md o md' -> accepts md' r -> accepts md (o :: r).

  Lemma trans_post F md o md' va vb nts :
    trans md o md' -> inv md va vb ->
    post md md' va vb o (step (S (S F)) (st_of md va vb nts) o).
  Proof.
    intros T Hi. destruct T.
    - destruct md as [|n m|n m|w]; cbn in H.
      + apply fresh_assign; auto.
      + apply mutual_assign; auto.
      + apply oneway_assign; auto.
      + subst. apply dead_assign; auto.
    - pose proof (allowed_replays _ H1) as Hr. destruct md as [|n m|n m|w]; cbn in H.
      + apply fresh_mut; auto.
      + apply mutual_mut; auto.
      + apply oneway_mut; auto.
      + subst. apply dead_mut; auto.
    - apply fresh_sync; auto.
    - apply oneway_upgrade; auto.
    - apply mutual_unsync; auto.
    - apply mutual_unsync_rev; auto.
    - apply oneway_unsync; auto.
    - apply collect_partner; auto.
  Qed.

  Lemma trans_edges md o md' va vb :
    trans md o md' -> inv md va vb -> edges_after (edges_of md) o = edges_of md'.
  Proof.
    intros T Hi. destruct T.
    all: try solve [reflexivity | destruct b; reflexivity].
    all: try solve [destruct Hi as (_ & _ & Hl & _); names_cases n m Hl; reflexivity].
    all: try solve [destruct Hi as (_ & _ & Hl); names_cases n m Hl; try destruct b; reflexivity].
    all: try solve [destruct md as [|n m|n m|w]; try contradiction; reflexivity].
  Qed.

  Lemma state_eta st md va vb :
    objs st = shape md va vb -> overflow st = false -> st = st_of md va vb (notes st).
  Proof. destruct st; cbn; intros -> ->; reflexivity. Qed.

  Theorem protocol_law F h : forall md va vb nts i,
    inv md va vb -> accepts md h ->
    law_hist i (edges_of md) (snap_of md va vb) (run (S (S F)) (st_of md va vb nts) h) = [].
  Proof.
    induction h as [|o r IH]; intros md va vb nts i Hi Ha; [reflexivity|].
    inversion Ha as [|md0 o0 md' r0 T Ha']; subst.
    pose proof (trans_post F _ _ _ _ _ nts T Hi) as (va' & vb' & Hs & Hi' & Hov & Hv & Hlaw).
    pose proof (trans_edges _ _ _ _ _ T Hi) as He.
    cbn [run]. destruct (step (S (S F)) (st_of md va vb nts) o) as [st' ob] eqn:Hst.
    cbn [fst snd] in *. cbn [law_hist]. rewrite Hlaw, He, Hv. cbn [map app].
    rewrite (state_eta _ _ _ _ Hs Hov). apply IH; assumption.
  Qed.

  (* every state reached by an accepted history has the shape of its mode, with fuel 2 *)
  Theorem protocol_no_overflow F h : forall md va vb nts,
    inv md va vb -> accepts md h ->
    Forall (fun p => ob_out (snd p) <> Raised RecursionError) (run (S (S F)) (st_of md va vb nts) h).
  Proof.
    induction h as [|o r IH]; intros md va vb nts Hi Ha; [constructor|].
    inversion Ha as [|md0 o0 md' r0 T Ha']; subst.
    pose proof (trans_post F _ _ _ _ _ nts T Hi) as (va' & vb' & Hs & Hi' & Hov & Hv & Hlaw).
    cbn [run]. destruct (step (S (S F)) (st_of md va vb nts) o) as [st' ob] eqn:Hst.
    cbn [fst snd] in *. constructor.
    - cbn [snd]. (* clause 5: the outcome is the plain operation's, which is never RecursionError *)
      unfold law_step in Hlaw.
      destruct (plain (edges_of md) (snap_of md va vb) o) as [expected target] eqn:Hp.
      repeat (apply app_eq_nil in Hlaw; destruct Hlaw as [? Hlaw]).
      match goal with H : chk 5 _ = [] |- _ => unfold chk in H;
        destruct (outcome_eqb (ob_out ob) expected) eqn:Ho; [|discriminate H] end.
      intros Hout. rewrite Hout in Ho.
      destruct expected as [|e]; [discriminate Ho|].
      assert (e = RecursionError) as -> by (destruct e; cbn in Ho; try discriminate; reflexivity).
      unfold plain in Hp. destruct o; try discriminate Hp.
      + destruct (kind_ok n v); discriminate Hp.
      + destruct (sval _ _) as [[z|l]|]; try discriminate Hp.
        destruct (mutate l m) as [[l' oev]|e] eqn:Hm; [discriminate Hp|].
        injection Hp as -> _. apply mutate_raises in Hm. destruct Hm; discriminate.
      + destruct (sval _ _); try discriminate Hp.
        match type of Hp with (if ?c then _ else _) = _ => destruct c; discriminate Hp end.
    - rewrite (state_eta _ _ _ _ Hs Hov). apply IH; assumption.
  Qed.
End Protocol.

(* ---------- explicit per-step readings ---------- *)
Lemma sval2 va vb x k : sval [va; vb] (x, k) = match x with O => nth_error va k | S O => nth_error vb k | _ => None end.
Proof. unfold sval. cbn. destruct x as [|[|[|x]]]; cbn; try reflexivity; destruct k; reflexivity. Qed.

(* mutual link: after every assignment / allowed mutation on any trait of either object the two linked
   traits are equal, and the tables are unchanged (so this holds again after the next operation) *)
Lemma mutual_converges_step F n m va vb nts o :
  inv (MMutual n m) va vb ->
  (match o with
   | Assign x k _ => (x < 2)%nat /\ (k < 4)%nat
   | Mut x k mu => (x < 2)%nat /\ (k < 4)%nat /\ (forall l, replay_ok l mu)
   | _ => False end) ->
  let r := step (S (S F)) (st_of (MMutual n m) va vb nts) o in
  sval (ob_vals (snd r)) (0%nat, n) = sval (ob_vals (snd r)) (1%nat, m) /\
  exists va' vb', objs (fst r) = shape (MMutual n m) va' vb' /\ inv (MMutual n m) va' vb' /\
                  overflow (fst r) = false.
Proof.
  intros Hi Ho r.
  assert (post (MMutual n m) (MMutual n m) va vb o r) as (va' & vb' & Hs & Hi' & Hov & Hv & _).
  { destruct o; try contradiction.
    - destruct Ho. apply mutual_assign; auto.
    - destruct Ho as (? & ? & ?). apply mutual_mut; auto. }
  split; [|eauto].
  rewrite Hv. cbn [snap_of]. rewrite !sval2. destruct Hi' as (_ & _ & _ & He). exact He.
Qed.

(* removal of the link restores the pristine pool: objects that were never linked *)
Lemma removed_link_pristine F n m va vb nts :
  inv (MMutual n m) va vb ->
  exists va' vb', objs (fst (step (S (S F)) (st_of (MMutual n m) va vb nts) (Unsync 0%nat n 1%nat m true)))
                  = map fresh [va'; vb'] /\ ob_vals (snd (step (S (S F)) (st_of (MMutual n m) va vb nts) (Unsync 0%nat n 1%nat m true))) = [va'; vb'].
Proof.
  intros Hi. destruct (mutual_unsync F n m va vb nts Hi) as (va' & vb' & Hs & _ & _ & Hv & _).
  exists va', vb'. split; [exact Hs|exact Hv].
Qed.

Lemma chk_nil k b : chk k b = [] -> b = true.
Proof. destruct b; [reflexivity|discriminate]. Qed.

(* ---------- reading the clauses off  law_step = []  ---------- *)
Lemma val_eqb_eq a b : val_eqb a b = true -> a = b.
Proof.
  destruct a, b; cbn; try discriminate.
  - intros H. apply Z.eqb_eq in H. congruence.
  - intros H. apply zlist_eqb_eq in H. congruence.
Qed.
Lemma oval_eqb_eq a b : oval_eqb a b = true -> a = b.
Proof. destruct a, b; cbn; try discriminate; auto. intros H. apply val_eqb_eq in H. congruence. Qed.

Definition clause7 (ob : obs) : bool := forallb (forallb (fun c => c <=? 1)) (ob_cnt ob).

Lemma law_step_clauses E before o ob :
  law_step E before o ob = [] ->
  let E' := edges_after E o in
  let '(expected, target) := plain E before o in
  (* 1 *) forallb (fun e => negb (has_edge (snd e, fst e) E')
                           || negb (Bool.eqb (is_list_name (snd (fst e))) (is_list_name (snd (snd e))))
                           || is_any_name (snd (fst e)) || is_any_name (snd (snd e))
                           || (has_edge e E && has_edge (snd e, fst e) E
                               && negb (oval_eqb (sval before (fst e)) (sval before (snd e))))
                           || oval_eqb (sval (ob_vals ob) (fst e)) (sval (ob_vals ob) (snd e))) E' = true /\
  (* 4 *) forallb (fun y => has_node y (reach E' (origins o expected))
                            || negb (alive_in before (fst y) && alive_in (ob_vals ob) (fst y))
                            || (oval_eqb (sval (ob_vals ob) y) (sval before y) && (scnt (ob_cnt ob) y =? 0)))
                  (all_nodes before) = true /\
  (* 5 *) outcome_eqb (ob_out ob) expected = true /\
  (* 6 *) ob_logged ob = 0 /\
  (* 7 *) clause7 ob = true /\
  (* 8 *) match target with Some (x, v) => sval (ob_vals ob) x = Some v | None => True end.
Proof.
  unfold law_step. destruct (plain E before o) as [expected target]. intros H.
  repeat (apply app_eq_nil in H; let H1 := fresh "C" in destruct H as [H1 H]).
  apply chk_nil in C, C2, C3, C4, C5, H.
  repeat split; auto.
  - apply Z.eqb_eq; assumption.
  - destruct target as [[x v]|]; [|exact I]. apply oval_eqb_eq; assumption.
Qed.

Section ProtocolSteps.
  Variable allowed : mut -> Prop.
  Hypothesis allowed_replays : forall mu, allowed mu -> forall l, replay_ok l mu.

  (* every step of an accepted history satisfies the law for the links live at that step *)
  Theorem protocol_steps F h : forall md va vb nts,
    inv md va vb -> accepts allowed md h ->
    Forall (fun p => exists E before, law_step E before (fst p) (snd p) = [])
           (run (S (S F)) (st_of md va vb nts) h).
  Proof.
    induction h as [|o r IH]; intros md va vb nts Hi Ha; [constructor|].
    inversion Ha as [|md0 o0 md' r0 T Ha']; subst.
    pose proof (trans_post allowed allowed_replays F _ _ _ _ _ nts T Hi)
      as (va' & vb' & Hs & Hi' & Hov & Hv & Hlaw).
    cbn [run]. destruct (step (S (S F)) (st_of md va vb nts) o) as [st' ob] eqn:Hst.
    cbn [fst snd] in *. constructor; [cbn [fst snd]; eauto|].
    rewrite (state_eta _ _ _ _ Hs Hov). apply IH; assumption.
  Qed.

  Theorem protocol_one_notification F h md va vb nts :
    inv md va vb -> accepts allowed md h ->
    Forall (fun p => clause7 (snd p) = true /\ ob_logged (snd p) = 0)
           (run (S (S F)) (st_of md va vb nts) h).
  Proof.
    intros Hi Ha. eapply Forall_impl; [|apply protocol_steps; eassumption].
    intros [o ob] (E & before & Hl). cbn [fst snd] in *.
    pose proof (law_step_clauses _ _ _ _ Hl) as Hc. cbn zeta in Hc.
    destruct (plain E before o). destruct Hc as (_ & _ & _ & H6 & H7 & _). auto.
  Qed.
End ProtocolSteps.

(* ---------- one-way links ---------- *)
(* a value-changing assignment on the source reaches the target *)
Lemma oneway_source_assign F n m va vb nts v :
  inv (MOneway n m) va vb -> kind_ok n v = true -> nth_error va n <> Some v ->
  let r := step (S (S F)) (st_of (MOneway n m) va vb nts) (Assign 0%nat n v) in
  sval (ob_vals (snd r)) (0%nat, n) = Some v /\ sval (ob_vals (snd r)) (1%nat, m) = Some v.
Proof.
  intros Hi Hk Hne r.
  assert (n < 4)%nat as Hn by (destruct Hi as (_ & _ & Hl & _); exact Hl).
  destruct (oneway_assign F n m va vb nts 0%nat n v Hi ltac:(lia) Hn) as (va' & vb' & _ & _ & _ & _ & Hlaw).
  fold r in Hlaw. unfold law_step in Hlaw. cbn [edges_of snap_of plain edges_after] in Hlaw.
  rewrite Hk in Hlaw.
  repeat (apply app_eq_nil in Hlaw; let H1 := fresh "C" in destruct Hlaw as [H1 Hlaw]).
  apply chk_nil in C0, Hlaw. apply oval_eqb_eq in Hlaw. split; [exact Hlaw|].
  rewrite sval2 in C0. apply orb_prop in C0. destruct C0 as [C0|C0].
  - apply oval_eqb_eq in C0. contradiction.
  - unfold succs in C0. cbn [edges_of filter fst snd node_eqb key_eqb map] in C0.
    unfold node_eqb, key_eqb in C0. cbn [fst snd] in C0. rewrite !Nat.eqb_refl in C0.
    cbn [andb map snd forallb] in C0. rewrite andb_true_r in C0.
    (* the target's trait is of the source's kind, so it accepts v *)
    assert (is_any_name m = false /\ kind_ok m v = true) as [Ha Hkm].
    { destruct Hi as (_ & _ & Hl). clear - Hl Hk. names_cases n m Hl; destruct v; cbn in *; auto; discriminate. }
    rewrite Ha, Hkm in C0. cbn [negb orb] in C0. apply oval_eqb_eq in C0. exact C0.
Qed.
(* the reverse direction is inert: nothing done to object 1 reaches object 0 *)
Lemma oneway_reverse_inert F n m va vb nts o :
  inv (MOneway n m) va vb ->
  (match o with
   | Assign x k _ => x = 1%nat /\ (k < 4)%nat
   | Mut x k mu => x = 1%nat /\ (k < 4)%nat /\ (forall l, replay_ok l mu)
   | _ => False end) ->
  let r := step (S (S F)) (st_of (MOneway n m) va vb nts) o in
  forall j, (j < 4)%nat ->
    sval (ob_vals (snd r)) (0%nat, j) = nth_error va j /\ scnt (ob_cnt (snd r)) (0%nat, j) = 0.
Proof.
  intros Hi Ho r j Hj.
  assert (post (MOneway n m) (MOneway n m) va vb o r) as (va' & vb' & _ & Hi' & _ & Hv & Hlaw).
  { destruct o; try contradiction.
    - destruct Ho as [-> ?]. apply oneway_assign; auto.
    - destruct Ho as (-> & ? & ?). apply oneway_mut; auto. }
  pose proof (law_step_clauses _ _ _ _ Hlaw) as Hc. cbn zeta in Hc.
  destruct (plain (edges_of (MOneway n m)) (snap_of (MOneway n m) va vb) o) as [expected target] eqn:Hp.
  destruct Hc as (_ & C4 & _).
  rewrite forallb_forall in C4.
  specialize (C4 (0%nat, j)). 
  assert (In (0%nat, j) (all_nodes (snap_of (MOneway n m) va vb))) as Hin.
  { cbn. destruct j as [|[|[|[|j]]]]; try lia; auto 10. }
  specialize (C4 Hin). clear Hin.
  destruct Hi as (Ta & Tb & Hl). 
  assert (has_node (0%nat, j) (reach (edges_after (edges_of (MOneway n m)) o) (origins o expected)) = false) as Hr.
  { destruct o; try contradiction.
    - destruct Ho as [-> Hk]. cbn [edges_after edges_of]. names_cases n m Hl;
      destruct expected; cbn; try reflexivity; destruct n0 as [|[|[|[|n0]]]]; try lia; reflexivity.
    - destruct Ho as (-> & Hk & _). cbn [edges_after edges_of]. names_cases n m Hl;
      destruct expected; cbn; try reflexivity; destruct n0 as [|[|[|[|n0]]]]; try lia; reflexivity. }
  rewrite Hr in C4. cbn [orb] in C4.
  assert (alive_in (snap_of (MOneway n m) va vb) 0%nat && alive_in (ob_vals (snd r)) 0%nat = true) as Ha.
  { rewrite Hv. cbn [snap_of]. unfold alive_in. cbn.
    destruct Ta as (? & ? & ? & ? & ->). destruct Hi' as ((? & ? & ? & ? & ->) & _). reflexivity. }
  cbn [fst] in C4. rewrite Ha in C4. cbn [negb orb] in C4. apply andb_prop in C4. destruct C4 as [C4a C4b].
  apply oval_eqb_eq in C4a. apply Z.eqb_eq in C4b. split; [|exact C4b].
  rewrite C4a. cbn [snap_of]. apply sval2.
Qed.
