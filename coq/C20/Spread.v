(* C20 — convergence of ASSIGNMENTS for arbitrary pools and arbitrary link graphs (any number of
   objects, any tables: stars, chains, trees, cycles, aliases, one-way and mutual links, scalar and
   list traits): after `setattr(o, n, v)` every trait reachable from (o, n) along the live links
   holds v, provided the linked traits agreed before (which every earlier assignment re-established)
   and every reachable trait accepts v.  By induction over the propagation (fuel), with the lock
   invariant of Termination.v:  only v is ever written; a trait that changes during the call hands v
   to every partner that is not locked, and a partner locked by an enclosing call already holds v. *)
From Coq Require Import ZArith List Bool Arith Lia.
From TV Require Import Common.Harness C20.ListSem C20.Model C20.Termination.
Import ListNotations.

Definition node := (oid * name)%type.
Definition val (st : state) (x : node) : Model.val := get_val st (fst x) (snd x).
Definition locked (st : state) (x : node) : bool := lockedb st (fst x) (snd x).
Definition edge (st : state) (x y : node) : Prop :=
  exists ps, partners st (fst x) (snd x) = Some ps /\ In y ps.
Definition in_range (st : state) (x : node) : Prop :=
  (fst x < length (objs st))%nat /\ (snd x < length (o_vals (get_obj st (fst x))))%nat.

Lemma node_eq_dec (x y : node) : {x = y} + {x <> y}.
Proof. decide equality; apply Nat.eq_dec. Qed.

(* ---------- value equality ---------- *)
Lemma zlist_eqb_refl a : zlist_eqb a a = true.
Proof. induction a; cbn; auto. rewrite Z.eqb_refl. exact IHa. Qed.
Lemma zlist_eqb_eq a : forall b, zlist_eqb a b = true -> a = b.
Proof.
  induction a as [|x a IH]; destruct b as [|y b]; cbn; try discriminate; auto.
  intros H. apply andb_prop in H. destruct H as [H1 H2]. apply Z.eqb_eq in H1. apply IH in H2. congruence.
Qed.
Lemma val_eqb_true a b : val_eqb a b = true -> a = b.
Proof.
  destruct a, b; cbn; try discriminate.
  - intros H. apply Z.eqb_eq in H. congruence.
  - intros H. apply zlist_eqb_eq in H. congruence.
Qed.
Lemma val_eqb_refl a : val_eqb a a = true.
Proof. destruct a; cbn; [apply Z.eqb_refl|apply zlist_eqb_refl]. Qed.
Lemma val_dec (a b : Model.val) : a = b \/ a <> b.
Proof.
  destruct (val_eqb a b) eqn:E; [left; apply val_eqb_true; exact E|].
  right. intros ->. rewrite val_eqb_refl in E. discriminate.
Qed.

(* ---------- reading values through the state transformers ---------- *)
Lemma get_val_upd_keep st o f p m :
  (forall ob, o_vals (f ob) = o_vals ob) -> get_val (upd_obj st o f) p m = get_val st p m.
Proof.
  intros Hf. unfold get_val.
  destruct (Nat.eq_dec o p) as [<-|Hne].
  - destruct (Nat.lt_ge_cases o (length (objs st))) as [Hlt|Hge].
    + rewrite get_obj_upd_same by exact Hlt. rewrite Hf. reflexivity.
    + unfold upd_obj, get_obj. cbn [objs]. rewrite update_oob by exact Hge. reflexivity.
  - rewrite get_obj_upd_other by exact Hne. reflexivity.
Qed.
Lemma val_lock st o n x : val (lock st o n) x = val st x.
Proof. unfold val, lock. apply get_val_upd_keep. reflexivity. Qed.
Lemma val_unlock st o n x : val (unlock st o n) x = val st x.
Proof. unfold val, unlock. apply get_val_upd_keep. reflexivity. Qed.
Lemma val_add_note st o n x : val (add_note st o n) x = val st x.
Proof. reflexivity. Qed.

Lemma val_set_same st o n v : in_range st (o, n) -> val (set_val st o n v) (o, n) = v.
Proof.
  intros [Ho Hn]. cbn [fst snd] in *. unfold val, get_val, set_val. cbn [fst snd].
  rewrite get_obj_upd_same by exact Ho. cbn [o_vals]. rewrite nth_update_same by exact Hn. reflexivity.
Qed.
Lemma val_set_other st o n v x : x <> (o, n) -> val (set_val st o n v) x = val st x.
Proof.
  intros Hne. destruct x as [p m]. unfold val, get_val, set_val. cbn [fst snd].
  destruct (Nat.eq_dec o p) as [<-|Hop].
  - destruct (Nat.lt_ge_cases o (length (objs st))) as [Hlt|Hge].
    + rewrite get_obj_upd_same by exact Hlt. cbn [o_vals].
      rewrite nth_update_other; [reflexivity|]. intros ->. apply Hne. reflexivity.
    + unfold upd_obj, get_obj. cbn [objs]. rewrite update_oob by exact Hge. reflexivity.
  - rewrite get_obj_upd_other by exact Hop. reflexivity.
Qed.

(* ---------- tables and locks through the state transformers ---------- *)
Lemma partners_lock st o n p m : partners (lock st o n) p m = partners st p m.
Proof.
  unfold partners, lock.
  destruct (Nat.eq_dec o p) as [<-|Hne].
  - destruct (Nat.lt_ge_cases o (length (objs st))) as [Hlt|Hge].
    + rewrite get_obj_upd_same by exact Hlt. reflexivity.
    + unfold upd_obj, get_obj. cbn [objs]. rewrite update_oob by exact Hge. reflexivity.
  - rewrite get_obj_upd_other by exact Hne. reflexivity.
Qed.
Lemma has_add1 n m l : has m (add1 n l) = true -> m = n \/ has m l = true.
Proof.
  unfold add1. destruct (has n l); [auto|]. unfold has. rewrite existsb_app. cbn.
  intros H. apply orb_prop in H. destruct H as [H|H]; [auto|].
  rewrite orb_false_r in H. apply Nat.eqb_eq in H. auto.
Qed.
Lemma locked_lock st o n x : locked (lock st o n) x = true -> x = (o, n) \/ locked st x = true.
Proof.
  destruct x as [p m]. unfold locked, lockedb, lock. cbn [fst snd].
  destruct (Nat.eq_dec o p) as [<-|Hne].
  - destruct (Nat.lt_ge_cases o (length (objs st))) as [Hlt|Hge].
    + rewrite get_obj_upd_same by exact Hlt. cbn [o_locked]. intros H. apply has_add1 in H.
      destruct H as [->|H]; auto.
    + unfold upd_obj, get_obj. cbn [objs]. rewrite update_oob by exact Hge. auto.
  - rewrite get_obj_upd_other by exact Hne. auto.
Qed.

Lemma edge_frame s t x y : same_frame s t -> edge s x y -> edge t x y.
Proof. intros F (ps & Hp & Hin). exists ps. rewrite <- (partners_frame s t _ _ F). auto. Qed.
Lemma in_range_frame s t x : same_frame s t -> in_range s x -> in_range t x.
Proof.
  intros [L F] [H1 H2]. destruct (F (fst x)) as (_ & _ & _ & _ & _ & H6). split; [lia|]. rewrite <- H6. exact H2.
Qed.

(* ---------- well-formed tables (for the value v being assigned) ---------- *)
Record wf (st : state) (v : Model.val) : Prop := mkWf {
  wf_attached : forall x ps, partners st (fst x) (snd x) = Some ps ->
                             has (snd x) (o_att_s (get_obj st (fst x))) = true;
  (* a partner of a trait that accepts v accepts v too (links join traits of one kind) and exists *)
  wf_target : forall x y, edge st x y -> kind_ok (snd x) v = true -> kind_ok (snd y) v = true /\ in_range st y
}.

Lemma wf_frame s t v : same_frame s t -> wf s v -> wf t v.
Proof.
  intros F [W1 W2]. pose proof F as [L Fo]. split.
  - intros x ps Hp. destruct (Fo (fst x)) as (_ & _ & _ & H4 & _). rewrite <- H4.
    apply (W1 x ps). rewrite (partners_frame s t _ _ F). exact Hp.
  - intros x y He Hkx. assert (edge s x y) as He'.
    { destruct He as (ps & Hp & Hin). exists ps. rewrite (partners_frame s t _ _ F). auto. }
    destruct (W2 x y He' Hkx) as [Hk Hr]. split; [exact Hk|eapply in_range_frame; eassumption].
Qed.

Lemma same_tables_lock st o n :
  length (objs st) = length (objs (lock st o n)) /\
  forall p, o_info (get_obj st p) = o_info (get_obj (lock st o n) p) /\
            o_att_s (get_obj st p) = o_att_s (get_obj (lock st o n) p) /\
            length (o_vals (get_obj st p)) = length (o_vals (get_obj (lock st o n) p)).
Proof.
  split; [unfold lock; rewrite upd_obj_length; reflexivity|]. intros p. unfold lock.
  destruct (Nat.eq_dec o p) as [<-|Hne].
  - destruct (Nat.lt_ge_cases o (length (objs st))) as [Hlt|Hge].
    + rewrite get_obj_upd_same by exact Hlt. repeat split.
    + unfold upd_obj, get_obj. cbn [objs]. rewrite update_oob by exact Hge. repeat split.
  - rewrite get_obj_upd_other by exact Hne. repeat split.
Qed.

Lemma wf_lock st o n v : wf st v -> wf (lock st o n) v.
Proof.
  intros [W1 W2]. destruct (same_tables_lock st o n) as [L T]. split.
  - intros x ps Hp. destruct (T (fst x)) as (_ & H2 & _). rewrite <- H2.
    apply (W1 x ps). rewrite <- (partners_lock st o n). exact Hp.
  - intros x y (ps & Hp & Hin) Hkx. rewrite partners_lock in Hp.
    destruct (W2 x y (ex_intro _ ps (conj Hp Hin)) Hkx) as [Hk [R1 R2]]. split; [exact Hk|].
    destruct (T (fst y)) as (_ & _ & H3). split; [lia|]. rewrite <- H3. exact R2.
Qed.

(* ---------- the propagation lemma ---------- *)
Definition spreads (v : Model.val) (s s' : state) (lk : state) : Prop :=
  (forall x, val s' x = val s x \/ val s' x = v) /\
  (forall x y, edge lk x y -> val s x <> v -> val s' x = v -> locked lk y = true \/ val s' y = v).

Section Spread.
  Variable v : Model.val.

  (* one partner list, given the statement for the smaller fuel *)
  Lemma fold_spread (f : nat)
    (IH : forall st o n,
        wf st v -> overflow st = false -> lockedb st o n = false -> (Phi st < f)%nat ->
        kind_ok n v = true -> in_range st (o, n) ->
        val (fst (assign f st o n v)) (o, n) = v /\ spreads v st (fst (assign f st o n v)) st) :
    forall (lk : state), wf lk v -> (Phi lk < f)%nat ->
    forall todo s,
      overflow s = false -> same_frame lk s ->
      (forall q, In q todo -> kind_ok (snd q) v = true /\ in_range lk q) ->
      let s' := fold_left (fun s (q : oid * name) => let '(p, pn) := q in
                             if lockedb s p pn then s else fst (assign f s p pn v)) todo s in
      overflow s' = false /\ same_frame lk s' /\ spreads v s s' lk /\
      (forall q, In q todo -> locked lk q = true \/ val s' q = v).
  Proof.
    intros lk Wlk Plk. induction todo as [|[p pn] r IHr]; intros s Hov F Hq; cbn [fold_left].
    - split; [exact Hov|]. split; [exact F|]. split; [|intros q []].
      split; [auto|]. intros x y _ Hne He. contradiction.
    - assert (kind_ok pn v = true /\ in_range lk (p, pn)) as [Hk Hr] by (apply (Hq (p, pn)); left; reflexivity).
      assert (forall q, In q r -> kind_ok (snd q) v = true /\ in_range lk q) as Hq' by (intros q Hin; apply Hq; right; exact Hin).
      destruct (lockedb s p pn) eqn:Hl.
      + (* the partner is propagating: skipped *)
        destruct (IHr s Hov F Hq') as (O' & F' & [S3 S5] & S4).
        split; [exact O'|]. split; [exact F'|]. split; [split; assumption|].
        intros q [<-|Hin]; [|apply S4; exact Hin].
        left. unfold locked. cbn [fst snd]. rewrite (lockedb_frame lk s p pn F). exact Hl.
      + set (s1 := fst (assign f s p pn v)).
        assert (wf s v) as Ws by (eapply wf_frame; eassumption).
        assert (Phi s < f)%nat as Ps by (rewrite <- (Phi_frame _ _ F); exact Plk).
        assert (in_range s (p, pn)) as Rs by (eapply in_range_frame; eassumption).
        destruct (assign_terminates f s p pn v Hov Hl Ps) as [O1 F1]. fold s1 in O1, F1.
        destruct (IH s p pn Ws Hov Hl Ps Hk Rs) as [V1 [T3 T5]]. fold s1 in V1, T3, T5.
        assert (same_frame lk s1) as Flk1 by (eapply same_frame_trans; eassumption).
        destruct (IHr s1 O1 Flk1 Hq') as (O' & F' & [S3 S5] & S4).
        split; [exact O'|]. split; [exact F'|]. split; [split|].
        * intros x. destruct (S3 x) as [E|E]; [|right; exact E]. rewrite E. apply T3.
        * intros x y He Hne Hv.
          destruct (val_dec (val s1 x) v) as [E1|E1].
          -- assert (edge s x y) as He' by (eapply edge_frame; eassumption).
             destruct (T5 x y He' Hne E1) as [L|E2].
             ++ left. unfold locked in *. rewrite (lockedb_frame lk s _ _ F). exact L.
             ++ right. destruct (S3 y) as [E|E]; [rewrite E; exact E2|exact E].
          -- apply (S5 x y He E1 Hv).
        * intros q [<-|Hin]; [|apply S4; exact Hin].
          right. destruct (S3 (p, pn)) as [E|E]; [rewrite E; exact V1|exact E].
  Qed.

  Theorem assign_spread : forall f st o n,
    wf st v -> overflow st = false -> lockedb st o n = false -> (Phi st < f)%nat ->
    kind_ok n v = true -> in_range st (o, n) ->
    val (fst (assign f st o n v)) (o, n) = v /\ spreads v st (fst (assign f st o n v)) st.
  Proof.
    induction f as [|f IH]; intros st o n W Hov Hl HPhi Hk Hr; [lia|].
    cbn [assign]. rewrite Hk. cbn [negb].
    destruct (val_eqb (get_val st o n) v) eqn:E; cbn [fst].
    { (* no change *)
      apply val_eqb_true in E.
      split; [apply val_set_same; exact Hr|]. split.
      - intros x. destruct (node_eq_dec x (o, n)) as [->|Hne]; [right; apply val_set_same; exact Hr|].
        left. apply val_set_other. exact Hne.
      - intros x y _ Hne Hv. destruct (node_eq_dec x (o, n)) as [->|Hx].
        + exfalso. apply Hne. exact E.
        + rewrite val_set_other in Hv by exact Hx. contradiction. }
    set (st2 := add_note (set_val st o n v) o n).
    assert (same_frame st st2) as F2 by (eapply same_frame_trans; [apply set_val_frame|apply add_note_frame]).
    assert (val st2 (o, n) = v) as V2 by (unfold st2; rewrite val_add_note; apply val_set_same; exact Hr).
    assert (forall x, x <> (o, n) -> val st2 x = val st x) as V2o
      by (intros x Hx; unfold st2; rewrite val_add_note; apply val_set_other; exact Hx).
    assert (val st (o, n) <> v) as Hchg.
    { intros Ev. unfold val in Ev. cbn [fst snd] in Ev. rewrite Ev, val_eqb_refl in E. discriminate. }
    (* the result when the handler does nothing *)
    assert (forall (noedge : forall y, ~ edge st (o, n) y),
               val st2 (o, n) = v /\ spreads v st st2 st) as Hquiet.
    { intros noedge. split; [exact V2|]. split.
      - intros x. destruct (node_eq_dec x (o, n)) as [->|Hx]; [right; exact V2|left; apply V2o; exact Hx].
      - intros x y He Hne Hv. destruct (node_eq_dec x (o, n)) as [->|Hx].
        + exfalso. eapply noedge. exact He.
        + rewrite V2o in Hv by exact Hx. contradiction. }
    destruct (has n (o_att_s (get_obj st2 o))) eqn:Hatt; cbn [fst].
    2:{ apply Hquiet. intros y (ps & Hp & _).
        pose proof (wf_attached _ _ W (o, n) ps Hp) as Ha. cbn [fst snd] in Ha.
        destruct F2 as [_ Fo]. destruct (Fo o) as (_ & _ & _ & H4 & _). rewrite H4 in Ha. congruence. }
    destruct (partners st2 o n) as [ps|] eqn:Hps; cbn [fst].
    2:{ apply Hquiet. intros y (ps & Hp & _). cbn [fst snd] in Hp. rewrite (partners_frame _ _ o n F2) in Hp. congruence. }
    assert (lockedb st2 o n = false) as Hl2 by (rewrite <- (lockedb_frame _ _ o n F2); exact Hl).
    set (st3 := lock st2 o n).
    assert (Phi st3 < f)%nat as HPhi3.
    { pose proof (Phi_lock_lt st2 o n Hl2 ltac:(rewrite Hatt; reflexivity)). rewrite <- (Phi_frame _ _ F2) in H. unfold st3. lia. }
    assert (wf st3 v) as W3 by (apply wf_lock; eapply wf_frame; eassumption).
    assert (forall q, In q ps -> kind_ok (snd q) v = true /\ in_range st3 q) as Hq.
    { intros q Hin. assert (edge st (o, n) q) as He.
      { exists ps. cbn [fst snd]. rewrite (partners_frame _ _ o n F2). auto. }
      destruct (wf_target _ _ W _ _ He Hk) as [Hkq Hrq]. split; [exact Hkq|].
      destruct (same_tables_lock st2 o n) as [L T]. destruct (in_range_frame _ _ q F2 Hrq) as [R1 R2].
      destruct (T (fst q)) as (_ & _ & H3). split; [fold st3 in L; lia|]. fold st3 in H3. rewrite <- H3. exact R2. }
    destruct (fold_spread f IH st3 W3 HPhi3 ps st3 Hov (same_frame_refl st3) Hq) as (O4 & F4 & [S3 S5] & S4).
    match goal with |- context [fold_left ?g ps st3] => set (st4 := fold_left g ps st3) in * end.
    assert (forall x, val st3 x = val st2 x) as V3 by (intros x; apply val_lock).
    assert (val st4 (o, n) = v) as V4.
    { destruct (S3 (o, n)) as [E4|E4]; [rewrite E4, V3; exact V2|exact E4]. }
    (* a partner locked in st3 is the origin itself or was locked before *)
    assert (forall y, locked st3 y = true -> locked st y = true \/ val st4 y = v) as Hlk.
    { intros y Ly. apply locked_lock in Ly. destruct Ly as [->|Ly]; [right; exact V4|].
      left. unfold locked in *. rewrite (lockedb_frame _ _ _ _ F2). exact Ly. }
    split; [rewrite val_unlock; exact V4|]. split.
    - intros x. rewrite val_unlock. destruct (S3 x) as [E4|E4]; [|right; exact E4].
      rewrite E4, V3. destruct (node_eq_dec x (o, n)) as [->|Hx]; [right; exact V2|left; apply V2o; exact Hx].
    - intros x y He Hne Hv. rewrite val_unlock in *.
      assert (edge st3 x y) as He3.
      { destruct He as (qs & Hp & Hin). exists qs. unfold st3. rewrite partners_lock.
        rewrite <- (partners_frame _ _ _ _ F2). auto. }
      destruct (node_eq_dec x (o, n)) as [->|Hx].
      + (* the origin hands v to every partner *)
        assert (In y ps) as Hin.
        { destruct He as (qs & Hp & Hin). cbn [fst snd] in Hp. rewrite (partners_frame _ _ o n F2) in Hp.
          rewrite Hps in Hp. injection Hp as <-. exact Hin. }
        destruct (S4 y Hin) as [L|E4]; [apply Hlk; exact L|right; exact E4].
      + assert (val st3 x <> v) as Hne3 by (rewrite V3, V2o by exact Hx; exact Hne).
        destruct (S5 x y He3 Hne3 Hv) as [L|E4]; [apply Hlk; exact L|right; exact E4].
  Qed.
End Spread.

(* ---------- convergence ---------- *)
Inductive reach (st : state) (x : node) : node -> Prop :=
| reach_refl : reach st x x
| reach_step y z : reach st x y -> edge st y z -> reach st x z.

Definition consistent (st : state) : Prop := forall x y, edge st x y -> val st x = val st y.
Definition no_locks (st : state) : Prop := forall x, locked st x = false.

(* agreement is only needed on the part of the graph the assignment can reach *)
Definition consistent_from (st : state) (x : node) : Prop :=
  forall y z, reach st x y -> edge st y z -> val st y = val st z.

Theorem assign_converges_from v f st o n :
  wf st v -> consistent_from st (o, n) -> no_locks st -> overflow st = false -> (Phi st < f)%nat ->
  kind_ok n v = true -> in_range st (o, n) ->
  let st' := fst (assign f st o n v) in
  overflow st' = false /\ same_frame st st' /\
  (forall y, reach st (o, n) y -> val st' y = v) /\
  (forall y, ~ reach st (o, n) y -> val st' y = val st y \/ val st' y = v).
Proof.
  intros W C NL Hov HPhi Hk Hr st'.
  assert (lockedb st o n = false) as Hl by (apply (NL (o, n))).
  destruct (assign_terminates f st o n v Hov Hl HPhi) as [O' F']. fold st' in O', F'.
  destruct (assign_spread v f st o n W Hov Hl HPhi Hk Hr) as [V [S3 S5]]. fold st' in V, S3, S5.
  split; [exact O'|]. split; [exact F'|]. split; [|intros y _; apply S3].
  assert (forall y, reach st (o, n) y -> val st y = val st (o, n)) as Hsame.
  { intros y R. induction R as [|y z R IHR He]; [reflexivity|]. rewrite <- (C y z R He). exact IHR. }
  intros y R. induction R as [|y z R IHR He]; [exact V|].
  destruct (val_dec (val st y) v) as [E|E].
  - (* everything reachable already held v *)
    destruct (S3 z) as [E'|E']; [|exact E']. rewrite E'. rewrite <- (C y z R He). exact E.
  - destruct (S5 y z He E IHR) as [L|E']; [|exact E']. rewrite (NL z) in L. discriminate.
Qed.

Theorem assign_converges v f st o n :
  wf st v -> consistent st -> no_locks st -> overflow st = false -> (Phi st < f)%nat ->
  kind_ok n v = true -> in_range st (o, n) ->
  let st' := fst (assign f st o n v) in
  overflow st' = false /\ same_frame st st' /\
  (forall y, reach st (o, n) y -> val st' y = v) /\
  (forall y, ~ reach st (o, n) y -> val st' y = val st y \/ val st' y = v).
Proof.
  intros W C. apply assign_converges_from; [exact W|]. intros y z _ He. apply C. exact He.
Qed.

(* ... and the linked traits agree again afterwards, wherever the tables are symmetric or not *)
Corollary assign_restores_consistency v f st o n :
  wf st v -> consistent st -> no_locks st -> overflow st = false -> (Phi st < f)%nat ->
  kind_ok n v = true -> in_range st (o, n) ->
  forall x y, reach st (o, n) x -> edge st x y ->
    val (fst (assign f st o n v)) x = val (fst (assign f st o n v)) y.
Proof.
  intros W C NL Hov HPhi Hk Hr x y R He.
  destruct (assign_converges v f st o n W C NL Hov HPhi Hk Hr) as (_ & _ & Hall & _).
  rewrite (Hall x R). symmetry. apply Hall. eapply reach_step; eassumption.
Qed.

(* ---------- the hypotheses are decidable: boolean checkers, sound ---------- *)
Definition wfb (st : state) (v : Model.val) : bool :=
  forallb (fun o =>
    let ob := get_obj st o in
    forallb (fun e =>
      has (fst e) (o_att_s ob)
      && (negb (kind_ok (fst e) v)
          || forallb (fun y => kind_ok (snd y) v
                               && Nat.ltb (fst y) (length (objs st))
                               && Nat.ltb (snd y) (length (o_vals (get_obj st (fst y))))) (snd e)))
      (o_info ob))
    (seq 0 (length (objs st))).

Definition consistentb (st : state) : bool :=
  forallb (fun o =>
    forallb (fun e => forallb (fun y => val_eqb (val st (o, fst e)) (val st y)) (snd e))
            (o_info (get_obj st o)))
    (seq 0 (length (objs st))).

Definition no_locksb (st : state) : bool :=
  forallb (fun ob => match o_locked ob with [] => true | _ => false end) (objs st).

Lemma assoc_In {A} k (a : A) l : assoc k l = Some a -> In (k, a) l.
Proof.
  induction l as [|[k' a'] l IH]; cbn; [discriminate|].
  destruct (Nat.eqb k k') eqn:E.
  - intros [= <-]. apply Nat.eqb_eq in E. subst. left. reflexivity.
  - intros H. right. apply IH. exact H.
Qed.

Lemma partners_in_range st o n ps : partners st o n = Some ps -> (o < length (objs st))%nat.
Proof.
  unfold partners. intros H. destruct (Nat.lt_ge_cases o (length (objs st))) as [Hlt|Hge]; [exact Hlt|].
  rewrite get_obj_oob in H by exact Hge. discriminate.
Qed.

Lemma wfb_sound st v : wfb st v = true -> wf st v.
Proof.
  intros H. unfold wfb in H. rewrite forallb_forall in H.
  assert (forall o n ps, partners st o n = Some ps ->
            has n (o_att_s (get_obj st o)) = true /\
            (kind_ok n v = true -> forall y, In y ps -> kind_ok (snd y) v = true /\ in_range st y)) as Hall.
  { intros o n ps Hp. pose proof (partners_in_range _ _ _ _ Hp) as Ho.
    specialize (H o ltac:(apply in_seq; lia)). cbn zeta in H. rewrite forallb_forall in H.
    specialize (H (n, ps) (assoc_In _ _ _ Hp)). cbn [fst snd] in H.
    apply andb_prop in H. destruct H as [H1 H2]. split; [exact H1|]. intros Hkn.
    rewrite Hkn in H2. cbn [negb orb] in H2.
    rewrite forallb_forall in H2. intros y Hy. specialize (H2 y Hy).
    apply andb_prop in H2. destruct H2 as [H2 H4]. apply andb_prop in H2. destruct H2 as [H2 H3].
    apply Nat.ltb_lt in H3, H4. split; [exact H2|split; assumption]. }
  split.
  - intros x ps Hp. apply (Hall _ _ _ Hp).
  - intros x y (ps & Hp & Hin) Hkx. apply (proj2 (Hall _ _ _ Hp) Hkx y Hin).
Qed.

Lemma consistentb_sound st : consistentb st = true -> consistent st.
Proof.
  intros H x y (ps & Hp & Hin). unfold consistentb in H. rewrite forallb_forall in H.
  pose proof (partners_in_range _ _ _ _ Hp) as Ho.
  specialize (H (fst x) ltac:(apply in_seq; lia)). rewrite forallb_forall in H.
  specialize (H (snd x, ps) (assoc_In _ _ _ Hp)). cbn [fst snd] in H. rewrite forallb_forall in H.
  specialize (H y Hin). apply val_eqb_true in H. destruct x. exact H.
Qed.

Lemma no_locksb_sound st : no_locksb st = true -> no_locks st.
Proof.
  intros H [o n]. unfold no_locksb in H. rewrite forallb_forall in H.
  unfold locked, lockedb. cbn [fst snd].
  destruct (Nat.lt_ge_cases o (length (objs st))) as [Hlt|Hge].
  - specialize (H (get_obj st o) ltac:(apply nth_In; exact Hlt)).
    destruct (o_locked (get_obj st o)); [reflexivity|discriminate].
  - rewrite get_obj_oob by exact Hge. reflexivity.
Qed.

(* the computable form of the convergence theorem *)
Theorem assign_converges_checked v f st o n :
  wfb st v = true -> consistentb st = true -> no_locksb st = true -> overflow st = false ->
  (Phi st < f)%nat -> kind_ok n v = true -> in_range st (o, n) ->
  let st' := fst (assign f st o n v) in
  overflow st' = false /\ same_frame st st' /\
  (forall y, reach st (o, n) y -> val st' y = v) /\
  (forall y, ~ reach st (o, n) y -> val st' y = val st y \/ val st' y = v).
Proof.
  intros W C NL. apply assign_converges; [apply wfb_sound|apply consistentb_sound|apply no_locksb_sound]; assumption.
Qed.

(* ---------- only reachable traits are touched ---------- *)
Lemma reach_frame s t x y : same_frame s t -> reach s x y -> reach t x y.
Proof. intros F R. induction R; [constructor|]. eapply reach_step; [eassumption|eapply edge_frame; eassumption]. Qed.
Lemma same_frame_sym s t : same_frame s t -> same_frame t s.
Proof.
  intros [L F]. split; [auto|]. intros o. destruct (F o) as (a1 & a2 & a3 & a4 & a5 & a6). repeat split; auto.
Qed.
Lemma reach_partners s t x y :
  (forall p m, partners s p m = partners t p m) -> reach s x y -> reach t x y.
Proof.
  intros H R. induction R as [|y z R IHR (ps & Hp & Hin)]; [constructor|].
  eapply reach_step; [exact IHR|]. exists ps. rewrite <- H. auto.
Qed.
Lemma reach_trans st x y z : reach st x y -> reach st y z -> reach st x z.
Proof. intros R1 R2. induction R2; [exact R1|]. eapply reach_step; eassumption. Qed.

Theorem assign_touches_only_reachable v : forall f st o n x,
  overflow st = false -> lockedb st o n = false -> (Phi st < f)%nat ->
  val (fst (assign f st o n v)) x <> val st x -> reach st (o, n) x.
Proof.
  induction f as [|f IH]; intros st o n x Hov Hl HPhi Hchg; [lia|].
  cbn [assign] in Hchg.
  destruct (negb (kind_ok n v)); [exfalso; apply Hchg; reflexivity|].
  assert (forall s, val s x <> val st x -> (forall y, y <> (o, n) -> val s y = val st y) -> reach st (o, n) x) as Hone.
  { intros s Hne Hoth. destruct (node_eq_dec x (o, n)) as [->|Hx]; [constructor|]. exfalso. apply Hne. apply Hoth. exact Hx. }
  destruct (val_eqb (get_val st o n) v); cbn [fst] in Hchg.
  { eapply Hone; [exact Hchg|]. intros y Hy. apply val_set_other. exact Hy. }
  set (st2 := add_note (set_val st o n v) o n) in *.
  assert (same_frame st st2) as F2 by (eapply same_frame_trans; [apply set_val_frame|apply add_note_frame]).
  assert (forall y, y <> (o, n) -> val st2 y = val st y) as V2o
    by (intros y Hy; unfold st2; rewrite val_add_note; apply val_set_other; exact Hy).
  destruct (has n (o_att_s (get_obj st2 o))) eqn:Hatt; cbn [fst] in Hchg; [|eapply Hone; eassumption].
  destruct (partners st2 o n) as [ps|] eqn:Hps; cbn [fst] in Hchg; [|eapply Hone; eassumption].
  assert (lockedb st2 o n = false) as Hl2 by (rewrite <- (lockedb_frame _ _ o n F2); exact Hl).
  set (st3 := lock st2 o n) in *.
  assert (Phi st3 < f)%nat as HPhi3.
  { pose proof (Phi_lock_lt st2 o n Hl2 ltac:(rewrite Hatt; reflexivity)). rewrite <- (Phi_frame _ _ F2) in H. unfold st3. lia. }
  rewrite val_unlock in Hchg.
  (* walk the partner list *)
  assert (forall todo s, overflow s = false -> same_frame st3 s -> (forall q, In q todo -> In q ps) ->
            let s' := fold_left (fun s (q : oid * name) => let '(p, pn) := q in
                                   if lockedb s p pn then s else fst (assign f s p pn v)) todo s in
            overflow s' = false /\ same_frame st3 s' /\
            (val s' x <> val s x -> reach st (o, n) x)) as Hfold.
  { induction todo as [|[p pn] r IHr]; intros s Hs Fs Hsub; cbn [fold_left].
    - split; [exact Hs|]. split; [exact Fs|]. intros H. exfalso. apply H. reflexivity.
    - assert (forall q, In q r -> In q ps) as Hsub' by (intros q Hq; apply Hsub; right; exact Hq).
      destruct (lockedb s p pn) eqn:Hlp; [apply IHr; assumption|].
      assert (Phi s < f)%nat as Ps by (rewrite <- (Phi_frame _ _ Fs); exact HPhi3).
      destruct (assign_terminates f s p pn v Hs Hlp Ps) as [O1 F1].
      set (s1 := fst (assign f s p pn v)) in *.
      destruct (IHr s1 O1 (same_frame_trans _ _ _ Fs F1) Hsub') as (O' & F' & Hr).
      split; [exact O'|]. split; [exact F'|]. intros Hne.
      destruct (val_dec (val s1 x) (val s x)) as [E|E].
      + apply Hr. rewrite E. exact Hne.
      + (* changed inside the call on (p, pn): reachable from it, and (p, pn) is a partner of the origin *)
        pose proof (IH s p pn x Hs Hlp Ps E) as R.
        assert (edge st (o, n) (p, pn)) as He.
        { exists ps. cbn [fst snd]. rewrite (partners_frame _ _ o n F2). split; [exact Hps|].
          apply Hsub. left. reflexivity. }
        eapply reach_trans; [eapply reach_step; [constructor|exact He]|].
        assert (forall p0 m0, partners s p0 m0 = partners st p0 m0) as Hpart.
        { intros p0 m0. rewrite <- (partners_frame _ _ p0 m0 Fs). unfold st3. rewrite partners_lock.
          symmetry. apply (partners_frame _ _ p0 m0 F2). }
        exact (reach_partners _ _ _ _ Hpart R). }
  destruct (Hfold ps st3 Hov (same_frame_refl st3) (fun q H => H)) as (_ & _ & Hr).
  match type of Hchg with val ?s4 x <> _ => destruct (val_dec (val s4 x) (val st3 x)) as [E|E] end.
  - rewrite E in Hchg. unfold st3 in Hchg. rewrite val_lock in Hchg.
    eapply Hone; [exact Hchg|exact V2o].
  - apply Hr. exact E.
Qed.

(* ---------- mutual link graphs: every history of assignments keeps all linked traits equal ---------- *)
Definition symmetric (st : state) : Prop := forall x y, edge st x y -> edge st y x.

Lemma reach_sym st x y : symmetric st -> reach st x y -> reach st y x.
Proof.
  intros Sy R. induction R as [|y z R IHR He]; [constructor|].
  eapply reach_trans; [eapply reach_step; [constructor|apply Sy; exact He]|exact IHR].
Qed.

Theorem assign_preserves_consistency v f st o n :
  wf st v -> symmetric st -> consistent st -> no_locks st -> overflow st = false -> (Phi st < f)%nat ->
  kind_ok n v = true -> in_range st (o, n) ->
  consistent (fst (assign f st o n v)).
Proof.
  intros W Sy C NL Hov HPhi Hk Hr x y He'.
  assert (lockedb st o n = false) as Hl by (apply (NL (o, n))).
  destruct (assign_converges v f st o n W C NL Hov HPhi Hk Hr) as (_ & F' & Hall & _).
  assert (edge st x y) as He by (eapply edge_frame; [apply same_frame_sym; exact F'|exact He']).
  assert (forall z, ~ reach st (o, n) z -> val (fst (assign f st o n v)) z = val st z) as Hkeep.
  { intros z Hnr. destruct (val_dec (val (fst (assign f st o n v)) z) (val st z)) as [E|E]; [exact E|].
    exfalso. apply Hnr. eapply assign_touches_only_reachable; eassumption. }
  (* reachability from the origin is decided by excluded middle on the finite walk?  no: by cases on x *)
  destruct (val_dec (val (fst (assign f st o n v)) x) (val st x)) as [Ex|Ex];
  destruct (val_dec (val (fst (assign f st o n v)) y) (val st y)) as [Ey|Ey].
  - rewrite Ex, Ey. apply C. exact He.
  - (* y changed: reachable; then so is x (symmetry) *)
    pose proof (assign_touches_only_reachable v f st o n y Hov Hl HPhi Ey) as Ry.
    assert (reach st (o, n) x) as Rx by (eapply reach_step; [exact Ry|apply Sy; exact He]).
    rewrite (Hall x Rx), (Hall y Ry). reflexivity.
  - pose proof (assign_touches_only_reachable v f st o n x Hov Hl HPhi Ex) as Rx.
    assert (reach st (o, n) y) as Ry by (eapply reach_step; eassumption).
    rewrite (Hall x Rx), (Hall y Ry). reflexivity.
  - pose proof (assign_touches_only_reachable v f st o n x Hov Hl HPhi Ex) as Rx.
    assert (reach st (o, n) y) as Ry by (eapply reach_step; eassumption).
    rewrite (Hall x Rx), (Hall y Ry). reflexivity.
Qed.

(* the hypotheses themselves survive an assignment (they speak about tables, locks, sizes) *)
Lemma symmetric_frame s t : same_frame s t -> symmetric s -> symmetric t.
Proof.
  intros F Sy x y He. eapply edge_frame; [exact F|]. apply Sy. eapply edge_frame; [apply same_frame_sym; exact F|exact He].
Qed.
Lemma no_locks_frame s t : same_frame s t -> no_locks s -> no_locks t.
Proof. intros F NL x. unfold locked. rewrite <- (lockedb_frame s t _ _ F). apply NL. Qed.

Lemma clear_notes_frame st : same_frame st (clear_notes st).
Proof. split; [reflexivity|intros; apply frame_ob_refl]. Qed.
Lemma val_clear_notes st x : val (clear_notes st) x = val st x.
Proof. reflexivity. Qed.

(* a history of assignments (through Model.step) on a fixed, arbitrary mutual link graph *)
Fixpoint assigns_ok (st : state) (ops : list op) : Prop :=
  match ops with
  | [] => True
  | Assign o n v :: r => wf st v /\ kind_ok n v = true /\ in_range st (o, n) /\ assigns_ok st r
  | _ :: _ => False
  end.

Lemma assigns_ok_frame s t ops : same_frame s t -> assigns_ok s ops -> assigns_ok t ops.
Proof.
  intros F. induction ops as [|[o n v| | | |] r IH]; cbn; auto.
  intros (W & K & R & A). split; [eapply wf_frame; eassumption|]. split; [exact K|].
  split; [eapply in_range_frame; eassumption|apply IH; exact A].
Qed.

Fixpoint final (fuel : nat) (st : state) (ops : list op) : state :=
  match ops with [] => st | o :: r => final fuel (fst (step fuel st o)) r end.

Theorem assignment_histories_converge fuel : forall ops st,
  symmetric st -> consistent st -> no_locks st -> overflow st = false -> (Phi st < fuel)%nat ->
  assigns_ok st ops ->
  consistent (final fuel st ops) /\ overflow (final fuel st ops) = false /\ same_frame st (final fuel st ops).
Proof.
  induction ops as [|[o n v| | | |] r IH]; intros st Sy C NL Hov HPhi A; cbn [final]; try contradiction.
  - split; [exact C|]. split; [exact Hov|apply same_frame_refl].
  - destruct A as (W & K & R & A).
    set (st0 := clear_notes st).
    assert (same_frame st st0) as F0 by apply clear_notes_frame.
    assert (fst (step fuel st (Assign o n v)) = fst (assign fuel st0 o n v)) as Hstep.
    { unfold step. fold st0. destruct (assign fuel st0 o n v). reflexivity. }
    rewrite Hstep.
    assert (wf st0 v) as W0 by (eapply wf_frame; eassumption).
    assert (symmetric st0) as Sy0 by (eapply symmetric_frame; eassumption).
    assert (consistent st0) as C0 by (intros x y He; change (val st x = val st y); apply C; exact He).
    assert (no_locks st0) as NL0 by (eapply no_locks_frame; eassumption).
    assert (Phi st0 < fuel)%nat as P0 by (rewrite <- (Phi_frame _ _ F0); exact HPhi).
    assert (in_range st0 (o, n)) as R0 by (eapply in_range_frame; eassumption).
    destruct (assign_terminates fuel st0 o n v Hov (NL0 (o, n)) P0) as [O1 F1].
    pose proof (assign_preserves_consistency v fuel st0 o n W0 Sy0 C0 NL0 Hov P0 K R0) as C1.
    set (st1 := fst (assign fuel st0 o n v)) in *.
    assert (same_frame st st1) as F01 by exact (same_frame_trans _ _ _ F0 F1).
    assert (Phi st1 < fuel)%nat as P1 by (rewrite <- (Phi_frame _ _ F01); exact HPhi).
    destruct (IH st1 (symmetric_frame _ _ F01 Sy) C1 (no_locks_frame _ _ F01 NL) O1 P1
                 (assigns_ok_frame _ _ _ F01 A)) as (Cf & Of & Ff).
    split; [exact Cf|]. split; [exact Of|eapply same_frame_trans; eassumption].
Qed.

Definition symmetricb (st : state) : bool :=
  forallb (fun o =>
    forallb (fun e => forallb (fun y => match partners st (fst y) (snd y) with
                                        | Some ps' => has_key (o, fst e) ps'
                                        | None => false
                                        end) (snd e))
            (o_info (get_obj st o)))
    (seq 0 (length (objs st))).

Lemma symmetricb_sound st : symmetricb st = true -> symmetric st.
Proof.
  intros H x y (ps & Hp & Hin). unfold symmetricb in H. rewrite forallb_forall in H.
  pose proof (partners_in_range _ _ _ _ Hp) as Ho.
  specialize (H (fst x) ltac:(apply in_seq; lia)). rewrite forallb_forall in H.
  specialize (H (snd x, ps) (assoc_In _ _ _ Hp)). cbn [fst snd] in H. rewrite forallb_forall in H.
  specialize (H y Hin). destruct (partners st (fst y) (snd y)) as [ps'|] eqn:Hp'; [|discriminate].
  exists ps'. split; [exact Hp'|]. unfold has_key in H. apply existsb_exists in H.
  destruct H as (z & Hz & E). unfold key_eqb in E. apply andb_prop in E. destruct E as [E1 E2].
  apply Nat.eqb_eq in E1, E2. destruct x, z; cbn in *; subst. exact Hz.
Qed.

Fixpoint assigns_okb (st : state) (ops : list op) : bool :=
  match ops with
  | [] => true
  | Assign o n v :: r =>
      wfb st v && kind_ok n v && Nat.ltb o (length (objs st)) && Nat.ltb n (length (o_vals (get_obj st o)))
      && assigns_okb st r
  | _ :: _ => false
  end.
Lemma assigns_okb_sound st ops : assigns_okb st ops = true -> assigns_ok st ops.
Proof.
  induction ops as [|[o n v| | | |] r IH]; cbn; try discriminate; auto.
  intros H. repeat (apply andb_prop in H; let H' := fresh "H" in destruct H as [H H']).
  apply Nat.ltb_lt in H2, H1. split; [apply wfb_sound; exact H|]. split; [exact H3|]. split; [split; assumption|apply IH; exact H0].
Qed.

Theorem assignment_histories_converge_checked fuel ops st :
  symmetricb st = true -> consistentb st = true -> no_locksb st = true -> overflow st = false ->
  Nat.ltb (Phi st) fuel = true -> assigns_okb st ops = true ->
  consistent (final fuel st ops) /\ overflow (final fuel st ops) = false /\ same_frame st (final fuel st ops).
Proof.
  intros Sy C NL Hov HPhi A. apply assignment_histories_converge;
    [apply symmetricb_sound|apply consistentb_sound|apply no_locksb_sound| |apply Nat.ltb_lt|apply assigns_okb_sound]; assumption.
Qed.
