(* C20 — the replay law for slice keys with step None / 1 (`l[a:b] = xs`, `del l[a:b]`): the event
   TraitList sends for them, applied by the items handler to an equal list, reproduces the mutation.
   Together with ListProofs.simple_replay_ok: every mutator except EXTENDED slices (step not in {None, 1}). *)
From Coq Require Import ZArith List Bool Arith Lia ZifyBool.
From TV Require Import C20.ListSem C20.ListProofs.
Import ListNotations.
Open Scope Z_scope.

Definition plain_slice (sl : slice) : bool :=
  match snd sl with None => true | Some c => c =? 1 end.

Lemma indices_plain_bounds len sl a b c :
  0 <= len -> plain_slice sl = true -> indices len sl = (a, b, c) ->
  c = 1 /\ 0 <= a <= len /\ 0 <= b <= len.
Proof.
  intros Hl Hp. destruct sl as [[oa ob] oc]. unfold plain_slice in Hp. cbn in Hp.
  unfold indices. 
  assert (match oc with Some s => s | None => 1 end = 1) as Hc by (destruct oc as [s|]; [apply Z.eqb_eq in Hp; exact Hp|reflexivity]).
  rewrite Hc. cbn. intros [= <- <- <-]. split; [reflexivity|].
  unfold adjust. split; [destruct oa as [x|]|destruct ob as [x|]]; cbn;
  repeat match goal with |- context [if ?c then _ else _] => destruct c eqn:? end; lia.
Qed.

(* selecting k consecutive valid positions *)
Lemma select_positions_length l : forall k a,
  0 <= a -> a + Z.of_nat k <= zlen l -> zlen (select l (positions a 1 k)) = Z.of_nat k.
Proof.
  induction k as [|k IH]; intros a Ha Hb; [reflexivity|].
  cbn [positions select].
  destruct (nthz l a) as [x|] eqn:E.
  - unfold zlen in *. cbn [length]. rewrite Nat2Z.inj_succ. specialize (IH (a + 1) ltac:(lia) ltac:(lia)). lia.
  - exfalso. unfold nthz in E. replace (a <? 0) with false in E by lia.
    apply nth_error_None in E. unfold zlen in Hb. lia.
Qed.

Lemma slicelen_step1 a b : slicelen a b 1 = if a <? b then b - a else 0.
Proof. unfold slicelen. cbn. destruct (a <? b); [|reflexivity]. rewrite Z.div_1_r. lia. Qed.

Lemma splice_nil_same l a : 0 <= a -> splice l a a [] = l.
Proof. intros Ha. unfold splice, firstz, skipz. cbn. apply firstn_skipn. Qed.

Lemma tl_setitem_plain_slice l sl xs l' ev :
  plain_slice sl = true ->
  tl_setitem l (KS sl) xs = Ok (l', Some ev) ->
  exists oev, apply_event l ev = Ok (l', oev).
Proof.
  intros Hp H. pose proof (zlen_nonneg l) as Hl.
  unfold tl_setitem, getitem, list_setitem, normalize in H.
  destruct (indices (zlen l) sl) as [[a b] c] eqn:Hi.
  destruct (indices_plain_bounds _ _ _ _ _ Hl Hp Hi) as (-> & Ha & Hb).
  cbn in H. change (if a <? b then (b - a - 1) / 1 + 1 else 0) with (slicelen a b 1) in H.
  set (b' := if b <? a then a else b) in *.
  set (removed := select l (positions a 1 (Z.to_nat (slicelen a b 1)))) in *.
  assert (zlen removed = b' - a) as Hr.
  { subst removed. rewrite select_positions_length.
    - rewrite slicelen_step1. subst b'. destruct (a <? b) eqn:E1; destruct (b <? a) eqn:E2; lia.
    - lia.
    - rewrite slicelen_step1. destruct (a <? b) eqn:E1; lia. }
  destruct (is_nil xs && is_nil removed) eqn:En; [discriminate H|].
  replace (b - (b - a - 1) mod 1) with b in H by (rewrite Z.mod_1_r; lia).
  cbn in H. injection H as <- <-.
  destruct (apply_event_plain l a removed xs) as [oev Hap]; [lia|subst b'; destruct (b <? a); lia|].
  rewrite Hr in Hap. replace (a + (b' - a)) with b' in Hap by lia. eauto.
Qed.

Lemma tl_setitem_plain_silent l sl xs l' :
  plain_slice sl = true -> tl_setitem l (KS sl) xs = Ok (l', None) -> l' = l.
Proof.
  intros Hp H. pose proof (zlen_nonneg l) as Hl.
  unfold tl_setitem, getitem, list_setitem, normalize in H.
  destruct (indices (zlen l) sl) as [[a b] c] eqn:Hi.
  destruct (indices_plain_bounds _ _ _ _ _ Hl Hp Hi) as (-> & Ha & Hb).
  cbn in H. change (if a <? b then (b - a - 1) / 1 + 1 else 0) with (slicelen a b 1) in H.
  set (b' := if b <? a then a else b) in *.
  set (removed := select l (positions a 1 (Z.to_nat (slicelen a b 1)))) in *.
  assert (zlen removed = b' - a) as Hr.
  { subst removed. rewrite select_positions_length.
    - rewrite slicelen_step1. subst b'. destruct (a <? b) eqn:E1; destruct (b <? a) eqn:E2; lia.
    - lia.
    - rewrite slicelen_step1. destruct (a <? b) eqn:E1; lia. }
  destruct (is_nil xs && is_nil removed) eqn:En.
  - injection H as <-. apply andb_prop in En. destruct En as [E1 E2].
    destruct xs; [|discriminate]. destruct removed eqn:Er; [|discriminate].
    assert (b' = a) as -> by (unfold zlen in Hr; cbn in Hr; lia). apply splice_nil_same. lia.
  - replace (b - (b - a - 1) mod 1) with b in H by (rewrite Z.mod_1_r; lia). cbn in H. discriminate.
Qed.

(* ----- deleting a contiguous range ----- *)
Lemma firstz_nonpos n l : n <= 0 -> firstz n l = [].
Proof. intros H. unfold firstz. replace (Z.to_nat n) with 0%nat by lia. reflexivity. Qed.
Lemma skipz_nonpos n l : n <= 0 -> skipz n l = l.
Proof. intros H. unfold skipz. replace (Z.to_nat n) with 0%nat by lia. reflexivity. Qed.
Lemma firstz_cons n x l : 0 < n -> firstz n (x :: l) = x :: firstz (n - 1) l.
Proof. intros H. unfold firstz. replace (Z.to_nat n) with (S (Z.to_nat (n - 1))) by lia. reflexivity. Qed.
Lemma skipz_cons n x l : 0 < n -> skipz n (x :: l) = skipz (n - 1) l.
Proof. intros H. unfold skipz. replace (Z.to_nat n) with (S (Z.to_nat (n - 1))) by lia. reflexivity. Qed.

Lemma existsb_positions i : forall k a,
  existsb (Z.eqb i) (positions a 1 k) = (a <=? i) && (i <? a + Z.of_nat k).
Proof.
  induction k as [|k IH]; intros a; cbn [positions existsb].
  - destruct (a <=? i) eqn:E1; destruct (i <? a + Z.of_nat 0) eqn:E2; try reflexivity; lia.
  - rewrite IH. destruct (i =? a) eqn:E0; destruct (a <=? i) eqn:E1; destruct (a + 1 <=? i) eqn:E3;
      destruct (i <? a + 1 + Z.of_nat k) eqn:E4; destruct (i <? a + Z.of_nat (S k)) eqn:E5; cbn; try reflexivity; lia.
Qed.

Lemma delete_at_range k a : forall l i,
  delete_at i l (positions a 1 k) = firstz (a - i) l ++ skipz (a + Z.of_nat k - i) l.
Proof.
  induction l as [|x r IH]; intros i.
  - cbn. unfold firstz, skipz. rewrite firstn_nil, skipn_nil. reflexivity.
  - cbn [delete_at]. rewrite existsb_positions, IH.
    destruct (a <=? i) eqn:E1; destruct (i <? a + Z.of_nat k) eqn:E2; cbn [andb].
    + rewrite (firstz_nonpos (a - i)), (firstz_nonpos (a - (i + 1))) by lia.
      rewrite (skipz_cons (a + Z.of_nat k - i)) by lia. cbn. f_equal. lia.
    + rewrite (firstz_nonpos (a - i)), (firstz_nonpos (a - (i + 1))) by lia.
      rewrite (skipz_nonpos (a + Z.of_nat k - i)), (skipz_nonpos (a + Z.of_nat k - (i + 1))) by lia. reflexivity.
    + rewrite (firstz_cons (a - i)) by lia. rewrite (skipz_cons (a + Z.of_nat k - i)) by lia.
      cbn. do 2 f_equal; f_equal; lia.
    + rewrite (firstz_cons (a - i)) by lia. 
      destruct (Z.le_gt_cases (a + Z.of_nat k - i) 0) as [Hle|Hgt].
      * lia.
      * rewrite (skipz_cons (a + Z.of_nat k - i)) by lia. cbn. do 2 f_equal; f_equal; lia.
Qed.

Lemma tl_delitem_plain_slice l sl l' ev :
  plain_slice sl = true ->
  tl_delitem l (KS sl) = Ok (l', Some ev) ->
  exists oev, apply_event l ev = Ok (l', oev).
Proof.
  intros Hp H. pose proof (zlen_nonneg l) as Hl.
  unfold tl_delitem, getitem, list_delitem, normalize in H.
  destruct (indices (zlen l) sl) as [[a b] c] eqn:Hi.
  destruct (indices_plain_bounds _ _ _ _ _ Hl Hp Hi) as (-> & Ha & Hb).
  cbn in H. change (if a <? b then (b - a - 1) / 1 + 1 else 0) with (slicelen a b 1) in H.
  set (n := Z.to_nat (slicelen a b 1)) in *.
  set (removed := select l (positions a 1 n)) in *.
  assert (Z.of_nat n = if a <? b then b - a else 0) as Hn.
  { subst n. rewrite slicelen_step1. destruct (a <? b) eqn:E; lia. }
  assert (zlen removed = Z.of_nat n) as Hr.
  { subst removed. apply select_positions_length; [lia|]. rewrite Hn. destruct (a <? b) eqn:E; lia. }
  destruct (is_nil removed) eqn:En; [discriminate H|].
  replace (b - (b - a - 1) mod 1) with b in H by (rewrite Z.mod_1_r; lia).
  cbn in H. injection H as <- <-.
  destruct (apply_event_plain l a removed []) as [oev Hap]; [lia|rewrite Hr, Hn; destruct (a <? b) eqn:E; lia|].
  exists oev. rewrite Hap. do 2 f_equal.
  rewrite delete_at_range. unfold splice. rewrite Hr. cbn [app]. f_equal; f_equal; lia.
Qed.

Lemma tl_delitem_plain_silent l sl l' :
  plain_slice sl = true -> tl_delitem l (KS sl) = Ok (l', None) -> l' = l.
Proof.
  intros Hp H. pose proof (zlen_nonneg l) as Hl.
  unfold tl_delitem, getitem, list_delitem, normalize in H.
  destruct (indices (zlen l) sl) as [[a b] c] eqn:Hi.
  destruct (indices_plain_bounds _ _ _ _ _ Hl Hp Hi) as (-> & Ha & Hb).
  cbn in H. change (if a <? b then (b - a - 1) / 1 + 1 else 0) with (slicelen a b 1) in H.
  set (n := Z.to_nat (slicelen a b 1)) in *.
  set (removed := select l (positions a 1 n)) in *.
  assert (Z.of_nat n = if a <? b then b - a else 0) as Hn.
  { subst n. rewrite slicelen_step1. destruct (a <? b) eqn:E; lia. }
  assert (zlen removed = Z.of_nat n) as Hr.
  { subst removed. apply select_positions_length; [lia|]. rewrite Hn. destruct (a <? b) eqn:E; lia. }
  destruct (is_nil removed) eqn:En.
  - injection H as <-. destruct removed eqn:Er; [|discriminate].
    assert (n = 0%nat) as -> by (unfold zlen in Hr; cbn in Hr; lia).
    rewrite delete_at_range. replace (a + Z.of_nat 0 - 0) with (a - 0) by lia.
    unfold firstz, skipz. apply firstn_skipn.
  - replace (b - (b - a - 1) mod 1) with b in H by (rewrite Z.mod_1_r; lia). cbn in H. discriminate H.
Qed.

Definition replayable_mut (m : mut) : bool :=
  match m with MSetS sl _ | MDelS sl => plain_slice sl | _ => true end.

Theorem replayable_replay_ok l m : replayable_mut m = true -> replay_ok l m.
Proof.
  intros H. destruct m; try (apply simple_replay_ok; reflexivity); cbn in H.
  - split.
    + intros l' ev Hm. cbn [mutate] in Hm. eapply tl_setitem_plain_slice; eassumption.
    + intros l' Hm. cbn [mutate] in Hm. eapply tl_setitem_plain_silent; eassumption.
  - split.
    + intros l' ev Hm. cbn [mutate] in Hm. eapply tl_delitem_plain_slice; eassumption.
    + intros l' Hm. cbn [mutate] in Hm. eapply tl_delitem_plain_silent; eassumption.
Qed.

(* ----- second order: the event a partner re-emits when it applies an integer-index event replays too
   (needed when the partner forwards it to its own partners: stars and chains) ----- *)
Definition int_index (ev : event) : Prop := match e_idx ev with EI _ => True | ES _ _ _ => False end.

Lemma reemitted_event_replays l ev l' ev' :
  int_index ev -> apply_event l ev = Ok (l', Some ev') ->
  int_index ev' /\ exists oev, apply_event l ev' = Ok (l', oev).
Proof.
  intros Hi H. unfold apply_event, event_has_step, event_key in H. unfold int_index in Hi.
  destruct (e_idx ev) as [i|a b c] eqn:E; [|contradiction]. cbn [andb] in H.
  split.
  - (* the event of a plain-slice assignment has an integer index *)
    pose proof (zlen_nonneg l) as Hl.
    unfold tl_setitem, getitem, list_setitem, normalize in H.
    destruct (indices (zlen l) (Some i, Some (i + zlen (e_removed ev)), None)) as [[a b] c] eqn:Hidx.
    destruct (indices_plain_bounds (zlen l) (Some i, Some (i + zlen (e_removed ev)), None) a b c Hl eq_refl Hidx) as (-> & Ha & Hb).
    cbn in H. destruct (is_nil (e_added ev) && is_nil _); [discriminate H|].
    replace (b - (b - a - 1) mod 1) with b in H by (rewrite Z.mod_1_r; lia).
    cbn in H. injection H as _ <-. exact I.
  - eapply tl_setitem_plain_slice; [|exact H]. reflexivity.
Qed.

Lemma replayable_event_int_index l m l' ev :
  replayable_mut m = true -> mutate l m = Ok (l', Some ev) -> int_index ev.
Proof.
  intros Hm H. pose proof (zlen_nonneg l) as Hl. unfold int_index.
  destruct m; cbn [mutate] in H; cbn in Hm.
  - injection H as _ <-. exact I.
  - injection H as _ <-. exact I.
  - apply tl_setitem_int_event in H. destruct H as (j & old & _ & _ & ->). exact I.
  - apply tl_delitem_int_event in H. destruct H as (j & old & _ & _ & ->). exact I.
  - unfold tl_setitem, getitem, list_setitem, normalize in H.
    destruct (indices (zlen l) sl) as [[a b] c] eqn:Hidx.
    destruct (indices_plain_bounds _ _ _ _ _ Hl Hm Hidx) as (-> & Ha & Hb).
    cbn in H. destruct (is_nil xs && is_nil _); [discriminate H|].
    replace (b - (b - a - 1) mod 1) with b in H by (rewrite Z.mod_1_r; lia).
    cbn in H. injection H as _ <-. exact I.
  - unfold tl_delitem, getitem, list_delitem, normalize in H.
    destruct (indices (zlen l) sl) as [[a b] c] eqn:Hidx.
    destruct (indices_plain_bounds _ _ _ _ _ Hl Hm Hidx) as (-> & Ha & Hb).
    cbn in H. destruct (is_nil _); [discriminate H|].
    replace (b - (b - a - 1) mod 1) with b in H by (rewrite Z.mod_1_r; lia).
    cbn in H. injection H as _ <-. exact I.
  - injection H as _ He. apply ev_if_some in He. destruct He as [-> _]. exact I.
  - injection H as _ He. apply ev_if_some in He. destruct He as [-> _]. exact I.
  - destruct (k <? 1); injection H as _ He; apply ev_if_some in He; destruct He as [-> _]; exact I.
  - destruct (nthz l _); [|discriminate]. injection H as _ <-. exact I.
  - destruct (index_of 0 x l); [|discriminate]. injection H as _ <-. exact I.
  - injection H as _ He. apply ev_if_some in He. destruct He as [-> _]. exact I.
  - injection H as _ He. apply ev_if_some in He. destruct He as [-> _]. exact I.
  - injection H as _ He. apply ev_if_some in He. destruct He as [-> _]. exact I.
Qed.

(* a partner that applies an integer-index event without re-emitting one was not changed by it *)
Lemma apply_event_silent l ev l' : int_index ev -> apply_event l ev = Ok (l', None) -> l' = l.
Proof.
  intros Hi H. unfold apply_event, event_has_step, event_key in H. unfold int_index in Hi.
  destruct (e_idx ev) as [i|a b c] eqn:E; [|contradiction]. cbn [andb] in H.
  eapply tl_setitem_plain_silent; [|exact H]. reflexivity.
Qed.
