(* C20 — the event of every non-slice TraitList mutator, applied by the items handler
   (slice assignment  pl[i : i+len(removed)] = added) to an equal list, reproduces the mutation. *)
From Coq Require Import ZArith List Bool Arith Lia ZifyBool.
From TV Require Import C20.ListSem.
Import ListNotations.
Open Scope Z_scope.

Lemma zlen_nonneg l : 0 <= zlen l.
Proof. unfold zlen. lia. Qed.

Lemma firstz_all l : firstz (zlen l) l = l.
Proof. unfold firstz, zlen. rewrite Nat2Z.id. apply firstn_all. Qed.
Lemma skipz_all l : skipz (zlen l) l = [].
Proof. unfold skipz, zlen. rewrite Nat2Z.id. apply skipn_all. Qed.
Lemma firstz_0 l : firstz 0 l = [].
Proof. reflexivity. Qed.
Lemma skipz_0 l : skipz 0 l = l.
Proof. reflexivity. Qed.

Lemma indices_plain len a b :
  0 <= a -> a <= b -> b <= len -> indices len (Some a, Some b, None) = (a, b, 1).
Proof.
  intros. unfold indices, adjust. cbn.
  replace (a <? 0) with false by lia. replace (b <? 0) with false by lia.
  destruct (a >=? len) eqn:E1; destruct (b >=? len) eqn:E2; repeat f_equal; lia.
Qed.

(* the slice assignment the handler performs, on an in-range plain slice *)
Lemma list_setitem_plain l a b vs :
  0 <= a -> a <= b -> b <= zlen l ->
  list_setitem l (KS (Some a, Some b, None)) vs = Ok (splice l a b vs).
Proof.
  intros. unfold list_setitem. rewrite indices_plain by lia. cbn.
  replace (b <? a) with false by lia. reflexivity.
Qed.

Lemma tl_setitem_plain l a b vs :
  0 <= a -> a <= b -> b <= zlen l ->
  exists oev, tl_setitem l (KS (Some a, Some b, None)) vs = Ok (splice l a b vs, oev).
Proof.
  intros. unfold tl_setitem.
  assert (exists r, getitem l (KS (Some a, Some b, None)) = Ok (Some r)) as [r Hr].
  { unfold getitem. rewrite indices_plain by lia. cbn. eauto. }
  rewrite Hr, list_setitem_plain by lia.
  destruct (is_nil vs && is_nil r); [eauto|].
  destruct (normalize _ _). eauto.
Qed.

(* an event with an integer index whose slice is in range *)
Lemma apply_event_plain l i removed added :
  0 <= i -> i + zlen removed <= zlen l ->
  exists oev, apply_event l (mkEv (EI i) removed added) = Ok (splice l i (i + zlen removed) added, oev).
Proof.
  intros. unfold apply_event, event_has_step, event_key. cbn [e_idx e_removed e_added andb].
  pose proof (zlen_nonneg removed). apply tl_setitem_plain; lia.
Qed.

Lemma nthz_bound l j x : nthz l j = Some x -> 0 <= j < zlen l.
Proof.
  unfold nthz, zlen. destruct (j <? 0) eqn:E; [discriminate|]. intros Hn.
  assert (nth_error l (Z.to_nat j) <> None) as Hs by congruence.
  apply nth_error_Some in Hs. lia.
Qed.

Lemma index_of_bound x l : forall k j, index_of k x l = Some j -> k <= j < k + zlen l.
Proof.
  induction l as [|y r IH]; intros k j; cbn [index_of]; [discriminate|].
  unfold zlen in *. cbn [length]. destruct (y =? x).
  - intros [= <-]. lia.
  - intros Hj. apply IH in Hj. lia.
Qed.

Lemma splice_app_end l vs : splice l (zlen l) (zlen l) vs = l ++ vs.
Proof. unfold splice. rewrite firstz_all, skipz_all, app_nil_r. reflexivity. Qed.
Lemma splice_all l vs : splice l 0 (zlen l) vs = vs.
Proof. unfold splice. rewrite firstz_0, skipz_all, app_nil_r. reflexivity. Qed.

Lemma repeat_list_prefix l n : exists r, repeat_list l (S n) = l ++ r.
Proof. cbn. eauto. Qed.

Lemma skipz_app_len l r : skipz (zlen l) (l ++ r) = r.
Proof.
  unfold skipz, zlen. rewrite Nat2Z.id. rewrite skipn_app, skipn_all, Nat.sub_diag. reflexivity.
Qed.

Ltac zl := unfold zlen in *; cbn [length] in *; lia.

Definition simple_mut (m : mut) : bool :=
  match m with MSetS _ _ | MDelS _ => false | _ => true end.

(* the event replays on an equal list (the C05 replay law, specialised to the handler's slice form) *)
Definition replay_event (l : list Z) (m : mut) : Prop :=
  forall l' ev, mutate l m = Ok (l', Some ev) -> exists oev, apply_event l ev = Ok (l', oev).
(* a mutation that sends no event did not change the list (C05: change => event) *)
Definition silent_unchanged (l : list Z) (m : mut) : Prop :=
  forall l', mutate l m = Ok (l', None) -> l' = l.
Definition replay_ok (l : list Z) (m : mut) : Prop := replay_event l m /\ silent_unchanged l m.

Lemma tl_setitem_int_event l i x l' ev :
  tl_setitem l (KI i) [x] = Ok (l', Some ev) ->
  exists j old, nthz l j = Some old /\ l' = splice l j (j + 1) [x] /\ ev = mkEv (EI j) [old] [x].
Proof.
  unfold tl_setitem, getitem, list_setitem.
  destruct (nthz l (norm_int (zlen l) i)) as [old|] eqn:E; [|discriminate].
  cbn. intros [= <- <-]. eauto.
Qed.

Lemma tl_delitem_int_event l i l' ev :
  tl_delitem l (KI i) = Ok (l', Some ev) ->
  exists j old, nthz l j = Some old /\ l' = splice l j (j + 1) [] /\ ev = mkEv (EI j) [old] [].
Proof.
  unfold tl_delitem, getitem, list_delitem.
  destruct (nthz l (norm_int (zlen l) i)) as [old|] eqn:E; [|discriminate].
  cbn. intros [= <- <-]. eauto.
Qed.

Lemma ev_if_some nonempty ev ev' : ev_if nonempty ev = Some ev' -> ev' = ev /\ nonempty <> [].
Proof. unfold ev_if. destruct nonempty; cbn; [discriminate|]. intros [= <-]. split; [reflexivity|discriminate]. Qed.

Theorem simple_replay_event l m : simple_mut m = true -> replay_event l m.
Proof.
  intros Hs l' ev Hm. pose proof (zlen_nonneg l) as Hl.
  destruct m; try discriminate Hs; cbn [mutate] in Hm.
  - (* append *) injection Hm as <- <-.
    destruct (apply_event_plain l (zlen l) [] [x]) as [oev H]; [lia|zl|].
    cbn [zlen length Z.of_nat] in H. rewrite Z.add_0_r, splice_app_end in H. eauto.
  - (* insert *) injection Hm as <- <-.
    set (ni := if i <? 0 then Z.max (i + zlen l) 0 else Z.min i (zlen l)).
    assert (0 <= ni <= zlen l) by (subst ni; destruct (i <? 0) eqn:Ei; lia).
    destruct (apply_event_plain l ni [] [x]) as [oev H']; [lia|zl|].
    cbn [zlen length Z.of_nat] in H'. rewrite Z.add_0_r in H'. eauto.
  - (* setitem int *) apply tl_setitem_int_event in Hm. destruct Hm as (j & old & Hn & -> & ->).
    apply nthz_bound in Hn.
    destruct (apply_event_plain l j [old] [x]) as [oev H']; [lia|zl|]. eauto.
  - (* delitem int *) apply tl_delitem_int_event in Hm. destruct Hm as (j & old & Hn & -> & ->).
    apply nthz_bound in Hn.
    destruct (apply_event_plain l j [old] []) as [oev H']; [lia|zl|]. eauto.
  - (* extend *) injection Hm as <- He. apply ev_if_some in He. destruct He as [-> _].
    destruct (apply_event_plain l (zlen l) [] xs) as [oev H]; [lia|zl|].
    cbn [zlen length Z.of_nat] in H. rewrite Z.add_0_r, splice_app_end in H. eauto.
  - (* iadd *) injection Hm as <- He. apply ev_if_some in He. destruct He as [-> _].
    destruct (apply_event_plain l (zlen l) [] xs) as [oev H]; [lia|zl|].
    cbn [zlen length Z.of_nat] in H. rewrite Z.add_0_r, splice_app_end in H. eauto.
  - (* imul *) destruct (k <? 1) eqn:Ek.
    + injection Hm as <- He. apply ev_if_some in He. destruct He as [-> _].
      destruct (apply_event_plain l 0 l []) as [oev H]; [lia|lia|].
      rewrite Z.add_0_l, splice_all in H. eauto.
    + injection Hm as <- He. apply ev_if_some in He. destruct He as [-> _].
      destruct (Z.to_nat k) as [|n] eqn:En; [lia|].
      destruct (repeat_list_prefix l n) as [r Hr]. rewrite Hr, skipz_app_len.
      destruct (apply_event_plain l (zlen l) [] r) as [oev H]; [lia|zl|].
      cbn [zlen length Z.of_nat] in H. rewrite Z.add_0_r, splice_app_end in H. eauto.
  - (* pop *) destruct (nthz l _) as [x|] eqn:En; [|discriminate]. injection Hm as <- <-.
    apply nthz_bound in En.
    match goal with |- context [EI ?j] => destruct (apply_event_plain l j [x] []) as [oev H]; [lia|zl|] end.
    eauto.
  - (* remove *) destruct (index_of 0 x l) as [j|] eqn:Ei; [|discriminate]. injection Hm as <- <-.
    apply index_of_bound in Ei.
    destruct (apply_event_plain l j [x] []) as [oev H]; [lia|zl|]. eauto.
  - (* clear *) injection Hm as <- He. apply ev_if_some in He. destruct He as [-> _].
    destruct (apply_event_plain l 0 l []) as [oev H]; [lia|lia|].
    rewrite Z.add_0_l, splice_all in H. eauto.
  - (* sort *) injection Hm as <- He. apply ev_if_some in He. destruct He as [-> _].
    destruct (apply_event_plain l 0 l (sortz reverse l)) as [oev H]; [lia|lia|].
    rewrite Z.add_0_l, splice_all in H. eauto.
  - (* reverse *) injection Hm as <- He. apply ev_if_some in He. destruct He as [-> _].
    destruct (apply_event_plain l 0 l (rev l)) as [oev H]; [lia|lia|].
    rewrite Z.add_0_l, splice_all in H. eauto.
Qed.

Lemma ev_if_none nonempty ev : ev_if nonempty ev = None -> nonempty = [].
Proof. unfold ev_if. destruct nonempty; cbn; [reflexivity|discriminate]. Qed.

Theorem simple_silent_unchanged l m : simple_mut m = true -> silent_unchanged l m.
Proof.
  intros Hs l' Hm. destruct m; try discriminate Hs; cbn [mutate] in Hm; try discriminate Hm.
  - unfold tl_setitem in Hm. destruct (getitem l (KI i)) as [r|]; [|discriminate].
    destruct (list_setitem l (KI i) [x]); [|discriminate]. cbn in Hm.
    destruct (normalize (KI i) (zlen l)). discriminate.
  - unfold tl_delitem in Hm. cbn [getitem list_delitem] in Hm.
    destruct (nthz l (norm_int (zlen l) i)); [|discriminate]. cbn in Hm. discriminate.
  - injection Hm as <- He. apply ev_if_none in He. subst. apply app_nil_r.
  - injection Hm as <- He. apply ev_if_none in He. subst. apply app_nil_r.
  - destruct (k <? 1) eqn:Ek.
    + injection Hm as <- He. apply ev_if_none in He. congruence.
    + injection Hm as <- He. apply ev_if_none in He.
      destruct (Z.to_nat k) as [|n] eqn:En; [lia|].
      destruct (repeat_list_prefix l n) as [r Hr]. rewrite Hr in *. rewrite skipz_app_len in He.
      subst. apply app_nil_r.
  - destruct (nthz l _); discriminate.
  - destruct (index_of 0 x l); discriminate.
  - injection Hm as <- He. apply ev_if_none in He. congruence.
  - injection Hm as <- He. apply ev_if_none in He. subst. reflexivity.
  - injection Hm as <- He. apply ev_if_none in He. subst. reflexivity.
Qed.

Theorem simple_replay_ok l m : simple_mut m = true -> replay_ok l m.
Proof. intros H. split; [apply simple_replay_event|apply simple_silent_unchanged]; exact H. Qed.

(* the only exceptions a mutator raises are the built-in list's IndexError / ValueError *)
Lemma getitem_raises l k e : getitem l k = Raise e -> e = ValueError.
Proof.
  destruct k as [i|sl]; cbn [getitem].
  - destruct (nthz l _); discriminate.
  - destruct (indices (zlen l) sl) as [[a b] c]. destruct (c =? 0); [congruence|discriminate].
Qed.
Lemma list_setitem_raises l k vs e : list_setitem l k vs = Raise e -> e = IndexError \/ e = ValueError.
Proof.
  destruct k as [i|sl]; cbn [list_setitem].
  - destruct (nthz l _); destruct vs; intros [= <-]; auto.
  - destruct (indices (zlen l) sl) as [[a b] c]. destruct (c =? 0); [intros [= <-]; auto|].
    destruct (c =? 1); [discriminate|]. destruct (zlen vs =? _); [discriminate|intros [= <-]; auto].
Qed.
Lemma list_delitem_raises l k e : list_delitem l k = Raise e -> e = IndexError \/ e = ValueError.
Proof.
  destruct k as [i|sl]; cbn [list_delitem].
  - destruct (nthz l _); intros [= <-]; auto.
  - destruct (indices (zlen l) sl) as [[a b] c]. destruct (c =? 0); [intros [= <-]; auto|discriminate].
Qed.
Lemma tl_setitem_raises l k vs e : tl_setitem l k vs = Raise e -> e = IndexError \/ e = ValueError.
Proof.
  unfold tl_setitem. destruct (getitem l k) eqn:G.
  - destruct (list_setitem l k vs) eqn:S.
    + destruct (is_nil _ && is_nil _); [discriminate|]. destruct (normalize k (zlen l)). discriminate.
    + intros [= <-]. eapply list_setitem_raises; eauto.
  - intros [= <-]. right. eapply getitem_raises; eauto.
Qed.
Lemma tl_delitem_raises l k e : tl_delitem l k = Raise e -> e = IndexError \/ e = ValueError.
Proof.
  unfold tl_delitem. destruct (getitem l k) eqn:G.
  - destruct (list_delitem l k) eqn:S.
    + destruct (is_nil _); [discriminate|]. destruct (normalize k (zlen l)). discriminate.
    + intros [= <-]. eapply list_delitem_raises; eauto.
  - intros [= <-]. right. eapply getitem_raises; eauto.
Qed.
Theorem mutate_raises l m e : mutate l m = Raise e -> e = IndexError \/ e = ValueError.
Proof.
  destruct m; cbn [mutate]; try discriminate;
    try (apply tl_setitem_raises); try (apply tl_delitem_raises).
  - destruct (k <? 1); discriminate.
  - destruct (nthz l _); [discriminate|intros [= <-]; auto].
  - destruct (index_of 0 x l); [discriminate|intros [= <-]; auto].
Qed.
