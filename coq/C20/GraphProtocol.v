(* C20 — link creation inside the general-graph theorems: ANY history of `sync_trait(..., mutual=True)`
   between traits of one kind and of assignments, on ANY pool of fresh objects, keeps every linked pair
   equal after every operation (no RecursionError, no lock left behind).  The graph that such a
   history builds is arbitrary: stars, chains, trees, cycles, aliases, several links per trait.
   Built on Spread.v (convergence of one assignment on an arbitrary graph). *)
From Coq Require Import ZArith List Bool Arith Lia.
From TV Require Import Common.Harness C20.ListSem C20.Model C20.Termination C20.Spread.
Import ListNotations.

(* ---------- association lists ---------- *)
Lemma assoc_set_same {A} k (a : A) l : assoc k (assoc_set k a l) = Some a.
Proof.
  induction l as [|[k' a'] l IH]; cbn; [rewrite Nat.eqb_refl; reflexivity|].
  destruct (Nat.eqb k k') eqn:E; cbn; [rewrite Nat.eqb_refl; reflexivity|rewrite E; exact IH].
Qed.
Lemma assoc_set_other {A} k k2 (a : A) l : k2 <> k -> assoc k2 (assoc_set k a l) = assoc k2 l.
Proof.
  intros Hne. induction l as [|[k' a'] l IH]; cbn.
  - destruct (Nat.eqb k2 k) eqn:E; [apply Nat.eqb_eq in E; contradiction|reflexivity].
  - destruct (Nat.eqb k k') eqn:E; cbn.
    + apply Nat.eqb_eq in E. subst k'. destruct (Nat.eqb k2 k) eqn:E2; [apply Nat.eqb_eq in E2; contradiction|reflexivity].
    + destruct (Nat.eqb k2 k'); [reflexivity|exact IH].
Qed.

(* ---------- the table update of one direction of sync_trait ---------- *)
Definition dic_of (st : state) (o : oid) (n : name) : list (oid * name) :=
  match assoc n (o_info (get_obj st o)) with Some d => d | None => [] end.

Definition link_tables (st : state) (o : oid) (n : name) (p : oid) (m : name) : state :=
  let dic := dic_of st o n in
  upd_obj st o (fun ob =>
    mkO (o_alive ob) (o_vals ob) (assoc_set n (dic ++ [(p, m)]) (o_info ob)) (o_locked ob)
        (if is_nil_keys dic then add1 n (o_att_s ob) else o_att_s ob)
        (if is_nil_keys dic && (is_list_name n && is_list_name m) then add1 n (o_att_i ob) else o_att_i ob)).

Lemma sync1_linked fuel st o n p m :
  has_key (p, m) (dic_of st o n) = true -> sync1 fuel st o n p m = (st, true).
Proof. intros H. unfold sync1. fold (dic_of st o n). rewrite H. reflexivity. Qed.

Lemma sync1_new fuel st o n p m :
  has_key (p, m) (dic_of st o n) = false ->
  sync1 fuel st o n p m = assign fuel (link_tables st o n p m) p m (get_val (link_tables st o n p m) o n).
Proof. intros H. unfold sync1. fold (dic_of st o n). rewrite H. reflexivity. Qed.

Section LinkTables.
  Variables (st : state) (o : oid) (n : name) (p : oid) (m : name).
  Hypothesis Ho : (o < length (objs st))%nat.
  Let st1 := link_tables st o n p m.

  Lemma lt_partners_same : partners st1 o n = Some (dic_of st o n ++ [(p, m)]).
  Proof.
    unfold st1, link_tables, partners. rewrite get_obj_upd_same by exact Ho. cbn [o_info]. apply assoc_set_same.
  Qed.
  Lemma lt_partners_other a b : (a, b) <> (o, n) -> partners st1 a b = partners st a b.
  Proof.
    intros Hne. unfold st1, link_tables, partners.
    destruct (Nat.eq_dec o a) as [<-|Hoa].
    - rewrite get_obj_upd_same by exact Ho. cbn [o_info]. apply assoc_set_other. intros ->. apply Hne. reflexivity.
    - rewrite get_obj_upd_other by exact Hoa. reflexivity.
  Qed.
  Lemma lt_val x : val st1 x = val st x.
  Proof. unfold val, st1, link_tables. apply get_val_upd_keep. reflexivity. Qed.
  Lemma lt_length : length (objs st1) = length (objs st).
  Proof. unfold st1, link_tables. apply upd_obj_length. Qed.
  Lemma lt_vals_length a : length (o_vals (get_obj st1 a)) = length (o_vals (get_obj st a)).
  Proof.
    unfold st1, link_tables. destruct (Nat.eq_dec o a) as [<-|Hoa].
    - rewrite get_obj_upd_same by exact Ho. reflexivity.
    - rewrite get_obj_upd_other by exact Hoa. reflexivity.
  Qed.
  Lemma lt_locked x : locked st1 x = locked st x.
  Proof.
    destruct x as [a b]. unfold locked, lockedb, st1, link_tables. cbn [fst snd].
    destruct (Nat.eq_dec o a) as [<-|Hoa].
    - rewrite get_obj_upd_same by exact Ho. reflexivity.
    - rewrite get_obj_upd_other by exact Hoa. reflexivity.
  Qed.
  Lemma lt_overflow : overflow st1 = overflow st.
  Proof. reflexivity. Qed.
  Lemma lt_in_range x : in_range st x <-> in_range st1 x.
  Proof. unfold in_range. rewrite lt_length, lt_vals_length. reflexivity. Qed.

  Lemma dic_of_partners : forall ps, partners st o n = Some ps -> dic_of st o n = ps.
  Proof. intros ps H. unfold dic_of, partners in *. rewrite H. reflexivity. Qed.

  (* the links of st1: those of st and the new one *)
  Lemma lt_edge x y : edge st1 x y <-> (edge st x y \/ (x = (o, n) /\ y = (p, m))).
  Proof.
    destruct (node_eq_dec x (o, n)) as [->|Hx].
    - unfold edge. cbn [fst snd]. rewrite lt_partners_same. split.
      + intros (ps & [= <-] & Hin). apply in_app_or in Hin. destruct Hin as [Hin|[<-|[]]]; [left|right; auto].
        unfold dic_of in Hin. unfold partners. destruct (assoc n (o_info (get_obj st o))) as [d|]; [|contradiction].
        exists d. auto.
      + intros [(ps & Hp & Hin)|[_ ->]].
        * exists (dic_of st o n ++ [(p, m)]). split; [reflexivity|]. rewrite (dic_of_partners ps Hp). apply in_or_app. left. exact Hin.
        * exists (dic_of st o n ++ [(p, m)]). split; [reflexivity|]. apply in_or_app. right. left. reflexivity.
    - unfold edge. destruct x as [a b]. cbn [fst snd]. rewrite lt_partners_other by exact Hx. split.
      + intros H. left. exact H.
      + intros [H|[E _]]; [exact H|contradiction].
  Qed.

  Lemma lt_att_s_mono a b : has b (o_att_s (get_obj st a)) = true -> has b (o_att_s (get_obj st1 a)) = true.
  Proof.
    intros H. unfold st1, link_tables. destruct (Nat.eq_dec o a) as [<-|Hoa].
    - rewrite get_obj_upd_same by exact Ho. cbn [o_att_s]. destruct (is_nil_keys (dic_of st o n)); [|exact H].
      unfold add1. destruct (has n (o_att_s (get_obj st o))); [exact H|]. unfold has. rewrite existsb_app. fold (has b (o_att_s (get_obj st o))). rewrite H. reflexivity.
    - rewrite get_obj_upd_other by exact Hoa. exact H.
  Qed.
  Lemma lt_att_s_new : dic_of st o n = [] -> has n (o_att_s (get_obj st1 o)) = true.
  Proof.
    intros Hd. unfold st1, link_tables. rewrite get_obj_upd_same by exact Ho. cbn [o_att_s]. rewrite Hd. cbn [is_nil_keys].
    unfold add1. destruct (has n (o_att_s (get_obj st o))) eqn:E; [exact E|]. unfold has. rewrite existsb_app. cbn.
    rewrite Nat.eqb_refl. apply orb_true_r.
  Qed.
End LinkTables.

(* ---------- the invariant of link-and-assign histories ---------- *)
Record gwf (st : state) : Prop := mkGwf {
  g_attached : forall x ps, partners st (fst x) (snd x) = Some ps ->
                            has (snd x) (o_att_s (get_obj st (fst x))) = true;
  g_edge : forall x y, edge st x y ->
             is_list_name (snd y) = is_list_name (snd x) /\ is_any_name (snd y) = is_any_name (snd x) /\
             in_range st y /\ in_range st x
}.

Lemma kind_ok_flags a b v :
  is_list_name a = is_list_name b -> is_any_name a = is_any_name b -> kind_ok a v = kind_ok b v.
Proof. intros H1 H2. unfold kind_ok. rewrite H1, H2. reflexivity. Qed.

Lemma gwf_wf st v : gwf st -> wf st v.
Proof.
  intros [G1 G2]. split; [exact G1|].
  intros x y He Hk. destruct (G2 x y He) as (F1 & F2 & Ry & _). split; [|exact Ry].
  rewrite (kind_ok_flags _ _ v F1 F2). exact Hk.
Qed.

Record ginv (st : state) : Prop := mkGinv {
  gi_wf : gwf st;
  gi_sym : symmetric st;
  gi_cons : consistent st;
  gi_nolocks : no_locks st;
  gi_ov : overflow st = false;
  gi_typed : forall x, in_range st x -> kind_ok (snd x) (val st x) = true
}.

Lemma reach_flags st x y : gwf st -> reach st x y ->
  is_list_name (snd y) = is_list_name (snd x) /\ is_any_name (snd y) = is_any_name (snd x).
Proof.
  intros G R. induction R as [|y z R [I1 I2] He]; [split; reflexivity|].
  destruct (g_edge _ G y z He) as (F1 & F2 & _). split; congruence.
Qed.

(* an accepted assignment always reports success *)
Lemma assign_ok f st o n v : kind_ok n v = true -> snd (assign f st o n v) = true.
Proof.
  intros Hk. destruct f as [|f]; [reflexivity|]. cbn [assign]. rewrite Hk. cbn [negb].
  destruct (val_eqb (get_val st o n) v); [reflexivity|].
  destruct (has n _); [|reflexivity]. destruct (partners _ o n); reflexivity.
Qed.

(* re-assigning the value a trait already holds changes no value *)
Lemma assign_same_value f st o n v :
  kind_ok n v = true -> val st (o, n) = v ->
  fst (assign (S f) st o n v) = set_val st o n v.
Proof.
  intros Hk Hv. cbn [assign]. rewrite Hk. cbn [negb]. unfold val in Hv. cbn [fst snd] in Hv.
  rewrite Hv, val_eqb_refl. reflexivity.
Qed.
Lemma val_set_same_value st o n v y : val st (o, n) = v -> val (set_val st o n v) y = val st y.
Proof.
  intros Hv. destruct (node_eq_dec y (o, n)) as [->|Hy]; [|apply val_set_other; exact Hy].
  unfold val, get_val, set_val. cbn [fst snd].
  destruct (Nat.lt_ge_cases o (length (objs st))) as [Hlt|Hge].
  - rewrite get_obj_upd_same by exact Hlt. cbn [o_vals].
    destruct (Nat.lt_ge_cases n (length (o_vals (get_obj st o)))) as [Hn|Hn].
    + rewrite nth_update_same by exact Hn. symmetry. exact Hv.
    + rewrite !nth_overflow; [reflexivity|exact Hn|rewrite update_length; exact Hn].
  - unfold upd_obj, get_obj. cbn [objs]. rewrite update_oob by exact Hge. reflexivity.
Qed.

(* ---------- the recursion budget grows by at most two handlers per direction ---------- *)
Definition att_count (ob : ostate) : nat := length (o_att_s ob ++ o_att_i ob).
Definition A (st : state) : nat := list_sum (map att_count (objs st)).

Lemma Phi_le_A st : (Phi st <= A st)%nat.
Proof. apply Phi_le_attached. Qed.

Lemma length_add1 n l : (length (add1 n l) <= S (length l))%nat.
Proof. unfold add1. destruct (has n l); [lia|]. rewrite app_length. cbn. lia. Qed.

Lemma list_sum_update_le (mu : ostate -> nat) (F : ostate -> ostate) k :
  (forall ob, mu (F ob) <= mu ob + k)%nat ->
  forall l o, (list_sum (map mu (update o F l)) <= list_sum (map mu l) + k)%nat.
Proof.
  intros HF. induction l as [|x l IH]; intros [|o]; simpl; try lia.
  - specialize (HF x). lia.
  - specialize (IH o). lia.
Qed.

Lemma A_link st o n p m : (A (link_tables st o n p m) <= A st + 2)%nat.
Proof.
  unfold A, link_tables, upd_obj. cbn [objs]. apply list_sum_update_le.
  intros ob. unfold att_count. cbn [o_att_s o_att_i]. rewrite !app_length.
  pose proof (length_add1 n (o_att_s ob)). pose proof (length_add1 n (o_att_i ob)).
  destruct (is_nil_keys (dic_of st o n)); cbn [andb]; [destruct (is_list_name n && is_list_name m)|]; unfold name in *; lia.
Qed.

Lemma A_frame s t : same_frame s t -> A s = A t.
Proof.
  intros [L F]. unfold A.
  assert (forall o, att_count (nth o (objs s) dead_obj) = att_count (nth o (objs t) dead_obj)) as H.
  { intros o. destruct (F o) as (_ & _ & _ & H4 & H5 & _). unfold att_count. fold (get_obj s o) (get_obj t o). rewrite H4, H5. reflexivity. }
  clear F. revert H L. generalize (objs s) (objs t). induction l as [|x l IH]; intros [|y l'] H L; cbn in *; try lia.
  rewrite (H 0%nat). f_equal. apply IH; [|lia]. intros o. exact (H (S o)).
Qed.

(* ---------- creating one mutual link ---------- *)
Definition link_ok (st : state) (x y : node) : Prop :=
  in_range st x /\ in_range st y /\ is_list_name (snd y) = is_list_name (snd x) /\
  is_any_name (snd y) = is_any_name (snd x) /\ x <> y.

Lemma edge_dic st o n y : edge st (o, n) y <-> In y (dic_of st o n).
Proof.
  unfold edge, dic_of, partners. cbn [fst snd]. destruct (assoc n (o_info (get_obj st o))) as [d|].
  - split; [intros (ps & [= <-] & H); exact H|intros H; exists d; auto].
  - split; [intros (ps & H & _); discriminate|intros []].
Qed.
Lemma has_key_edge st o n y : has_key y (dic_of st o n) = true <-> edge st (o, n) y.
Proof.
  rewrite edge_dic. unfold has_key. rewrite existsb_exists. split.
  - intros (z & Hz & E). unfold key_eqb in E. apply andb_prop in E. destruct E as [E1 E2].
    apply Nat.eqb_eq in E1, E2. destruct y, z; cbn in *; subst. exact Hz.
  - intros H. exists y. split; [exact H|]. unfold key_eqb. rewrite !Nat.eqb_refl. reflexivity.
Qed.

Lemma agree_along st x v : consistent st -> val st x = v -> forall y, reach st x y -> val st y = v.
Proof. intros C Hx y R. induction R as [|y z R IH He]; [exact Hx|]. rewrite <- (C y z He). exact IH. Qed.

Lemma gwf_link st o n p m :
  gwf st -> link_ok st (o, n) (p, m) -> gwf (link_tables st o n p m).
Proof.
  intros [G1 G2] (Rx & Ry & F1 & F2 & Hne). assert (o < length (objs st))%nat as Ho by apply Rx. split.
  - intros x ps Hp. destruct (node_eq_dec x (o, n)) as [->|Hx].
    + cbn [fst snd]. destruct (dic_of st o n) as [|d0 dr] eqn:Hd; [apply lt_att_s_new; assumption|].
      apply lt_att_s_mono; [exact Ho|]. apply (G1 (o, n) (d0 :: dr)). cbn [fst snd]. unfold dic_of in Hd. unfold partners.
      destruct (assoc n (o_info (get_obj st o))); [congruence|discriminate].
    + destruct x as [a b]. cbn [fst snd] in *. rewrite lt_partners_other in Hp by assumption.
      apply lt_att_s_mono; [exact Ho|]. apply (G1 (a, b) ps). exact Hp.
  - intros x y He. apply lt_edge in He; [|exact Ho]. destruct He as [He|[-> ->]].
    + destruct (G2 x y He) as (A1 & A2 & A3 & A4). repeat split; try assumption; apply lt_in_range; assumption.
    + cbn [fst snd] in *. repeat split; try assumption; apply lt_in_range; assumption.
Qed.

Lemma reach_mono_link st o n p m x y :
  (o < length (objs st))%nat -> reach st x y -> reach (link_tables st o n p m) x y.
Proof.
  intros Ho R. induction R as [|y z R IH He]; [constructor|]. eapply reach_step; [exact IH|].
  apply lt_edge; [exact Ho|]. left. exact He.
Qed.

Lemma reach_link_back st o n p m :
  (o < length (objs st))%nat -> consistent st -> val st (p, m) <> val st (o, n) ->
  forall y, reach (link_tables st o n p m) (p, m) y -> reach st (p, m) y.
Proof.
  intros Ho C Hne y R. induction R as [|y z R IH He]; [constructor|].
  apply lt_edge in He; [|exact Ho]. destruct He as [He|[-> _]]; [eapply reach_step; eassumption|].
  exfalso. apply Hne. symmetry. apply (agree_along st (p, m) (val st (p, m)) C eq_refl). exact IH.
Qed.

Lemma first_direction fuel st o n p m :
  ginv st -> link_ok st (o, n) (p, m) -> has_key (p, m) (dic_of st o n) = false -> (A st + 2 < fuel)%nat ->
  let v := val st (o, n) in
  let s1 := fst (sync1 fuel st o n p m) in
  snd (sync1 fuel st o n p m) = true /\ overflow s1 = false /\ same_frame (link_tables st o n p m) s1 /\
  (forall y, reach st (p, m) y -> val s1 y = v) /\
  (forall y, val s1 y = val st y \/ reach st (p, m) y).
Proof.
  intros [G Sy C NL Hov Ty] Hok Hkey Hfuel v s1.
  pose proof Hok as (Rx & Ry & F1 & F2 & Hne). assert (o < length (objs st))%nat as Ho by apply Rx.
  set (st1 := link_tables st o n p m) in *.
  assert (get_val st1 o n = v) as Hv1 by (apply (lt_val st o n p m (o, n))).
  assert (kind_ok m v = true) as Hk.
  { cbn [snd] in F1, F2. rewrite (kind_ok_flags m n v F1 F2). apply (Ty (o, n)). exact Rx. }
  subst s1. rewrite sync1_new by exact Hkey. fold st1. rewrite Hv1.
  split; [apply assign_ok; exact Hk|].
  destruct fuel as [|f]; [lia|].
  destruct (val_dec (val st (p, m)) v) as [E|E].
  - (* the partner already holds the value: nothing changes *)
    assert (val st1 (p, m) = v) as E1 by (unfold st1; rewrite lt_val; exact E).
    rewrite (assign_same_value f st1 p m v Hk E1).
    split; [exact Hov|]. split; [apply set_val_frame|]. split.
    + intros y R. rewrite (val_set_same_value _ _ _ _ _ E1). unfold st1. rewrite lt_val.
      apply (agree_along st (p, m) v C E). exact R.
    + intros y. left. rewrite (val_set_same_value _ _ _ _ _ E1). unfold st1. apply lt_val.
  - assert (wf st1 v) as W1 by (apply gwf_wf; apply gwf_link; assumption).
    assert (no_locks st1) as NL1 by (intros x; unfold st1; rewrite lt_locked by exact Ho; apply NL).
    assert (Phi st1 < S f)%nat as P1.
    { pose proof (Phi_le_A st1). pose proof (A_link st o n p m). fold st1 in H0. lia. }
    assert (in_range st1 (p, m)) as R1 by (apply lt_in_range; assumption).
    assert (forall y, reach st1 (p, m) y -> reach st (p, m) y) as Hback
      by (apply reach_link_back; [exact Ho|exact C|exact E]).
    assert (consistent_from st1 (p, m)) as C1.
    { intros y z R He. unfold st1. rewrite !lt_val.
      apply lt_edge in He; [|exact Ho]. destruct He as [He|[-> _]]; [apply C; exact He|].
      exfalso. apply E. symmetry. apply (agree_along st (p, m) (val st (p, m)) C eq_refl). apply Hback. exact R. }
    destruct (assign_converges_from v (S f) st1 p m W1 C1 NL1 Hov P1 Hk R1) as (O' & F' & Hall & _).
    split; [exact O'|]. split; [exact F'|]. split.
    + intros y R. apply Hall. apply reach_mono_link; assumption.
    + intros y. destruct (val_dec (val (fst (assign (S f) st1 p m v)) y) (val st1 y)) as [Ey|Ey].
      * left. rewrite Ey. unfold st1. apply lt_val.
      * right. apply Hback. eapply assign_touches_only_reachable; [exact Hov|apply (NL1 (p, m))|exact P1|exact Ey].
Qed.

Lemma gwf_frame s t : same_frame s t -> gwf s -> gwf t.
Proof.
  intros F [G1 G2]. pose proof (same_frame_sym _ _ F) as F'. split.
  - intros x ps Hp. pose proof F as [_ Fo]. destruct (Fo (fst x)) as (_ & _ & _ & H4 & _). rewrite <- H4.
    apply (G1 x ps). rewrite (partners_frame _ _ _ _ F). exact Hp.
  - intros x y He. destruct (G2 x y (edge_frame _ _ _ _ F' He)) as (A1 & A2 & A3 & A4).
    repeat split; try assumption; eapply in_range_frame; eassumption.
Qed.

Lemma in_range_frame_iff s t x : same_frame s t -> (in_range s x <-> in_range t x).
Proof. intros F. split; apply in_range_frame; [exact F|apply same_frame_sym; exact F]. Qed.

Lemma edge_frame_iff s t x y : same_frame s t -> (edge s x y <-> edge t x y).
Proof. intros F. split; apply edge_frame; [exact F|apply same_frame_sym; exact F]. Qed.

Lemma locked_frame s t x : same_frame s t -> locked s x = locked t x.
Proof. intros F. unfold locked. apply lockedb_frame. exact F. Qed.

Lemma ginv_clear_notes st : ginv st -> ginv (clear_notes st).
Proof.
  intros [G Sy C NL Hov Ty]. pose proof (clear_notes_frame st) as F. split.
  - eapply gwf_frame; eassumption.
  - eapply symmetric_frame; eassumption.
  - intros x y He. change (val st x = val st y). apply C. eapply edge_frame; [apply same_frame_sym; exact F|exact He].
  - eapply no_locks_frame; eassumption.
  - exact Hov.
  - intros x Rx. change (kind_ok (snd x) (val st x) = true). apply Ty. eapply in_range_frame; [apply same_frame_sym; exact F|exact Rx].
Qed.

Theorem sync_step_inv fuel st o n p m :
  ginv st -> link_ok st (o, n) (p, m) -> (A st + 4 < fuel)%nat ->
  let st' := fst (step fuel st (Sync o n p m true)) in
  ginv st' /\ (A st' <= A st + 4)%nat /\ (forall x, in_range st x <-> in_range st' x).
Proof.
  intros Hinv Hok Hfuel st'.
  set (st0 := clear_notes st).
  assert (ginv st0) as Hinv0 by (apply ginv_clear_notes; exact Hinv).
  assert (A st0 = A st) as HA0 by reflexivity.
  assert (link_ok st0 (o, n) (p, m)) as Hok0 by exact Hok.
  clear Hinv. destruct Hinv0 as [G Sy C NL Hov Ty].
  pose proof Hok0 as (Rx & Ry & F1 & F2 & Hne).
  assert (o < length (objs st0))%nat as Ho by apply Rx.
  assert (p < length (objs st0))%nat as Hp by apply Ry.
  subst st'. unfold step. fold st0.
  destruct (has_key (p, m) (dic_of st0 o n)) eqn:Hkey.
  { (* already linked: both directions are no-ops *)
    rewrite (sync1_linked fuel st0 o n p m Hkey). cbn [negb].
    assert (has_key (o, n) (dic_of st0 p m) = true) as Hkey'.
    { apply has_key_edge. apply Sy. apply has_key_edge. exact Hkey. }
    rewrite (sync1_linked fuel st0 p m o n Hkey'). cbn [fst].
    split; [split; assumption|]. split; [lia|intros x; reflexivity]. }
  assert (has_key (o, n) (dic_of st0 p m) = false) as Hkey'.
  { destruct (has_key (o, n) (dic_of st0 p m)) eqn:E; [|reflexivity].
    apply has_key_edge in E. apply Sy in E. apply has_key_edge in E. congruence. }
  destruct (first_direction fuel st0 o n p m (mkGinv _ G Sy C NL Hov Ty) Hok0 Hkey ltac:(lia))
    as (Hok1 & O1 & Fr1 & Hb & Hc).
  set (v := val st0 (o, n)) in *.
  destruct (sync1 fuel st0 o n p m) as [s1 ok] eqn:Hs1. cbn [fst snd] in *. subst ok. cbn [negb].
  set (st1 := link_tables st0 o n p m) in *.
  (* values after the first direction *)
  assert (val s1 (p, m) = v) as Vp by (apply Hb; constructor).
  assert (val s1 (o, n) = v) as Vo by (destruct (Hc (o, n)) as [E|R]; [exact E|apply Hb; exact R]).
  (* tables of s1 = tables of st1 *)
  assert (forall a b, edge s1 a b <-> (edge st0 a b \/ (a = (o, n) /\ b = (p, m)))) as E1.
  { intros a b. rewrite <- (edge_frame_iff _ _ a b Fr1). apply lt_edge. exact Ho. }
  assert (p < length (objs s1))%nat as Hp1.
  { destruct Fr1 as [L _]. rewrite <- L. unfold st1. rewrite lt_length. exact Hp. }
  assert (has_key (o, n) (dic_of s1 p m) = false) as Hkey1.
  { destruct (has_key (o, n) (dic_of s1 p m)) eqn:E; [|reflexivity].
    apply has_key_edge in E. apply E1 in E. destruct E as [E|[E _]].
    - apply has_key_edge in E. congruence.
    - exfalso. apply Hne. symmetry. exact E. }
  rewrite (sync1_new fuel s1 p m o n Hkey1).
  set (s1' := link_tables s1 p m o n).
  assert (get_val s1' p m = v) as Hv2 by (change (val s1' (p, m) = v); unfold s1'; rewrite lt_val; exact Vp).
  rewrite Hv2.
  assert (kind_ok n v = true) as Hkn by (apply (Ty (o, n)); exact Rx).
  assert (val s1' (o, n) = v) as Vo' by (unfold s1'; rewrite lt_val; exact Vo).
  destruct fuel as [|f]; [lia|].
  rewrite (surjective_pairing (assign (S f) s1' o n v)). rewrite (assign_same_value f s1' o n v Hkn Vo'). cbn [fst].
  set (s2 := set_val s1' o n v).
  assert (same_frame s1' s2) as Fr2 by apply set_val_frame.
  assert (forall y, val s2 y = val s1 y) as V2.
  { intros y. unfold s2. rewrite (val_set_same_value _ _ _ _ _ Vo'). unfold s1'. apply lt_val. }
  assert (forall a b, edge s2 a b <->
            (edge st0 a b \/ (a = (o, n) /\ b = (p, m)) \/ (a = (p, m) /\ b = (o, n)))) as E2.
  { intros a b. rewrite <- (edge_frame_iff _ _ a b Fr2). unfold s1'. rewrite (lt_edge s1 p m o n Hp1). rewrite E1. tauto. }
  assert (forall x, in_range st0 x <-> in_range s2 x) as Hrng.
  { intros x. rewrite (lt_in_range st0 o n p m Ho x). fold st1. rewrite (in_range_frame_iff _ _ x Fr1).
    rewrite (lt_in_range s1 p m o n Hp1 x). fold s1'. apply in_range_frame_iff. exact Fr2. }
  assert (link_ok s1 (p, m) (o, n)) as Hok1'.
  { assert (forall x, in_range st0 x <-> in_range s1 x) as Hr1.
    { intros x. rewrite (lt_in_range st0 o n p m Ho x). fold st1. apply in_range_frame_iff. exact Fr1. }
    split; [apply Hr1; exact Ry|]. split; [apply Hr1; exact Rx|]. cbn [snd] in *.
    split; [symmetry; exact F1|]. split; [symmetry; exact F2|]. intros E. apply Hne. symmetry. exact E. }
  split; [|split; [|exact Hrng]].
  - split.
    + (* gwf *)
      eapply gwf_frame; [exact Fr2|]. apply gwf_link; [|exact Hok1'].
      eapply gwf_frame; [exact Fr1|]. apply gwf_link; assumption.
    + (* symmetric *)
      intros a b He. apply E2 in He. apply E2. destruct He as [He|[[-> ->]|[-> ->]]]; [left; apply Sy; exact He|right; right; auto|right; left; auto].
    + (* consistent *)
      intros a b He. rewrite !V2. apply E2 in He. destruct He as [He|[[-> ->]|[-> ->]]]; [|congruence|congruence].
      destruct (Hc a) as [Ea|Ra]; destruct (Hc b) as [Eb|Rb].
      * rewrite Ea, Eb. apply C. exact He.
      * assert (reach st0 (p, m) a) as Ra by (eapply reach_step; [exact Rb|apply Sy; exact He]).
        rewrite (Hb a Ra), (Hb b Rb). reflexivity.
      * assert (reach st0 (p, m) b) as Rb by (eapply reach_step; eassumption).
        rewrite (Hb a Ra), (Hb b Rb). reflexivity.
      * rewrite (Hb a Ra), (Hb b Rb). reflexivity.
    + (* no locks *)
      intros x. rewrite <- (locked_frame _ _ x Fr2). unfold s1'. rewrite (lt_locked s1 p m o n Hp1).
      rewrite <- (locked_frame _ _ x Fr1). unfold st1. rewrite (lt_locked st0 o n p m Ho). apply NL.
    + exact O1.
    + (* values stay well-kinded *)
      intros x Rx2. rewrite V2. destruct (Hc x) as [Ex|Rr].
      * rewrite Ex. apply Ty. apply Hrng. exact Rx2.
      * rewrite (Hb x Rr). destruct (reach_flags st0 _ _ G Rr) as [K1 K2]. cbn [snd] in K1, K2, F1, F2.
        rewrite (kind_ok_flags (snd x) n v); [exact Hkn|congruence|congruence].
  - (* budget *)
    rewrite <- (A_frame _ _ Fr2). pose proof (A_link s1 p m o n). fold s1' in H.
    rewrite <- (A_frame _ _ Fr1) in H. pose proof (A_link st0 o n p m). fold st1 in H0. lia.
Qed.

(* ---------- an assignment keeps the invariant ---------- *)
Theorem assign_step_inv fuel st o n v :
  ginv st -> in_range st (o, n) -> kind_ok n v = true -> (A st < fuel)%nat ->
  let st' := fst (step fuel st (Assign o n v)) in
  ginv st' /\ A st' = A st /\ (forall x, in_range st x <-> in_range st' x).
Proof.
  intros Hinv Rx Hk Hfuel st'.
  set (st0 := clear_notes st).
  pose proof (ginv_clear_notes st Hinv) as [G Sy C NL Hov Ty]. fold st0 in G, Sy, C, NL, Hov, Ty.
  assert (same_frame st st0) as F0 by apply clear_notes_frame.
  assert (in_range st0 (o, n)) as Rx0 by exact Rx.
  assert (Phi st0 < fuel)%nat as P0 by (pose proof (Phi_le_A st0); assert (A st0 = A st) by reflexivity; lia).
  assert (fst (step fuel st (Assign o n v)) = fst (assign fuel st0 o n v)) as Hstep.
  { unfold step. fold st0. destruct (assign fuel st0 o n v). reflexivity. }
  subst st'. rewrite Hstep.
  pose proof (gwf_wf st0 v G) as W.
  destruct (assign_converges v fuel st0 o n W C NL Hov P0 Hk Rx0) as (O' & F' & Hall & _).
  pose proof (assign_preserves_consistency v fuel st0 o n W Sy C NL Hov P0 Hk Rx0) as C'.
  set (s1 := fst (assign fuel st0 o n v)) in *.
  assert (forall y, val s1 y = val st0 y \/ reach st0 (o, n) y) as Hc.
  { intros y. destruct (val_dec (val s1 y) (val st0 y)) as [E|E]; [left; exact E|right].
    eapply assign_touches_only_reachable; [exact Hov|apply (NL (o, n))|exact P0|exact E]. }
  split; [|split].
  - split.
    + eapply gwf_frame; eassumption.
    + eapply symmetric_frame; eassumption.
    + exact C'.
    + eapply no_locks_frame; eassumption.
    + exact O'.
    + intros x Rx1. destruct (Hc x) as [E|R].
      * rewrite E. apply Ty. eapply in_range_frame; [apply same_frame_sym; exact F'|exact Rx1].
      * rewrite (Hall x R). destruct (reach_flags st0 _ _ G R) as [K1 K2]. cbn [snd] in K1, K2.
        rewrite (kind_ok_flags (snd x) n v K1 K2). exact Hk.
  - rewrite <- (A_frame _ _ F'). reflexivity.
  - intros x. rewrite (in_range_frame_iff _ _ x F0). apply in_range_frame_iff. exact F'.
Qed.

(* ---------- histories of sync_trait(mutual) and assignments, from fresh objects ---------- *)
Fixpoint gops_ok (st : state) (ops : list op) : Prop :=
  match ops with
  | [] => True
  | Assign o n v :: r => in_range st (o, n) /\ kind_ok n v = true /\ gops_ok st r
  | Sync o n p m true :: r => link_ok st (o, n) (p, m) /\ gops_ok st r
  | _ :: _ => False
  end.

Lemma link_ok_range s t x y : (forall z, in_range s z <-> in_range t z) -> link_ok s x y -> link_ok t x y.
Proof. intros H (A1 & A2 & A3 & A4 & A5). repeat split; try assumption; apply H; assumption. Qed.

Lemma gops_ok_range s t ops : (forall z, in_range s z <-> in_range t z) -> gops_ok s ops -> gops_ok t ops.
Proof.
  intros H. induction ops as [|[o n v| |o n p m [|]| |] r IH]; cbn; auto.
  - intros (A1 & A2 & A3). split; [apply H; exact A1|]. split; [exact A2|apply IH; exact A3].
  - intros (A1 & A2). split; [eapply link_ok_range; eassumption|apply IH; exact A2].
Qed.

Theorem link_assign_histories fuel : forall ops st,
  ginv st -> (A st + 4 * length ops < fuel)%nat -> gops_ok st ops ->
  ginv (final fuel st ops).
Proof.
  induction ops as [|[o n v| |o n p m [|]| |] r IH]; intros st Hinv Hfuel Hops; cbn [final]; try contradiction.
  - exact Hinv.
  - destruct Hops as (Rx & Hk & Hr). cbn [length] in Hfuel.
    destruct (assign_step_inv fuel st o n v Hinv Rx Hk ltac:(lia)) as (I1 & A1 & R1).
    apply IH; [exact I1|rewrite A1; lia|eapply gops_ok_range; eassumption].
  - destruct Hops as (Hok & Hr). cbn [length] in Hfuel.
    destruct (sync_step_inv fuel st o n p m Hinv Hok ltac:(lia)) as (I1 & A1 & R1).
    apply IH; [exact I1|lia|eapply gops_ok_range; eassumption].
Qed.

(* fresh objects *)
Definition typed_pool (vs : list (list Model.val)) : Prop :=
  forall o n, (o < length vs)%nat -> (n < length (nth o vs []))%nat -> kind_ok n (nth n (nth o vs []) (VS 0)) = true.

Lemma get_obj_fresh vs o : (o < length vs)%nat -> get_obj (init_state vs) o = fresh (nth o vs []).
Proof.
  intros Ho. unfold get_obj, init_state. cbn [objs].
  rewrite (nth_indep _ dead_obj (fresh []) ltac:(rewrite map_length; exact Ho)).
  apply (map_nth fresh vs [] o).
Qed.

Lemma partners_fresh vs o n : partners (init_state vs) o n = None.
Proof.
  unfold partners. destruct (Nat.lt_ge_cases o (length vs)) as [Ho|Ho].
  - rewrite get_obj_fresh by exact Ho. reflexivity.
  - rewrite get_obj_oob; [reflexivity|]. unfold init_state. cbn [objs]. rewrite map_length. exact Ho.
Qed.

Lemma ginv_fresh vs : typed_pool vs -> ginv (init_state vs) /\ A (init_state vs) = 0%nat.
Proof.
  intros Ht.
  assert (forall x y, ~ edge (init_state vs) x y) as Hno.
  { intros x y (ps & Hp & _). rewrite partners_fresh in Hp. discriminate. }
  split.
  - split.
    + split; [intros x ps Hp; rewrite partners_fresh in Hp; discriminate|intros x y He; exfalso; eapply Hno; exact He].
    + intros x y He. exfalso. eapply Hno. exact He.
    + intros x y He. exfalso. eapply Hno. exact He.
    + intros [o n]. unfold locked, lockedb. cbn [fst snd].
      destruct (Nat.lt_ge_cases o (length vs)) as [Ho|Ho].
      * rewrite get_obj_fresh by exact Ho. reflexivity.
      * rewrite get_obj_oob; [reflexivity|]. unfold init_state. cbn [objs]. rewrite map_length. exact Ho.
    + reflexivity.
    + intros [o n] [R1 R2]. cbn [fst snd] in *. unfold init_state in R1. cbn [objs] in R1. rewrite map_length in R1.
      unfold val, get_val. cbn [fst snd]. rewrite get_obj_fresh in * by exact R1. cbn [o_vals fresh] in *.
      apply Ht; assumption.
  - unfold A, init_state. cbn [objs]. clear. induction vs as [|x l IH]; [reflexivity|]. simpl. exact IH.
Qed.

Theorem fresh_link_assign_histories fuel vs ops :
  typed_pool vs -> (4 * length ops < fuel)%nat -> gops_ok (init_state vs) ops ->
  let st' := final fuel (init_state vs) ops in
  consistent st' /\ symmetric st' /\ no_locks st' /\ overflow st' = false.
Proof.
  intros Ht Hfuel Hops st'. destruct (ginv_fresh vs Ht) as [I0 A0].
  destruct (link_assign_histories fuel ops (init_state vs) I0 ltac:(lia) Hops) as [_ Sy C NL Hov _].
  repeat split; assumption.
Qed.

(* ---------- decidable hypotheses ---------- *)
Definition typed_poolb (vs : list (list Model.val)) : bool :=
  forallb (fun o => forallb (fun n => kind_ok n (nth n (nth o vs []) (VS 0))) (seq 0 (length (nth o vs []))))
          (seq 0 (length vs)).
Lemma typed_poolb_sound vs : typed_poolb vs = true -> typed_pool vs.
Proof.
  intros H o n Ho Hn. unfold typed_poolb in H. rewrite forallb_forall in H.
  specialize (H o ltac:(apply in_seq; lia)). rewrite forallb_forall in H. apply H. apply in_seq. lia.
Qed.

Definition in_rangeb (st : state) (x : node) : bool :=
  Nat.ltb (fst x) (length (objs st)) && Nat.ltb (snd x) (length (o_vals (get_obj st (fst x)))).
Lemma in_rangeb_sound st x : in_rangeb st x = true -> in_range st x.
Proof. unfold in_rangeb. intros H. apply andb_prop in H. destruct H as [H1 H2]. apply Nat.ltb_lt in H1, H2. split; assumption. Qed.

Definition link_okb (st : state) (x y : node) : bool :=
  in_rangeb st x && in_rangeb st y && Bool.eqb (is_list_name (snd y)) (is_list_name (snd x))
  && Bool.eqb (is_any_name (snd y)) (is_any_name (snd x)) && negb (key_eqb x y).
Lemma link_okb_sound st x y : link_okb st x y = true -> link_ok st x y.
Proof.
  unfold link_okb. intros H.
  apply andb_prop in H. destruct H as [H H5]. apply andb_prop in H. destruct H as [H H4].
  apply andb_prop in H. destruct H as [H H3]. apply andb_prop in H. destruct H as [H1 H2].
  split; [apply in_rangeb_sound; exact H1|]. split; [apply in_rangeb_sound; exact H2|].
  split; [apply Bool.eqb_prop; exact H3|]. split; [apply Bool.eqb_prop; exact H4|].
  intros ->. unfold key_eqb in H5. rewrite !Nat.eqb_refl in H5. discriminate.
Qed.

Fixpoint gops_okb (st : state) (ops : list op) : bool :=
  match ops with
  | [] => true
  | Assign o n v :: r => in_rangeb st (o, n) && kind_ok n v && gops_okb st r
  | Sync o n p m true :: r => link_okb st (o, n) (p, m) && gops_okb st r
  | _ :: _ => false
  end.
Lemma gops_okb_sound st ops : gops_okb st ops = true -> gops_ok st ops.
Proof.
  induction ops as [|[o n v| |o n p m [|]| |] r IH]; cbn; try discriminate; auto.
  - intros H. apply andb_prop in H. destruct H as [H H3]. apply andb_prop in H. destruct H as [H1 H2].
    split; [apply in_rangeb_sound; exact H1|]. split; [exact H2|apply IH; exact H3].
  - intros H. apply andb_prop in H. destruct H as [H1 H2]. split; [apply link_okb_sound; exact H1|apply IH; exact H2].
Qed.

(* ====================================================================================== *)
(* Link REMOVAL.  Needs one more invariant: the keys of every __sync_trait__ table are distinct
   (assoc_del removes the first entry of a name only). *)
Definition keys_nodup (st : state) : Prop := forall o, NoDup (map fst (o_info (get_obj st o))).

Lemma info_upd_keep st o f p :
  (forall ob, o_info (f ob) = o_info ob) -> o_info (get_obj (upd_obj st o f) p) = o_info (get_obj st p).
Proof.
  intros Hf. destruct (Nat.eq_dec o p) as [<-|Hne].
  - destruct (Nat.lt_ge_cases o (length (objs st))) as [Hlt|Hge].
    + rewrite get_obj_upd_same by exact Hlt. apply Hf.
    + unfold upd_obj, get_obj. cbn [objs]. rewrite update_oob by exact Hge. reflexivity.
  - rewrite get_obj_upd_other by exact Hne. reflexivity.
Qed.

(* propagation never touches a table *)
Lemma assign_info v : forall f st o n p,
  o_info (get_obj (fst (assign f st o n v)) p) = o_info (get_obj st p).
Proof.
  induction f as [|f IH]; intros st o n p; [reflexivity|]. cbn [assign].
  destruct (negb (kind_ok n v)); [reflexivity|].
  assert (forall s a b w, o_info (get_obj (set_val s a b w) p) = o_info (get_obj s p)) as Hset
    by (intros; unfold set_val; apply info_upd_keep; reflexivity).
  destruct (val_eqb (get_val st o n) v); cbn [fst]; [apply Hset|].
  set (st2 := add_note (set_val st o n v) o n).
  assert (o_info (get_obj st2 p) = o_info (get_obj st p)) as H2 by (unfold st2; apply Hset).
  destruct (has n (o_att_s (get_obj st2 o))); cbn [fst]; [|exact H2].
  destruct (partners st2 o n) as [ps|]; cbn [fst]; [|exact H2].
  unfold unlock. rewrite info_upd_keep by reflexivity.
  assert (forall l s, o_info (get_obj s p) = o_info (get_obj st p) ->
            o_info (get_obj (fold_left (fun s (q : oid * name) => let '(p0, pn) := q in
               if lockedb s p0 pn then s else fst (assign f s p0 pn v)) l s) p) = o_info (get_obj st p)) as Hf.
  { induction l as [|[p0 pn] l IHl]; intros s Hs; cbn [fold_left]; [exact Hs|]. apply IHl.
    destruct (lockedb s p0 pn); [exact Hs|]. rewrite IH. exact Hs. }
  apply Hf. unfold lock. rewrite info_upd_keep by reflexivity. exact H2.
Qed.

Lemma assoc_set_keys {A} k (a : A) l : NoDup (map fst l) -> NoDup (map fst (assoc_set k a l)).
Proof.
  induction l as [|[k' a'] l IH]; cbn; intros Hnd; [constructor; [intros []|constructor]|].
  inversion Hnd as [|? ? Hnotin Hnd']; subst.
  destruct (Nat.eqb k k') eqn:E; cbn.
  - apply Nat.eqb_eq in E. subst. constructor; assumption.
  - constructor; [|apply IH; exact Hnd'].
    intros Hin. apply Hnotin. clear - Hin E. induction l as [|[k2 a2] l IHl]; cbn in *.
    + destruct Hin as [Hin|[]]. subst. rewrite Nat.eqb_refl in E. discriminate.
    + destruct (Nat.eqb k k2) eqn:E2; cbn in Hin.
      * apply Nat.eqb_eq in E2. subst. destruct Hin as [Hin|Hin]; [subst; rewrite Nat.eqb_refl in E; discriminate|right; exact Hin].
      * destruct Hin as [Hin|Hin]; [left; exact Hin|right; apply IHl; exact Hin].
Qed.

Lemma keys_link_tables st o n p m : keys_nodup st -> keys_nodup (link_tables st o n p m).
Proof.
  intros K q. unfold link_tables.
  destruct (Nat.eq_dec o q) as [<-|Hne].
  - destruct (Nat.lt_ge_cases o (length (objs st))) as [Hlt|Hge].
    + rewrite get_obj_upd_same by exact Hlt. cbn [o_info]. apply assoc_set_keys. apply K.
    + unfold upd_obj, get_obj. cbn [objs]. rewrite update_oob by exact Hge. apply K.
  - rewrite get_obj_upd_other by exact Hne. apply K.
Qed.

Lemma sync1_keys fuel st o n p m : keys_nodup st -> keys_nodup (fst (sync1 fuel st o n p m)).
Proof.
  intros K. destruct (has_key (p, m) (dic_of st o n)) eqn:E.
  - rewrite sync1_linked by exact E. exact K.
  - rewrite sync1_new by exact E. intros q. rewrite assign_info. apply keys_link_tables. exact K.
Qed.

Lemma assoc_del_same {A} k (l : list (nat * A)) : NoDup (map fst l) -> assoc k (assoc_del k l) = None.
Proof.
  induction l as [|[k' a'] l IH]; cbn; intros Hnd; [reflexivity|].
  inversion Hnd as [|? ? Hnotin Hnd']; subst.
  destruct (Nat.eqb k k') eqn:E.
  - apply Nat.eqb_eq in E. subst k'. clear - Hnotin. induction l as [|[k2 a2] l IHl]; cbn in *; [reflexivity|].
    destruct (Nat.eqb k k2) eqn:E2; [apply Nat.eqb_eq in E2; subst; exfalso; apply Hnotin; left; reflexivity|].
    apply IHl. intros H. apply Hnotin. right. exact H.
  - cbn. rewrite E. apply IH. exact Hnd'.
Qed.
Lemma assoc_del_other {A} k k2 (l : list (nat * A)) : k2 <> k -> assoc k2 (assoc_del k l) = assoc k2 l.
Proof.
  intros Hne. induction l as [|[k' a'] l IH]; cbn; [reflexivity|].
  destruct (Nat.eqb k k') eqn:E; cbn.
  - apply Nat.eqb_eq in E. subst k'. destruct (Nat.eqb k2 k) eqn:E2; [apply Nat.eqb_eq in E2; contradiction|reflexivity].
  - destruct (Nat.eqb k2 k'); [reflexivity|exact IH].
Qed.
Lemma assoc_del_keys {A} k (l : list (nat * A)) : NoDup (map fst l) -> NoDup (map fst (assoc_del k l)).
Proof.
  induction l as [|[k' a'] l IH]; cbn; intros Hnd; [constructor|].
  inversion Hnd as [|? ? Hnotin Hnd']; subst. destruct (Nat.eqb k k'); [exact Hnd'|]. cbn.
  constructor; [|apply IH; exact Hnd'].
  intros Hin. apply Hnotin. clear - Hin. induction l as [|[k2 a2] l IHl]; cbn in *; [contradiction|].
  destruct (Nat.eqb k k2); cbn in Hin; [right; exact Hin|destruct Hin as [H|H]; [left; exact H|right; apply IHl; exact H]].
Qed.
Lemma has_del1_other n n' l : n' <> n -> has n' (del1 n l) = has n' l.
Proof.
  intros Hne. unfold has, del1. induction l as [|x l IH]; cbn; [reflexivity|].
  destruct (Nat.eqb n x) eqn:E; cbn.
  - apply Nat.eqb_eq in E. subst x. destruct (Nat.eqb n' n) eqn:E2; [apply Nat.eqb_eq in E2; contradiction|exact IH].
  - rewrite IH. reflexivity.
Qed.
Lemma length_del1 n l : (length (del1 n l) <= length l)%nat.
Proof. unfold del1. induction l as [|x l IH]; cbn; [lia|]. destruct (negb (Nat.eqb n x)); cbn; lia. Qed.

Lemma key_eqb_true a b : key_eqb a b = true <-> a = b.
Proof.
  unfold key_eqb. split.
  - intros H. apply andb_prop in H. destruct H as [H1 H2]. apply Nat.eqb_eq in H1, H2. destruct a, b; cbn in *; congruence.
  - intros ->. rewrite !Nat.eqb_refl. reflexivity.
Qed.

Section Unlink.
  Variables (st : state) (o : oid) (n : name) (p : oid) (m : name).
  Hypothesis Ho : (o < length (objs st))%nat.
  Hypothesis K : keys_nodup st.
  Let st' := unsync1 st o n p m.

  (* the three shapes of the result *)
  Lemma unsync1_cases :
    st' = st /\ ~ edge st (o, n) (p, m)
    \/ (exists dic, partners st o n = Some dic /\ In (p, m) dic /\
          filter (fun k => negb (key_eqb (p, m) k)) dic = [] /\
          st' = upd_obj st o (fun ob => mkO (o_alive ob) (o_vals ob) (assoc_del n (o_info ob)) (o_locked ob)
                  (del1 n (o_att_s ob)) (if is_list_name n && is_list_name m then del1 n (o_att_i ob) else o_att_i ob)))
    \/ (exists dic d0 dr, partners st o n = Some dic /\ In (p, m) dic /\
          filter (fun k => negb (key_eqb (p, m) k)) dic = d0 :: dr /\
          st' = upd_obj st o (fun ob => mkO (o_alive ob) (o_vals ob) (assoc_set n (d0 :: dr) (o_info ob)) (o_locked ob)
                  (o_att_s ob) (o_att_i ob))).
  Proof.
    unfold st', unsync1. fold (partners st o n).
    destruct (partners st o n) as [dic|] eqn:Hp.
    - destruct (has_key (p, m) dic) eqn:Hk.
      + assert (In (p, m) dic) as Hin.
        { unfold has_key in Hk. apply existsb_exists in Hk. destruct Hk as (z & Hz & E). apply key_eqb_true in E. subst. exact Hz. }
        destruct (filter (fun k => negb (key_eqb (p, m) k)) dic) as [|d0 dr] eqn:Hf.
        * right. left. exists dic. auto.
        * right. right. exists dic, d0, dr. auto.
      + left. split; [reflexivity|]. intros (ps & Hp' & Hin). cbn [fst snd] in Hp'. rewrite Hp in Hp'. injection Hp' as <-.
        assert (has_key (p, m) dic = true) as Hk' by (unfold has_key; apply existsb_exists; exists (p, m); split; [exact Hin|apply key_eqb_true; reflexivity]).
        congruence.
    - left. split; [reflexivity|]. intros (ps & Hp' & _). cbn [fst snd] in Hp'. congruence.
  Qed.

  Lemma ul_val x : val st' x = val st x.
  Proof.
    destruct unsync1_cases as [[-> _]|[(dic & _ & _ & _ & ->)|(dic & d0 & dr & _ & _ & _ & ->)]];
      [reflexivity|unfold val; apply get_val_upd_keep; reflexivity|unfold val; apply get_val_upd_keep; reflexivity].
  Qed.
  Lemma ul_frame_small :
    length (objs st') = length (objs st) /\
    (forall a, length (o_vals (get_obj st' a)) = length (o_vals (get_obj st a)) /\
               o_locked (get_obj st' a) = o_locked (get_obj st a)) /\ overflow st' = overflow st.
  Proof.
    destruct unsync1_cases as [[-> _]|[(dic & _ & _ & _ & ->)|(dic & d0 & dr & _ & _ & _ & ->)]];
      [repeat split| |]; (split; [apply upd_obj_length|split; [|reflexivity]]); intros a;
      (destruct (Nat.eq_dec o a) as [<-|Hne]; [rewrite get_obj_upd_same by exact Ho; split; reflexivity|rewrite get_obj_upd_other by exact Hne; split; reflexivity]).
  Qed.
  Lemma ul_in_range x : in_range st x <-> in_range st' x.
  Proof. destruct ul_frame_small as (L & F & _). unfold in_range. rewrite L. destruct (F (fst x)) as [-> _]. reflexivity. Qed.
  Lemma ul_locked x : locked st' x = locked st x.
  Proof. destruct ul_frame_small as (_ & F & _). unfold locked, lockedb. destruct (F (fst x)) as [_ ->]. reflexivity. Qed.

  Lemma ul_edge a b : edge st' a b <-> (edge st a b /\ ~ (a = (o, n) /\ b = (p, m))).
  Proof.
    destruct unsync1_cases as [[-> Hno]|[(dic & Hp & Hin & Hf & ->)|(dic & d0 & dr & Hp & Hin & Hf & ->)]].
    - split; [intros He; split; [exact He|intros [-> ->]; contradiction]|intros [He _]; exact He].
    - (* the whole entry disappears: every partner was (p, m) *)
      assert (forall b0, In b0 dic -> b0 = (p, m)) as Hall.
      { intros b0 Hb. destruct (key_eqb (p, m) b0) eqn:E; [apply key_eqb_true in E; auto|].
        assert (In b0 (filter (fun k => negb (key_eqb (p, m) k)) dic)) as Hc by (apply filter_In; split; [exact Hb|rewrite E; reflexivity]).
        rewrite Hf in Hc. contradiction. }
      destruct (node_eq_dec a (o, n)) as [->|Ha].
      + split.
        * intros (ps & Hp' & _). cbn [fst snd] in Hp'. unfold partners in Hp'. rewrite get_obj_upd_same in Hp' by exact Ho.
          cbn [o_info] in Hp'. rewrite assoc_del_same in Hp' by apply K. discriminate.
        * intros [(ps & Hp' & Hb) Hne]. cbn [fst snd] in Hp'. rewrite Hp in Hp'. injection Hp' as <-.
          exfalso. apply Hne. split; [reflexivity|apply Hall; exact Hb].
      + assert (partners (upd_obj st o (fun ob => mkO (o_alive ob) (o_vals ob) (assoc_del n (o_info ob)) (o_locked ob)
                  (del1 n (o_att_s ob)) (if is_list_name n && is_list_name m then del1 n (o_att_i ob) else o_att_i ob))) (fst a) (snd a)
                = partners st (fst a) (snd a)) as Hsame.
        { unfold partners. destruct a as [a1 a2]. cbn [fst snd]. destruct (Nat.eq_dec o a1) as [<-|Hoa].
          - rewrite get_obj_upd_same by exact Ho. cbn [o_info]. apply assoc_del_other. intros ->. apply Ha. reflexivity.
          - rewrite get_obj_upd_other by exact Hoa. reflexivity. }
        unfold edge. rewrite Hsame. split; [intros He; split; [exact He|intros [E _]; contradiction]|intros [He _]; exact He].
    - destruct (node_eq_dec a (o, n)) as [->|Ha].
      + assert (partners (upd_obj st o (fun ob => mkO (o_alive ob) (o_vals ob) (assoc_set n (d0 :: dr) (o_info ob)) (o_locked ob)
                  (o_att_s ob) (o_att_i ob))) o n = Some (d0 :: dr)) as Hnew.
        { unfold partners. rewrite get_obj_upd_same by exact Ho. cbn [o_info]. apply assoc_set_same. }
        unfold edge. cbn [fst snd]. rewrite Hnew, Hp. rewrite <- Hf. split.
        * intros (ps & [= <-] & Hb). apply filter_In in Hb. destruct Hb as [Hb Hk].
          split; [exists dic; auto|]. intros [_ ->]. rewrite (proj2 (key_eqb_true _ _) eq_refl) in Hk. discriminate.
        * intros [(ps & [= <-] & Hb) Hne]. eexists. split; [reflexivity|]. apply filter_In. split; [exact Hb|].
          destruct (key_eqb (p, m) b) eqn:E; [|reflexivity]. apply key_eqb_true in E. subst b. exfalso. apply Hne. auto.
      + assert (partners (upd_obj st o (fun ob => mkO (o_alive ob) (o_vals ob) (assoc_set n (d0 :: dr) (o_info ob)) (o_locked ob)
                  (o_att_s ob) (o_att_i ob))) (fst a) (snd a) = partners st (fst a) (snd a)) as Hsame.
        { unfold partners. destruct a as [a1 a2]. cbn [fst snd]. destruct (Nat.eq_dec o a1) as [<-|Hoa].
          - rewrite get_obj_upd_same by exact Ho. cbn [o_info]. apply assoc_set_other. intros ->. apply Ha. reflexivity.
          - rewrite get_obj_upd_other by exact Hoa. reflexivity. }
        unfold edge. rewrite Hsame. split; [intros He; split; [exact He|intros [E _]; contradiction]|intros [He _]; exact He].
  Qed.

  Lemma ul_keys : keys_nodup st'.
  Proof.
    intros q. destruct unsync1_cases as [[-> _]|[(dic & _ & _ & _ & ->)|(dic & d0 & dr & _ & _ & _ & ->)]]; [apply K| |];
      (destruct (Nat.eq_dec o q) as [<-|Hne]; [rewrite get_obj_upd_same by exact Ho; cbn [o_info]|rewrite get_obj_upd_other by exact Hne; apply K]).
    - apply assoc_del_keys. apply K.
    - apply assoc_set_keys. apply K.
  Qed.

  Lemma ul_attached : gwf st -> forall x ps, partners st' (fst x) (snd x) = Some ps ->
    has (snd x) (o_att_s (get_obj st' (fst x))) = true.
  Proof.
    intros [G1 _] x ps Hps.
    destruct unsync1_cases as [[E _]|[(dic & Hp & Hin & Hf & E)|(dic & d0 & dr & Hp & Hin & Hf & E)]].
    - rewrite E in *. apply (G1 x ps). exact Hps.
    - rewrite E in *. destruct x as [a b]. cbn [fst snd] in *. unfold partners in Hps.
      destruct (Nat.eq_dec o a) as [<-|Hoa].
      + rewrite get_obj_upd_same in * by exact Ho. cbn [o_info o_att_s] in *.
        destruct (Nat.eq_dec b n) as [->|Hbn]; [rewrite assoc_del_same in Hps by apply K; discriminate|].
        rewrite assoc_del_other in Hps by exact Hbn. rewrite has_del1_other by exact Hbn. apply (G1 (o, b) ps). exact Hps.
      + rewrite get_obj_upd_other in * by exact Hoa. apply (G1 (a, b) ps). exact Hps.
    - rewrite E in *. destruct x as [a b]. cbn [fst snd] in *. unfold partners in Hps.
      destruct (Nat.eq_dec o a) as [<-|Hoa].
      + rewrite get_obj_upd_same in * by exact Ho. cbn [o_info o_att_s] in *.
        destruct (Nat.eq_dec b n) as [->|Hbn]; [apply (G1 (o, n) dic); exact Hp|].
        rewrite assoc_set_other in Hps by exact Hbn. apply (G1 (o, b) ps). exact Hps.
      + rewrite get_obj_upd_other in * by exact Hoa. apply (G1 (a, b) ps). exact Hps.
  Qed.

  Lemma ul_A : (A st' <= A st)%nat.
  Proof.
    destruct unsync1_cases as [[-> _]|[(dic & _ & _ & _ & ->)|(dic & d0 & dr & _ & _ & _ & ->)]]; [lia| |].
    - unfold A, upd_obj. cbn [objs]. eapply Nat.le_trans; [apply (list_sum_update_le att_count _ 0)|lia].
      intros ob. unfold att_count. cbn [o_att_s o_att_i]. rewrite !app_length.
      pose proof (length_del1 n (o_att_s ob)). pose proof (length_del1 n (o_att_i ob)).
      destruct (is_list_name n && is_list_name m); unfold name in *; lia.
    - unfold A, upd_obj. cbn [objs]. eapply Nat.le_trans; [apply (list_sum_update_le att_count _ 0)|lia].
      intros ob. unfold att_count. cbn [o_att_s o_att_i]. lia.
  Qed.
End Unlink.

(* one direction of removal keeps gwf (links are only taken away) *)
Lemma gwf_unlink st o n p m :
  (o < length (objs st))%nat -> keys_nodup st -> gwf st -> gwf (unsync1 st o n p m).
Proof.
  intros Ho K G. split.
  - apply (ul_attached st o n p m Ho K G).
  - intros x y He. apply (ul_edge st o n p m Ho K) in He. destruct He as [He _].
    destruct (g_edge _ G x y He) as (A1 & A2 & A3 & A4).
    repeat split; try assumption; apply (ul_in_range st o n p m Ho); assumption.
Qed.

Theorem unsync_step_inv fuel st o n p m :
  ginv st -> keys_nodup st -> in_range st (o, n) -> in_range st (p, m) ->
  let st' := fst (step fuel st (Unsync o n p m true)) in
  ginv st' /\ keys_nodup st' /\ (A st' <= A st)%nat /\ (forall x, in_range st x <-> in_range st' x).
Proof.
  intros Hinv K Rx Ry st'.
  set (st0 := clear_notes st).
  pose proof (ginv_clear_notes st Hinv) as [G Sy C NL Hov Ty]. fold st0 in G, Sy, C, NL, Hov, Ty.
  assert (keys_nodup st0) as K0 by exact K.
  assert (o < length (objs st0))%nat as Ho by apply Rx.
  set (st1 := unsync1 st0 o n p m).
  assert (p < length (objs st1))%nat as Hp1.
  { destruct (ul_frame_small st0 o n p m Ho) as (L & _). fold st1 in L. rewrite L. apply Ry. }
  assert (keys_nodup st1) as K1 by (apply ul_keys; assumption).
  set (st2 := unsync1 st1 p m o n).
  assert (st' = st2) as -> by reflexivity.
  assert (forall a b, edge st2 a b <->
            (edge st0 a b /\ ~ (a = (o, n) /\ b = (p, m)) /\ ~ (a = (p, m) /\ b = (o, n)))) as E2.
  { intros a b. unfold st2. rewrite (ul_edge st1 p m o n Hp1 K1). unfold st1. rewrite (ul_edge st0 o n p m Ho K0). tauto. }
  assert (forall x, val st2 x = val st0 x) as V2.
  { intros x. unfold st2. rewrite (ul_val st1 p m o n). unfold st1. apply (ul_val st0 o n p m). }
  assert (forall x, in_range st0 x <-> in_range st2 x) as R2.
  { intros x. rewrite (ul_in_range st0 o n p m Ho x). fold st1. apply (ul_in_range st1 p m o n Hp1). }
  split; [|split; [apply ul_keys; assumption|split; [|exact R2]]].
  - split.
    + apply gwf_unlink; [exact Hp1|exact K1|]. apply gwf_unlink; assumption.
    + intros a b He. apply E2 in He. destruct He as (He & N1 & N2). apply E2.
      split; [apply Sy; exact He|]. split; [intros [-> ->]; apply N2; auto|intros [-> ->]; apply N1; auto].
    + intros a b He. rewrite !V2. apply E2 in He. apply C. apply He.
    + intros x. unfold st2. rewrite (ul_locked st1 p m o n Hp1). unfold st1. rewrite (ul_locked st0 o n p m Ho). apply NL.
    + destruct (ul_frame_small st1 p m o n Hp1) as (_ & _ & O2). fold st2 in O2. rewrite O2.
      destruct (ul_frame_small st0 o n p m Ho) as (_ & _ & O1). fold st1 in O1. rewrite O1. exact Hov.
    + intros x Rx2. rewrite V2. apply Ty. apply R2. exact Rx2.
  - pose proof (ul_A st1 p m o n Hp1). pose proof (ul_A st0 o n p m Ho). fold st1 in H0. fold st2 in H.
    assert (A st0 = A st) by reflexivity. lia.
Qed.

(* what the removal does to the graph and to the values: exactly the two directions of that link go *)
Lemma unsync_step_edges fuel st o n p m :
  keys_nodup st -> in_range st (o, n) -> in_range st (p, m) ->
  let st' := fst (step fuel st (Unsync o n p m true)) in
  (forall a b, edge st' a b <->
     (edge st a b /\ ~ (a = (o, n) /\ b = (p, m)) /\ ~ (a = (p, m) /\ b = (o, n)))) /\
  (forall x, val st' x = val st x).
Proof.
  intros K Rx Ry st'.
  set (st0 := clear_notes st).
  assert (keys_nodup st0) as K0 by exact K.
  assert (o < length (objs st0))%nat as Ho by apply Rx.
  set (st1 := unsync1 st0 o n p m).
  assert (p < length (objs st1))%nat as Hp1.
  { destruct (ul_frame_small st0 o n p m Ho) as (L & _). fold st1 in L. rewrite L. apply Ry. }
  assert (keys_nodup st1) as K1 by (apply ul_keys; assumption).
  set (st2 := unsync1 st1 p m o n).
  assert (st' = st2) as -> by reflexivity.
  split.
  - intros a b. unfold st2. rewrite (ul_edge st1 p m o n Hp1 K1). unfold st1. rewrite (ul_edge st0 o n p m Ho K0).
    change (edge st0 a b) with (edge st a b). tauto.
  - intros x. unfold st2. rewrite (ul_val st1 p m o n). unfold st1. rewrite (ul_val st0 o n p m). reflexivity.
Qed.

(* STOP WHEN UNSYNCHRONISED, on every graph: after remove=True a later assignment to one end changes
   only what is still reachable from it in the graph without that link (both directions gone); in
   particular the former partner keeps its value unless another path still joins the two. *)
Theorem removed_link_inert_on_graphs fuel st o n p m v :
  ginv st -> keys_nodup st -> in_range st (o, n) -> in_range st (p, m) ->
  kind_ok n v = true -> (A st < fuel)%nat ->
  let st1 := fst (step fuel st (Unsync o n p m true)) in
  let st2 := fst (step fuel st1 (Assign o n v)) in
  (forall a b, edge st1 a b <->
     (edge st a b /\ ~ (a = (o, n) /\ b = (p, m)) /\ ~ (a = (p, m) /\ b = (o, n)))) /\
  ginv st2 /\
  (forall y, reach st1 (o, n) y -> val st2 y = v) /\
  (forall y, ~ reach st1 (o, n) y -> val st2 y = val st y).
Proof.
  intros Hinv K Rx Ry Hk Hfuel st1 st2.
  destruct (unsync_step_inv fuel st o n p m Hinv K Rx Ry) as (I1 & K1 & A1 & R1). fold st1 in I1, K1, A1, R1.
  destruct (unsync_step_edges fuel st o n p m K Rx Ry) as (E1 & V1). fold st1 in E1, V1.
  assert (in_range st1 (o, n)) as Rx1 by (apply R1; exact Rx).
  destruct (assign_step_inv fuel st1 o n v I1 Rx1 Hk ltac:(lia)) as (I2 & _). fold st2 in I2.
  split; [exact E1|]. split; [exact I2|].
  set (s0 := clear_notes st1).
  pose proof (ginv_clear_notes st1 I1) as [G Sy C NL Hov Ty]. fold s0 in G, Sy, C, NL, Hov, Ty.
  assert (Phi s0 < fuel)%nat as P0 by (pose proof (Phi_le_A s0); assert (A s0 = A st1) by reflexivity; lia).
  assert (st2 = fst (assign fuel s0 o n v)) as Hstep.
  { unfold st2, step. fold s0. destruct (assign fuel s0 o n v). reflexivity. }
  pose proof (gwf_wf s0 v G) as W.
  assert (in_range s0 (o, n)) as Rx0 by exact Rx1.
  destruct (assign_converges v fuel s0 o n W C NL Hov P0 Hk Rx0) as (_ & _ & Hall & _).
  split.
  - intros y R. rewrite Hstep. apply Hall. eapply reach_frame; [apply clear_notes_frame|exact R].
  - intros y NR. rewrite <- V1. rewrite Hstep.
    destruct (val_dec (val (fst (assign fuel s0 o n v)) y) (val s0 y)) as [E|E]; [exact E|].
    exfalso. apply NR. eapply reach_frame; [apply same_frame_sym; apply (clear_notes_frame st1)|].
    eapply assign_touches_only_reachable; [exact Hov|apply (NL (o, n))|exact P0|exact E].
Qed.

(* key uniqueness through the other two kinds of step *)
Lemma sync_step_keys fuel st o n p m : keys_nodup st -> keys_nodup (fst (step fuel st (Sync o n p m true))).
Proof.
  intros K. unfold step. set (st0 := clear_notes st). assert (keys_nodup st0) as K0 by exact K.
  pose proof (sync1_keys fuel st0 o n p m K0) as K1.
  destruct (sync1 fuel st0 o n p m) as [s1 ok]. cbn [fst] in K1. destruct ok; cbn [negb]; [|exact K1].
  pose proof (sync1_keys fuel s1 p m o n K1) as K2. destruct (sync1 fuel s1 p m o n) as [s2 ok2]. exact K2.
Qed.
Lemma assign_step_keys fuel st o n v : keys_nodup st -> keys_nodup (fst (step fuel st (Assign o n v))).
Proof.
  intros K q. unfold step. set (st0 := clear_notes st).
  pose proof (assign_info v fuel st0 o n q) as H. destruct (assign fuel st0 o n v) as [s1 ok]. cbn [fst] in *.
  rewrite H. apply K.
Qed.

(* ---------- histories of link creation, link removal and assignments ---------- *)
Fixpoint gops_ok2 (st : state) (ops : list op) : Prop :=
  match ops with
  | [] => True
  | Assign o n v :: r => in_range st (o, n) /\ kind_ok n v = true /\ gops_ok2 st r
  | Sync o n p m true :: r => link_ok st (o, n) (p, m) /\ gops_ok2 st r
  | Unsync o n p m true :: r => in_range st (o, n) /\ in_range st (p, m) /\ gops_ok2 st r
  | _ :: _ => False
  end.

Lemma gops_ok2_range s t ops : (forall z, in_range s z <-> in_range t z) -> gops_ok2 s ops -> gops_ok2 t ops.
Proof.
  intros H. induction ops as [|[o n v| |o n p m [|]|o n p m [|]|] r IH]; cbn; auto.
  - intros (A1 & A2 & A3). split; [apply H; exact A1|]. split; [exact A2|apply IH; exact A3].
  - intros (A1 & A2). split; [eapply link_ok_range; eassumption|apply IH; exact A2].
  - intros (A1 & A2 & A3). split; [apply H; exact A1|]. split; [apply H; exact A2|apply IH; exact A3].
Qed.

Theorem link_unlink_assign_histories fuel : forall ops st,
  ginv st -> keys_nodup st -> (A st + 4 * length ops < fuel)%nat -> gops_ok2 st ops ->
  ginv (final fuel st ops).
Proof.
  induction ops as [|[o n v| |o n p m [|]|o n p m [|]|] r IH]; intros st Hinv K Hfuel Hops; cbn [final]; try contradiction.
  - exact Hinv.
  - destruct Hops as (Rx & Hk & Hr). cbn [length] in Hfuel.
    destruct (assign_step_inv fuel st o n v Hinv Rx Hk ltac:(lia)) as (I1 & A1 & R1).
    apply IH; [exact I1|apply assign_step_keys; exact K|rewrite A1; lia|eapply gops_ok2_range; eassumption].
  - destruct Hops as (Hok & Hr). cbn [length] in Hfuel.
    destruct (sync_step_inv fuel st o n p m Hinv Hok ltac:(lia)) as (I1 & A1 & R1).
    apply IH; [exact I1|apply sync_step_keys; exact K|lia|eapply gops_ok2_range; eassumption].
  - destruct Hops as (Rx & Ry & Hr). cbn [length] in Hfuel.
    destruct (unsync_step_inv fuel st o n p m Hinv K Rx Ry) as (I1 & K1 & A1 & R1).
    apply IH; [exact I1|exact K1|lia|eapply gops_ok2_range; eassumption].
Qed.

Lemma keys_fresh vs : keys_nodup (init_state vs).
Proof.
  intros o. destruct (Nat.lt_ge_cases o (length vs)) as [Ho|Ho].
  - rewrite get_obj_fresh by exact Ho. constructor.
  - unfold get_obj. rewrite nth_overflow; [constructor|]. unfold init_state. cbn [objs]. rewrite map_length. exact Ho.
Qed.

Theorem fresh_link_unlink_assign_histories fuel vs ops :
  typed_pool vs -> (4 * length ops < fuel)%nat -> gops_ok2 (init_state vs) ops ->
  let st' := final fuel (init_state vs) ops in
  consistent st' /\ symmetric st' /\ no_locks st' /\ overflow st' = false.
Proof.
  intros Ht Hfuel Hops st'. destruct (ginv_fresh vs Ht) as [I0 A0].
  destruct (link_unlink_assign_histories fuel ops (init_state vs) I0 (keys_fresh vs) ltac:(lia) Hops) as [_ Sy C NL Hov _].
  repeat split; assumption.
Qed.

Fixpoint gops_ok2b (st : state) (ops : list op) : bool :=
  match ops with
  | [] => true
  | Assign o n v :: r => in_rangeb st (o, n) && kind_ok n v && gops_ok2b st r
  | Sync o n p m true :: r => link_okb st (o, n) (p, m) && gops_ok2b st r
  | Unsync o n p m true :: r => in_rangeb st (o, n) && in_rangeb st (p, m) && gops_ok2b st r
  | _ :: _ => false
  end.
Lemma gops_ok2b_sound st ops : gops_ok2b st ops = true -> gops_ok2 st ops.
Proof.
  induction ops as [|[o n v| |o n p m [|]|o n p m [|]|] r IH]; cbn; try discriminate; auto.
  - intros H. apply andb_prop in H. destruct H as [H H3]. apply andb_prop in H. destruct H as [H1 H2].
    split; [apply in_rangeb_sound; exact H1|]. split; [exact H2|apply IH; exact H3].
  - intros H. apply andb_prop in H. destruct H as [H1 H2]. split; [apply link_okb_sound; exact H1|apply IH; exact H2].
  - intros H. apply andb_prop in H. destruct H as [H H3]. apply andb_prop in H. destruct H as [H1 H2].
    split; [apply in_rangeb_sound; exact H1|]. split; [apply in_rangeb_sound; exact H2|apply IH; exact H3].
Qed.

(* ---------- a partner object dies (weak references fire) inside a general graph ---------- *)
Definition cl (d : oid) (ob : ostate) : ostate :=
  mkO (o_alive ob) (o_vals ob) (drop_dead d (o_info ob)) (o_locked ob) (o_att_s ob) (o_att_i ob).
Definition live (d : oid) (ps : list (oid * name)) : list (oid * name) :=
  filter (fun q : oid * name => negb (Nat.eqb (fst q) d)) ps.

Lemma nth_update_dead : forall l d j,
  nth j (update d (fun _ => dead_obj) l) dead_obj = if Nat.eqb j d then dead_obj else nth j l dead_obj.
Proof.
  induction l as [|a l IH]; intros [|d] [|j]; cbn; auto.
  destruct (Nat.eqb j d); reflexivity.
Qed.

Lemma get_obj_collect st d o :
  get_obj (collect st d) o = if Nat.eqb o d then dead_obj else cl d (get_obj st o).
Proof.
  unfold get_obj, collect. cbn [objs].
  change (nth o (map (cl d) (update d (fun _ => dead_obj) (objs st))) (cl d dead_obj) =
          if Nat.eqb o d then dead_obj else cl d (nth o (objs st) dead_obj)).
  rewrite map_nth, nth_update_dead. destruct (Nat.eqb o d); reflexivity.
Qed.

Lemma drop_dead_cons d k ps r :
  drop_dead d ((k, ps) :: r) =
  match live d ps with
  | [] => drop_dead d r
  | _ :: _ => (k, live d ps) :: drop_dead d r
  end.
Proof.
  unfold drop_dead. cbn [map filter fst snd].
  change (filter (fun k0 : nat * name => negb (Nat.eqb (fst k0) d)) ps) with (live d ps).
  destruct (live d ps); reflexivity.
Qed.

Lemma assoc_notin {B} k : forall (l : list (nat * B)), ~ In k (map fst l) -> assoc k l = None.
Proof.
  induction l as [|[k' a] l IH]; cbn; auto. intros H. destruct (Nat.eqb_spec k k') as [->|N].
  - exfalso. apply H. left. reflexivity.
  - apply IH. intros Hin. apply H. right. exact Hin.
Qed.

Lemma assoc_drop_dead d n : forall info, NoDup (map fst info) ->
  assoc n (drop_dead d info) =
  match assoc n info with
  | Some ps => match live d ps with [] => None | _ :: _ => Some (live d ps) end
  | None => None
  end.
Proof.
  induction info as [|[k ps] r IH]; intros H; [reflexivity|].
  cbn [map fst] in H. inversion H as [|? ? Hk Hr]; subst. rewrite drop_dead_cons. cbn [assoc].
  destruct (Nat.eqb_spec n k) as [->|N].
  - destruct (live d ps) eqn:E.
    + rewrite (IH Hr). rewrite (assoc_notin k r Hk). reflexivity.
    + cbn [assoc]. rewrite Nat.eqb_refl. reflexivity.
  - destruct (live d ps) eqn:E.
    + apply IH. exact Hr.
    + cbn [assoc]. apply Nat.eqb_neq in N. rewrite N. apply IH. exact Hr.
Qed.

Lemma nodup_filter_keys {B} (g : nat * B -> bool) : forall l, NoDup (map fst l) -> NoDup (map fst (filter g l)).
Proof.
  induction l as [|a l IH]; cbn; intros H; [constructor|]. inversion H as [|? ? H2 H3]; subst.
  destruct (g a); cbn; [constructor; [|auto]|auto].
  intros Hin. apply H2. apply in_map_iff in Hin. destruct Hin as (x & E & Hx). apply filter_In in Hx.
  apply in_map_iff. exists x. tauto.
Qed.

Lemma drop_dead_keys d info : NoDup (map fst info) -> NoDup (map fst (drop_dead d info)).
Proof.
  intros H. unfold drop_dead. apply nodup_filter_keys. rewrite map_map. cbn [fst]. exact H.
Qed.

Lemma A_dead : forall l d,
  (list_sum (map att_count (update d (fun _ => dead_obj) l)) <= list_sum (map att_count l))%nat.
Proof.
  induction l as [|a l IH]; intros [|d]; cbn [update map]; try lia.
  - change (att_count dead_obj + list_sum (map att_count l) <= att_count a + list_sum (map att_count l))%nat.
    change (att_count dead_obj) with 0%nat. lia.
  - change (att_count a + list_sum (map att_count (update d (fun _ => dead_obj) l)) <= att_count a + list_sum (map att_count l))%nat.
    specialize (IH d). lia.
Qed.

Section Collect.
  Variables (st : state) (d : oid).
  Hypothesis K : keys_nodup st.
  Let st' := collect st d.

  Lemma cl_partners o n :
    partners st' o n =
    if Nat.eqb o d then None
    else match partners st o n with
         | Some ps => match live d ps with [] => None | _ :: _ => Some (live d ps) end
         | None => None
         end.
  Proof.
    unfold partners, st'. rewrite get_obj_collect. destruct (Nat.eqb o d); [reflexivity|].
    cbn [cl o_info]. apply assoc_drop_dead. apply K.
  Qed.

  Lemma cl_edge a b : edge st' a b <-> (edge st a b /\ fst a <> d /\ fst b <> d).
  Proof.
    unfold edge. split.
    - intros (ps & Hp & Hin). rewrite cl_partners in Hp. destruct (Nat.eqb_spec (fst a) d) as [E|N]; [discriminate|].
      destruct (partners st (fst a) (snd a)) as [ps0|]; [|discriminate].
      assert (ps = live d ps0) as -> by (destruct (live d ps0); [discriminate|congruence]).
      apply filter_In in Hin. destruct Hin as [Hin Hb]. split; [exists ps0; auto|]. split; [exact N|].
      intros E. rewrite E, Nat.eqb_refl in Hb. discriminate.
    - intros ((ps & Hp & Hin) & Na & Nb). exists (live d ps). rewrite cl_partners.
      apply Nat.eqb_neq in Na. rewrite Na, Hp.
      assert (In b (live d ps)) as Hl.
      { apply filter_In. split; [exact Hin|]. apply Nat.eqb_neq in Nb. rewrite Nb. reflexivity. }
      split; [|exact Hl]. destruct (live d ps); [destruct Hl|reflexivity].
  Qed.

  Lemma cl_val x : fst x <> d -> val st' x = val st x.
  Proof.
    intros N. unfold val, get_val, st'. rewrite get_obj_collect. apply Nat.eqb_neq in N. rewrite N. reflexivity.
  Qed.

  Lemma cl_length : length (objs st') = length (objs st).
  Proof. unfold st', collect. cbn [objs]. rewrite map_length. apply update_length. Qed.

  Lemma cl_in_range x : in_range st' x <-> (in_range st x /\ fst x <> d).
  Proof.
    unfold in_range. rewrite cl_length. unfold st'. rewrite get_obj_collect.
    destruct (Nat.eqb_spec (fst x) d) as [E|N]; cbn [cl o_vals dead_obj length].
    - split; [intros [_ H]; lia|intros [_ H]; contradiction].
    - tauto.
  Qed.

  Lemma cl_locked x : locked st' x = if Nat.eqb (fst x) d then false else locked st x.
  Proof.
    unfold locked, lockedb, st'. rewrite get_obj_collect. destruct (Nat.eqb (fst x) d); reflexivity.
  Qed.

  Lemma cl_A : (A st' <= A st)%nat.
  Proof.
    unfold A, st', collect. cbn [objs]. rewrite map_map.
    rewrite (map_ext (fun ob => att_count (cl d ob)) att_count) by reflexivity.
    apply A_dead.
  Qed.

  Lemma cl_keys : keys_nodup st'.
  Proof.
    intros o. unfold st'. rewrite get_obj_collect. destruct (Nat.eqb o d); [constructor|].
    cbn [cl o_info]. apply drop_dead_keys. apply K.
  Qed.

  Lemma cl_ginv : ginv st -> ginv st'.
  Proof.
    intros [G Sy C NL Hov Ty]. split.
    - split.
      + intros x ps Hp. rewrite cl_partners in Hp. unfold st'. rewrite get_obj_collect.
        destruct (Nat.eqb (fst x) d); [discriminate|].
        destruct (partners st (fst x) (snd x)) as [ps0|] eqn:E; [|discriminate].
        cbn [cl o_att_s]. exact (g_attached _ G x ps0 E).
      + intros x y He. apply cl_edge in He. destruct He as (He & Nx & Ny).
        destruct (g_edge _ G x y He) as (A1 & A2 & A3 & A4).
        repeat split; try assumption; apply cl_in_range; split; assumption.
    - intros a b He. apply cl_edge in He. destruct He as (He & Na & Nb). apply cl_edge. split; [apply Sy; exact He|tauto].
    - intros a b He. apply cl_edge in He. destruct He as (He & Na & Nb). rewrite !cl_val by assumption. apply C. exact He.
    - intros x. rewrite cl_locked. destruct (Nat.eqb (fst x) d); [reflexivity|apply NL].
    - exact Hov.
    - intros x Rx. apply cl_in_range in Rx. destruct Rx as [Rx N]. rewrite cl_val by exact N. apply Ty. exact Rx.
  Qed.
End Collect.

Theorem collect_step_inv fuel st d :
  ginv st -> keys_nodup st ->
  let st' := fst (step fuel st (Collect d)) in
  ginv st' /\ keys_nodup st' /\ (A st' <= A st)%nat /\
  (forall a b, edge st' a b <-> (edge st a b /\ fst a <> d /\ fst b <> d)) /\
  (forall x, in_range st' x <-> (in_range st x /\ fst x <> d)) /\
  (forall x, fst x <> d -> val st' x = val st x).
Proof.
  intros Hinv K st'. set (st0 := clear_notes st).
  assert (keys_nodup st0) as K0 by exact K.
  assert (st' = collect st0 d) as -> by reflexivity.
  split; [apply cl_ginv; [exact K0|apply ginv_clear_notes; exact Hinv]|].
  split; [apply cl_keys; exact K0|]. split; [exact (cl_A st0 d)|].
  split; [exact (cl_edge st0 d K0)|]. split; [exact (cl_in_range st0 d)|exact (cl_val st0 d)].
Qed.

(* ---------- histories of link creation, link removal, assignments and partner deaths ----------
   Validity is asked of every operation AT THE TIME IT RUNS (an object that has died is out of range, so
   nothing may name it afterwards). *)
Definition op_ok (st : state) (o : op) : Prop :=
  match o with
  | Assign o n v => in_range st (o, n) /\ kind_ok n v = true
  | Sync o n p m true => link_ok st (o, n) (p, m)
  | Unsync o n p m true => in_range st (o, n) /\ in_range st (p, m)
  | Collect d => True
  | _ => False
  end.
Fixpoint run_ok (fuel : nat) (st : state) (ops : list op) : Prop :=
  match ops with
  | [] => True
  | o :: r => op_ok st o /\ run_ok fuel (fst (step fuel st o)) r
  end.

Theorem graph_step_inv fuel st o :
  ginv st -> keys_nodup st -> (A st + 4 < fuel)%nat -> op_ok st o ->
  let st' := fst (step fuel st o) in
  ginv st' /\ keys_nodup st' /\ (A st' <= A st + 4)%nat.
Proof.
  intros Hinv K Hfuel Hok. destruct o as [o n v| |o n p m [|]|o n p m [|]|d]; cbn [op_ok] in Hok; try contradiction.
  - destruct Hok as (Rx & Hk). destruct (assign_step_inv fuel st o n v Hinv Rx Hk ltac:(lia)) as (I1 & A1 & _).
    split; [exact I1|]. split; [apply assign_step_keys; exact K|]. cbv zeta. rewrite A1. lia.
  - destruct (sync_step_inv fuel st o n p m Hinv Hok Hfuel) as (I1 & A1 & _).
    split; [exact I1|]. split; [apply sync_step_keys; exact K|exact A1].
  - destruct Hok as (Rx & Ry). destruct (unsync_step_inv fuel st o n p m Hinv K Rx Ry) as (I1 & K1 & A1 & _).
    split; [exact I1|]. split; [exact K1|]. cbv zeta. lia.
  - destruct (collect_step_inv fuel st d Hinv K) as (I1 & K1 & A1 & _).
    split; [exact I1|]. split; [exact K1|]. cbv zeta. lia.
Qed.

Theorem graph_histories fuel : forall ops st,
  ginv st -> keys_nodup st -> (A st + 4 * length ops < fuel)%nat -> run_ok fuel st ops ->
  ginv (final fuel st ops).
Proof.
  induction ops as [|o r IH]; intros st Hinv K Hfuel Hops; cbn [final]; [exact Hinv|].
  destruct Hops as (Hok & Hr). cbn [length] in Hfuel.
  destruct (graph_step_inv fuel st o Hinv K ltac:(lia) Hok) as (I1 & K1 & A1).
  apply IH; [exact I1|exact K1|lia|exact Hr].
Qed.

Theorem fresh_graph_histories fuel vs ops :
  typed_pool vs -> (4 * length ops < fuel)%nat -> run_ok fuel (init_state vs) ops ->
  let st' := final fuel (init_state vs) ops in
  consistent st' /\ symmetric st' /\ no_locks st' /\ overflow st' = false.
Proof.
  intros Ht Hfuel Hops st'. destruct (ginv_fresh vs Ht) as [I0 A0].
  destruct (graph_histories fuel ops (init_state vs) I0 (keys_fresh vs) ltac:(lia) Hops) as [_ Sy C NL Hov _].
  repeat split; assumption.
Qed.

Definition op_okb (st : state) (o : op) : bool :=
  match o with
  | Assign o n v => in_rangeb st (o, n) && kind_ok n v
  | Sync o n p m true => link_okb st (o, n) (p, m)
  | Unsync o n p m true => in_rangeb st (o, n) && in_rangeb st (p, m)
  | Collect d => true
  | _ => false
  end.
Fixpoint run_okb (fuel : nat) (st : state) (ops : list op) : bool :=
  match ops with
  | [] => true
  | o :: r => op_okb st o && run_okb fuel (fst (step fuel st o)) r
  end.
Lemma op_okb_sound st o : op_okb st o = true -> op_ok st o.
Proof.
  destruct o as [o n v| |o n p m [|]|o n p m [|]|d]; cbn; try discriminate; auto.
  - intros H. apply andb_prop in H. destruct H as [H1 H2]. split; [apply in_rangeb_sound; exact H1|exact H2].
  - apply link_okb_sound.
  - intros H. apply andb_prop in H. destruct H as [H1 H2]. split; apply in_rangeb_sound; assumption.
Qed.
Lemma run_okb_sound fuel : forall ops st, run_okb fuel st ops = true -> run_ok fuel st ops.
Proof.
  induction ops as [|o r IH]; intros st H; [exact I|]. cbn [run_okb] in H. apply andb_prop in H. destruct H as [H1 H2].
  split; [apply op_okb_sound; exact H1|apply IH; exact H2].
Qed.
