(* C20 — link creation inside the general-graph theorems: ANY history of `sync_trait(..., mutual=True)`
   between traits of one kind and of assignments, on ANY pool of fresh objects, keeps every linked pair
   equal after every operation (no RecursionError, no lock left behind).  The graph that such a
   history builds is arbitrary: stars, chains, trees, cycles, aliases, several links per trait.
   Built on Spread.v (convergence of one assignment on an arbitrary graph). *)
From Coq Require Import ZArith List Bool Arith Lia.
From TV Require Import Common.Harness C20.ListSem C20.Model C20.Termination C20.Spread.
Import ListNotations.

(* ---------- association lists ---------- *)
Lemma assoc_set_same {A} k (a : A) l : assoc k (assoc_set k a l) = Some a.
Proof.
  induction l as [|[k' a'] l IH]; cbn; [rewrite Nat.eqb_refl; reflexivity|].
  destruct (Nat.eqb k k') eqn:E; cbn; [rewrite Nat.eqb_refl; reflexivity|rewrite E; exact IH].
Qed.
Lemma assoc_set_other {A} k k2 (a : A) l : k2 <> k -> assoc k2 (assoc_set k a l) = assoc k2 l.
Proof.
  intros Hne. induction l as [|[k' a'] l IH]; cbn.
  - destruct (Nat.eqb k2 k) eqn:E; [apply Nat.eqb_eq in E; contradiction|reflexivity].
  - destruct (Nat.eqb k k') eqn:E; cbn.
    + apply Nat.eqb_eq in E. subst k'. destruct (Nat.eqb k2 k) eqn:E2; [apply Nat.eqb_eq in E2; contradiction|reflexivity].
    + destruct (Nat.eqb k2 k'); [reflexivity|exact IH].
Qed.

(* ---------- the table update of one direction of sync_trait ---------- *)
Definition dic_of (st : state) (o : oid) (n : name) : list (oid * name) :=
  match assoc n (o_info (get_obj st o)) with Some d => d | None => [] end.

Definition link_tables (st : state) (o : oid) (n : name) (p : oid) (m : name) : state :=
  let dic := dic_of st o n in
  upd_obj st o (fun ob =>
    mkO (o_alive ob) (o_vals ob) (assoc_set n (dic ++ [(p, m)]) (o_info ob)) (o_locked ob)
        (if is_nil_keys dic then add1 n (o_att_s ob) else o_att_s ob)
        (if is_nil_keys dic && (is_list_name n && is_list_name m) then add1 n (o_att_i ob) else o_att_i ob)).

Lemma sync1_linked fuel st o n p m :
  has_key (p, m) (dic_of st o n) = true -> sync1 fuel st o n p m = (st, true).
Proof. intros H. unfold sync1. fold (dic_of st o n). rewrite H. reflexivity. Qed.

Lemma sync1_new fuel st o n p m :
  has_key (p, m) (dic_of st o n) = false ->
  sync1 fuel st o n p m = assign fuel (link_tables st o n p m) p m (get_val (link_tables st o n p m) o n).
Proof. intros H. unfold sync1. fold (dic_of st o n). rewrite H. reflexivity. Qed.

Section LinkTables.
  Variables (st : state) (o : oid) (n : name) (p : oid) (m : name).
  Hypothesis Ho : (o < length (objs st))%nat.
  Let st1 := link_tables st o n p m.

  Lemma lt_partners_same : partners st1 o n = Some (dic_of st o n ++ [(p, m)]).
  Proof.
    unfold st1, link_tables, partners. rewrite get_obj_upd_same by exact Ho. cbn [o_info]. apply assoc_set_same.
  Qed.
  Lemma lt_partners_other a b : (a, b) <> (o, n) -> partners st1 a b = partners st a b.
  Proof.
    intros Hne. unfold st1, link_tables, partners.
    destruct (Nat.eq_dec o a) as [<-|Hoa].
    - rewrite get_obj_upd_same by exact Ho. cbn [o_info]. apply assoc_set_other. intros ->. apply Hne. reflexivity.
    - rewrite get_obj_upd_other by exact Hoa. reflexivity.
  Qed.
  Lemma lt_val x : val st1 x = val st x.
  Proof. unfold val, st1, link_tables. apply get_val_upd_keep. reflexivity. Qed.
  Lemma lt_length : length (objs st1) = length (objs st).
  Proof. unfold st1, link_tables. apply upd_obj_length. Qed.
  Lemma lt_vals_length a : length (o_vals (get_obj st1 a)) = length (o_vals (get_obj st a)).
  Proof.
    unfold st1, link_tables. destruct (Nat.eq_dec o a) as [<-|Hoa].
    - rewrite get_obj_upd_same by exact Ho. reflexivity.
    - rewrite get_obj_upd_other by exact Hoa. reflexivity.
  Qed.
  Lemma lt_locked x : locked st1 x = locked st x.
  Proof.
    destruct x as [a b]. unfold locked, lockedb, st1, link_tables. cbn [fst snd].
    destruct (Nat.eq_dec o a) as [<-|Hoa].
    - rewrite get_obj_upd_same by exact Ho. reflexivity.
    - rewrite get_obj_upd_other by exact Hoa. reflexivity.
  Qed.
  Lemma lt_overflow : overflow st1 = overflow st.
  Proof. reflexivity. Qed.
  Lemma lt_in_range x : in_range st x <-> in_range st1 x.
  Proof. unfold in_range. rewrite lt_length, lt_vals_length. reflexivity. Qed.

  Lemma dic_of_partners : forall ps, partners st o n = Some ps -> dic_of st o n = ps.
  Proof. intros ps H. unfold dic_of, partners in *. rewrite H. reflexivity. Qed.

  (* the links of st1: those of st and the new one *)
  Lemma lt_edge x y : edge st1 x y <-> (edge st x y \/ (x = (o, n) /\ y = (p, m))).
  Proof.
    destruct (node_eq_dec x (o, n)) as [->|Hx].
    - unfold edge. cbn [fst snd]. rewrite lt_partners_same. split.
      + intros (ps & [= <-] & Hin). apply in_app_or in Hin. destruct Hin as [Hin|[<-|[]]]; [left|right; auto].
        unfold dic_of in Hin. unfold partners. destruct (assoc n (o_info (get_obj st o))) as [d|]; [|contradiction].
        exists d. auto.
      + intros [(ps & Hp & Hin)|[_ ->]].
        * exists (dic_of st o n ++ [(p, m)]). split; [reflexivity|]. rewrite (dic_of_partners ps Hp). apply in_or_app. left. exact Hin.
        * exists (dic_of st o n ++ [(p, m)]). split; [reflexivity|]. apply in_or_app. right. left. reflexivity.
    - unfold edge. destruct x as [a b]. cbn [fst snd]. rewrite lt_partners_other by exact Hx. split.
      + intros H. left. exact H.
      + intros [H|[E _]]; [exact H|contradiction].
  Qed.

  Lemma lt_att_s_mono a b : has b (o_att_s (get_obj st a)) = true -> has b (o_att_s (get_obj st1 a)) = true.
  Proof.
    intros H. unfold st1, link_tables. destruct (Nat.eq_dec o a) as [<-|Hoa].
    - rewrite get_obj_upd_same by exact Ho. cbn [o_att_s]. destruct (is_nil_keys (dic_of st o n)); [|exact H].
      unfold add1. destruct (has n (o_att_s (get_obj st o))); [exact H|]. unfold has. rewrite existsb_app. fold (has b (o_att_s (get_obj st o))). rewrite H. reflexivity.
    - rewrite get_obj_upd_other by exact Hoa. exact H.
  Qed.
  Lemma lt_att_s_new : dic_of st o n = [] -> has n (o_att_s (get_obj st1 o)) = true.
  Proof.
    intros Hd. unfold st1, link_tables. rewrite get_obj_upd_same by exact Ho. cbn [o_att_s]. rewrite Hd. cbn [is_nil_keys].
    unfold add1. destruct (has n (o_att_s (get_obj st o))) eqn:E; [exact E|]. unfold has. rewrite existsb_app. cbn.
    rewrite Nat.eqb_refl. apply orb_true_r.
  Qed.
End LinkTables.

(* ---------- the invariant of link-and-assign histories ---------- *)
Record gwf (st : state) : Prop := mkGwf {
  g_attached : forall x ps, partners st (fst x) (snd x) = Some ps ->
                            has (snd x) (o_att_s (get_obj st (fst x))) = true;
  g_edge : forall x y, edge st x y ->
             is_list_name (snd y) = is_list_name (snd x) /\ is_any_name (snd y) = is_any_name (snd x) /\
             in_range st y /\ in_range st x
}.

Lemma kind_ok_flags a b v :
  is_list_name a = is_list_name b -> is_any_name a = is_any_name b -> kind_ok a v = kind_ok b v.
Proof. intros H1 H2. unfold kind_ok. rewrite H1, H2. reflexivity. Qed.

Lemma gwf_wf st v : gwf st -> wf st v.
Proof.
  intros [G1 G2]. split; [exact G1|].
  intros x y He Hk. destruct (G2 x y He) as (F1 & F2 & Ry & _). split; [|exact Ry].
  rewrite (kind_ok_flags _ _ v F1 F2). exact Hk.
Qed.

Record ginv (st : state) : Prop := mkGinv {
  gi_wf : gwf st;
  gi_sym : symmetric st;
  gi_cons : consistent st;
  gi_nolocks : no_locks st;
  gi_ov : overflow st = false;
  gi_typed : forall x, in_range st x -> kind_ok (snd x) (val st x) = true
}.

Lemma reach_flags st x y : gwf st -> reach st x y ->
  is_list_name (snd y) = is_list_name (snd x) /\ is_any_name (snd y) = is_any_name (snd x).
Proof.
  intros G R. induction R as [|y z R [I1 I2] He]; [split; reflexivity|].
  destruct (g_edge _ G y z He) as (F1 & F2 & _). split; congruence.
Qed.

(* an accepted assignment always reports success *)
Lemma assign_ok f st o n v : kind_ok n v = true -> snd (assign f st o n v) = true.
Proof.
  intros Hk. destruct f as [|f]; [reflexivity|]. cbn [assign]. rewrite Hk. cbn [negb].
  destruct (val_eqb (get_val st o n) v); [reflexivity|].
  destruct (has n _); [|reflexivity]. destruct (partners _ o n); reflexivity.
Qed.

(* re-assigning the value a trait already holds changes no value *)
Lemma assign_same_value f st o n v :
  kind_ok n v = true -> val st (o, n) = v ->
  fst (assign (S f) st o n v) = set_val st o n v.
Proof.
  intros Hk Hv. cbn [assign]. rewrite Hk. cbn [negb]. unfold val in Hv. cbn [fst snd] in Hv.
  rewrite Hv, val_eqb_refl. reflexivity.
Qed.
Lemma val_set_same_value st o n v y : val st (o, n) = v -> val (set_val st o n v) y = val st y.
Proof.
  intros Hv. destruct (node_eq_dec y (o, n)) as [->|Hy]; [|apply val_set_other; exact Hy].
  unfold val, get_val, set_val. cbn [fst snd].
  destruct (Nat.lt_ge_cases o (length (objs st))) as [Hlt|Hge].
  - rewrite get_obj_upd_same by exact Hlt. cbn [o_vals].
    destruct (Nat.lt_ge_cases n (length (o_vals (get_obj st o)))) as [Hn|Hn].
    + rewrite nth_update_same by exact Hn. symmetry. exact Hv.
    + rewrite !nth_overflow; [reflexivity|exact Hn|rewrite update_length; exact Hn].
  - unfold upd_obj, get_obj. cbn [objs]. rewrite update_oob by exact Hge. reflexivity.
Qed.

(* ---------- the recursion budget grows by at most two handlers per direction ---------- *)
Definition att_count (ob : ostate) : nat := length (o_att_s ob ++ o_att_i ob).
Definition A (st : state) : nat := list_sum (map att_count (objs st)).

Lemma Phi_le_A st : (Phi st <= A st)%nat.
Proof. apply Phi_le_attached. Qed.

Lemma length_add1 n l : (length (add1 n l) <= S (length l))%nat.
Proof. unfold add1. destruct (has n l); [lia|]. rewrite app_length. cbn. lia. Qed.

Lemma list_sum_update_le (mu : ostate -> nat) (F : ostate -> ostate) k :
  (forall ob, mu (F ob) <= mu ob + k)%nat ->
  forall l o, (list_sum (map mu (update o F l)) <= list_sum (map mu l) + k)%nat.
Proof.
  intros HF. induction l as [|x l IH]; intros [|o]; simpl; try lia.
  - specialize (HF x). lia.
  - specialize (IH o). lia.
Qed.

Lemma A_link st o n p m : (A (link_tables st o n p m) <= A st + 2)%nat.
Proof.
  unfold A, link_tables, upd_obj. cbn [objs]. apply list_sum_update_le.
  intros ob. unfold att_count. cbn [o_att_s o_att_i]. rewrite !app_length.
  pose proof (length_add1 n (o_att_s ob)). pose proof (length_add1 n (o_att_i ob)).
  destruct (is_nil_keys (dic_of st o n)); cbn [andb]; [destruct (is_list_name n && is_list_name m)|];
    revert H H0; generalize (length (add1 n (o_att_s ob))) (length (add1 n (o_att_i ob))) (length (o_att_s ob)) (length (o_att_i ob)); intros. all: Show. all: lia.
Qed.

Lemma A_frame s t : same_frame s t -> A s = A t.
Proof.
  intros [L F]. unfold A.
  assert (forall o, att_count (nth o (objs s) dead_obj) = att_count (nth o (objs t) dead_obj)) as H.
  { intros o. destruct (F o) as (_ & _ & _ & H4 & H5 & _). unfold att_count. fold (get_obj s o) (get_obj t o). rewrite H4, H5. reflexivity. }
  clear F. revert H L. generalize (objs s) (objs t). induction l as [|x l IH]; intros [|y l'] H L; cbn in *; try lia.
  rewrite (H 0%nat). f_equal. apply IH; [|lia]. intros o. exact (H (S o)).
Qed.
