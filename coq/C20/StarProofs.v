(* C20 — several partners, part 2: creating / removing the links of the star and the induction over
   histories of the three-object protocol. *)
From Coq Require Import ZArith List Bool Arith Lia.
From TV Require Import Common.Harness C20.ListSem C20.ListProofs C20.SliceProofs C20.Model C20.Law C20.Steps C20.Star C20.StarStepsA C20.StarStepsB C20.StarStepsC.
Import ListNotations.
Open Scope Z_scope.

Lemma fresh3_sync F n va vb vc nts :
  inv3 M3Fresh va vb vc -> (n < 4)%nat ->
  post3 M3Fresh (M3One n) va vb vc (Sync 0%nat n 1%nat n true)
        (step (S (S (S F))) (st3 M3Fresh va vb vc nts) (Sync 0%nat n 1%nat n true)).
Proof.
  intros (Ta & Tb & Tc & _) Hn. values3 Ta Tb Tc. name_cases n Hn; eval_step3; split_ifs3; solve_post3.
Qed.

(* the second partner: its value is overwritten by the centre's, the first partner is not disturbed *)
Lemma one3_sync F n va vb vc nts :
  inv3 (M3One n) va vb vc ->
  post3 (M3One n) (M3Star n) va vb vc (Sync 0%nat n 2%nat n true)
        (step (S (S (S F))) (st3 (M3One n) va vb vc nts) (Sync 0%nat n 2%nat n true)).
Proof.
  intros (Ta & Tb & Tc & Hn & He). values3 Ta Tb Tc.
  name_cases n Hn; cbn in He; injection He as He; subst; eval_step3; split_ifs3; solve_post3.
Qed.

Lemma star3_unsync F n va vb vc nts :
  inv3 (M3Star n) va vb vc ->
  post3 (M3Star n) (M3One n) va vb vc (Unsync 0%nat n 2%nat n true)
        (step (S (S (S F))) (st3 (M3Star n) va vb vc nts) (Unsync 0%nat n 2%nat n true)).
Proof.
  intros (Ta & Tb & Tc & Hn & He1 & He2). values3 Ta Tb Tc.
  name_cases n Hn; cbn in He1, He2; injection He1 as He1; injection He2 as He2; subst;
  eval_step3; split_ifs3; solve_post3.
Qed.

Lemma one3_unsync F n va vb vc nts :
  inv3 (M3One n) va vb vc ->
  post3 (M3One n) M3Fresh va vb vc (Unsync 0%nat n 1%nat n true)
        (step (S (S (S F))) (st3 (M3One n) va vb vc nts) (Unsync 0%nat n 1%nat n true)).
Proof.
  intros (Ta & Tb & Tc & Hn & He). values3 Ta Tb Tc.
  name_cases n Hn; cbn in He; injection He as He; subst; eval_step3; split_ifs3; solve_post3.
Qed.

(* ---------- automaton and induction ---------- *)
Section Protocol3.
  Variable allowed : mut -> Prop.
  Hypothesis allowed_replays : forall mu, allowed mu -> replay2_ok mu.

  Inductive trans3 : mode3 -> op -> mode3 -> Prop :=
  | T3_assign md x k v : (x < 3)%nat -> (k < 4)%nat -> trans3 md (Assign x k v) md
  | T3_mut md x k mu : (x < 3)%nat -> (k < 4)%nat -> allowed mu -> trans3 md (Mut x k mu) md
  | T3_sync1 n : (n < 4)%nat -> trans3 M3Fresh (Sync 0%nat n 1%nat n true) (M3One n)
  | T3_sync2 n : trans3 (M3One n) (Sync 0%nat n 2%nat n true) (M3Star n)
  | T3_unsync2 n : trans3 (M3Star n) (Unsync 0%nat n 2%nat n true) (M3One n)
  | T3_unsync1 n : trans3 (M3One n) (Unsync 0%nat n 1%nat n true) M3Fresh.

  Inductive accepts3 : mode3 -> list op -> Prop :=
  | A3_nil md : accepts3 md []
  | A3_cons md o md' r : trans3 md o md' -> accepts3 md' r -> accepts3 md (o :: r).

  Lemma trans3_post F md o md' va vb vc nts :
    trans3 md o md' -> inv3 md va vb vc ->
    post3 md md' va vb vc o (step (S (S (S F))) (st3 md va vb vc nts) o).
  Proof.
    intros T Hi. destruct T.
    - destruct md as [|n|n]; [apply fresh3_assign|apply one3_assign|apply star3_assign]; auto.
    - pose proof (allowed_replays _ H1) as Hr.
      destruct md as [|n|n]; [apply fresh3_mut|apply one3_mut|apply star3_mut]; auto.
    - apply fresh3_sync; auto.
    - apply one3_sync; auto.
    - apply star3_unsync; auto.
    - apply one3_unsync; auto.
  Qed.

  Lemma trans3_edges md o md' va vb vc :
    trans3 md o md' -> inv3 md va vb vc -> edges_after (edges3 md) o = edges3 md'.
  Proof.
    intros T Hi. destruct T; try reflexivity.
    - destruct Hi as (_ & _ & _ & Hn & _). name_cases n Hn; reflexivity.
    - destruct Hi as (_ & _ & _ & Hn & _). name_cases n Hn; reflexivity.
    - destruct Hi as (_ & _ & _ & Hn & _). name_cases n Hn; reflexivity.
  Qed.

  Lemma state_eta3 st md va vb vc :
    objs st = shape3 md va vb vc -> overflow st = false -> st = st3 md va vb vc (notes st).
  Proof. destruct st; cbn; intros -> ->; reflexivity. Qed.

  Theorem star_protocol_law F h : forall md va vb vc nts i,
    inv3 md va vb vc -> accepts3 md h ->
    law_hist i (edges3 md) [va; vb; vc] (run (S (S (S F))) (st3 md va vb vc nts) h) = [].
  Proof.
    induction h as [|o r IH]; intros md va vb vc nts i Hi Ha; [reflexivity|].
    inversion Ha as [|md0 o0 md' r0 T Ha']; subst.
    pose proof (trans3_post F _ _ _ _ _ _ nts T Hi) as (va' & vb' & vc' & Hs & Hi' & Hov & Hv & Hlaw).
    pose proof (trans3_edges _ _ _ _ _ _ T Hi) as He.
    cbn [run]. destruct (step (S (S (S F))) (st3 md va vb vc nts) o) as [st' ob] eqn:Hst.
    cbn [fst snd] in *. cbn [law_hist]. rewrite Hlaw, He, Hv. cbn [map app].
    rewrite (state_eta3 _ _ _ _ _ Hs Hov). apply IH; assumption.
  Qed.

  (* in the star the three linked traits are equal after every step *)
  Theorem star_converges F n va vb vc nts o :
    inv3 (M3Star n) va vb vc -> trans3 (M3Star n) o (M3Star n) ->
    let r := step (S (S (S F))) (st3 (M3Star n) va vb vc nts) o in
    sval (ob_vals (snd r)) (0%nat, n) = sval (ob_vals (snd r)) (1%nat, n) /\
    sval (ob_vals (snd r)) (0%nat, n) = sval (ob_vals (snd r)) (2%nat, n) /\
    overflow (fst r) = false.
  Proof.
    intros Hi T r.
    pose proof (trans3_post F _ _ _ _ _ _ nts T Hi) as (va' & vb' & vc' & Hs & Hi' & Hov & Hv & _).
    fold r in Hs, Hov, Hv. rewrite Hv. destruct Hi' as (_ & _ & _ & _ & E1 & E2).
    unfold sval. cbn. auto.
  Qed.
End Protocol3.
