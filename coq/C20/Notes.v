(* C20 — NOTIFICATIONS of an assignment, for arbitrary pools and link graphs: during `setattr(o, n, v)`
   with all its propagation a trait's change handlers fire exactly once if its value changed (to v) and
   not at all otherwise.  By induction over the propagation; the only fact used besides the lock
   invariant is that v is the only value ever written, so a trait that holds v is never touched again. *)
From Coq Require Import ZArith List Bool Arith Lia.
From TV Require Import Common.Harness C20.ListSem C20.Model C20.Termination C20.Spread.
Import ListNotations.

Definition nc (st : state) (y : node) : nat := length (filter (key_eqb y) (notes st)).

Lemma count_notes_nc st o n : count_notes st o n = Z.of_nat (nc st (o, n)).
Proof. reflexivity. Qed.

Lemma keqb_refl a : key_eqb a a = true.
Proof. unfold key_eqb. rewrite !Nat.eqb_refl. reflexivity. Qed.
Lemma keqb_neq a b : a <> b -> key_eqb a b = false.
Proof.
  intros H. unfold key_eqb. destruct (Nat.eqb_spec (fst a) (fst b)) as [E1|N]; [|reflexivity].
  destruct (Nat.eqb_spec (snd a) (snd b)) as [E2|N]; [|reflexivity].
  exfalso. apply H. destruct a, b; cbn in *; congruence.
Qed.

Lemma nc_add_note_same st o n : nc (add_note st o n) (o, n) = S (nc st (o, n)).
Proof. unfold nc, add_note. cbn [notes]. rewrite filter_app, app_length. cbn [filter]. rewrite keqb_refl. cbn [length]. lia. Qed.
Lemma nc_add_note_other st o n y : y <> (o, n) -> nc (add_note st o n) y = nc st y.
Proof. intros H. unfold nc, add_note. cbn [notes]. rewrite filter_app, app_length. cbn [filter]. rewrite (keqb_neq _ _ H). cbn [length]. lia. Qed.

Section Notes.
  Variable v : Model.val.

  (* from s to s': only v was written, and every trait was notified once iff it changed *)
  Definition noted (s s' : state) : Prop :=
    (forall x, val s' x = val s x \/ val s' x = v) /\
    (forall y, (val s y <> v -> val s' y = v -> nc s' y = S (nc s y)) /\
               (val s y = v \/ val s' y <> v -> nc s' y = nc s y)).

  Lemma noted_same s s' : (forall x, val s' x = val s x) -> notes s' = notes s -> noted s s'.
  Proof.
    intros Hv Hn. split; [intros x; left; apply Hv|]. intros y. unfold nc. rewrite Hn, Hv. split; [|reflexivity].
    intros A B. contradiction.
  Qed.

  Lemma noted_trans s s1 s2 : noted s s1 -> noted s1 s2 -> noted s s2.
  Proof.
    intros [P1 N1] [P2 N2]. split.
    - intros x. destruct (P2 x) as [E|E]; [rewrite E; apply P1|right; exact E].
    - intros y. destruct (N1 y) as [A1 B1]. destruct (N2 y) as [A2 B2].
      destruct (val_dec (val s y) v) as [E0|E0]; destruct (val_dec (val s1 y) v) as [E1|E1];
        destruct (val_dec (val s2 y) v) as [E2|E2].
      + split; [contradiction|]. intros _. rewrite B2, B1; auto.
      + exfalso. destruct (P2 y) as [E|E]; congruence.
      + exfalso. destruct (P1 y) as [E|E]; congruence.
      + exfalso. destruct (P1 y) as [E|E]; congruence.
      + split; [intros _ _; rewrite B2, A1; auto|intros [E|E]; contradiction].
      + exfalso. destruct (P2 y) as [E|E]; congruence.
      + split; [intros _ _; rewrite A2, B1; auto|intros [E|E]; contradiction].
      + split; [intros _ E; contradiction|]. intros _. rewrite B2, B1; auto.
  Qed.

  Lemma noted_set st o n :
    in_range st (o, n) -> val st (o, n) <> v -> noted st (add_note (set_val st o n v) o n).
  Proof.
    intros Hr Hne. split.
    - intros x. rewrite val_add_note. destruct (node_eq_dec x (o, n)) as [->|Hx]; [right; apply val_set_same; exact Hr|].
      left. apply val_set_other. exact Hx.
    - intros y. rewrite val_add_note. destruct (node_eq_dec y (o, n)) as [->|Hy].
      + split; [intros _ _; exact (nc_add_note_same (set_val st o n v) o n)|]. intros [E|E]; [contradiction|].
        exfalso. apply E. apply val_set_same. exact Hr.
      + rewrite (val_set_other st o n v y Hy). split; [intros A B; contradiction|].
        intros _. exact (nc_add_note_other (set_val st o n v) o n y Hy).
  Qed.

  Definition ranged (st : state) : Prop := forall x y, edge st x y -> in_range st y.

  Lemma ranged_frame s t : same_frame s t -> ranged s -> ranged t.
  Proof.
    intros F R x y He. eapply in_range_frame; [exact F|]. apply (R x). eapply edge_frame; [apply same_frame_sym; exact F|exact He].
  Qed.

  Lemma in_range_lock st o n q : in_range st q -> in_range (lock st o n) q.
  Proof.
    intros [R1 R2]. destruct (same_tables_lock st o n) as [L T]. destruct (T (fst q)) as (_ & _ & H3).
    split; [lia|]. rewrite <- H3. exact R2.
  Qed.

  Lemma ranged_lock st o n : ranged st -> ranged (lock st o n).
  Proof.
    intros R x y (qs & Hp & Hin). rewrite partners_lock in Hp. apply in_range_lock. apply (R x). exists qs. auto.
  Qed.

  Lemma fold_noted (f : nat)
    (IH : forall st o n,
        ranged st -> overflow st = false -> lockedb st o n = false -> (Phi st < f)%nat -> in_range st (o, n) ->
        noted st (fst (assign f st o n v))) :
    forall (lk : state), ranged lk -> (Phi lk < f)%nat ->
    forall todo s,
      overflow s = false -> same_frame lk s -> (forall q, In q todo -> in_range lk q) ->
      let s' := fold_left (fun s (q : oid * name) => let '(p, pn) := q in
                             if lockedb s p pn then s else fst (assign f s p pn v)) todo s in
      overflow s' = false /\ same_frame lk s' /\ noted s s'.
  Proof.
    intros lk Rlk Plk. induction todo as [|[p pn] r IHr]; intros s Hov F Hq; cbn [fold_left].
    - split; [exact Hov|]. split; [exact F|]. apply noted_same; reflexivity.
    - assert (in_range lk (p, pn)) as Hr by (apply Hq; left; reflexivity).
      assert (forall q, In q r -> in_range lk q) as Hq' by (intros q Hin; apply Hq; right; exact Hin).
      destruct (lockedb s p pn) eqn:Hl; [apply IHr; assumption|].
      set (s1 := fst (assign f s p pn v)).
      assert (ranged s) as Rs by (eapply ranged_frame; eassumption).
      assert (Phi s < f)%nat as Ps by (rewrite <- (Phi_frame _ _ F); exact Plk).
      assert (in_range s (p, pn)) as Rp by (eapply in_range_frame; eassumption).
      destruct (assign_terminates f s p pn v Hov Hl Ps) as [O1 F1]. fold s1 in O1, F1.
      pose proof (IH s p pn Rs Hov Hl Ps Rp) as N1. fold s1 in N1.
      assert (same_frame lk s1) as Flk1 by (eapply same_frame_trans; eassumption).
      destruct (IHr s1 O1 Flk1 Hq') as (O' & F' & N').
      split; [exact O'|]. split; [exact F'|]. eapply noted_trans; eassumption.
  Qed.

  Theorem assign_noted : forall f st o n,
    ranged st -> overflow st = false -> lockedb st o n = false -> (Phi st < f)%nat -> in_range st (o, n) ->
    noted st (fst (assign f st o n v)).
  Proof.
    induction f as [|f IH]; intros st o n R Hov Hl HPhi Hr; [lia|].
    cbn [assign]. destruct (negb (kind_ok n v)); cbn [fst]; [apply noted_same; reflexivity|].
    destruct (val_eqb (get_val st o n) v) eqn:E; cbn [fst].
    { apply val_eqb_true in E. apply noted_same; [|reflexivity]. intros x.
      destruct (node_eq_dec x (o, n)) as [->|Hx]; [rewrite val_set_same by exact Hr; symmetry; exact E|].
      apply val_set_other. exact Hx. }
    assert (val st (o, n) <> v) as Hchg.
    { intros Ev. unfold val in Ev. cbn [fst snd] in Ev. rewrite Ev, val_eqb_refl in E. discriminate. }
    set (st2 := add_note (set_val st o n v) o n).
    assert (noted st st2) as N2 by (apply noted_set; assumption).
    assert (same_frame st st2) as F2 by (eapply same_frame_trans; [apply set_val_frame|apply add_note_frame]).
    destruct (has n (o_att_s (get_obj st2 o))) eqn:Hatt; cbn [fst]; [|exact N2].
    destruct (partners st2 o n) as [ps|] eqn:Hps; cbn [fst]; [|exact N2].
    assert (lockedb st2 o n = false) as Hl2 by (rewrite <- (lockedb_frame _ _ o n F2); exact Hl).
    set (st3 := lock st2 o n).
    assert (Phi st3 < f)%nat as HPhi3.
    { pose proof (Phi_lock_lt st2 o n Hl2 ltac:(rewrite Hatt; reflexivity)). rewrite <- (Phi_frame _ _ F2) in H. unfold st3. lia. }
    assert (ranged st2) as R2 by (eapply ranged_frame; eassumption).
    assert (ranged st3) as R3 by (apply ranged_lock; exact R2).
    assert (forall q, In q ps -> in_range st3 q) as Hq.
    { intros q Hin. apply in_range_lock. apply (R2 (o, n)). exists ps. auto. }
    destruct (fold_noted f IH st3 R3 HPhi3 ps st3 Hov (same_frame_refl st3) Hq) as (O4 & F4 & N4).
    match goal with |- context [fold_left ?g ps st3] => set (st4 := fold_left g ps st3) in * end.
    eapply noted_trans; [exact N2|]. eapply noted_trans; [|eapply noted_trans; [exact N4|]].
    - apply noted_same; [intros x; apply val_lock|reflexivity].
    - apply noted_same; [intros x; apply val_unlock|reflexivity].
  Qed.
End Notes.
