(* C20 — step lemmas of the two-object protocol (used by Proofs.v).
   Objects 0 and 1, any link (0,n) -> / <-> (1,m) between traits of the same kind (alias or not), any values, any history of assignments and
   list mutations on all eight traits, link removal, re-linking, collection of object 1.
   The proofs are symbolic executions of Model.step on a state whose *structure* (tables,
   handlers) is concrete and whose trait values are universally quantified, followed by
   induction over the history.  Propagation needs recursion depth 2 (fuel S (S F)). *)
From Coq Require Import ZArith List Bool Arith Lia.
From TV Require Import Common.Harness C20.ListSem C20.ListProofs C20.Model C20.Law.
Import ListNotations.
Open Scope Z_scope.

(* ---------- values ---------- *)
Definition tv (s0 s1 : Z) (l0 l1 : list Z) : list val := [VS s0; VS s1; VL l0; VL l1].
Definition typed (vs : list val) : Prop := exists s0 s1 l0 l1, vs = tv s0 s1 l0 l1.
Definition link_ok (n m : name) : Prop := (n < 4)%nat /\ (m < 4)%nat /\ is_list_name n = is_list_name m.

Lemma zlist_eqb_eq a : forall b, zlist_eqb a b = true -> a = b.
Proof.
  induction a as [|x a IH]; destruct b as [|y b]; cbn; try discriminate; auto.
  intros H. apply andb_prop in H. destruct H as [H1 H2]. apply Z.eqb_eq in H1. apply IH in H2. congruence.
Qed.
Lemma zlist_eqb_refl a : zlist_eqb a a = true.
Proof. induction a; cbn; auto. rewrite Z.eqb_refl. exact IHa. Qed.

(* ---------- the four shapes of the two-object pool ---------- *)
Definition att_i_of (n m : name) : list name := if is_list_name n && is_list_name m then [n] else [].

Inductive mode :=
| MFresh                                  (* no link *)
| MMutual (n m : name)                    (* (0,n) <-> (1,m) *)
| MOneway (n m : name)                    (* (0,n) -> (1,m) *)
| MDead (was : option (name * name)).     (* object 1 collected; handlers of object 0 still attached *)

Definition shape (md : mode) (va vb : list val) : list ostate :=
  match md with
  | MFresh => [fresh va; fresh vb]
  | MMutual n m =>
      [ mkO true va [(n, [(1%nat, m)])] [] [n] (att_i_of n m);
        mkO true vb [(m, [(0%nat, n)])] [] [m] (att_i_of m n) ]
  | MOneway n m => [ mkO true va [(n, [(1%nat, m)])] [] [n] (att_i_of n m); fresh vb ]
  | MDead (Some (n, m)) => [ mkO true va [] [] [n] (att_i_of n m); dead_obj ]
  | MDead None => [ fresh va; dead_obj ]
  end.

Definition edges_of (md : mode) : list edge :=
  match md with
  | MMutual n m => [((0%nat, n), (1%nat, m)); ((1%nat, m), (0%nat, n))]
  | MOneway n m => [((0%nat, n), (1%nat, m))]
  | _ => []
  end.

Definition snap_of (md : mode) (va vb : list val) : snap :=
  match md with MDead _ => [va; []] | _ => [va; vb] end.

(* what holds between operations *)
Definition inv (md : mode) (va vb : list val) : Prop :=
  typed va /\ match md with MDead _ => True | _ => typed vb end /\
  match md with
  | MMutual n m => link_ok n m /\ nth_error va n = nth_error vb m
  | MOneway n m => link_ok n m
  | MDead (Some (n, m)) => link_ok n m
  | _ => True
  end.

(* after one step from mode md (before-values va vb) into mode md' *)
Definition post (md md' : mode) (va vb : list val) (o : op) (r : state * obs) : Prop :=
  exists va' vb',
    objs (fst r) = shape md' va' vb' /\ inv md' va' vb' /\ overflow (fst r) = false /\
    ob_vals (snd r) = snap_of md' va' vb' /\
    law_step (edges_of md) (snap_of md va vb) o (snd r) = [].

Definition st_of (md : mode) (va vb : list val) (nts : list (oid * name)) : state :=
  mkS (shape md va vb) nts false.

(* ---------- tactics ---------- *)
Ltac names_cases n m H :=
  let Hn := fresh in let Hm := fresh in let Hk := fresh in
  destruct H as (Hn & Hm & Hk);
  destruct n as [|[|[|[|n]]]]; try lia; destruct m as [|[|[|[|m]]]]; try lia;
  try discriminate Hk; clear Hn Hm Hk.

(* stage 2: everything;  stage 1: the model run only ([post], hence the law, stays folded) *)
Ltac cb := lazy -[Z.eqb zlist_eqb mutate apply_event Z.leb].
Ltac cbs := lazy -[Z.eqb zlist_eqb mutate apply_event Z.leb post].

Ltac eval_step :=
  match goal with |- post ?md ?md' ?va ?vb ?o ?r =>
     let r' := eval lazy -[Z.eqb zlist_eqb mutate apply_event Z.leb] in r in
     change (post md md' va vb o r') end.

Ltac split_ifs :=
  rewrite ?Z.eqb_refl, ?zlist_eqb_refl; cbs;
  repeat (match goal with
          | |- context [?a =? ?b] =>
              tryif constr_eq a b then fail else
              (let E := fresh "E" in destruct (a =? b) eqn:E; [apply Z.eqb_eq in E; subst|])
          | |- context [zlist_eqb ?a ?b] =>
              tryif constr_eq a b then fail else
              (let E := fresh "E" in destruct (zlist_eqb a b) eqn:E; [apply zlist_eqb_eq in E; subst|])
          end; rewrite ?Z.eqb_refl, ?zlist_eqb_refl; cbs).

Ltac use_hyps :=
  repeat match goal with
         | H : (_ =? _) = false |- _ => rewrite H
         | H : zlist_eqb _ _ = false |- _ => rewrite H
         | H : mutate _ _ = _ |- _ => rewrite H
         | H : apply_event _ _ = _ |- _ => rewrite H
         end.

Ltac typed_ok := do 4 eexists; reflexivity.

(* stage 2 *)
Ltac merge_events :=
  repeat match goal with
         | H1 : apply_event ?l ?e = _, H2 : apply_event ?l ?e = _ |- _ =>
             rewrite H1 in H2; inversion H2; subst; clear H2
         end.

Ltac split_ifs2 :=
  repeat (match goal with
          | |- context [?a =? ?b] =>
              tryif constr_eq a b then fail else
              (let E := fresh "E" in destruct (a =? b) eqn:E; [apply Z.eqb_eq in E; subst|])
          | |- context [zlist_eqb ?a ?b] =>
              tryif constr_eq a b then fail else
              (let E := fresh "E" in destruct (zlist_eqb a b) eqn:E; [apply zlist_eqb_eq in E; subst|])
          end; merge_events; use_hyps; rewrite ?Z.eqb_refl, ?zlist_eqb_refl; cb).

Ltac finish_post :=
  do 2 eexists; split; [reflexivity|];
  split; [ repeat split; try typed_ok; try lia; try reflexivity |];
  repeat split; reflexivity.

Ltac solve_post :=
  unfold post, law_step; lazy beta iota zeta delta [plain sval nth nth_error fst snd tv snap_of]; use_hyps; cb; use_hyps; rewrite ?Z.eqb_refl, ?zlist_eqb_refl; cb; split_ifs2; finish_post.

Ltac values va vb :=
  let s0 := fresh "s0" in let s1 := fresh "s1" in let l0 := fresh "l0" in let l1 := fresh "l1" in
  let t0 := fresh "t0" in let t1 := fresh "t1" in let k0 := fresh "k0" in let k1 := fresh "k1" in
  destruct va as (s0 & s1 & l0 & l1 & ->); destruct vb as (t0 & t1 & k0 & k1 & ->).

Ltac op_cases x k Hx Hk :=
  destruct x as [|[|x]]; try lia; destruct k as [|[|[|[|k]]]]; try lia; clear Hx Hk.

(* stage 1 for a mutation: the event branch (replay on an equal partner, any outcome on an unequal
   one), the silent branch, the raising branch *)
Ltac mut_cases Hr :=
  match goal with
  | |- context [mutate ?l ?mu] =>
      let H := fresh "Hmu" in
      destruct (mutate l mu) as [[?l' [?ev|]]|?e] eqn:H; cbs;
      [ split_ifs;
        try (let oev := fresh "oev" in let Hap := fresh "Hap" in
             destruct (proj1 (Hr l) _ _ H) as [oev Hap]; rewrite ?Hap; cbs; destruct oev; cbs);
        repeat (match goal with
                | |- context [apply_event ?pl ?e0] =>
                    destruct (apply_event pl e0) as [[?pl' [?ev'|]]|?e'] eqn:?; cbs
                end)
      | pose proof (proj2 (Hr l) _ H); subst
      | destruct (mutate_raises _ _ _ H) as [-> | ->] ]
  | _ => idtac
  end.

(* ---------- value operations keep the mode and satisfy the law ---------- *)
Lemma mutual_assign F n m va vb nts x k v :
  inv (MMutual n m) va vb -> (x < 2)%nat -> (k < 4)%nat ->
  post (MMutual n m) (MMutual n m) va vb (Assign x k v)
       (step (S (S F)) (st_of (MMutual n m) va vb nts) (Assign x k v)).
Proof.
  intros (Ta & Tb & Hl & He) Hx Hk. values Ta Tb.
  names_cases n m Hl; op_cases x k Hx Hk; cbn in He; injection He as He; subst;
  destruct v as [z|l]; eval_step; split_ifs; solve_post.
Qed.

Lemma mutual_mut F n m va vb nts x k mu :
  inv (MMutual n m) va vb -> (x < 2)%nat -> (k < 4)%nat -> (forall l, replay_ok l mu) ->
  post (MMutual n m) (MMutual n m) va vb (Mut x k mu)
       (step (S (S F)) (st_of (MMutual n m) va vb nts) (Mut x k mu)).
Proof.
  intros (Ta & Tb & Hl & He) Hx Hk Hr. values Ta Tb.
  names_cases n m Hl; op_cases x k Hx Hk; cbn in He; injection He as He; subst;
  eval_step; mut_cases Hr; split_ifs; solve_post.
Qed.

Lemma fresh_assign F va vb nts x k v :
  inv MFresh va vb -> (x < 2)%nat -> (k < 4)%nat ->
  post MFresh MFresh va vb (Assign x k v) (step (S (S F)) (st_of MFresh va vb nts) (Assign x k v)).
Proof.
  intros (Ta & Tb & _) Hx Hk. values Ta Tb. op_cases x k Hx Hk;
  destruct v as [z|l]; eval_step; split_ifs; solve_post.
Qed.

Lemma fresh_mut F va vb nts x k mu :
  inv MFresh va vb -> (x < 2)%nat -> (k < 4)%nat -> (forall l, replay_ok l mu) ->
  post MFresh MFresh va vb (Mut x k mu) (step (S (S F)) (st_of MFresh va vb nts) (Mut x k mu)).
Proof.
  intros (Ta & Tb & _) Hx Hk Hr. values Ta Tb. op_cases x k Hx Hk;
  eval_step; mut_cases Hr; split_ifs; solve_post.
Qed.

Lemma oneway_assign F n m va vb nts x k v :
  inv (MOneway n m) va vb -> (x < 2)%nat -> (k < 4)%nat ->
  post (MOneway n m) (MOneway n m) va vb (Assign x k v)
       (step (S (S F)) (st_of (MOneway n m) va vb nts) (Assign x k v)).
Proof.
  intros (Ta & Tb & Hl) Hx Hk. values Ta Tb.
  names_cases n m Hl; op_cases x k Hx Hk;
  destruct v as [z|l]; eval_step; split_ifs; solve_post.
Qed.

Lemma oneway_mut F n m va vb nts x k mu :
  inv (MOneway n m) va vb -> (x < 2)%nat -> (k < 4)%nat -> (forall l, replay_ok l mu) ->
  post (MOneway n m) (MOneway n m) va vb (Mut x k mu)
       (step (S (S F)) (st_of (MOneway n m) va vb nts) (Mut x k mu)).
Proof.
  intros (Ta & Tb & Hl) Hx Hk Hr. values Ta Tb.
  names_cases n m Hl; op_cases x k Hx Hk;
  eval_step; mut_cases Hr; split_ifs; solve_post.
Qed.
