(* C20 — several partners: step lemmas of the three-object protocol (see Star.v), part A. *)
From Coq Require Import ZArith List Bool Arith Lia.
From TV Require Import Common.Harness C20.ListSem C20.ListProofs C20.SliceProofs C20.Model C20.Law C20.Steps C20.Star.
Import ListNotations.
Open Scope Z_scope.

Lemma fresh3_assign F va vb vc nts x k v :
  inv3 M3Fresh va vb vc -> (x < 3)%nat -> (k < 4)%nat ->
  post3 M3Fresh M3Fresh va vb vc (Assign x k v) (step (S (S (S F))) (st3 M3Fresh va vb vc nts) (Assign x k v)).
Proof.
  intros (Ta & Tb & Tc & _) Hx Hk. values3 Ta Tb Tc. op_cases3 x k Hx Hk;
  destruct v as [z|l]; eval_step3; split_ifs3; solve_post3.
Qed.


Lemma fresh3_mut F va vb vc nts x k mu :
  inv3 M3Fresh va vb vc -> (x < 3)%nat -> (k < 4)%nat -> replay2_ok mu ->
  post3 M3Fresh M3Fresh va vb vc (Mut x k mu) (step (S (S (S F))) (st3 M3Fresh va vb vc nts) (Mut x k mu)).
Proof.
  intros (Ta & Tb & Tc & _) Hx Hk Hr. values3 Ta Tb Tc. op_cases3 x k Hx Hk;
  eval_mut3s; mut_cases3s Hr; split_ifs3; solve_post3.
Qed.


Lemma one3_assign F n va vb vc nts x k v :
  inv3 (M3One n) va vb vc -> (x < 3)%nat -> (k < 4)%nat ->
  post3 (M3One n) (M3One n) va vb vc (Assign x k v)
        (step (S (S (S F))) (st3 (M3One n) va vb vc nts) (Assign x k v)).
Proof.
  intros (Ta & Tb & Tc & Hn & He) Hx Hk. values3 Ta Tb Tc.
  name_cases n Hn; op_cases3 x k Hx Hk; cbn in He; injection He as He; subst;
  destruct v as [z|l]; eval_step3; split_ifs3; solve_post3.
Qed.


Lemma one3_mut F n va vb vc nts x k mu :
  inv3 (M3One n) va vb vc -> (x < 3)%nat -> (k < 4)%nat -> replay2_ok mu ->
  post3 (M3One n) (M3One n) va vb vc (Mut x k mu)
        (step (S (S (S F))) (st3 (M3One n) va vb vc nts) (Mut x k mu)).
Proof.
  intros (Ta & Tb & Tc & Hn & He) Hx Hk Hr. values3 Ta Tb Tc.
  name_cases n Hn; op_cases3 x k Hx Hk; cbn in He; injection He as He; subst;
  eval_mut3s; mut_cases3s Hr; split_ifs3; solve_post3.
Qed.

