(* C20 — correspondence: one case = the initial trait values of the object pool and the
   history of (operation, observation recorded from the implementation). *)
From Coq Require Import ZArith List Bool Arith.
From TV Require Import Common.Harness C20.ListSem C20.Model C20.Law.
Import ListNotations.
Open Scope Z_scope.

Definition case := (list (list val) * list (op * obs))%type.

(* recursion budget of the model run: far above anything a pool of 3 x 4 traits can reach
   (Props.propagation_depth_bounded), far below nothing: running out shows as RecursionError *)
Definition corr_fuel : nat := 40.

Definition vals_eqb (a b : list (list val)) : bool := list_eqb (list_eqb val_eqb) a b.
Definition cnts_eqb (a b : list (list Z)) : bool := list_eqb (list_eqb Z.eqb) a b.

(* codes: 100*step + 1 outcome, 2 values, 3 notification counts, 4 logged exceptions *)
Definition obs_diff (m i : obs) : list Z :=
  chk 1 (outcome_eqb (ob_out m) (ob_out i))
  ++ chk 2 (vals_eqb (ob_vals m) (ob_vals i))
  ++ chk 3 (cnts_eqb (ob_cnt m) (ob_cnt i))
  ++ chk 4 (ob_logged m =? ob_logged i).

(* The model's trait values are re-synchronised on the implementation's after every step, so one
   disagreement is reported once, at the step where it happens (tables and handlers stay the model's). *)
Fixpoint resync_objs (obs_ : list ostate) (s : list (list val)) : list ostate :=
  match obs_, s with
  | ob :: r, vs :: s' =>
      (if o_alive ob && negb (Harness.is_nil vs)
       then mkO (o_alive ob) vs (o_info ob) (o_locked ob) (o_att_s ob) (o_att_i ob) else ob)
      :: resync_objs r s'
  | _, _ => obs_
  end.
Definition resync (st : state) (s : list (list val)) : state :=
  mkS (resync_objs (objs st) s) (notes st) false.

Fixpoint corr_hist (i : Z) (st : state) (h : list (op * obs)) : list Z :=
  match h with
  | [] => []
  | (o, ob) :: r =>
      let '(st', mob) := step corr_fuel st o in
      map (fun c => 100 * i + c) (obs_diff mob ob) ++ corr_hist (i + 1) (resync st' (ob_vals ob)) r
  end.

Definition corr_codes (c : case) : list Z := let '(init, h) := c in corr_hist 0 (init_state init) h.
Definition law_codes (c : case) : list Z := let '(init, h) := c in law_hist 0 [] init h.
