(* C20 — the part of list / TraitList semantics the synchronisation code relies on.
   Items are integers (List(Int)); no item is ever invalid here (C04/C05 own that).
   Section 1: CPython slices (PySlice_Unpack + PySlice_AdjustIndices; same definitions as
              Common/PySlice.v, repeated here so that C20 does not depend on a file in flux).
   Section 2: built-in list  __getitem__/__setitem__/__delitem__  with int and slice keys
              (Objects/listobject.c list_subscript / list_ass_subscript).
   Section 3: traits/trait_list_object.py  _normalize_slice_or_index (l.65-131),
              TraitList.__setitem__ (l.315-352), __delitem__ (l.241-265) and the other
              mutators with the (index, removed, added) event each one sends to notify().
   Definitions only. *)
From Coq Require Import ZArith List Bool.
Import ListNotations.
Open Scope Z_scope.

Inductive exn := IndexError | ValueError | TraitError | TypeError | KeyError | AttributeError
               | RecursionError | OtherError.
Inductive res (A : Type) := Ok (a : A) | Raise (e : exn).
Arguments Ok {A} a.
Arguments Raise {A} e.

(* ---------- 1. slices ---------- *)
Definition slice := (option Z * option Z * option Z)%type.

Definition adjust (len step x : Z) : Z :=
  if x <? 0 then (let y := x + len in if y <? 0 then (if step <? 0 then -1 else 0) else y)
  else if x >=? len then (if step <? 0 then len - 1 else len) else x.

Definition indices (len : Z) (sl : slice) : Z * Z * Z :=
  let '(a, b, c) := sl in
  let step := match c with None => 1 | Some s => s end in
  let start := match a with
               | None => if step <? 0 then len - 1 else 0
               | Some s => adjust len step s end in
  let stop := match b with
              | None => if step <? 0 then -1 else len
              | Some s => adjust len step s end in
  (start, stop, step).

Definition slicelen (start stop step : Z) : Z :=
  if step <? 0 then (if stop <? start then (start - stop - 1) / (- step) + 1 else 0)
  else (if start <? stop then (stop - start - 1) / step + 1 else 0).

Fixpoint positions (start step : Z) (n : nat) : list Z :=
  match n with O => [] | S n' => start :: positions (start + step) step n' end.

(* ---------- 2. built-in list ---------- *)
Definition zlen (l : list Z) : Z := Z.of_nat (length l).

Definition nthz (l : list Z) (i : Z) : option Z :=
  if i <? 0 then None else nth_error l (Z.to_nat i).

Definition firstz (i : Z) (l : list Z) : list Z := firstn (Z.to_nat i) l.
Definition skipz (i : Z) (l : list Z) : list Z := skipn (Z.to_nat i) l.

(* l[start:stop] = vs for 0 <= start <= stop <= len *)
Definition splice (l : list Z) (start stop : Z) (vs : list Z) : list Z :=
  firstz start l ++ vs ++ skipz stop l.

Fixpoint select (l : list Z) (ps : list Z) : list Z :=
  match ps with
  | [] => []
  | p :: r => match nthz l p with Some x => x :: select l r | None => select l r end
  end.

Fixpoint lookup (k : Z) (ps vs : list Z) : option Z :=
  match ps, vs with
  | p :: ps', v :: vs' => if p =? k then Some v else lookup k ps' vs'
  | _, _ => None
  end.

Fixpoint assign_at (k : Z) (l ps vs : list Z) : list Z :=
  match l with
  | [] => []
  | x :: r => (match lookup k ps vs with Some v => v | None => x end) :: assign_at (k + 1) r ps vs
  end.

Fixpoint delete_at (k : Z) (l ps : list Z) : list Z :=
  match l with
  | [] => []
  | x :: r => if existsb (Z.eqb k) ps then delete_at (k + 1) r ps else x :: delete_at (k + 1) r ps
  end.

Inductive lkey := KI (i : Z) | KS (sl : slice).

Definition norm_int (len i : Z) : Z := if i <? 0 then i + len else i.

(* items[key] as used by _removed_items: None = IndexError suppressed (int key) *)
Definition getitem (l : list Z) (k : lkey) : res (option (list Z)) :=
  match k with
  | KI i => match nthz l (norm_int (zlen l) i) with Some x => Ok (Some [x]) | None => Ok None end
  | KS sl =>
      let '(a, b, c) := indices (zlen l) sl in
      if c =? 0 then Raise ValueError
      else Ok (Some (select l (positions a c (Z.to_nat (slicelen a b c)))))
  end.

(* list.__setitem__(key, value): an int key takes the single item [vs = [v]] *)
Definition list_setitem (l : list Z) (k : lkey) (vs : list Z) : res (list Z) :=
  match k with
  | KI i =>
      let j := norm_int (zlen l) i in
      match nthz l j, vs with
      | Some _, v :: _ => Ok (splice l j (j + 1) [v])
      | _, _ => Raise IndexError
      end
  | KS sl =>
      let '(a, b, c) := indices (zlen l) sl in
      if c =? 0 then Raise ValueError
      else if c =? 1 then Ok (splice l a (if b <? a then a else b) vs)
      else let n := slicelen a b c in
           if zlen vs =? n then Ok (assign_at 0 l (positions a c (Z.to_nat n)) vs)
           else Raise ValueError
  end.

Definition list_delitem (l : list Z) (k : lkey) : res (list Z) :=
  match k with
  | KI i =>
      let j := norm_int (zlen l) i in
      match nthz l j with
      | Some _ => Ok (splice l j (j + 1) [])
      | None => Raise IndexError
      end
  | KS sl =>
      let '(a, b, c) := indices (zlen l) sl in
      if c =? 0 then Raise ValueError
      else Ok (delete_at 0 l (positions a c (Z.to_nat (slicelen a b c))))
  end.

(* ---------- 3. TraitList ---------- *)
Inductive eidx := EI (i : Z) | ES (a b c : Z).
Record event := mkEv { e_idx : eidx; e_removed : list Z; e_added : list Z }.

(* _normalize_slice_or_index, trait_list_object.py l.110-131: (reversed, index) *)
Definition normalize (k : lkey) (len : Z) : bool * eidx :=
  match k with
  | KI i => (false, EI (norm_int len i))
  | KS sl =>
      let '(start, stop, step) := indices len sl in
      let reversed := step <? 0 in
      let '(start, stop, step) :=
        if reversed
        then (Z.min (stop - step + (start - stop) mod step) len, start + 1, - step)
        else (start, stop, step) in
      let stop := stop - (stop - start - 1) mod step in
      if (step =? 1) || (stop - start <=? step) then (reversed, EI start)
      else (reversed, ES start stop step)
  end.

Definition is_nil (l : list Z) : bool := match l with [] => true | _ => false end.

(* TraitList.__setitem__, l.335-352 *)
Definition tl_setitem (l : list Z) (k : lkey) (vs : list Z) : res (list Z * option event) :=
  match getitem l k with
  | Raise e => Raise e
  | Ok removed0 =>
      match list_setitem l k vs with
      | Raise e => Raise e
      | Ok l' =>
          let removed := match removed0 with Some r => r | None => [] end in
          let added := match k with KI _ => firstn 1 vs | KS _ => vs end in
          if is_nil added && is_nil removed then Ok (l', None)
          else let '(reversed, nk) := normalize k (zlen l) in
               Ok (l', Some (mkEv nk (if reversed then rev removed else removed)
                                    (if reversed then rev added else added)))
      end
  end.

(* TraitList.__delitem__, l.255-265 *)
Definition tl_delitem (l : list Z) (k : lkey) : res (list Z * option event) :=
  match getitem l k with
  | Raise e => Raise e
  | Ok removed0 =>
      match list_delitem l k with
      | Raise e => Raise e
      | Ok l' =>
          let removed := match removed0 with Some r => r | None => [] end in
          if is_nil removed then Ok (l', None)
          else let '(reversed, nk) := normalize k (zlen l) in
               Ok (l', Some (mkEv nk (if reversed then rev removed else removed) []))
      end
  end.

(* insertion sort: list.sort() on integers (stability is unobservable on integers) *)
Fixpoint insert_sorted (le : Z -> Z -> bool) (x : Z) (l : list Z) : list Z :=
  match l with
  | [] => [x]
  | y :: r => if le x y then x :: l else y :: insert_sorted le x r
  end.
Definition sortz (reverse : bool) (l : list Z) : list Z :=
  fold_right (insert_sorted (if reverse then Z.geb else Z.leb)) [] l.

Fixpoint index_of (k : Z) (x : Z) (l : list Z) : option Z :=
  match l with
  | [] => None
  | y :: r => if y =? x then Some k else index_of (k + 1) x r
  end.

Fixpoint repeat_list (l : list Z) (n : nat) : list Z :=
  match n with O => [] | S n' => l ++ repeat_list l n' end.

Inductive mut :=
| MAppend (x : Z) | MInsert (i x : Z) | MSetI (i x : Z) | MDelI (i : Z)
| MSetS (sl : slice) (xs : list Z) | MDelS (sl : slice)
| MExtend (xs : list Z) | MIadd (xs : list Z) | MImul (k : Z)
| MPop (i : option Z) | MRemove (x : Z) | MClear | MSort (reverse : bool) | MReverse.

Definition ev_if (nonempty : list Z) (ev : event) : option event :=
  if is_nil nonempty then None else Some ev.

(* every TraitList mutator: new contents and the event passed to notify() (None: no call) *)
Definition mutate (l : list Z) (m : mut) : res (list Z * option event) :=
  let len := zlen l in
  match m with
  | MAppend x => Ok (l ++ [x], Some (mkEv (EI len) [] [x]))                        (* l.363-365 *)
  | MInsert i x =>                                                                   (* l.402-408 *)
      let ni := if i <? 0 then Z.max (i + len) 0 else Z.min i len in
      Ok (splice l ni ni [x], Some (mkEv (EI ni) [] [x]))
  | MSetI i x => tl_setitem l (KI i) [x]
  | MDelI i => tl_delitem l (KI i)
  | MSetS sl xs => tl_setitem l (KS sl) xs
  | MDelS sl => tl_delitem l (KS sl)
  | MExtend xs | MIadd xs => Ok (l ++ xs, ev_if xs (mkEv (EI len) [] xs))           (* l.281-286, 384-388 *)
  | MImul k =>                                                                       (* l.302-313 *)
      if k <? 1 then Ok ([], ev_if l (mkEv (EI 0) l []))
      else let l' := repeat_list l (Z.to_nat k) in
           let added := skipz len l' in
           Ok (l', ev_if added (mkEv (EI len) [] added))
  | MPop oi =>                                                                       (* l.432-435 *)
      let i := match oi with Some i => i | None => -1 end in
      let ni := norm_int len i in
      match nthz l ni with
      | Some x => Ok (splice l ni (ni + 1) [], Some (mkEv (EI ni) [x] []))
      | None => Raise IndexError
      end
  | MRemove x =>                                                                     (* l.457-464 *)
      match index_of 0 x l with
      | Some j => Ok (splice l j (j + 1) [], Some (mkEv (EI j) [x] []))
      | None => Raise ValueError
      end
  | MClear => Ok ([], ev_if l (mkEv (EI 0) l []))                                    (* l.370-373 *)
  | MSort r => let l' := sortz r l in Ok (l', ev_if l (mkEv (EI 0) l l'))            (* l.492-495 *)
  | MReverse => Ok (rev l, ev_if l (mkEv (EI 0) l (rev l)))                          (* l.468-471 *)
  end.

(* has_traits.py _sync_trait_items_modified l.2770-2772, 2783-2786: what the items handler
   does to a partner's list [pl] with the event of the list that changed *)
Definition event_key (ev : event) : lkey :=
  match e_idx ev with
  | EI i => KS (Some i, Some (i + zlen (e_removed ev)), None)
  | ES a b c => KS (Some a, Some b, Some c)
  end.
Definition event_has_step (ev : event) : bool :=
  match e_idx ev with EI _ => false | ES _ _ _ => true end.

Definition apply_event (pl : list Z) (ev : event) : res (list Z * option event) :=
  if event_has_step ev && is_nil (e_added ev)
  then tl_delitem pl (event_key ev)
  else tl_setitem pl (event_key ev) (e_added ev).
