(* C20 — the property as a boolean checker on one observed history (DESIGN §6a readings).
   It never mentions [Model.step / assign / forward]: it keeps its own specification state
   (the set of live directed links, computed from the operations alone, and the previous
   snapshot of values) and is applied verbatim to observations recorded from the
   implementation, and proved of the model in Proofs.v.
   Clause codes (returned on failure, as 100*step + clause):
   A partner whose trait rejects the value (a narrower trait type: here a list trait offered an integer
   or vice versa) keeps its value; every OTHER partner must still be updated.  Traits named >= 4 (`Any`)
   are not observed: nothing is demanded of them.
     1 a mutually linked pair (of the same kind) differs after the operation (charged to the operation that breaks
       the equality or creates the link: a pair that already differed before is not charged again)
     2 one-way: after a value-changing assignment on the source (or the creation of the link)
       a direct target differs from the source
     3 an item mutation of the source was not carried over to a direct target that was equal before
     4 a trait that is not reachable from the operated trait through live links changed or was
       notified (reverse direction of a one-way link, removed link, dead partner: inert)
     5 outcome: an exception other than the one the plain operation raises (RecursionError, an
       error from the propagation code), or no exception where the plain operation raises
     6 an exception was swallowed and logged by the notification machinery
     7 more than one notification for one (object, trait) in one operation
     8 the operated trait itself does not hold the assigned value / the plain list result *)
From Coq Require Import ZArith List Bool Arith.
From TV Require Import Common.Harness C20.ListSem C20.Model.
Import ListNotations.
Open Scope Z_scope.

Definition node := (oid * name)%type.
Definition edge := (node * node)%type.

Definition node_eqb (a b : node) : bool := key_eqb a b.
Definition edge_eqb (a b : edge) : bool := node_eqb (fst a) (fst b) && node_eqb (snd a) (snd b).
Definition has_node (x : node) (l : list node) : bool := existsb (node_eqb x) l.
Definition has_edge (e : edge) (l : list edge) : bool := existsb (edge_eqb e) l.
Definition add_edge (e : edge) (l : list edge) : list edge := if has_edge e l then l else l ++ [e].
Definition del_edge (e : edge) (l : list edge) : list edge := filter (fun f => negb (edge_eqb e f)) l.

(* the live links after an operation: what sync_trait's documentation promises *)
Definition edges_after (E : list edge) (o : op) : list edge :=
  match o with
  | Sync x n p m mutual =>
      let E1 := add_edge ((x, n), (p, m)) E in
      if mutual then add_edge ((p, m), (x, n)) E1 else E1
  | Unsync x n p m mutual =>
      let E1 := del_edge ((x, n), (p, m)) E in
      if mutual then del_edge ((p, m), (x, n)) E1 else E1
  | Collect d => filter (fun e => negb (Nat.eqb (fst (fst e)) d) && negb (Nat.eqb (fst (snd e)) d)) E
  | _ => E
  end.

Definition succs (E : list edge) (x : node) : list node :=
  map snd (filter (fun e => node_eqb (fst e) x) E).
Definition add_nodes (new acc : list node) : list node :=
  fold_left (fun a x => if has_node x a then a else a ++ [x]) new acc.
Fixpoint closure (k : nat) (E : list edge) (S : list node) : list node :=
  match k with
  | O => S
  | Datatypes.S k' => closure k' E (add_nodes (flat_map (succs E) S) S)
  end.
Definition reach (E : list edge) (S : list node) : list node := closure (length E) E S.

Definition snap := list (list val).
Definition sval (s : snap) (x : node) : option val := nth_error (nth (fst x) s []) (snd x).
Definition scnt (c : list (list Z)) (x : node) : Z := nth (snd x) (nth (fst x) c []) 0.
Definition oval_eqb (a b : option val) : bool :=
  match a, b with Some x, Some y => val_eqb x y | None, None => true | _, _ => false end.
Definition alive_in (s : snap) (o : oid) : bool := negb (Harness.is_nil (nth o s [])).

Definition exn_eqb (a b : exn) : bool :=
  match a, b with
  | IndexError, IndexError | ValueError, ValueError | TraitError, TraitError | TypeError, TypeError
  | KeyError, KeyError | AttributeError, AttributeError | RecursionError, RecursionError
  | OtherError, OtherError => true
  | _, _ => false
  end.
Definition outcome_eqb (a b : outcome) : bool :=
  match a, b with Done, Done => true | Raised x, Raised y => exn_eqb x y | _, _ => false end.

(* what the plain (unsynchronised) operation does to the operated trait: outcome and new value *)
Definition plain (E : list (node * node)) (before : snap) (o : op) : outcome * option (node * val) :=
  match o with
  | Assign x n v => if kind_ok n v then (Done, Some ((x, n), v)) else (Raised TraitError, None)
  | Mut x n m =>
      match sval before (x, n) with
      | Some (VL l) => match mutate l m with
                       | Ok (l', _) => (Done, Some ((x, n), VL l'))
                       | Raise e => (Raised e, None)
                       end
      | _ => (Raised AttributeError, None)
      end
  | Sync x n p m _ =>
      (* creating a link assigns the source's value to the partner: a partner whose trait rejects it
         raises TraitError out of sync_trait (the link exists nevertheless) *)
      match sval before (x, n) with
      | Some v => if negb (existsb (fun e => node_eqb (fst e) (x, n) && node_eqb (snd e) (p, m)) E)
                     && negb (kind_ok m v)
                  then (Raised TraitError, None) else (Done, None)
      | None => (Done, None)
      end
  | _ => (Done, None)
  end.

Definition origins (o : op) (expected : outcome) : list node :=
  match expected, o with
  | Done, Assign x n _ | Done, Mut x n _ | Done, Sync x n _ _ _ => [(x, n)]
  | _, _ => []
  end.

Definition all_nodes (s : snap) : list node :=
  flat_map (fun o => map (fun n => (o, n)) names4) (seq 0 (length s)).

Definition law_step (E : list edge) (before : snap) (o : op) (ob : obs) : list Z :=
  let E' := edges_after E o in
  let after := ob_vals ob in
  let '(expected, target) := plain E before o in
  let R := reach E' (origins o expected) in
  chk 1 (forallb (fun e => negb (has_edge (snd e, fst e) E')
                           || negb (Bool.eqb (is_list_name (snd (fst e))) (is_list_name (snd (snd e))))
                           || is_any_name (snd (fst e)) || is_any_name (snd (snd e))
                           || (has_edge e E && has_edge (snd e, fst e) E
                               && negb (oval_eqb (sval before (fst e)) (sval before (snd e))))
                           || oval_eqb (sval after (fst e)) (sval after (snd e))) E')
  ++ chk 2 (match o, target with
            | Assign x n v, Some _ =>
                oval_eqb (sval before (x, n)) (Some v)
                || forallb (fun y => is_any_name (snd y) || negb (kind_ok (snd y) v)
                                     || oval_eqb (sval after y) (Some v)) (succs E (x, n))
            | Sync x n p m _, _ =>
                has_edge ((x, n), (p, m)) E || is_any_name m
                || match sval before (x, n) with Some v => negb (kind_ok m v) | None => false end
                || oval_eqb (sval after (p, m)) (sval after (x, n))
            | _, _ => true
            end)
  ++ chk 3 (match o, target with
            | Mut x n _, Some _ =>
                forallb (fun y => node_eqb y (x, n)
                                  || negb (oval_eqb (sval before y) (sval before (x, n)))
                                  || oval_eqb (sval after y) (sval after (x, n))) (succs E (x, n))
            | _, _ => true
            end)
  ++ chk 4 (forallb (fun y => has_node y R
                              || negb (alive_in before (fst y) && alive_in after (fst y))
                              || (oval_eqb (sval after y) (sval before y) && (scnt (ob_cnt ob) y =? 0)))
                    (all_nodes before))
  ++ chk 5 (outcome_eqb (ob_out ob) expected)
  ++ chk 6 (ob_logged ob =? 0)
  ++ chk 7 (forallb (forallb (fun c => c <=? 1)) (ob_cnt ob))
  ++ chk 8 (match target with
            | Some (x, v) => oval_eqb (sval after x) (Some v)
            | None => true
            end).

Fixpoint law_hist (i : Z) (E : list edge) (before : snap) (h : list (op * obs)) : list Z :=
  match h with
  | [] => []
  | (o, ob) :: r =>
      map (fun c => 100 * i + c) (law_step E before o ob)
      ++ law_hist (i + 1) (edges_after E o) (ob_vals ob) r
  end.
