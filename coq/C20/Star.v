(* C20 — several partners: a pool of THREE objects, object 0 mutually linked to object 1 and to
   object 2 on the same trait name n (a star; relabelled, also the chain 1 - 0 - 2).  Any history of
   assignments and list mutations on all twelve traits keeps the three linked traits equal, needs
   recursion depth 3, notifies every side at most once and satisfies the whole law.
   Same method as Steps.v: symbolic execution of Model.step on states with concrete tables and
   universally quantified values, then induction over the history. *)
From Coq Require Import ZArith List Bool Arith Lia.
From TV Require Import Common.Harness C20.ListSem C20.ListProofs C20.SliceProofs C20.Model C20.Law C20.Steps.
Import ListNotations.
Open Scope Z_scope.

Inductive mode3 :=
| M3Fresh
| M3One (n : name)        (* (0,n) <-> (1,n) *)
| M3Star (n : name).      (* (0,n) <-> (1,n), (0,n) <-> (2,n) *)

Definition leaf (n : name) (v : list val) : ostate :=
  mkO true v [(n, [(0%nat, n)])] [] [n] (att_i_of n n).

Definition shape3 (md : mode3) (va vb vc : list val) : list ostate :=
  match md with
  | M3Fresh => [fresh va; fresh vb; fresh vc]
  | M3One n => [mkO true va [(n, [(1%nat, n)])] [] [n] (att_i_of n n); leaf n vb; fresh vc]
  | M3Star n => [mkO true va [(n, [(1%nat, n); (2%nat, n)])] [] [n] (att_i_of n n); leaf n vb; leaf n vc]
  end.

Definition edges3 (md : mode3) : list edge :=
  match md with
  | M3Fresh => []
  | M3One n => [((0%nat, n), (1%nat, n)); ((1%nat, n), (0%nat, n))]
  | M3Star n => [((0%nat, n), (1%nat, n)); ((1%nat, n), (0%nat, n));
                 ((0%nat, n), (2%nat, n)); ((2%nat, n), (0%nat, n))]
  end.

Definition inv3 (md : mode3) (va vb vc : list val) : Prop :=
  typed va /\ typed vb /\ typed vc /\
  match md with
  | M3Fresh => True
  | M3One n => (n < 4)%nat /\ nth_error va n = nth_error vb n
  | M3Star n => (n < 4)%nat /\ nth_error va n = nth_error vb n /\ nth_error va n = nth_error vc n
  end.

Definition post3 (md md' : mode3) (va vb vc : list val) (o : op) (r : state * obs) : Prop :=
  exists va' vb' vc',
    objs (fst r) = shape3 md' va' vb' vc' /\ inv3 md' va' vb' vc' /\ overflow (fst r) = false /\
    ob_vals (snd r) = [va'; vb'; vc'] /\
    law_step (edges3 md) [va; vb; vc] o (snd r) = [].

Definition st3 (md : mode3) (va vb vc : list val) (nts : list (oid * name)) : state :=
  mkS (shape3 md va vb vc) nts false.

(* mutators whose events replay, also when a partner re-emits them *)
Definition replay2_ok (mu : mut) : Prop :=
  forall l, replay_ok l mu /\ (forall l' ev, mutate l mu = Ok (l', Some ev) -> int_index ev).

Lemma replayable_replay2 mu : replayable_mut mu = true -> replay2_ok mu.
Proof.
  intros H l. split; [apply replayable_replay_ok; exact H|].
  intros l' ev Hm. eapply replayable_event_int_index; eassumption.
Qed.

(* ---------- tactics (three-object versions of those of Steps.v) ---------- *)
Ltac cbs3 := lazy -[Z.eqb zlist_eqb mutate apply_event Z.leb post3].

Ltac eval_step3 :=
  match goal with |- post3 ?md ?md' ?va ?vb ?vc ?o ?r =>
     let r' := eval lazy -[Z.eqb zlist_eqb mutate apply_event Z.leb] in r in
     change (post3 md md' va vb vc o r') end.

Ltac split_ifs3 :=
  rewrite ?Z.eqb_refl, ?zlist_eqb_refl; cbs3;
  repeat (match goal with
          | |- context [?a =? ?b] =>
              tryif constr_eq a b then fail else
              (let E := fresh "E" in destruct (a =? b) eqn:E; [apply Z.eqb_eq in E; subst|])
          | |- context [zlist_eqb ?a ?b] =>
              tryif constr_eq a b then fail else
              (let E := fresh "E" in destruct (zlist_eqb a b) eqn:E; [apply zlist_eqb_eq in E; subst|])
          end; rewrite ?Z.eqb_refl, ?zlist_eqb_refl; cbs3).

Ltac finish_post3 :=
  do 3 eexists; split; [reflexivity|];
  split; [ repeat split; try typed_ok; try lia; try reflexivity |];
  repeat split; reflexivity.

Ltac solve_post3 :=
  unfold post3, law_step; lazy beta iota zeta delta [plain sval nth nth_error fst snd tv snap_of]; use_hyps; cb; use_hyps; rewrite ?Z.eqb_refl, ?zlist_eqb_refl; cb; split_ifs2; finish_post3.

Ltac values3 va vb vc :=
  let s0 := fresh "s0" in let s1 := fresh "s1" in let l0 := fresh "l0" in let l1 := fresh "l1" in
  let t0 := fresh "t0" in let t1 := fresh "t1" in let k0 := fresh "k0" in let k1 := fresh "k1" in
  let u0 := fresh "u0" in let u1 := fresh "u1" in let j0 := fresh "j0" in let j1 := fresh "j1" in
  destruct va as (s0 & s1 & l0 & l1 & ->); destruct vb as (t0 & t1 & k0 & k1 & ->);
  destruct vc as (u0 & u1 & j0 & j1 & ->).

Ltac name_cases n Hn := destruct n as [|[|[|[|n]]]]; try lia; clear Hn.
Ltac op_cases3 x k Hx Hk :=
  destruct x as [|[|[|x]]]; try lia; destruct k as [|[|[|[|k]]]]; try lia; clear Hx Hk.

(* resolve every application of an event to an equal list: first generation by the replay law of the
   mutator, re-emitted generations by SliceProofs.reemitted_event_replays *)
Ltac resolve_events Hr :=
  repeat (match goal with
          | Hap : apply_event ?l ?e0 = Ok (?l', None), Hi : int_index ?e0 |- _ =>
              let E := fresh "E" in
              pose proof (apply_event_silent l e0 l' Hi Hap) as E; subst l'; clear Hap
          | Hm : mutate ?l ?mu = Ok (?l', Some ?ev) |- context [apply_event ?l ?ev] =>
              let oev := fresh "oev" in let Hap := fresh "Hap" in
              destruct (proj1 (proj1 (Hr l)) _ _ Hm) as [oev Hap]; rewrite ?Hap; cbs3; destruct oev; cbs3
          | Hap : apply_event ?l ?e0 = Ok (?l', Some ?e1), Hi : int_index ?e0 |- context [apply_event ?l ?e1] =>
              let oev := fresh "oev" in let Hap1 := fresh "Hap" in let Hi1 := fresh "Hi" in
              destruct (reemitted_event_replays l e0 l' e1 Hi Hap) as [Hi1 [oev Hap1]];
              rewrite ?Hap1; cbs3; destruct oev; cbs3
          end).

Lemma forward_unfold f st o n ev :
  forward (S f) st o n ev =
  let st1 := add_note st o n in
  if has n (o_att_i (get_obj st1 o)) then
    match partners st1 o n with
    | None => st1
    | Some ps =>
        let st2 := lock st1 o n in
        let st3 := fold_left
          (fun s (q : oid * name) =>
             let '(p, pn) := q in
             if lockedb s p pn then s
             else match get_val s p pn with
                  | VL pl =>
                      match apply_event pl ev with
                      | Ok (pl', oev) =>
                          let s' := set_val s p pn (VL pl') in
                          match oev with
                          | Some ev' => forward f s' p pn ev'
                          | None => s'
                          end
                      | Raise _ => s
                      end
                  | VS _ => s
                  end)
          ps st2 in
        unlock st3 o n
    end
  else st1.
Proof. reflexivity. Qed.

(* staged evaluation of a mutation: the propagation is unfolded one level at a time, and every
   application of an event is resolved (by the replay facts) before the next level is unfolded, so
   that no stuck match duplicates the rest of the computation *)
Ltac cbf := lazy -[Z.eqb zlist_eqb mutate apply_event Z.leb post3 forward].

Ltac eval_mut3 :=
  match goal with |- post3 ?md ?md' ?va ?vb ?vc ?o ?r =>
     let r' := eval lazy -[Z.eqb zlist_eqb mutate apply_event Z.leb forward] in r in
     change (post3 md md' va vb vc o r') end.

Ltac resolve_events_f Hr :=
  repeat (match goal with
          | Hap : apply_event ?l ?e0 = Ok (?l', None), Hi : int_index ?e0 |- _ =>
              let E := fresh "E" in
              pose proof (apply_event_silent l e0 l' Hi Hap) as E; subst l'; clear Hap
          | |- context [forward (S _) _ _ _ _] => rewrite !forward_unfold; cbf
          | Hm : mutate ?l ?mu = Ok (?l', Some ?ev) |- context [apply_event ?l ?ev] =>
              let oev := fresh "oev" in let Hap := fresh "Hap" in
              destruct (proj1 (proj1 (Hr l)) _ _ Hm) as [oev Hap]; rewrite ?Hap; cbf; destruct oev; cbf
          | Hap : apply_event ?l ?e0 = Ok (?l', Some ?e1), Hi : int_index ?e0 |- context [apply_event ?l ?e1] =>
              let oev := fresh "oev" in let Hap1 := fresh "Hap" in let Hi1 := fresh "Hi" in
              destruct (reemitted_event_replays l e0 l' e1 Hi Hap) as [Hi1 [oev Hap1]];
              rewrite ?Hap1; cbf; destruct oev; cbf
          end).

Ltac mut_cases3f Hr :=
  match goal with
  | |- context [mutate ?l ?mu] =>
      let H := fresh "Hmu" in
      destruct (mutate l mu) as [[?l' [?ev|]]|?e] eqn:H; cbf;
      [ pose proof (proj2 (Hr l) _ _ H) as Hidx; resolve_events_f Hr
      | pose proof (proj2 (proj1 (Hr l)) _ H); subst
      | destruct (mutate_raises _ _ _ H) as [-> | ->] ]
  | _ => idtac
  end.

Lemma fold_left_cons_eq {A B} (g : A -> B -> A) b l a : fold_left g (b :: l) a = fold_left g l (g a b).
Proof. reflexivity. Qed.
Lemma fold_left_nil_eq {A B} (g : A -> B -> A) a : fold_left g [] a = a.
Proof. reflexivity. Qed.

(* fully staged: partner lists are walked one partner at a time as well *)
Ltac cbff := lazy -[Z.eqb zlist_eqb mutate apply_event Z.leb post3 forward fold_left].

Ltac eval_mut3s :=
  match goal with |- post3 ?md ?md' ?va ?vb ?vc ?o ?r =>
     let r' := eval lazy -[Z.eqb zlist_eqb mutate apply_event Z.leb forward fold_left] in r in
     change (post3 md md' va vb vc o r') end.

Ltac staged Hr :=
  repeat first
    [ match goal with
      | Hap : apply_event ?l ?e0 = Ok (?l', None), Hi : int_index ?e0 |- _ =>
          let E := fresh "E" in
          pose proof (apply_event_silent l e0 l' Hi Hap) as E; subst l'; clear Hap
      end
    | match goal with
      | Hm : mutate ?l ?mu = Ok (?l', Some ?ev) |- context [apply_event ?l ?ev] =>
          let oev := fresh "oev" in let Hap := fresh "Hap" in
          destruct (proj1 (proj1 (Hr l)) _ _ Hm) as [oev Hap]; rewrite ?Hap; cbff; destruct oev; cbff
      | Hap : apply_event ?l ?e0 = Ok (?l', Some ?e1), Hi : int_index ?e0 |- context [apply_event ?l ?e1] =>
          let oev := fresh "oev" in let Hap1 := fresh "Hap" in let Hi1 := fresh "Hi" in
          destruct (reemitted_event_replays l e0 l' e1 Hi Hap) as [Hi1 [oev Hap1]];
          rewrite ?Hap1; cbff; destruct oev; cbff
      end
    | progress (rewrite !forward_unfold; cbff)
    | progress (rewrite !fold_left_nil_eq; cbff)
    | progress (rewrite !fold_left_cons_eq; cbff) ].

Ltac mut_cases3s Hr :=
  match goal with
  | |- context [mutate ?l ?mu] =>
      let H := fresh "Hmu" in
      destruct (mutate l mu) as [[?l' [?ev|]]|?e] eqn:H; cbff;
      [ pose proof (proj2 (Hr l) _ _ H) as Hidx; staged Hr
      | pose proof (proj2 (proj1 (Hr l)) _ H); subst
      | destruct (mutate_raises _ _ _ H) as [-> | ->] ]
  | _ => idtac
  end.

Ltac mut_cases3 Hr :=
  match goal with
  | |- context [mutate ?l ?mu] =>
      let H := fresh "Hmu" in
      destruct (mutate l mu) as [[?l' [?ev|]]|?e] eqn:H; cbs3;
      [ pose proof (proj2 (Hr l) _ _ H) as Hidx; split_ifs3; resolve_events Hr
      | pose proof (proj2 (proj1 (Hr l)) _ H); subst
      | destruct (mutate_raises _ _ _ H) as [-> | ->] ]
  | _ => idtac
  end.

