(* C20 — termination of the propagation for ARBITRARY pools and link graphs (any number of objects,
   any tables, any values): the recursion depth of setattr -> _sync_trait_modified -> setattr ... and
   of the item-event propagation never exceeds the number of attached-and-unlocked sync handlers
   plus one, because every nested level first locks one more (object, trait) whose handler is
   attached, and every call returns with the lock table as it found it (the lock invariant). *)
From Coq Require Import ZArith List Bool Arith Lia.
From TV Require Import Common.Harness C20.ListSem C20.Model.
Import ListNotations.

(* ---------- everything but values, notes and the overflow flag ---------- *)
Definition frame_ob (a b : ostate) : Prop :=
  o_alive a = o_alive b /\ o_info a = o_info b /\ o_locked a = o_locked b /\
  o_att_s a = o_att_s b /\ o_att_i a = o_att_i b /\ length (o_vals a) = length (o_vals b).
Definition same_frame (s t : state) : Prop :=
  length (objs s) = length (objs t) /\ forall o, frame_ob (get_obj s o) (get_obj t o).

Lemma frame_ob_refl a : frame_ob a a.
Proof. repeat split. Qed.
Lemma same_frame_refl s : same_frame s s.
Proof. split; [reflexivity|intros; apply frame_ob_refl]. Qed.
Lemma same_frame_trans s t u : same_frame s t -> same_frame t u -> same_frame s u.
Proof.
  intros [L1 F1] [L2 F2]. split; [congruence|]. intros o.
  destruct (F1 o) as (a1 & a2 & a3 & a4 & a5 & a6). destruct (F2 o) as (b1 & b2 & b3 & b4 & b5 & b6).
  repeat split; congruence.
Qed.

(* ---------- update / get_obj ---------- *)
Lemma update_length {A} (f : A -> A) : forall l i, length (update i f l) = length l.
Proof. induction l as [|x l IH]; intros [|i]; cbn; auto. Qed.
Lemma nth_update_same {A} (f : A -> A) d : forall l i, (i < length l)%nat -> nth i (update i f l) d = f (nth i l d).
Proof. induction l as [|x l IH]; intros [|i] H; cbn in *; try lia; auto. apply IH. lia. Qed.
Lemma nth_update_other {A} (f : A -> A) d : forall l i j, i <> j -> nth j (update i f l) d = nth j l d.
Proof. induction l as [|x l IH]; intros [|i] [|j] H; cbn; auto; try congruence. Qed.
Lemma update_oob {A} (f : A -> A) : forall l i, (length l <= i)%nat -> update i f l = l.
Proof. induction l as [|x l IH]; intros [|i] H; cbn in *; auto; try lia. f_equal. apply IH. lia. Qed.

Lemma get_obj_upd_other st o f o' : o <> o' -> get_obj (upd_obj st o f) o' = get_obj st o'.
Proof. intros H. unfold get_obj, upd_obj. cbn [objs]. apply nth_update_other. exact H. Qed.
Lemma get_obj_upd_same st o f : (o < length (objs st))%nat -> get_obj (upd_obj st o f) o = f (get_obj st o).
Proof. intros H. unfold get_obj, upd_obj. cbn [objs]. apply nth_update_same. exact H. Qed.
Lemma upd_obj_length st o f : length (objs (upd_obj st o f)) = length (objs st).
Proof. unfold upd_obj. cbn [objs]. apply update_length. Qed.
Lemma get_obj_oob st o : (length (objs st) <= o)%nat -> get_obj st o = dead_obj.
Proof. intros H. unfold get_obj. apply nth_overflow. exact H. Qed.

(* an update that keeps the frame fields of the object it touches keeps the frame *)
Lemma upd_obj_frame st o f :
  (forall ob, frame_ob ob (f ob)) -> same_frame st (upd_obj st o f).
Proof.
  intros Hf. split; [symmetry; apply upd_obj_length|]. intros o'.
  destruct (Nat.eq_dec o o') as [<-|Hne].
  - destruct (Nat.lt_ge_cases o (length (objs st))) as [Hlt|Hge].
    + rewrite get_obj_upd_same by exact Hlt. apply Hf.
    + unfold upd_obj, get_obj. cbn [objs]. rewrite update_oob by exact Hge. apply frame_ob_refl.
  - rewrite get_obj_upd_other by exact Hne. apply frame_ob_refl.
Qed.

Lemma set_val_frame st o n v : same_frame st (set_val st o n v).
Proof. unfold set_val. apply upd_obj_frame. intros ob. repeat split. cbn. symmetry. apply update_length. Qed.
Lemma add_note_frame st o n : same_frame st (add_note st o n).
Proof. split; [reflexivity|intros; apply frame_ob_refl]. Qed.

Lemma lockedb_frame s t o n : same_frame s t -> lockedb s o n = lockedb t o n.
Proof. intros [_ F]. unfold lockedb. destruct (F o) as (_ & _ & -> & _). reflexivity. Qed.
Lemma partners_frame s t o n : same_frame s t -> partners s o n = partners t o n.
Proof. intros [_ F]. unfold partners. destruct (F o) as (_ & -> & _). reflexivity. Qed.

(* ---------- del1 (add1 n l) ---------- *)
Lemma has_false_filter n l : has n l = false -> filter (fun m => negb (Nat.eqb n m)) l = l.
Proof.
  unfold has. induction l as [|x l IH]; cbn; [reflexivity|].
  intros H. apply orb_false_elim in H. destruct H as [H1 H2]. rewrite H1. cbn. f_equal. apply IH. exact H2.
Qed.
Lemma del1_add1 n l : has n l = false -> del1 n (add1 n l) = l.
Proof.
  intros H. unfold add1, del1. rewrite H. rewrite filter_app. cbn. rewrite Nat.eqb_refl. cbn.
  rewrite app_nil_r. apply has_false_filter. exact H.
Qed.

(* lock ... unlock around anything that keeps the frame restores the frame *)
Lemma unlock_after_lock st o n s :
  lockedb st o n = false -> same_frame (lock st o n) s -> same_frame st (unlock s o n).
Proof.
  intros Hl [L F]. unfold lock in L. rewrite upd_obj_length in L.
  split; [unfold unlock; rewrite upd_obj_length; exact L|]. intros o'.
  destruct (Nat.eq_dec o o') as [<-|Hne].
  - destruct (Nat.lt_ge_cases o (length (objs st))) as [Hlt|Hge].
    + unfold unlock. rewrite get_obj_upd_same by lia.
      specialize (F o). unfold lock in F. rewrite get_obj_upd_same in F by exact Hlt.
      destruct F as (a1 & a2 & a3 & a4 & a5 & a6). cbn in *.
      repeat split; cbn; try assumption.
      rewrite <- a3. symmetry. apply del1_add1. exact Hl.
    + specialize (F o). unfold lock, unlock in *.
      unfold upd_obj, get_obj in *. cbn [objs] in *.
      rewrite update_oob in F by exact Hge. rewrite update_oob by lia. exact F.
  - unfold unlock. rewrite get_obj_upd_other by exact Hne.
    specialize (F o'). unfold lock in F. rewrite get_obj_upd_other in F by exact Hne. exact F.
Qed.

(* ---------- the measure: attached handlers whose trait is not locked ---------- *)
Definition phi (ob : ostate) : nat :=
  length (filter (fun n => negb (has n (o_locked ob))) (o_att_s ob ++ o_att_i ob)).
Definition Phi (st : state) : nat := list_sum (map phi (objs st)).

Lemma phi_frame a b : frame_ob a b -> phi a = phi b.
Proof. intros (_ & _ & H3 & H4 & H5 & _). unfold phi. rewrite H3, H4, H5. reflexivity. Qed.

Lemma Phi_frame s t : same_frame s t -> Phi s = Phi t.
Proof.
  intros [L F]. unfold Phi.
  assert (forall o, phi (nth o (objs s) dead_obj) = phi (nth o (objs t) dead_obj)) as H
    by (intros o; apply phi_frame; apply F).
  clear F. revert H L. generalize (objs s) (objs t). induction l as [|x l IH]; intros [|y l'] H L; cbn in *; try lia.
  rewrite (H 0%nat). f_equal. apply IH; [|lia]. intros o. exact (H (S o)).
Qed.

Lemma filter_len_le {A} (f : A -> bool) l : (length (filter f l) <= length l)%nat.
Proof. induction l as [|x l IH]; cbn; [lia|]. destruct (f x); cbn; lia. Qed.

(* every attached handler counts at most once per list: the depth bound in terms of the tables *)
Lemma Phi_le_attached st : (Phi st <= list_sum (map (fun ob => length (o_att_s ob ++ o_att_i ob)) (objs st)))%nat.
Proof.
  unfold Phi. induction (objs st) as [|x l IH]; simpl; [lia|].
  assert (phi x <= length (o_att_s x ++ o_att_i x))%nat by (unfold phi; apply filter_len_le). simpl in IH. lia.
Qed.

Lemma filter_add1_lt n (l att : list nat) :
  has n l = false -> has n att = true ->
  (length (filter (fun m => negb (has m (add1 n l))) att) < length (filter (fun m => negb (has m l)) att))%nat.
Proof.
  intros Hl Ha. unfold add1. rewrite Hl.
  induction att as [|x att IH]; [discriminate|].
  cbn [filter]. unfold has in Ha. cbn [existsb] in Ha.
  assert (forall m, has m (l ++ [n]) = has m l || Nat.eqb m n) as Hm.
  { intros m. unfold has. rewrite existsb_app. cbn. rewrite orb_false_r. reflexivity. }
  rewrite (Hm x).
  destruct (Nat.eqb n x) eqn:E.
  - apply Nat.eqb_eq in E. subst x. rewrite Hl, Nat.eqb_refl. cbn.
    assert (length (filter (fun m => negb (has m (l ++ [n]))) att) <= length (filter (fun m => negb (has m l)) att))%nat.
    { clear. induction att as [|y att IH]; cbn; [lia|].
      assert (has y (l ++ [n]) = has y l || Nat.eqb y n) as -> by (unfold has; rewrite existsb_app; cbn; rewrite orb_false_r; reflexivity).
      destruct (has y l); cbn; [exact IH|]. destruct (Nat.eqb y n); cbn; lia. }
    lia.
  - cbn [orb] in Ha. fold (has n att) in Ha. specialize (IH Ha).
    rewrite (Nat.eqb_sym x n), E, orb_false_r. destruct (has x l); cbn; lia.
Qed.

Lemma list_sum_update_lt (f : ostate -> ostate) : forall l o,
  (o < length l)%nat -> (phi (f (nth o l dead_obj)) < phi (nth o l dead_obj))%nat ->
  (list_sum (map phi (update o f l)) < list_sum (map phi l))%nat.
Proof.
  induction l as [|x l IH]; intros [|o] Hlt Hphi; simpl in *; try lia.
  assert (o < length l)%nat as Ho by lia. specialize (IH o Ho Hphi). lia.
Qed.

Lemma Phi_lock_lt st o n :
  lockedb st o n = false ->
  has n (o_att_s (get_obj st o)) || has n (o_att_i (get_obj st o)) = true ->
  (Phi (lock st o n) < Phi st)%nat.
Proof.
  intros Hl Ha.
  assert (o < length (objs st))%nat as Hlt.
  { destruct (Nat.lt_ge_cases o (length (objs st))) as [H|H]; [exact H|].
    rewrite get_obj_oob in Ha by exact H. discriminate. }
  unfold Phi, lock, upd_obj. cbn [objs]. apply list_sum_update_lt; [exact Hlt|].
  fold (get_obj st o). unfold phi. cbn [o_locked o_att_s o_att_i].
  apply filter_add1_lt; [exact Hl|].
  unfold has. rewrite existsb_app. exact Ha.
Qed.

(* ---------- the main lemmas ---------- *)
Lemma fold_invariant {A} (P : state -> Prop) (step : state -> A -> state) (l : list A) :
  forall s, P s -> (forall s a, P s -> P (step s a)) -> P (fold_left step l s).
Proof. induction l as [|a l IH]; intros s Hs Hstep; cbn; [exact Hs|]. apply IH; [apply Hstep; exact Hs|exact Hstep]. Qed.

Theorem assign_terminates : forall f st o n v,
  overflow st = false -> lockedb st o n = false -> (Phi st < f)%nat ->
  overflow (fst (assign f st o n v)) = false /\ same_frame st (fst (assign f st o n v)).
Proof.
  induction f as [|f IH]; intros st o n v Hov Hl HPhi; [lia|].
  cbn [assign].
  destruct (negb (kind_ok n v)); [split; [exact Hov|apply same_frame_refl]|].
  destruct (val_eqb (get_val st o n) v); cbn [fst].
  { split; [exact Hov|apply set_val_frame]. }
  set (st2 := add_note (set_val st o n v) o n).
  assert (same_frame st st2) as F2 by (eapply same_frame_trans; [apply set_val_frame|apply add_note_frame]).
  assert (overflow st2 = false) as Hov2 by exact Hov.
  destruct (has n (o_att_s (get_obj st2 o))) eqn:Hatt; cbn [fst]; [|split; assumption].
  destruct (partners st2 o n) as [ps|]; cbn [fst]; [|split; assumption].
  assert (lockedb st2 o n = false) as Hl2 by (rewrite <- (lockedb_frame _ _ o n F2); exact Hl).
  assert (Phi (lock st2 o n) < f)%nat as HPhi3.
  { pose proof (Phi_lock_lt st2 o n Hl2 ltac:(rewrite Hatt; reflexivity)). rewrite <- (Phi_frame _ _ F2) in H. lia. }
  set (P := fun s => overflow s = false /\ same_frame (lock st2 o n) s).
  assert (P (fold_left (fun s (q : oid * name) => let '(p, pn) := q in
             if lockedb s p pn then s else fst (assign f s p pn v)) ps (lock st2 o n))) as [Hov4 F4].
  { apply fold_invariant.
    - split; [exact Hov2|apply same_frame_refl].
    - intros s [p pn] [Hs Fs]. destruct (lockedb s p pn) eqn:Hlp; [split; assumption|].
      destruct (IH s p pn v Hs Hlp ltac:(rewrite <- (Phi_frame _ _ Fs); exact HPhi3)) as [H1 H2].
      split; [exact H1|eapply same_frame_trans; eassumption]. }
  split; [exact Hov4|].
  eapply same_frame_trans; [exact F2|]. apply unlock_after_lock; assumption.
Qed.

Theorem forward_terminates : forall f st o n ev,
  overflow st = false -> lockedb st o n = false -> (Phi st < f)%nat ->
  overflow (forward f st o n ev) = false /\ same_frame st (forward f st o n ev).
Proof.
  induction f as [|f IH]; intros st o n ev Hov Hl HPhi; [lia|].
  cbn [forward].
  set (st1 := add_note st o n).
  assert (same_frame st st1) as F1 by apply add_note_frame.
  assert (overflow st1 = false) as Hov1 by exact Hov.
  destruct (has n (o_att_i (get_obj st1 o))) eqn:Hatt; [|split; assumption].
  destruct (partners st1 o n) as [ps|]; [|split; assumption].
  assert (lockedb st1 o n = false) as Hl1 by exact Hl.
  assert (Phi (lock st1 o n) < f)%nat as HPhi2.
  { pose proof (Phi_lock_lt st1 o n Hl1 ltac:(rewrite Hatt; apply orb_true_r)). rewrite <- (Phi_frame _ _ F1) in H. lia. }
  set (P := fun s => overflow s = false /\ same_frame (lock st1 o n) s).
  match goal with |- context [fold_left ?g ps (lock st1 o n)] =>
    assert (P (fold_left g ps (lock st1 o n))) as [Hov3 F3] end.
  { apply fold_invariant.
    - split; [exact Hov1|apply same_frame_refl].
    - intros s [p pn] [Hs Fs]. destruct (lockedb s p pn) eqn:Hlp; [split; assumption|].
      destruct (get_val s p pn) as [z|pl]; [split; assumption|].
      destruct (apply_event pl ev) as [[pl' [ev'|]]|e]; [| |split; assumption].
      + set (s' := set_val s p pn (VL pl')).
        assert (same_frame s s') as Fs' by apply set_val_frame.
        destruct (IH s' p pn ev' Hs ltac:(rewrite <- (lockedb_frame _ _ p pn Fs'); exact Hlp)
                     ltac:(rewrite <- (Phi_frame _ _ Fs'), <- (Phi_frame _ _ Fs); exact HPhi2)) as [H1 H2].
        split; [exact H1|]. eapply same_frame_trans; [exact Fs|]. eapply same_frame_trans; eassumption.
      + split; [exact Hs|]. eapply same_frame_trans; [exact Fs|apply set_val_frame]. }
  split; [exact Hov3|].
  eapply same_frame_trans; [exact F1|]. apply unlock_after_lock; assumption.
Qed.
