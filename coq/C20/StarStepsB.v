(* C20 — several partners: step lemmas of the three-object protocol (see Star.v), part B. *)
From Coq Require Import ZArith List Bool Arith Lia.
From TV Require Import Common.Harness C20.ListSem C20.ListProofs C20.SliceProofs C20.Model C20.Law C20.Steps C20.Star.
Import ListNotations.
Open Scope Z_scope.

Lemma star3_assign F n va vb vc nts x k v :
  inv3 (M3Star n) va vb vc -> (x < 3)%nat -> (k < 4)%nat ->
  post3 (M3Star n) (M3Star n) va vb vc (Assign x k v)
        (step (S (S (S F))) (st3 (M3Star n) va vb vc nts) (Assign x k v)).
Proof.
  intros (Ta & Tb & Tc & Hn & He1 & He2) Hx Hk. values3 Ta Tb Tc.
  name_cases n Hn; op_cases3 x k Hx Hk; cbn in He1, He2; injection He1 as He1; injection He2 as He2; subst;
  destruct v as [z|l]; eval_step3; split_ifs3; solve_post3.
Qed.

