(* C20 — convergence of IN-PLACE LIST MUTATIONS on every TREE-shaped mutual link graph (any number of
   objects, any branching, any depth, aliases allowed): if the linked list traits agreed before, then
   after a mutation whose event replays (ListProofs / SliceProofs: every mutator except extended
   slices) every list trait of the component holds the new list, nothing else is touched, the
   recursion stays within the lock-invariant bound.  On graphs with a cycle the statement is false
   (Props.cyclic_links_diverge): acyclicity is used exactly once, to show that the regions explored
   through two different partners of a trait are disjoint. *)
From Coq Require Import ZArith List Bool Arith Lia.
From TV Require Import Common.Harness C20.ListSem C20.ListProofs C20.SliceProofs C20.Model C20.Termination C20.Spread C20.Notes.
Import ListNotations.

(* ---------- reachability that does not ENTER blocked traits ---------- *)
Inductive reachA (st : state) (B : node -> Prop) (x : node) : node -> Prop :=
| rA_refl : reachA st B x x
| rA_step y z : reachA st B x y -> edge st y z -> ~ B z -> reachA st B x z.

Lemma reachA_weaken st (B B' : node -> Prop) x y :
  (forall z, B' z -> B z) -> reachA st B x y -> reachA st B' x y.
Proof. intros H R. induction R; [constructor|]. eapply rA_step; eauto. Qed.

Lemma reachA_trans st B x y z : reachA st B x y -> reachA st B y z -> reachA st B x z.
Proof. intros R1 R2. induction R2; [exact R1|]. eapply rA_step; eauto. Qed.

(* first step of a path *)
Lemma reachA_first st B x y :
  reachA st B x y -> y = x \/ exists q, edge st x q /\ ~ B q /\ reachA st B q y.
Proof.
  intros R. induction R as [|y z R IH He Hz]; [left; reflexivity|]. right.
  destruct IH as [->|(q & Hq & Bq & Rq)].
  - exists z. split; [exact He|]. split; [exact Hz|constructor].
  - exists q. split; [exact Hq|]. split; [exact Bq|]. eapply rA_step; eassumption.
Qed.

(* a path from q either ends at q or can be taken without re-entering q *)
Lemma reachA_no_return st B q y :
  reachA st B q y -> y = q \/ reachA st (fun z => B z \/ z = q) q y.
Proof.
  intros R. induction R as [|y z R IH He Hz]; [left; reflexivity|].
  destruct (node_eq_dec z q) as [->|Hne]; [left; reflexivity|]. right.
  assert (~ (B z \/ z = q)) as Hb by (intros [H|H]; [apply Hz; exact H|apply Hne; exact H]).
  destruct IH as [->|R']; [eapply rA_step; [constructor|exact He|exact Hb]|eapply rA_step; eassumption].
Qed.

(* on a symmetric graph a path can be walked backwards, if its start may be entered *)
Lemma reachA_rev st B x y :
  symmetric st -> ~ B x -> reachA st B x y -> reachA st B y x.
Proof.
  intros Sy Hx R. induction R as [|y z R IH He Hz]; [constructor|].
  (* z -> y -> ... -> x : y must be enterable: it is x or was entered *)
  assert (~ B y) as Hy.
  { clear IH. inversion R; subst; assumption. }
  eapply reachA_trans; [eapply rA_step; [constructor|apply Sy; exact He|exact Hy]|exact IH].
Qed.

Lemma reachA_partners s t B x y :
  (forall p m, partners s p m = partners t p m) -> reachA s B x y -> reachA t B x y.
Proof.
  intros H R. induction R as [|y z R IH (ps & Hp & Hin) Hz]; [constructor|].
  eapply rA_step; [exact IH| |exact Hz]. exists ps. rewrite <- H. auto.
Qed.

(* ---------- the shape hypotheses (all about tables only) ---------- *)
Record tree (st : state) : Prop := mkTree {
  t_sym : symmetric st;
  t_acyclic : forall u p1 p2, edge st u p1 -> edge st u p2 -> p1 <> p2 ->
                              ~ reachA st (fun z => z = u) p1 p2;
  t_nodup : forall u ps, partners st (fst u) (snd u) = Some ps -> NoDup ps;
  t_hooked : forall u ps, partners st (fst u) (snd u) = Some ps -> is_list_name (snd u) = true ->
                          has (snd u) (o_att_i (get_obj st (fst u))) = true;
  t_kind : forall u y, edge st u y -> is_list_name (snd y) = is_list_name (snd u);
  t_range : forall u y, edge st u y -> in_range st y
}.

Lemma edge_partners s t x y : (forall p m, partners s p m = partners t p m) -> edge s x y -> edge t x y.
Proof. intros H (ps & Hp & Hin). exists ps. rewrite <- H. auto. Qed.

Lemma tree_transfer s t :
  (forall p m, partners s p m = partners t p m) ->
  (forall p, o_att_i (get_obj s p) = o_att_i (get_obj t p)) ->
  (forall y, in_range s y -> in_range t y) ->
  tree s -> tree t.
Proof.
  intros Hst Hatt Hrng [T1 T2 T3 T4 T6 T5].
  assert (forall p m, partners t p m = partners s p m) as Hts by (intros; symmetry; apply Hst).
  split.
  - intros x y He. apply (edge_partners s t _ _ Hst). apply T1. apply (edge_partners t s _ _ Hts). exact He.
  - intros u p1 p2 H1 H2 Hne R. apply (T2 u p1 p2); [apply (edge_partners t s _ _ Hts); exact H1|
      apply (edge_partners t s _ _ Hts); exact H2|exact Hne|apply (reachA_partners t s _ _ _ Hts); exact R].
  - intros u ps Hp. apply (T3 u). rewrite Hst. exact Hp.
  - intros u ps Hp Hk. rewrite <- Hatt. apply (T4 u ps); [rewrite Hst; exact Hp|exact Hk].
  - intros u y He. apply (T6 u). apply (edge_partners t s _ _ Hts). exact He.
  - intros u y He. apply Hrng. apply (T5 u). apply (edge_partners t s _ _ Hts). exact He.
Qed.

Lemma tree_frame s t : same_frame s t -> tree s -> tree t.
Proof.
  intros F. apply tree_transfer.
  - intros; apply partners_frame; exact F.
  - intros p. destruct F as [_ Fo]. destruct (Fo p) as (_ & _ & _ & _ & H5 & _). exact H5.
  - intros y. apply in_range_frame. exact F.
Qed.

Lemma tree_lock st o n : tree st -> tree (lock st o n).
Proof.
  apply tree_transfer.
  - intros. symmetry. apply partners_lock.
  - intros p. unfold lock. destruct (Nat.eq_dec o p) as [<-|Hne].
    + destruct (Nat.lt_ge_cases o (length (objs st))) as [Hlt|Hge].
      * rewrite get_obj_upd_same by exact Hlt. reflexivity.
      * unfold upd_obj, get_obj. cbn [objs]. rewrite update_oob by exact Hge. reflexivity.
    + rewrite get_obj_upd_other by exact Hne. reflexivity.
  - intros y [R1 R2]. destruct (same_tables_lock st o n) as [L T]. destruct (T (fst y)) as (_ & _ & H3).
    split; [lia|]. rewrite <- H3. exact R2.
Qed.

(* out-trees: the same without symmetry - one-way links allowed.  What the propagation needs is that the
   parts of the graph explored through two different partners of a trait do not meet. *)
Record otree (st : state) : Prop := mkOTree {
  ot_disjoint : forall u p1 p2 y, edge st u p1 -> edge st u p2 -> p1 <> p2 -> p1 <> u -> p2 <> u ->
                                  reachA st (fun z => z = u) p1 y -> reachA st (fun z => z = u) p2 y -> False;
  ot_nodup : forall u ps, partners st (fst u) (snd u) = Some ps -> NoDup ps;
  ot_hooked : forall u ps, partners st (fst u) (snd u) = Some ps -> is_list_name (snd u) = true ->
                           has (snd u) (o_att_i (get_obj st (fst u))) = true;
  ot_kind : forall u y, edge st u y -> is_list_name (snd y) = is_list_name (snd u);
  ot_range : forall u y, edge st u y -> in_range st y
}.

Lemma tree_otree st : tree st -> otree st.
Proof.
  intros [T1 T2 T3 T4 T6 T5]. split; try assumption.
  intros u p1 p2 y H1 H2 Hne _ Hp2 R1 R2.
  apply (T2 u p1 p2 H1 H2 Hne).
  eapply reachA_trans; [exact R1|]. apply reachA_rev; [exact T1|exact Hp2|exact R2].
Qed.

Lemma otree_transfer s t :
  (forall p m, partners s p m = partners t p m) ->
  (forall p, o_att_i (get_obj s p) = o_att_i (get_obj t p)) ->
  (forall y, in_range s y -> in_range t y) ->
  otree s -> otree t.
Proof.
  intros Hst Hatt Hrng [T2 T3 T4 T6 T5].
  assert (forall p m, partners t p m = partners s p m) as Hts by (intros; symmetry; apply Hst).
  split.
  - intros u p1 p2 y H1 H2 Hne N1 N2 R1 R2. apply (T2 u p1 p2 y); try assumption;
      [apply (edge_partners t s _ _ Hts); exact H1|apply (edge_partners t s _ _ Hts); exact H2|
       apply (reachA_partners t s _ _ _ Hts); exact R1|apply (reachA_partners t s _ _ _ Hts); exact R2].
  - intros u ps Hp. apply (T3 u). rewrite Hst. exact Hp.
  - intros u ps Hp Hk. rewrite <- Hatt. apply (T4 u ps); [rewrite Hst; exact Hp|exact Hk].
  - intros u y He. apply (T6 u). apply (edge_partners t s _ _ Hts). exact He.
  - intros u y He. apply Hrng. apply (T5 u). apply (edge_partners t s _ _ Hts). exact He.
Qed.

Lemma otree_frame s t : same_frame s t -> otree s -> otree t.
Proof.
  intros F. apply otree_transfer.
  - intros; apply partners_frame; exact F.
  - intros p. destruct F as [_ Fo]. destruct (Fo p) as (_ & _ & _ & _ & H5 & _). exact H5.
  - intros y. apply in_range_frame. exact F.
Qed.

Lemma otree_lock st o n : otree st -> otree (lock st o n).
Proof.
  apply otree_transfer.
  - intros. symmetry. apply partners_lock.
  - intros p. unfold lock. destruct (Nat.eq_dec o p) as [<-|Hne].
    + destruct (Nat.lt_ge_cases o (length (objs st))) as [Hlt|Hge].
      * rewrite get_obj_upd_same by exact Hlt. reflexivity.
      * unfold upd_obj, get_obj. cbn [objs]. rewrite update_oob by exact Hge. reflexivity.
    + rewrite get_obj_upd_other by exact Hne. reflexivity.
  - intros y [R1 R2]. destruct (same_tables_lock st o n) as [L T]. destruct (T (fst y)) as (_ & _ & H3).
    split; [lia|]. rewrite <- H3. exact R2.
Qed.

(* ---------- locks ---------- *)
Lemma has_add1_self n l : has n (add1 n l) = true.
Proof.
  unfold add1. destruct (has n l) eqn:E; [exact E|]. unfold has. rewrite existsb_app. cbn.
  rewrite Nat.eqb_refl. rewrite orb_true_r. reflexivity.
Qed.
Lemma has_add1_mono n m l : has m l = true -> has m (add1 n l) = true.
Proof.
  intros H. unfold add1. destruct (has n l); [exact H|]. unfold has. rewrite existsb_app. fold (has m l). rewrite H. reflexivity.
Qed.
Lemma locked_lock_self st o n : (o < length (objs st))%nat -> locked (lock st o n) (o, n) = true.
Proof.
  intros Ho. unfold locked, lockedb, lock. cbn [fst snd]. rewrite get_obj_upd_same by exact Ho. cbn [o_locked].
  apply has_add1_self.
Qed.
Lemma locked_lock_mono st o n x : locked st x = true -> locked (lock st o n) x = true.
Proof.
  destruct x as [p m]. unfold locked, lockedb, lock. cbn [fst snd]. intros H.
  destruct (Nat.eq_dec o p) as [<-|Hne].
  - destruct (Nat.lt_ge_cases o (length (objs st))) as [Hlt|Hge].
    + rewrite get_obj_upd_same by exact Hlt. cbn [o_locked]. apply has_add1_mono. exact H.
    + unfold upd_obj, get_obj in *. cbn [objs]. rewrite update_oob by exact Hge. exact H.
  - rewrite get_obj_upd_other by exact Hne. exact H.
Qed.

Definition blocked (st : state) (x : node) : node -> Prop := fun z => locked st z = true \/ z = x.
Definition region (st : state) (x : node) (y : node) : Prop := reachA st (blocked st x) x y.

Lemma reachA_end st B q y : reachA st B q y -> y = q \/ ~ B y.
Proof. intros R. inversion R; subst; auto. Qed.

Lemma val_set_list st o n l : in_range st (o, n) -> val (set_val st o n (VL l)) (o, n) = VL l.
Proof. apply val_set_same. Qed.

Section Tree.
  Variables L L' : list Z.

  Definition replays (ev : event) : Prop := int_index ev /\ exists oev, apply_event L ev = Ok (L', oev).

  Definition tpost (st st' : state) (x : node) : Prop :=
    overflow st' = false /\ same_frame st st' /\
    (forall y, region st x y -> y <> x -> val st' y = VL L') /\
    (forall y, val st' y = val st y \/ (region st x y /\ y <> x)) /\
    (forall y, nc st' y = nc st y \/ (region st x y /\ nc st' y = S (nc st y))).

  Section Fold.
    (* the state when the handler of x starts walking its partners: x is locked (st2), tables are st's *)
    Variables (f : nat) (st st2 : state) (x : node) (ev : event).
    Hypothesis IH : forall s o n ev',
      otree s -> overflow s = false -> lockedb s o n = false -> (Phi s < f)%nat -> in_range s (o, n) ->
      is_list_name n = true -> replays ev' ->
      (forall y, region s (o, n) y -> y <> (o, n) -> val s y = VL L) ->
      tpost s (forward f s o n ev') (o, n).
    Hypothesis T : otree st.
    Hypothesis T2 : otree st2.
    Hypothesis Hpart2 : forall p m, partners st2 p m = partners st p m.
    Hypothesis HPhi2 : (Phi st2 < f)%nat.
    Hypothesis Hev : replays ev.
    Hypothesis Hxlist : is_list_name (snd x) = true.
    Let B2 : node -> Prop := fun z => locked st2 z = true.
    Hypothesis HB2x : B2 x.
    Hypothesis HB2 : forall z, B2 z -> blocked st x z.
    Hypothesis Hblk : forall z, blocked st x z -> B2 z.
    Hypothesis Hvals : forall y, region st x y -> y <> x -> val st y = VL L.

    Definition finv (done : list node) (s : state) : Prop :=
      overflow s = false /\ same_frame st2 s /\
      (forall q y, In q done -> ~ B2 q -> reachA st B2 q y -> val s y = VL L') /\
      (forall y, val s y = val st y \/ exists q, In q done /\ ~ B2 q /\ reachA st B2 q y) /\
      (forall y, nc s y = nc st2 y \/ exists q, In q done /\ ~ B2 q /\ reachA st B2 q y /\ nc s y = S (nc st2 y)).

    Lemma disjoint p q y :
      edge st x p -> edge st x q -> p <> q -> ~ B2 p -> ~ B2 q ->
      reachA st B2 p y -> reachA st B2 q y -> False.
    Proof.
      intros Hp Hq Hne Bp Bq Rp Rq.
      assert (forall z, z = x -> B2 z) as Hx by (intros z ->; exact HB2x).
      apply (ot_disjoint _ T x p q y Hp Hq Hne); [intros ->; apply Bp; exact HB2x|intros ->; apply Bq; exact HB2x| |].
      - apply (reachA_weaken st B2); [exact Hx|exact Rp].
      - apply (reachA_weaken st B2); [exact Hx|exact Rq].
    Qed.

    Lemma fold_tree : forall todo done s,
      NoDup (done ++ todo) -> (forall q, In q (done ++ todo) -> edge st x q) ->
      finv done s ->
      finv (done ++ todo)
           (fold_left (fun s (q : oid * name) => let '(p, pn) := q in
              if lockedb s p pn then s
              else match get_val s p pn with
                   | VL pl => match apply_event pl ev with
                              | Ok (pl', oev) =>
                                  let s' := set_val s p pn (VL pl') in
                                  match oev with Some ev' => forward f s' p pn ev' | None => s' end
                              | Raise _ => s
                              end
                   | VS _ => s
                   end) todo s).
    Proof.
      induction todo as [|q r IHr]; intros done s Hnd Hedges Hinv; cbn [fold_left].
      - rewrite app_nil_r. exact Hinv.
      - replace (done ++ q :: r) with ((done ++ [q]) ++ r) by (rewrite <- app_assoc; reflexivity).
        apply IHr; [rewrite <- app_assoc; exact Hnd|intros q' Hq'; apply Hedges; rewrite <- app_assoc in Hq'; exact Hq'|].
        destruct Hinv as (Hov & Fs & Hb & Hc & Hn).
        assert (edge st x q) as Heq by (apply Hedges; apply in_or_app; right; left; reflexivity).
        assert (~ In q done) as Hqnew.
        { intros Hin. apply NoDup_remove_2 in Hnd. apply Hnd. apply in_or_app. left. exact Hin. }
        assert (forall z, locked s z = locked st2 z) as Hlk
          by (intros z; unfold locked; symmetry; apply lockedb_frame; exact Fs).
        destruct q as [p pn].
        destruct (lockedb s p pn) eqn:Hl.
        + (* skipped: no new region *)
          assert (B2 (p, pn)) as Bq by (unfold B2; rewrite <- Hlk; exact Hl).
          split; [exact Hov|]. split; [exact Fs|]. split; [|split].
          * intros q y Hin Bq' R. apply in_app_or in Hin. destruct Hin as [Hin|[<-|[]]]; [eapply Hb; eassumption|contradiction].
          * intros y. destruct (Hc y) as [E|(q & Hin & Bq' & R)]; [left; exact E|].
            right. exists q. split; [apply in_or_app; left; exact Hin|split; assumption].
          * intros y. destruct (Hn y) as [E|(q & Hin & Bq' & R & E)]; [left; exact E|].
            right. exists q. split; [apply in_or_app; left; exact Hin|]. split; [exact Bq'|]. split; assumption.
        + assert (~ B2 (p, pn)) as Bq.
          { unfold B2. rewrite <- Hlk. unfold locked. cbn [fst snd]. rewrite Hl. discriminate. }
          set (q := (p, pn)) in *.
          assert (q <> x) as Hqx by (intros ->; apply Bq; exact HB2x).
          (* earlier regions do not contain anything reachable from q *)
          assert (forall y, reachA st B2 q y -> val s y = val st y) as Hfresh.
          { intros y Ry. destruct (Hc y) as [E|(p0 & Hin & Bp & Rp)]; [exact E|]. exfalso.
            assert (p0 <> q) as Hne by (intros ->; apply Hqnew; exact Hin).
            eapply (disjoint p0 q y); try eassumption. apply Hedges. apply in_or_app. left. exact Hin. }
          (* everything reachable from q (q included) lies in the region of x and still holds L *)
          assert (forall y, reachA st B2 q y -> val s y = VL L) as HoldL.
          { intros y Ry. rewrite (Hfresh y Ry). apply Hvals.
            - eapply reachA_trans; [eapply rA_step; [constructor|exact Heq|intros Hb'; apply Bq; apply Hblk; exact Hb']|].
              apply (reachA_weaken st B2); [exact Hblk|exact Ry].
            - destruct (reachA_end _ _ _ _ Ry) as [->|Hy]; [exact Hqx|]. intros ->. apply Hy. exact HB2x. }
          assert (in_range s q) as Rq.
          { eapply in_range_frame; [exact Fs|]. apply (ot_range _ T2 x).
            destruct Heq as (ps & Hp & Hin). exists ps. rewrite Hpart2. auto. }
          pose proof (HoldL q (rA_refl _ _ _)) as Vq. unfold val in Vq. subst q. cbn [fst snd] in Vq. rewrite Vq.
          set (q := (p, pn)) in *.
          destruct Hev as [Hidx [oev Hap]]. rewrite Hap.
          set (s' := set_val s p pn (VL L')).
          assert (same_frame s s') as Fs' by apply set_val_frame.
          assert (val s' q = VL L') as Vq' by (apply val_set_same; exact Rq).
          assert (forall y, y <> q -> val s' y = val s y) as Vo' by (intros y Hy; apply val_set_other; exact Hy).
          assert (forall p0 m0, partners s' p0 m0 = partners st p0 m0) as Hparts.
          { intros p0 m0. rewrite <- (partners_frame _ _ p0 m0 Fs'), <- (partners_frame _ _ p0 m0 Fs). apply Hpart2. }
          assert (forall z, locked s' z = locked st2 z) as Hlk'
            by (intros z; rewrite <- Hlk; unfold locked; symmetry; apply lockedb_frame; exact Fs').
          (* the new region, seen from s' *)
          assert (forall y, region s' q y -> reachA st B2 q y) as Hreg1.
          { intros y R. apply (reachA_partners s' st _ _ _ Hparts).
            apply (reachA_weaken s' (blocked s' q)); [|exact R]. intros z Bz. left. rewrite Hlk'. exact Bz. }
          assert (forall y, reachA st B2 q y -> y = q \/ region s' q y) as Hreg2.
          { intros y R. destruct (reachA_no_return _ _ _ _ R) as [->|R']; [left; reflexivity|right].
            apply (reachA_partners st s'); [intros; symmetry; apply Hparts|].
            apply (reachA_weaken st (fun z => B2 z \/ z = q)); [|exact R'].
            intros z [Bz|Bz]; [left; unfold B2; rewrite <- Hlk'; exact Bz|right; exact Bz]. }
          (* the state after this partner, in both cases, satisfies: *)
          assert (forall s'', overflow s'' = false -> same_frame s' s'' ->
                    (forall y, region s' q y -> y <> q -> val s'' y = VL L') ->
                    (forall y, val s'' y = val s' y \/ (region s' q y /\ y <> q)) ->
                    (forall y, nc s'' y = nc s' y \/ (region s' q y /\ nc s'' y = S (nc s' y))) ->
                    finv (done ++ [q]) s'') as Hclose.
          { intros s'' O'' F'' Hb'' Hc'' Hn''. split; [exact O''|].
            split; [eapply same_frame_trans; [exact Fs|eapply same_frame_trans; eassumption]|]. split; [|split].
            - intros q0 y Hin Bq0 R. apply in_app_or in Hin. destruct Hin as [Hin|[<-|[]]].
              + (* an earlier region: untouched by this partner *)
                assert (q0 <> q) as Hne by (intros ->; apply Hqnew; exact Hin).
                assert (edge st x q0) as He0 by (apply Hedges; apply in_or_app; left; exact Hin).
                assert (y <> q) as Hyq.
                { intros ->. eapply (disjoint q0 q q); try eassumption. constructor. }
                destruct (Hc'' y) as [E|[R' _]].
                * rewrite E, Vo' by exact Hyq. eapply Hb; eassumption.
                * exfalso. eapply (disjoint q0 q y); try eassumption. apply Hreg1. exact R'.
              + (* the new region *)
                destruct (Hreg2 y R) as [->|R'].
                * destruct (Hc'' q) as [E|[_ Hne]]; [rewrite E; exact Vq'|contradiction].
                * destruct (node_eq_dec y q) as [->|Hyq].
                  -- destruct (Hc'' q) as [E|[_ Hne]]; [rewrite E; exact Vq'|contradiction].
                  -- apply Hb''; assumption.
            - intros y. destruct (Hc'' y) as [E|[R' Hyq]].
              + destruct (node_eq_dec y q) as [->|Hyq].
                * right. exists q. split; [apply in_or_app; right; left; reflexivity|]. split; [exact Bq|constructor].
                * rewrite E, Vo' by exact Hyq. destruct (Hc y) as [E'|(q0 & Hin & Bq0 & R0)]; [left; exact E'|].
                  right. exists q0. split; [apply in_or_app; left; exact Hin|split; assumption].
              + right. exists q. split; [apply in_or_app; right; left; reflexivity|]. split; [exact Bq|apply Hreg1; exact R'].
            - assert (forall y, nc s' y = nc s y) as Ns' by reflexivity.
              intros y. destruct (Hn'' y) as [E|[R' E]]; rewrite Ns' in E.
              + destruct (Hn y) as [E'|(q0 & Hin & Bq0 & R0 & E')]; [left; rewrite E; exact E'|].
                right. exists q0. split; [apply in_or_app; left; exact Hin|]. split; [exact Bq0|]. split; [exact R0|].
                rewrite E. exact E'.
              + destruct (Hn y) as [E'|(q0 & Hin & Bq0 & R0 & E')].
                * right. exists q. split; [apply in_or_app; right; left; reflexivity|]. split; [exact Bq|].
                  split; [apply Hreg1; exact R'|]. rewrite E, E'. reflexivity.
                * exfalso. assert (q0 <> q) as Hne by (intros ->; apply Hqnew; exact Hin).
                  eapply (disjoint q0 q y); try eassumption; [apply Hedges; apply in_or_app; left; exact Hin|apply Hreg1; exact R']. }
          destruct oev as [ev'|].
          * (* the partner re-emits an event: propagate from it *)
            destruct (reemitted_event_replays L ev L' ev' Hidx Hap) as [Hidx' [oev' Hap']].
            assert (tpost s' (forward f s' p pn ev') q) as (O'' & F'' & Hb'' & Hc'' & Hn'').
            { apply IH.
              - eapply otree_frame; [exact Fs'|]. eapply otree_frame; eassumption.
              - exact Hov.
              - rewrite <- (lockedb_frame _ _ p pn Fs'). exact Hl.
              - rewrite <- (Phi_frame _ _ Fs'), <- (Phi_frame _ _ Fs). exact HPhi2.
              - eapply in_range_frame; eassumption.
              - rewrite <- Hxlist. apply (ot_kind _ T x (p, pn)). exact Heq.
              - split; [exact Hidx'|exists oev'; exact Hap'].
              - intros y R Hyq. rewrite Vo' by exact Hyq. apply HoldL. apply Hreg1. exact R. }
            apply Hclose; assumption.
          * (* no event: the list was not changed by the application, L' = L *)
            assert (L' = L) as EL by (eapply apply_event_silent; eassumption).
            apply Hclose; [exact Hov|apply same_frame_refl| |intros y; left; reflexivity|intros y; left; reflexivity].
            intros y R Hyq. rewrite Vo' by exact Hyq. rewrite EL. apply HoldL. apply Hreg1. exact R.
    Qed.
  End Fold.
End Tree.

Section Tree2.
  Variables L L' : list Z.

  Theorem forward_spread : forall f st o n ev,
    otree st -> overflow st = false -> lockedb st o n = false -> (Phi st < f)%nat -> in_range st (o, n) ->
    is_list_name n = true -> replays L L' ev ->
    (forall y, region st (o, n) y -> y <> (o, n) -> val st y = VL L) ->
    tpost L' st (forward f st o n ev) (o, n).
  Proof.
    induction f as [|f IH]; intros st o n ev T Hov Hl HPhi Hr Hkind Hev Hvals; [lia|].
    cbn [forward].
    set (st1 := add_note st o n).
    assert (same_frame st st1) as F1 by apply add_note_frame.
    assert (forall y, val st1 y = val st y) as V1 by reflexivity.
    assert (forall p m, partners st1 p m = partners st p m) as Hp1 by reflexivity.
    (* when the handler does nothing the region of x is x alone *)
    assert (forall y, nc st1 y = nc st y \/ (y = (o, n) /\ nc st1 y = S (nc st y))) as N1.
    { intros y. destruct (node_eq_dec y (o, n)) as [->|Hy]; [right; split; [reflexivity|apply nc_add_note_same]|].
      left. apply nc_add_note_other. exact Hy. }
    assert (forall y, nc st1 y = nc st y \/ (region st (o, n) y /\ nc st1 y = S (nc st y))) as N1r.
    { intros y. destruct (N1 y) as [E|[-> E]]; [left; exact E|right; split; [constructor|exact E]]. }
    assert ((forall q, ~ edge st (o, n) q) -> tpost L' st st1 (o, n)) as Hquiet.
    { intros noedge. split; [exact Hov|]. split; [exact F1|]. split; [|split].
      - intros y R Hy. exfalso. destruct (reachA_first _ _ _ _ R) as [E|(q & He & _)]; [contradiction|].
        eapply noedge. exact He.
      - intros y. left. reflexivity.
      - exact N1r. }
    destruct (has n (o_att_i (get_obj st1 o))) eqn:Hatt.
    2:{ apply Hquiet. intros q (ps & Hp & _). pose proof (ot_hooked _ T (o, n) ps Hp Hkind) as Ha.
        cbn [fst snd] in Ha. change (get_obj st1 o) with (get_obj st o) in Hatt. congruence. }
    destruct (partners st1 o n) as [ps|] eqn:Hps.
    2:{ apply Hquiet. intros q (ps & Hp & _). cbn [fst snd] in Hp. rewrite Hp1 in Hps. congruence. }
    set (st2 := lock st1 o n).
    assert (lockedb st1 o n = false) as Hl1 by exact Hl.
    assert (Phi st2 < f)%nat as HPhi2.
    { pose proof (Phi_lock_lt st1 o n Hl1 ltac:(rewrite Hatt; apply orb_true_r)). rewrite <- (Phi_frame _ _ F1) in H. unfold st2. lia. }
    assert (otree st2) as T2 by (apply otree_lock; eapply otree_frame; eassumption).
    assert (forall p m, partners st2 p m = partners st p m) as Hpart2 by (intros; unfold st2; rewrite partners_lock; apply Hp1).
    assert (forall z, locked st2 z = true -> blocked st (o, n) z) as HB2.
    { intros z Lz. apply locked_lock in Lz. destruct Lz as [->|Lz]; [right; reflexivity|left; exact Lz]. }
    assert (forall z, blocked st (o, n) z -> locked st2 z = true) as Hblk.
    { intros z [Lz| ->]; [apply locked_lock_mono; exact Lz|]. apply locked_lock_self. apply Hr. }
    assert (NoDup ([] ++ ps)) as Hnd by (apply (ot_nodup _ T (o, n)); cbn [fst snd]; rewrite <- Hp1; exact Hps).
    assert (forall q, In q ([] ++ ps) -> edge st (o, n) q) as Hedges.
    { intros q Hin. exists ps. cbn [fst snd]. rewrite <- Hp1. auto. }
    assert (finv L' st st2 [] st2) as Hinit.
    { split; [exact Hov|]. split; [apply same_frame_refl|]. split; [intros q y []|]. split; [|intros y; left; reflexivity].
      intros y. left. unfold st2. rewrite val_lock. apply V1. }
    pose proof (fold_tree L L' f st st2 (o, n) ev IH T T2 Hpart2 HPhi2 Hev Hkind (Hblk _ (or_intror eq_refl)) Hblk Hvals
                          ps [] st2 Hnd Hedges Hinit) as (O4 & F4 & Hb & Hc & Hn).
    match goal with |- tpost _ _ (unlock ?s4 o n) _ => set (st4 := s4) in * end.
    split; [exact O4|]. split; [eapply same_frame_trans; [exact F1|apply unlock_after_lock; assumption]|]. split; [|split].
    - intros y R Hy. rewrite val_unlock.
      destruct (reachA_first _ _ _ _ R) as [E|(q & He & Bq & Rq)]; [contradiction|].
      assert (In q ([] ++ ps)) as Hin.
      { destruct He as (ps' & Hp & Hin). cbn [fst snd] in Hp. rewrite <- Hp1, Hps in Hp. injection Hp as <-. exact Hin. }
      apply (Hb q y Hin); [intros Bz; apply Bq; apply HB2; exact Bz|].
      apply (reachA_weaken st (blocked st (o, n))); [exact HB2|exact Rq].
    - intros y. rewrite val_unlock. destruct (Hc y) as [E|(q & Hin & Bq & Rq)]; [left; exact E|right].
      assert (q <> (o, n)) as Hqx by (intros ->; apply Bq; apply Hblk; right; reflexivity).
      split.
      + eapply reachA_trans; [eapply rA_step; [constructor|apply Hedges; exact Hin|intros Bz; apply Bq; apply Hblk; exact Bz]|].
        apply (reachA_weaken st (fun z => locked st2 z = true)); [exact Hblk|exact Rq].
      + destruct (reachA_end _ _ _ _ Rq) as [->|Hy]; [exact Hqx|]. intros ->. apply Hy. apply Hblk. right. reflexivity.
    - assert (forall y, nc (unlock st4 o n) y = nc st4 y) as Nu by reflexivity.
      assert (forall y, nc st2 y = nc st1 y) as N2 by reflexivity.
      intros y. rewrite Nu. destruct (Hn y) as [E|(q & Hin & Bq & Rq & E)]; rewrite N2 in E.
      + rewrite E. apply N1r.
      + right.
        assert (q <> (o, n)) as Hqx by (intros ->; apply Bq; apply Hblk; right; reflexivity).
        assert (y <> (o, n)) as Hyx.
        { destruct (reachA_end _ _ _ _ Rq) as [->|Hy]; [exact Hqx|]. intros ->. apply Hy. apply Hblk. right. reflexivity. }
        split.
        * eapply reachA_trans; [eapply rA_step; [constructor|apply Hedges; exact Hin|intros Bz; apply Bq; apply Hblk; exact Bz]|].
          apply (reachA_weaken st (fun z => locked st2 z = true)); [exact Hblk|exact Rq].
        * rewrite E. destruct (N1 y) as [E1|[E1 _]]; [rewrite E1; reflexivity|contradiction].
  Qed.
End Tree2.

(* ---------- one list mutation through Model.step ---------- *)
Lemma reach_reachA st x y : reach st x y -> reachA st (fun _ => False) x y.
Proof. intros R. induction R; [constructor|]. eapply rA_step; [eassumption|eassumption|tauto]. Qed.
Lemma reachA_reach st B x y : reachA st B x y -> reach st x y.
Proof. intros R. induction R; [constructor|]. eapply reach_step; eassumption. Qed.

Lemma reach_region st x y : no_locks st -> reach st x y -> y = x \/ region st x y.
Proof.
  intros NL R. apply reach_reachA in R. destruct (reachA_no_return _ _ _ _ R) as [E|R']; [left; exact E|right].
  apply (reachA_weaken st (fun z => False \/ z = x)); [|exact R'].
  intros z [Lz|Ez]; [rewrite (NL z) in Lz; discriminate|right; exact Ez].
Qed.

Theorem mut_step_converges f st o n mu L :
  otree st -> no_locks st -> overflow st = false -> (Phi st < f)%nat -> in_range st (o, n) ->
  is_list_name n = true -> replayable_mut mu = true ->
  (forall y, reach st (o, n) y -> val st y = VL L) ->
  let st' := fst (step f st (Mut o n mu)) in
  overflow st' = false /\ same_frame st st' /\
  exists L'', (forall y, reach st (o, n) y -> val st' y = VL L'') /\
              (forall y, val st' y = val st y \/ reach st (o, n) y).
Proof.
  intros T NL Hov HPhi Hr Hk Hmu Hall st'.
  set (st0 := clear_notes st).
  assert (same_frame st st0) as F0 by apply clear_notes_frame.
  assert (forall y, val st0 y = val st y) as V0 by reflexivity.
  pose proof (Hall (o, n) (reach_refl _ _)) as Vx. unfold val in Vx. cbn [fst snd] in Vx.
  assert (get_val st0 o n = VL L) as Vx0 by exact Vx.
  subst st'. unfold step. fold st0. rewrite Vx0.
  destruct (mutate L mu) as [[l' [ev|]]|e] eqn:Hm; cbn [fst].
  - (* an event: propagate *)
    set (s1 := set_val st0 o n (VL l')).
    assert (same_frame st0 s1) as F1 by apply set_val_frame.
    assert (in_range st0 (o, n)) as Hr0 by exact Hr.
    assert (val s1 (o, n) = VL l') as V1 by (apply val_set_same; exact Hr0).
    assert (forall y, y <> (o, n) -> val s1 y = val st y) as V1o by (intros y Hy; unfold s1; rewrite val_set_other by exact Hy; apply V0).
    assert (forall p m, partners s1 p m = partners st p m) as Hp1.
    { intros. rewrite <- (partners_frame _ _ p m F1). reflexivity. }
    assert (no_locks s1) as NL1 by (eapply no_locks_frame; [exact F1|eapply no_locks_frame; eassumption]).
    destruct (replayable_replay_ok L mu Hmu) as [Hrep _]. destruct (Hrep _ _ Hm) as [oev Hap].
    pose proof (replayable_event_int_index L mu l' ev Hmu Hm) as Hidx.
    assert (tpost l' s1 (forward f s1 o n ev) (o, n)) as (O' & F' & Hb & Hc & _).
    { apply (forward_spread L l').
      - eapply otree_frame; [exact F1|eapply otree_frame; eassumption].
      - exact Hov.
      - apply (NL1 (o, n)).
      - rewrite <- (Phi_frame _ _ F1), <- (Phi_frame _ _ F0). exact HPhi.
      - eapply in_range_frame; eassumption.
      - exact Hk.
      - split; [exact Hidx|exists oev; exact Hap].
      - intros y R Hy. rewrite V1o by exact Hy. apply Hall.
        apply (reach_partners s1 st _ _ Hp1). eapply reachA_reach. exact R. }
    split; [exact O'|]. split; [eapply same_frame_trans; [exact F0|eapply same_frame_trans; eassumption]|].
    exists l'. split.
    + intros y R. assert (reach s1 (o, n) y) as R1 by (apply (reach_partners st s1); [intros; symmetry; apply Hp1|exact R]).
      destruct (reach_region s1 _ _ NL1 R1) as [->|Rg].
      * destruct (Hc (o, n)) as [E|[_ Hne]]; [rewrite E; exact V1|contradiction].
      * destruct (node_eq_dec y (o, n)) as [->|Hy].
        -- destruct (Hc (o, n)) as [E|[_ Hne]]; [rewrite E; exact V1|contradiction].
        -- apply Hb; assumption.
    + intros y. destruct (Hc y) as [E|[Rg Hy]].
      * destruct (node_eq_dec y (o, n)) as [->|Hy]; [right; constructor|left; rewrite E; apply V1o; exact Hy].
      * right. apply (reach_partners s1 st _ _ Hp1). eapply reachA_reach. exact Rg.
  - (* no event: the list did not change *)
    destruct (replayable_replay_ok L mu Hmu) as [_ Hsil]. pose proof (Hsil _ Hm) as ->.
    split; [exact Hov|]. split; [eapply same_frame_trans; [exact F0|apply set_val_frame]|].
    exists L. split.
    + intros y R. destruct (node_eq_dec y (o, n)) as [->|Hy]; [apply val_set_same; exact Hr|].
      rewrite val_set_other by exact Hy. apply Hall. exact R.
    + intros y. destruct (node_eq_dec y (o, n)) as [->|Hy]; [right; constructor|left; rewrite val_set_other by exact Hy; apply V0].
  - (* the mutator raised: nothing happens *)
    split; [exact Hov|]. split; [exact F0|]. exists L. split; [intros y R; apply Hall; exact R|intros y; left; reflexivity].
Qed.

(* NOTIFICATIONS of one list mutation on a tree: the <name>_items handlers of a trait fire at most once, and only
   for traits reachable from the mutated one (every other trait is not notified at all). *)
Theorem mut_step_notes f st o n mu L :
  otree st -> no_locks st -> overflow st = false -> (Phi st < f)%nat -> in_range st (o, n) ->
  is_list_name n = true -> replayable_mut mu = true ->
  (forall y, reach st (o, n) y -> val st y = VL L) ->
  let st' := fst (step f st (Mut o n mu)) in
  forall y, nc st' y = 0%nat \/ (reach st (o, n) y /\ nc st' y = 1%nat).
Proof.
  intros T NL Hov HPhi Hr Hk Hmu Hall st'.
  set (st0 := clear_notes st).
  assert (same_frame st st0) as F0 by apply clear_notes_frame.
  assert (forall y, val st0 y = val st y) as V0 by reflexivity.
  assert (forall y, nc st0 y = 0%nat) as Z0 by reflexivity.
  pose proof (Hall (o, n) (reach_refl _ _)) as Vx. unfold val in Vx. cbn [fst snd] in Vx.
  assert (get_val st0 o n = VL L) as Vx0 by exact Vx.
  subst st'. unfold step. fold st0. rewrite Vx0.
  destruct (mutate L mu) as [[l' [ev|]]|e] eqn:Hm; cbn [fst]; [|intros y; left; reflexivity|intros y; left; reflexivity].
  set (s1 := set_val st0 o n (VL l')).
  assert (same_frame st0 s1) as F1 by apply set_val_frame.
  assert (forall y, nc s1 y = 0%nat) as Z1 by reflexivity.
  assert (forall y, y <> (o, n) -> val s1 y = val st y) as V1o by (intros y Hy; unfold s1; rewrite val_set_other by exact Hy; apply V0).
  assert (forall p m, partners s1 p m = partners st p m) as Hp1.
  { intros. rewrite <- (partners_frame _ _ p m F1). reflexivity. }
  assert (no_locks s1) as NL1 by (eapply no_locks_frame; [exact F1|eapply no_locks_frame; eassumption]).
  destruct (replayable_replay_ok L mu Hmu) as [Hrep _]. destruct (Hrep _ _ Hm) as [oev Hap].
  pose proof (replayable_event_int_index L mu l' ev Hmu Hm) as Hidx.
  assert (tpost l' s1 (forward f s1 o n ev) (o, n)) as (_ & _ & _ & _ & Hn).
  { apply (forward_spread L l').
    - eapply otree_frame; [exact F1|eapply otree_frame; eassumption].
    - exact Hov.
    - apply (NL1 (o, n)).
    - rewrite <- (Phi_frame _ _ F1), <- (Phi_frame _ _ F0). exact HPhi.
    - eapply in_range_frame; eassumption.
    - exact Hk.
    - split; [exact Hidx|exists oev; exact Hap].
    - intros y R Hy. rewrite V1o by exact Hy. apply Hall.
      apply (reach_partners s1 st _ _ Hp1). eapply reachA_reach. exact R. }
  intros y. destruct (Hn y) as [E|[Rg E]]; rewrite Z1 in E; [left; exact E|right].
  split; [|exact E]. apply (reach_partners s1 st _ _ Hp1). eapply reachA_reach. exact Rg.
Qed.

(* ---------- histories of assignments AND list mutations on a mutual tree ---------- *)
Lemma component_agrees st x v : consistent st -> val st x = v -> forall y, reach st x y -> val st y = v.
Proof. intros C Hx y R. induction R as [|y z R IH He]; [exact Hx|]. rewrite <- (C y z He). exact IH. Qed.

Theorem mut_preserves_consistency f st o n mu :
  tree st -> consistent st -> no_locks st -> overflow st = false -> (Phi st < f)%nat -> in_range st (o, n) ->
  is_list_name n = true -> replayable_mut mu = true ->
  let st' := fst (step f st (Mut o n mu)) in
  consistent st' /\ overflow st' = false /\ same_frame st st'.
Proof.
  intros T C NL Hov HPhi Hr Hk Hmu st'.
  destruct (get_val st o n) as [z|L] eqn:Vx.
  - (* not a list value: AttributeError, nothing happens *)
    subst st'. unfold step. change (get_val (clear_notes st) o n) with (get_val st o n). rewrite Vx. cbn [fst].
    split; [exact C|]. split; [exact Hov|apply clear_notes_frame].
  - assert (forall y, reach st (o, n) y -> val st y = VL L) as Hall by (apply component_agrees; [exact C|exact Vx]).
    destruct (mut_step_converges f st o n mu L (tree_otree _ T) NL Hov HPhi Hr Hk Hmu Hall) as (O' & F' & L'' & Hb & Hc).
    fold st' in O', F', Hb, Hc. split; [|split; assumption].
    intros a b He'. assert (edge st a b) as He by (eapply edge_frame; [apply same_frame_sym; exact F'|exact He']).
    destruct (Hc a) as [Ea|Ra]; destruct (Hc b) as [Eb|Rb].
    + rewrite Ea, Eb. apply C. exact He.
    + assert (reach st (o, n) a) as Ra by (eapply reach_step; [exact Rb|apply (t_sym _ T); exact He]).
      rewrite (Hb a Ra), (Hb b Rb). reflexivity.
    + assert (reach st (o, n) b) as Rb by (eapply reach_step; eassumption).
      rewrite (Hb a Ra), (Hb b Rb). reflexivity.
    + rewrite (Hb a Ra), (Hb b Rb). reflexivity.
Qed.

Fixpoint ops_ok (st : state) (ops : list op) : Prop :=
  match ops with
  | [] => True
  | Assign o n v :: r => wf st v /\ kind_ok n v = true /\ in_range st (o, n) /\ ops_ok st r
  | Mut o n mu :: r => in_range st (o, n) /\ is_list_name n = true /\ replayable_mut mu = true /\ ops_ok st r
  | _ :: _ => False
  end.

Lemma ops_ok_frame s t ops : same_frame s t -> ops_ok s ops -> ops_ok t ops.
Proof.
  intros F. induction ops as [|[o n v|o n mu| | |] r IH]; cbn; auto.
  - intros (W & K & R & A). split; [eapply wf_frame; eassumption|]. split; [exact K|].
    split; [eapply in_range_frame; eassumption|apply IH; exact A].
  - intros (R & K & M & A). split; [eapply in_range_frame; eassumption|]. split; [exact K|]. split; [exact M|apply IH; exact A].
Qed.

Theorem tree_histories_converge fuel : forall ops st,
  tree st -> consistent st -> no_locks st -> overflow st = false -> (Phi st < fuel)%nat ->
  ops_ok st ops ->
  consistent (final fuel st ops) /\ overflow (final fuel st ops) = false /\ same_frame st (final fuel st ops).
Proof.
  induction ops as [|[o n v|o n mu| | |] r IH]; intros st T C NL Hov HPhi A; cbn [final]; try contradiction.
  - split; [exact C|]. split; [exact Hov|apply same_frame_refl].
  - destruct A as (W & K & R & A).
    destruct (assignment_histories_converge fuel [Assign o n v] st (t_sym _ T) C NL Hov HPhi
                (conj W (conj K (conj R I)))) as (C1 & O1 & F1). cbn [final] in C1, O1, F1.
    set (st1 := fst (step fuel st (Assign o n v))) in *.
    assert (Phi st1 < fuel)%nat as P1 by (rewrite <- (Phi_frame _ _ F1); exact HPhi).
    destruct (IH st1 (tree_frame _ _ F1 T) C1 (no_locks_frame _ _ F1 NL) O1 P1 (ops_ok_frame _ _ _ F1 A)) as (Cf & Of & Ff).
    split; [exact Cf|]. split; [exact Of|eapply same_frame_trans; eassumption].
  - destruct A as (R & K & M & A).
    destruct (mut_preserves_consistency fuel st o n mu T C NL Hov HPhi R K M) as (C1 & O1 & F1).
    set (st1 := fst (step fuel st (Mut o n mu))) in *.
    assert (Phi st1 < fuel)%nat as P1 by (rewrite <- (Phi_frame _ _ F1); exact HPhi).
    destruct (IH st1 (tree_frame _ _ F1 T) C1 (no_locks_frame _ _ F1 NL) O1 P1 (ops_ok_frame _ _ _ F1 A)) as (Cf & Of & Ff).
    split; [exact Cf|]. split; [exact Of|eapply same_frame_trans; eassumption].
Qed.

(* ---------- the tree hypothesis is decidable: a sound boolean checker ---------- *)
Lemma key_eqb_eq a b : key_eqb a b = true -> a = b.
Proof.
  unfold key_eqb. intros H. apply andb_prop in H. destruct H as [H1 H2].
  apply Nat.eqb_eq in H1, H2. destruct a, b; cbn in *; congruence.
Qed.
Lemma key_eqb_refl a : key_eqb a a = true.
Proof. unfold key_eqb. rewrite !Nat.eqb_refl. reflexivity. Qed.
Lemma has_key_In z S : has_key z S = true <-> In z S.
Proof.
  unfold has_key. rewrite existsb_exists. split.
  - intros (y & Hy & E). apply key_eqb_eq in E. subst. exact Hy.
  - intros H. exists z. split; [exact H|apply key_eqb_refl].
Qed.

(* one round of the closure of S under the links, never entering u *)
Definition expand (st : state) (u : node) (S : list node) : list node :=
  fold_left (fun acc y => match partners st (fst y) (snd y) with
                          | Some ps => fold_left (fun a z => if key_eqb z u || has_key z a then a else a ++ [z]) ps acc
                          | None => acc
                          end) S S.
Fixpoint closure (k : nat) (st : state) (u : node) (S : list node) : list node :=
  match k with O => S | Datatypes.S k' => closure k' st u (expand st u S) end.

Definition closedb (st : state) (u : node) (S : list node) : bool :=
  forallb (fun y => match partners st (fst y) (snd y) with
                    | Some ps => forallb (fun z => key_eqb z u || has_key z S) ps
                    | None => true
                    end) S.

Lemma closed_contains st u S p y :
  closedb st u S = true -> In p S -> reachA st (fun z => z = u) p y -> In y S.
Proof.
  intros Hc Hp R. induction R as [|y z R IH (ps & Hps & Hin) Hz]; [exact Hp|].
  unfold closedb in Hc. rewrite forallb_forall in Hc. specialize (Hc y IH). rewrite Hps in Hc.
  rewrite forallb_forall in Hc. specialize (Hc z Hin). apply orb_prop in Hc. destruct Hc as [E|E].
  - apply key_eqb_eq in E. contradiction.
  - apply has_key_In. exact E.
Qed.

Fixpoint nodup_keys (l : list node) : bool :=
  match l with [] => true | x :: r => negb (has_key x r) && nodup_keys r end.
Lemma nodup_keys_sound l : nodup_keys l = true -> NoDup l.
Proof.
  induction l as [|x r IH]; cbn; [constructor|]. intros H. apply andb_prop in H. destruct H as [H1 H2].
  constructor; [|apply IH; exact H2]. intros Hin. apply has_key_In in Hin. rewrite Hin in H1. discriminate.
Qed.

(* per (object, table entry): every check of [tree] *)
Definition entryb (st : state) (o : oid) (e : name * list (oid * name)) : bool :=
  let u := (o, fst e) in
  let ps := snd e in
  nodup_keys ps
  && (negb (is_list_name (fst e)) || has (fst e) (o_att_i (get_obj st o)))
  && forallb (fun y => Bool.eqb (is_list_name (snd y)) (is_list_name (fst e))
                       && Nat.ltb (fst y) (length (objs st))
                       && Nat.ltb (snd y) (length (o_vals (get_obj st (fst y))))) ps
  && forallb (fun p1 => forallb (fun p2 =>
         key_eqb p1 p2
         || (let S := closure (length (objs st) * 4) st u [p1] in closedb st u S && negb (has_key p2 S))) ps) ps.

Definition treeb (st : state) : bool :=
  symmetricb st
  && forallb (fun o => forallb (entryb st o) (o_info (get_obj st o))) (seq 0 (length (objs st))).

Lemma treeb_sound st : treeb st = true -> tree st.
Proof.
  intros H. unfold treeb in H. apply andb_prop in H. destruct H as [Hsym Hall].
  rewrite forallb_forall in Hall.
  assert (forall u ps, partners st (fst u) (snd u) = Some ps -> entryb st (fst u) (snd u, ps) = true) as Hent.
  { intros u ps Hp. pose proof (partners_in_range _ _ _ _ Hp) as Ho.
    specialize (Hall (fst u) ltac:(apply in_seq; lia)). rewrite forallb_forall in Hall.
    apply Hall. apply assoc_In. exact Hp. }
  split.
  - apply symmetricb_sound. exact Hsym.
  - intros u p1 p2 (ps1 & Hp1 & Hin1) (ps2 & Hp2 & Hin2) Hne R.
    rewrite Hp1 in Hp2. injection Hp2 as <-.
    pose proof (Hent u ps1 Hp1) as He. unfold entryb in He. cbn [fst snd] in He.
    apply andb_prop in He. destruct He as [_ He]. rewrite forallb_forall in He. specialize (He p1 Hin1).
    rewrite forallb_forall in He. specialize (He p2 Hin2). apply orb_prop in He. destruct He as [E|E].
    + apply key_eqb_eq in E. contradiction.
    + cbn zeta in E. apply andb_prop in E. destruct E as [Hc Hn]. destruct u as [uo un]. cbn [fst snd] in *.
      assert (In p2 (closure (length (objs st) * 4) st (uo, un) [p1])) as Hin.
      { eapply closed_contains; [exact Hc| |exact R].
        (* p1 is in the closure: the closure only grows *)
        clear. generalize (length (objs st) * 4)%nat as k. intros k.
        assert (forall k S, In p1 S -> In p1 (closure k st (uo, un) S)) as Hgrow.
        { induction k0 as [|k0 IH]; intros S HS; [exact HS|]. cbn [closure]. apply IH.
          unfold expand. assert (forall l acc, In p1 acc -> In p1 (fold_left (fun acc y => match partners st (fst y) (snd y) with
                          | Some ps => fold_left (fun a z => if key_eqb z (uo, un) || has_key z a then a else a ++ [z]) ps acc
                          | None => acc end) l acc)) as Hf.
          { induction l as [|y l IHl]; intros acc Ha; cbn [fold_left]; [exact Ha|]. apply IHl.
            destruct (partners st (fst y) (snd y)) as [ps|]; [|exact Ha].
            revert acc Ha. induction ps as [|z ps IHp]; intros acc Ha; cbn [fold_left]; [exact Ha|].
            apply IHp. destruct (key_eqb z (uo, un) || has_key z acc); [exact Ha|apply in_or_app; left; exact Ha]. }
          apply Hf. exact HS. }
        apply Hgrow. left. reflexivity. }
      apply has_key_In in Hin. apply negb_true_iff in Hn. exact (eq_true_false_abs _ Hin Hn).
  - intros u ps Hp. pose proof (Hent u ps Hp) as He. unfold entryb in He. cbn [fst snd] in He.
    repeat (apply andb_prop in He; destruct He as [He ?]). apply nodup_keys_sound. exact He.
  - intros u ps Hp Hk. pose proof (Hent u ps Hp) as He. unfold entryb in He. cbn [fst snd] in He.
    repeat (apply andb_prop in He; destruct He as [He ?]). rewrite Hk in H1. exact H1.
  - intros u y (ps & Hp & Hin). pose proof (Hent u ps Hp) as He. unfold entryb in He. cbn [fst snd] in He.
    repeat (apply andb_prop in He; destruct He as [He ?]). rewrite forallb_forall in H0. specialize (H0 y Hin).
    repeat (apply andb_prop in H0; destruct H0 as [H0 ?]). apply Bool.eqb_prop in H0. exact H0.
  - intros u y (ps & Hp & Hin). pose proof (Hent u ps Hp) as He. unfold entryb in He. cbn [fst snd] in He.
    repeat (apply andb_prop in He; destruct He as [He ?]). rewrite forallb_forall in H0. specialize (H0 y Hin).
    repeat (apply andb_prop in H0; destruct H0 as [H0 ?]). apply Nat.ltb_lt in H2, H3. split; assumption.
Qed.

Fixpoint ops_okb (st : state) (ops : list op) : bool :=
  match ops with
  | [] => true
  | Assign o n v :: r =>
      wfb st v && kind_ok n v && Nat.ltb o (length (objs st)) && Nat.ltb n (length (o_vals (get_obj st o)))
      && ops_okb st r
  | Mut o n mu :: r =>
      Nat.ltb o (length (objs st)) && Nat.ltb n (length (o_vals (get_obj st o)))
      && is_list_name n && replayable_mut mu && ops_okb st r
  | _ :: _ => false
  end.
Lemma ops_okb_sound st ops : ops_okb st ops = true -> ops_ok st ops.
Proof.
  induction ops as [|[o n v|o n mu| | |] r IH]; cbn; try discriminate; auto.
  - intros H. repeat (apply andb_prop in H; let H' := fresh "H" in destruct H as [H H']).
    apply Nat.ltb_lt in H2, H1. split; [apply wfb_sound; exact H|]. split; [exact H3|].
    split; [split; assumption|apply IH; exact H0].
  - intros H. repeat (apply andb_prop in H; let H' := fresh "H" in destruct H as [H H']).
    apply Nat.ltb_lt in H, H3. split; [split; assumption|]. split; [exact H2|]. split; [exact H1|apply IH; exact H0].
Qed.

Theorem tree_histories_converge_checked fuel ops st :
  treeb st = true -> consistentb st = true -> no_locksb st = true -> overflow st = false ->
  Nat.ltb (Phi st) fuel = true -> ops_okb st ops = true ->
  consistent (final fuel st ops) /\ overflow (final fuel st ops) = false /\ same_frame st (final fuel st ops).
Proof.
  intros T C NL Hov HPhi A. apply tree_histories_converge;
    [apply treeb_sound|apply consistentb_sound|apply no_locksb_sound| |apply Nat.ltb_lt|apply ops_okb_sound]; assumption.
Qed.

(* ---------- checker for out-trees (one-way links allowed) ---------- *)
Lemma closure_grows st u p : forall k S, In p S -> In p (closure k st u S).
Proof.
  induction k as [|k IH]; intros S HS; [exact HS|]. cbn [closure]. apply IH.
  unfold expand.
  assert (forall l acc, In p acc -> In p (fold_left (fun acc y => match partners st (fst y) (snd y) with
              | Some ps => fold_left (fun a z => if key_eqb z u || has_key z a then a else a ++ [z]) ps acc
              | None => acc end) l acc)) as Hf.
  { induction l as [|y l IHl]; intros acc Ha; cbn [fold_left]; [exact Ha|]. apply IHl.
    destruct (partners st (fst y) (snd y)) as [ps|]; [|exact Ha].
    revert acc Ha. induction ps as [|z ps IHp]; intros acc Ha; cbn [fold_left]; [exact Ha|].
    apply IHp. destruct (key_eqb z u || has_key z acc); [exact Ha|apply in_or_app; left; exact Ha]. }
  apply Hf. exact HS.
Qed.

Definition oentryb (st : state) (o : oid) (e : name * list (oid * name)) : bool :=
  let u := (o, fst e) in
  let ps := snd e in
  nodup_keys ps
  && (negb (is_list_name (fst e)) || has (fst e) (o_att_i (get_obj st o)))
  && forallb (fun y => Bool.eqb (is_list_name (snd y)) (is_list_name (fst e))
                       && Nat.ltb (fst y) (length (objs st))
                       && Nat.ltb (snd y) (length (o_vals (get_obj st (fst y))))) ps
  && forallb (fun p1 => forallb (fun p2 =>
         key_eqb p1 p2 || key_eqb p1 u || key_eqb p2 u
         || (let S1 := closure (length (objs st) * 4) st u [p1] in
             let S2 := closure (length (objs st) * 4) st u [p2] in
             closedb st u S1 && closedb st u S2 && forallb (fun y => negb (has_key y S2)) S1)) ps) ps.

Definition otreeb (st : state) : bool :=
  forallb (fun o => forallb (oentryb st o) (o_info (get_obj st o))) (seq 0 (length (objs st))).

Lemma otreeb_sound st : otreeb st = true -> otree st.
Proof.
  intros Hall. unfold otreeb in Hall. rewrite forallb_forall in Hall.
  assert (forall u ps, partners st (fst u) (snd u) = Some ps -> oentryb st (fst u) (snd u, ps) = true) as Hent.
  { intros u ps Hp. pose proof (partners_in_range _ _ _ _ Hp) as Ho.
    specialize (Hall (fst u) ltac:(apply in_seq; lia)). rewrite forallb_forall in Hall.
    apply Hall. apply assoc_In. exact Hp. }
  split.
  - intros u p1 p2 y (ps1 & Hp1 & Hin1) (ps2 & Hp2 & Hin2) Hne N1 N2 R1 R2.
    rewrite Hp1 in Hp2. injection Hp2 as <-.
    pose proof (Hent u ps1 Hp1) as He. unfold oentryb in He. cbn [fst snd] in He.
    apply andb_prop in He. destruct He as [_ He]. rewrite forallb_forall in He. specialize (He p1 Hin1).
    rewrite forallb_forall in He. specialize (He p2 Hin2). destruct u as [uo un]. cbn [fst snd] in *.
    apply orb_prop in He. destruct He as [E|E].
    + apply orb_prop in E. destruct E as [E|E]; [apply orb_prop in E; destruct E as [E|E]|];
        apply key_eqb_eq in E; contradiction.
    + cbn zeta in E. apply andb_prop in E. destruct E as [E Hd]. apply andb_prop in E. destruct E as [C1 C2].
      assert (In y (closure (length (objs st) * 4) st (uo, un) [p1])) as I1
        by (eapply closed_contains; [exact C1|apply closure_grows; left; reflexivity|exact R1]).
      assert (In y (closure (length (objs st) * 4) st (uo, un) [p2])) as I2
        by (eapply closed_contains; [exact C2|apply closure_grows; left; reflexivity|exact R2]).
      rewrite forallb_forall in Hd. specialize (Hd y I1). apply negb_true_iff in Hd.
      apply has_key_In in I2. exact (eq_true_false_abs _ I2 Hd).
  - intros u ps Hp. pose proof (Hent u ps Hp) as He. unfold oentryb in He. cbn [fst snd] in He.
    repeat (apply andb_prop in He; destruct He as [He ?]). apply nodup_keys_sound. exact He.
  - intros u ps Hp Hk. pose proof (Hent u ps Hp) as He. unfold oentryb in He. cbn [fst snd] in He.
    repeat (apply andb_prop in He; destruct He as [He ?]). rewrite Hk in H1. exact H1.
  - intros u y (ps & Hp & Hin). pose proof (Hent u ps Hp) as He. unfold oentryb in He. cbn [fst snd] in He.
    repeat (apply andb_prop in He; destruct He as [He ?]). rewrite forallb_forall in H0. specialize (H0 y Hin).
    repeat (apply andb_prop in H0; destruct H0 as [H0 ?]). apply Bool.eqb_prop in H0. exact H0.
  - intros u y (ps & Hp & Hin). pose proof (Hent u ps Hp) as He. unfold oentryb in He. cbn [fst snd] in He.
    repeat (apply andb_prop in He; destruct He as [He ?]). rewrite forallb_forall in H0. specialize (H0 y Hin).
    repeat (apply andb_prop in H0; destruct H0 as [H0 ?]). apply Nat.ltb_lt in H2, H3. split; assumption.
Qed.

(* for Examples: the component of x agrees on L, decided by the consistency checker *)
Lemma component_agrees_checked st x L :
  consistentb st = true -> val_eqb (val st x) (VL L) = true -> forall y, reach st x y -> val st y = VL L.
Proof. intros C V. apply component_agrees; [apply consistentb_sound; exact C|apply val_eqb_true; exact V]. Qed.
