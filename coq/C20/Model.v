(* C20 — executable model of HasTraits.sync_trait and its two change handlers
   (traits/has_traits.py l.2646-2790), over a pool of objects that each carry two scalar
   traits (names 0, 1: Int) and two list traits (names 2, 3: List(Int)).

   Per object: the trait values, the `__sync_trait__` table (info: name -> ordered
   dict (partner, partner_name); the entry "" = lock table is [o_locked]), and which of
   the two sync handlers are attached to which trait (`_on_trait_change` de-duplicates
   handlers, has_traits.py l.2256-2258, so attachment is a set).
   Propagation is the mutual recursion  setattr -> _sync_trait_modified -> setattr ...
   (and list mutation -> _sync_trait_items_modified -> list mutation ...); the recursion
   depth is explicit fuel, running out of fuel is recorded as [overflow] (RecursionError).
   Definitions only. *)
From Coq Require Import ZArith List Bool Arith.
From TV Require Import C20.ListSem.
Import ListNotations.
Open Scope Z_scope.

Definition oid := nat.
Definition name := nat.

Inductive val := VS (z : Z) | VL (l : list Z).

Fixpoint zlist_eqb (a b : list Z) : bool :=
  match a, b with
  | [], [] => true
  | x :: a', y :: b' => (x =? y) && zlist_eqb a' b'
  | _, _ => false
  end.
Definition val_eqb (a b : val) : bool :=
  match a, b with
  | VS x, VS y => x =? y
  | VL x, VL y => zlist_eqb x y
  | _, _ => false
  end.

Definition is_list_name (n : name) : bool := Nat.leb 2 n && Nat.leb n 3.
(* names >= 4: an `Any` trait (accepts everything; never observed, never a source: it only serves as a
   partner that takes whatever it is given) *)
Definition is_any_name (n : name) : bool := Nat.leb 4 n.
(* Int accepts ints, List(Int) accepts lists of ints: anything else is a TraitError *)
Definition kind_ok (n : name) (v : val) : bool :=
  is_any_name n || match v with VS _ => negb (is_list_name n) | VL _ => is_list_name n end.

Record ostate := mkO {
  o_alive : bool;
  o_vals : list val;
  o_info : list (name * list (oid * name));   (* __sync_trait__ without the "" entry *)
  o_locked : list name;                       (* __sync_trait__[""] *)
  o_att_s : list name;                        (* _sync_trait_modified attached to <name> *)
  o_att_i : list name                         (* _sync_trait_items_modified attached to <name>_items *)
}.

Record state := mkS {
  objs : list ostate;
  notes : list (oid * name);   (* change notifications delivered during the current operation *)
  overflow : bool
}.

Definition dead_obj : ostate := mkO false [] [] [] [] [].

(* ----- small map helpers ----- *)
Fixpoint update {A} (i : nat) (f : A -> A) (l : list A) : list A :=
  match l, i with
  | [], _ => []
  | x :: r, O => f x :: r
  | x :: r, S i' => x :: update i' f r
  end.

Fixpoint assoc {A} (k : nat) (l : list (nat * A)) : option A :=
  match l with
  | [] => None
  | (k', a) :: r => if Nat.eqb k k' then Some a else assoc k r
  end.
Fixpoint assoc_set {A} (k : nat) (a : A) (l : list (nat * A)) : list (nat * A) :=
  match l with
  | [] => [(k, a)]
  | (k', a') :: r => if Nat.eqb k k' then (k, a) :: r else (k', a') :: assoc_set k a r
  end.
Fixpoint assoc_del {A} (k : nat) (l : list (nat * A)) : list (nat * A) :=
  match l with
  | [] => []
  | (k', a') :: r => if Nat.eqb k k' then r else (k', a') :: assoc_del k r
  end.

Definition has (n : nat) (l : list nat) : bool := existsb (Nat.eqb n) l.
Definition add1 (n : nat) (l : list nat) : list nat := if has n l then l else l ++ [n].
Definition del1 (n : nat) (l : list nat) : list nat := filter (fun m => negb (Nat.eqb n m)) l.

Definition key_eqb (a b : oid * name) : bool := Nat.eqb (fst a) (fst b) && Nat.eqb (snd a) (snd b).
Definition has_key (k : oid * name) (l : list (oid * name)) : bool := existsb (key_eqb k) l.

Definition get_obj (st : state) (o : oid) : ostate := nth o (objs st) dead_obj.
Definition upd_obj (st : state) (o : oid) (f : ostate -> ostate) : state :=
  mkS (update o f (objs st)) (notes st) (overflow st).
Definition get_val (st : state) (o : oid) (n : name) : val := nth n (o_vals (get_obj st o)) (VS 0).
Definition set_val (st : state) (o : oid) (n : name) (v : val) : state :=
  upd_obj st o (fun ob => mkO (o_alive ob) (update n (fun _ => v) (o_vals ob)) (o_info ob)
                              (o_locked ob) (o_att_s ob) (o_att_i ob)).
Definition add_note (st : state) (o : oid) (n : name) : state :=
  mkS (objs st) (notes st ++ [(o, n)]) (overflow st).
Definition set_overflow (st : state) : state := mkS (objs st) (notes st) true.
Definition lockedb (st : state) (o : oid) (n : name) : bool := has n (o_locked (get_obj st o)).
(* locked[name] = None *)
Definition lock (st : state) (o : oid) (n : name) : state :=
  upd_obj st o (fun ob => mkO (o_alive ob) (o_vals ob) (o_info ob) (add1 n (o_locked ob))
                              (o_att_s ob) (o_att_i ob)).
(* del locked[name] *)
Definition unlock (st : state) (o : oid) (n : name) : state :=
  upd_obj st o (fun ob => mkO (o_alive ob) (o_vals ob) (o_info ob) (del1 n (o_locked ob))
                              (o_att_s ob) (o_att_i ob)).
Definition partners (st : state) (o : oid) (n : name) : option (list (oid * name)) :=
  assoc n (o_info (get_obj st o)).

(* ----- setattr(o, n, v) with the sync handler, l.2753-2767 -----
   Returns the state and whether the assignment was accepted (false = TraitError). *)
Fixpoint assign (fuel : nat) (st : state) (o : oid) (n : name) (v : val) : state * bool :=
  match fuel with
  | O => (set_overflow st, true)
  | S f =>
      if negb (kind_ok n v) then (st, false)
      else
        let old := get_val st o n in
        let st1 := set_val st o n v in
        if val_eqb old v then (st1, true)                      (* no change: no notification *)
        else
          let st2 := add_note st1 o n in
          if has n (o_att_s (get_obj st2 o)) then
            match partners st2 o n with                          (* if name not in info: return *)
            | None => (st2, true)
            | Some ps =>
                let st3 := lock st2 o n in
                let st4 := fold_left
                  (fun s (q : oid * name) =>
                     let '(p, pn) := q in
                     if lockedb s p pn then s                    (* partner is propagating *)
                     else fst (assign f s p pn v))               (* try: setattr except: pass *)
                  ps st3 in
                (unlock st4 o n, true)
            end
          else (st2, true)
  end.

(* ----- the list o.n has just sent [ev] to notify(): the <n>_items trait fires,
   then _sync_trait_items_modified, l.2769-2790 ----- *)
Fixpoint forward (fuel : nat) (st : state) (o : oid) (n : name) (ev : event) : state :=
  match fuel with
  | O => set_overflow st
  | S f =>
      let st1 := add_note st o n in
      if has n (o_att_i (get_obj st1 o)) then
        match partners st1 o n with                              (* if name not in info: return *)
        | None => st1
        | Some ps =>
            let st2 := lock st1 o n in
            let st3 := fold_left
              (fun s (q : oid * name) =>
                 let '(p, pn) := q in
                 if lockedb s p pn then s
                 else match get_val s p pn with
                      | VL pl =>
                          match apply_event pl ev with
                          | Ok (pl', oev) =>
                              let s' := set_val s p pn (VL pl') in
                              match oev with
                              | Some ev' => forward f s' p pn ev'
                              | None => s'
                              end
                          | Raise _ => s                         (* except: pass *)
                          end
                      | VS _ => s                                (* int is not subscriptable: swallowed *)
                      end)
              ps st2 in
            unlock st3 o n
        end
      else st1
  end.

Definition is_nil_keys (d : list (oid * name)) : bool := match d with [] => true | _ => false end.

(* ----- sync_trait(o.n, p, alias=m, mutual=False, remove=False), l.2725-2740 ----- *)
Definition sync1 (fuel : nat) (st : state) (o : oid) (n : name) (p : oid) (m : name) : state * bool :=
  let is_list := is_list_name n && is_list_name m in
  let ob := get_obj st o in
  let dic := match assoc n (o_info ob) with Some d => d | None => [] end in
  if has_key (p, m) dic then (st, true)
  else
    let st1 := upd_obj st o (fun ob =>
      mkO (o_alive ob) (o_vals ob) (assoc_set n (dic ++ [(p, m)]) (o_info ob)) (o_locked ob)
          (if is_nil_keys dic then add1 n (o_att_s ob) else o_att_s ob)
          (if is_nil_keys dic && is_list then add1 n (o_att_i ob) else o_att_i ob)) in
    assign fuel st1 p m (get_val st1 o n).

(* ----- sync_trait(..., mutual=False, remove=True), l.2687-2706 ----- *)
Definition unsync1 (st : state) (o : oid) (n : name) (p : oid) (m : name) : state :=
  let is_list := is_list_name n && is_list_name m in
  let ob := get_obj st o in
  match assoc n (o_info ob) with
  | None => st
  | Some dic =>
      if has_key (p, m) dic then
        let dic' := filter (fun k => negb (key_eqb (p, m) k)) dic in
        match dic' with
        | [] => upd_obj st o (fun ob =>
                  mkO (o_alive ob) (o_vals ob) (assoc_del n (o_info ob)) (o_locked ob)
                      (del1 n (o_att_s ob)) (if is_list then del1 n (o_att_i ob) else o_att_i ob))
        | _ => upd_obj st o (fun ob =>
                  mkO (o_alive ob) (o_vals ob) (assoc_set n dic' (o_info ob)) (o_locked ob)
                      (o_att_s ob) (o_att_i ob))
        end
      else st
  end.

(* ----- the partner object d has been garbage-collected: every weak reference to it in the
   tables of the others runs _sync_trait_listener_deleted, l.2716-2723 (handlers stay attached) *)
Definition drop_dead (d : oid) (info : list (name * list (oid * name))) : list (name * list (oid * name)) :=
  filter (fun e => match snd e with [] => false | _ => true end)
         (map (fun e => (fst e, filter (fun k => negb (Nat.eqb (fst k) d)) (snd e))) info).

Definition collect (st : state) (d : oid) : state :=
  mkS (map (fun ob => mkO (o_alive ob) (o_vals ob) (drop_dead d (o_info ob)) (o_locked ob)
                          (o_att_s ob) (o_att_i ob))
           (update d (fun _ => dead_obj) (objs st)))
      (notes st) (overflow st).

(* ----- operations and observations ----- *)
Inductive op :=
| Assign (o : oid) (n : name) (v : val)
| Mut (o : oid) (n : name) (m : mut)
| Sync (o : oid) (n : name) (p : oid) (m : name) (mutual : bool)
| Unsync (o : oid) (n : name) (p : oid) (m : name) (mutual : bool)
| Collect (o : oid).

Inductive outcome := Done | Raised (e : exn).

Record obs := mkObs {
  ob_out : outcome;
  ob_vals : list (list val);     (* per object (dead: []) the four trait values *)
  ob_cnt : list (list Z);        (* per object, per trait: notifications during this operation *)
  ob_logged : Z                  (* exceptions swallowed and logged by the notification machinery *)
}.

Definition count_notes (st : state) (o : oid) (n : name) : Z :=
  Z.of_nat (length (filter (key_eqb (o, n)) (notes st))).

Definition names4 : list name := [0; 1; 2; 3]%nat.

Definition snapshot (st : state) : list (list val) :=
  map (fun ob => if o_alive ob then firstn 4 (o_vals ob) else []) (objs st).
Definition counts (st : state) : list (list Z) :=
  map (fun o => if o_alive (get_obj st o) then map (count_notes st o) names4 else [])
      (seq 0 (length (objs st))).

Definition clear_notes (st : state) : state := mkS (objs st) [] (overflow st).

Definition mk_obs (out : outcome) (st : state) : obs :=
  mkObs (if overflow st then Raised RecursionError else out) (snapshot st) (counts st) 0.

Definition step (fuel : nat) (st0 : state) (o : op) : state * obs :=
  let st := clear_notes st0 in
  match o with
  | Assign x n v =>
      let '(st', ok) := assign fuel st x n v in
      (st', mk_obs (if ok then Done else Raised TraitError) st')
  | Mut x n m =>
      match get_val st x n with
      | VL l =>
          match mutate l m with
          | Raise e => (st, mk_obs (Raised e) st)
          | Ok (l', oev) =>
              let st1 := set_val st x n (VL l') in
              let st2 := match oev with Some ev => forward fuel st1 x n ev | None => st1 end in
              (st2, mk_obs Done st2)
          end
      | VS _ => (st, mk_obs (Raised AttributeError) st)
      end
  | Sync x n p m mutual =>
      let '(st1, ok) := sync1 fuel st x n p m in
      if negb ok then (st1, mk_obs (Raised TraitError) st1)       (* setattr raised inside sync_trait *)
      else if mutual then
        let '(st2, ok2) := sync1 fuel st1 p m x n in
        (st2, mk_obs (if ok2 then Done else Raised TraitError) st2)
      else (st1, mk_obs Done st1)
  | Unsync x n p m mutual =>
      let st1 := unsync1 st x n p m in
      let st2 := if mutual then unsync1 st1 p m x n else st1 in
      (st2, mk_obs Done st2)
  | Collect d => let st1 := collect st d in (st1, mk_obs Done st1)
  end.

Fixpoint run (fuel : nat) (st : state) (ops : list op) : list (op * obs) :=
  match ops with
  | [] => []
  | o :: r => let '(st', ob) := step fuel st o in (o, ob) :: run fuel st' r
  end.

(* a pool of fresh objects with the given trait values *)
Definition fresh (vals : list val) : ostate := mkO true vals [] [] [] [].
Definition init_state (vs : list (list val)) : state := mkS (map fresh vs) [] false.
