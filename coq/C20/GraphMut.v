(* C20 — the general-graph protocol of GraphProtocol.v extended with IN-PLACE LIST MUTATIONS: a mutation is
   admitted whenever the link graph AT THAT MOMENT is a tree (TreeSpread.tree, decidable by treeb); links may be
   created, removed and partners may die before and after, so the graph may pass through cyclic shapes in
   between - only mutations have to wait for a tree (on a cyclic graph they do diverge: F19). *)
From Coq Require Import ZArith List Bool Arith Lia.
From TV Require Import Common.Harness C20.ListSem C20.SliceProofs C20.Model C20.Termination C20.Spread
                       C20.TreeSpread C20.GraphProtocol C20.Notes.
Import ListNotations.

Lemma consistent_reach st x y : consistent st -> reach st x y -> val st y = val st x.
Proof.
  intros C R. induction R as [|y z R IH He]; [reflexivity|]. rewrite <- IH. symmetry. apply C. exact He.
Qed.

Lemma list_not_any n : is_list_name n = true -> is_any_name n = false.
Proof.
  unfold is_list_name, is_any_name. intros H. apply andb_prop in H. destruct H as [_ H].
  apply Nat.leb_le in H. apply Nat.leb_gt. lia.
Qed.
Lemma kind_ok_list n v : is_list_name n = true -> kind_ok n v = true -> exists L, v = VL L.
Proof.
  intros Hl. unfold kind_ok. rewrite (list_not_any n Hl), Hl. destruct v as [z|L]; cbn; [discriminate|].
  intros _. exists L. reflexivity.
Qed.
Lemma kind_ok_VL n L : is_list_name n = true -> kind_ok n (VL L) = true.
Proof. intros Hl. unfold kind_ok. rewrite Hl. apply orb_true_r. Qed.

Lemma keys_nodup_frame s t : same_frame s t -> keys_nodup s -> keys_nodup t.
Proof. intros [_ F] K o. destruct (F o) as (_ & H & _). rewrite <- H. apply K. Qed.

Theorem mut_step_inv fuel st o n mu :
  ginv st -> keys_nodup st -> tree st -> in_range st (o, n) -> is_list_name n = true ->
  replayable_mut mu = true -> (A st < fuel)%nat ->
  let st' := fst (step fuel st (Mut o n mu)) in
  ginv st' /\ keys_nodup st' /\ A st' = A st.
Proof.
  intros [G Sy C NL Hov Ty] K T Rx Hl Hmu Hfuel st'.
  assert (Phi st < fuel)%nat as P by (pose proof (Phi_le_A st); lia).
  destruct (mut_preserves_consistency fuel st o n mu T C NL Hov P Rx Hl Hmu) as (C' & O' & F). fold st' in C', O', F.
  destruct (kind_ok_list n _ Hl (Ty (o, n) Rx)) as [L HL].
  assert (forall y, reach st (o, n) y -> val st y = VL L) as Hall.
  { intros y R. rewrite (consistent_reach st _ _ C R). exact HL. }
  destruct (mut_step_converges fuel st o n mu L (tree_otree st T) NL Hov P Rx Hl Hmu Hall) as (_ & _ & L'' & Hnew & Hother).
  fold st' in Hnew, Hother.
  split; [|split; [eapply keys_nodup_frame; eassumption|symmetry; apply A_frame; exact F]].
  split.
  - eapply gwf_frame; eassumption.
  - eapply symmetric_frame; eassumption.
  - exact C'.
  - eapply no_locks_frame; eassumption.
  - exact O'.
  - intros x Rx'. destruct (Hother x) as [E|R].
    + rewrite E. apply Ty. eapply in_range_frame; [apply same_frame_sym; exact F|exact Rx'].
    + rewrite (Hnew x R). apply kind_ok_VL. destruct (reach_flags st _ _ G R) as [K1 _]. cbn [snd] in K1. rewrite K1. exact Hl.
Qed.

(* ---------- histories of all five kinds of operation ---------- *)
Definition op_ok5 (st : state) (o : op) : Prop :=
  match o with
  | Mut o n mu => tree st /\ in_range st (o, n) /\ is_list_name n = true /\ replayable_mut mu = true
  | _ => op_ok st o
  end.
Fixpoint run_ok5 (fuel : nat) (st : state) (ops : list op) : Prop :=
  match ops with
  | [] => True
  | o :: r => op_ok5 st o /\ run_ok5 fuel (fst (step fuel st o)) r
  end.

Theorem graph_step_inv5 fuel st o :
  ginv st -> keys_nodup st -> (A st + 4 < fuel)%nat -> op_ok5 st o ->
  let st' := fst (step fuel st o) in
  ginv st' /\ keys_nodup st' /\ (A st' <= A st + 4)%nat.
Proof.
  intros Hinv K Hfuel Hok.
  destruct o as [o n v|o n mu|o n p m b|o n p m b|d];
    try (apply graph_step_inv; assumption).
  destruct Hok as (T & Rx & Hl & Hmu).
  destruct (mut_step_inv fuel st o n mu Hinv K T Rx Hl Hmu ltac:(lia)) as (I1 & K1 & A1).
  split; [exact I1|]. split; [exact K1|]. cbv zeta. rewrite A1. lia.
Qed.

Theorem graph_histories5 fuel : forall ops st,
  ginv st -> keys_nodup st -> (A st + 4 * length ops < fuel)%nat -> run_ok5 fuel st ops ->
  ginv (final fuel st ops).
Proof.
  induction ops as [|o r IH]; intros st Hinv K Hfuel Hops; cbn [final]; [exact Hinv|].
  destruct Hops as (Hok & Hr). cbn [length] in Hfuel.
  destruct (graph_step_inv5 fuel st o Hinv K ltac:(lia) Hok) as (I1 & K1 & A1).
  apply IH; [exact I1|exact K1|lia|exact Hr].
Qed.

Theorem fresh_graph_histories5 fuel vs ops :
  typed_pool vs -> (4 * length ops < fuel)%nat -> run_ok5 fuel (init_state vs) ops ->
  let st' := final fuel (init_state vs) ops in
  consistent st' /\ symmetric st' /\ no_locks st' /\ overflow st' = false.
Proof.
  intros Ht Hfuel Hops st'. destruct (ginv_fresh vs Ht) as [I0 A0].
  destruct (graph_histories5 fuel ops (init_state vs) I0 (keys_fresh vs) ltac:(lia) Hops) as [_ Sy C NL Hov _].
  repeat split; assumption.
Qed.

Definition op_ok5b (st : state) (o : op) : bool :=
  match o with
  | Mut o n mu => treeb st && in_rangeb st (o, n) && is_list_name n && replayable_mut mu
  | _ => op_okb st o
  end.
Fixpoint run_ok5b (fuel : nat) (st : state) (ops : list op) : bool :=
  match ops with
  | [] => true
  | o :: r => op_ok5b st o && run_ok5b fuel (fst (step fuel st o)) r
  end.
Lemma op_ok5b_sound st o : op_ok5b st o = true -> op_ok5 st o.
Proof.
  destruct o as [o n v|o n mu|o n p m b|o n p m b|d]; try apply op_okb_sound.
  cbn [op_ok5b op_ok5]. intros H. apply andb_prop in H. destruct H as [H H4]. apply andb_prop in H. destruct H as [H H3].
  apply andb_prop in H. destruct H as [H1 H2].
  split; [apply treeb_sound; exact H1|]. split; [apply in_rangeb_sound; exact H2|]. split; assumption.
Qed.
Lemma run_ok5b_sound fuel : forall ops st, run_ok5b fuel st ops = true -> run_ok5 fuel st ops.
Proof.
  induction ops as [|o r IH]; intros st H; [exact I|]. cbn [run_ok5b] in H. apply andb_prop in H. destruct H as [H1 H2].
  split; [apply op_ok5b_sound; exact H1|apply IH; exact H2].
Qed.

(* ---------- notifications of an assignment on every graph of the protocol ---------- *)
Lemma ginv_ranged st : ginv st -> ranged st.
Proof. intros [G _ _ _ _ _] x y He. destruct (g_edge _ G x y He) as (_ & _ & R & _). exact R. Qed.

Theorem assign_notifies_exactly_the_component fuel st o n v :
  ginv st -> in_range st (o, n) -> kind_ok n v = true -> (A st < fuel)%nat ->
  let st' := fst (step fuel st (Assign o n v)) in
  (val st (o, n) = v -> forall y, nc st' y = 0%nat) /\
  (val st (o, n) <> v ->
     forall y, (reach st (o, n) y -> nc st' y = 1%nat) /\ (~ reach st (o, n) y -> nc st' y = 0%nat)).
Proof.
  intros Hinv Rx Hk Hfuel st'.
  set (st0 := clear_notes st).
  pose proof (ginv_clear_notes st Hinv) as Hinv0. fold st0 in Hinv0.
  pose proof Hinv0 as [G Sy C NL Hov Ty].
  assert (same_frame st st0) as F0 by apply clear_notes_frame.
  assert (in_range st0 (o, n)) as Rx0 by exact Rx.
  assert (Phi st0 < fuel)%nat as P0 by (pose proof (Phi_le_A st0); assert (A st0 = A st) by reflexivity; lia).
  assert (st' = fst (assign fuel st0 o n v)) as Hstep.
  { unfold st', step. fold st0. destruct (assign fuel st0 o n v). reflexivity. }
  pose proof (gwf_wf st0 v G) as W.
  destruct (assign_converges v fuel st0 o n W C NL Hov P0 Hk Rx0) as (_ & _ & Hall & _).
  pose proof (assign_noted v fuel st0 o n (ginv_ranged st0 Hinv0) Hov (NL (o, n)) P0 Rx0) as [_ N].
  rewrite <- Hstep in Hall, N.
  assert (forall y, val st' y = val st0 y \/ reach st0 (o, n) y) as Hc.
  { intros y. destruct (val_dec (val st' y) (val st0 y)) as [E|E]; [left; exact E|right].
    rewrite Hstep in E. eapply assign_touches_only_reachable; [exact Hov|apply (NL (o, n))|exact P0|exact E]. }
  assert (forall y, nc st0 y = 0%nat) as Z0 by reflexivity.
  assert (forall y, reach st (o, n) y <-> reach st0 (o, n) y) as RR.
  { intros y. split; apply reach_frame; [exact F0|apply same_frame_sym; exact F0]. }
  assert (forall y, val st0 y = val st y) as V0 by (intros y; apply val_clear_notes).
  split.
  - intros Ev y. destruct (N y) as [_ B]. rewrite B; [apply Z0|].
    destruct (Hc y) as [E|R].
    + destruct (val_dec (val st0 y) v) as [E1|E1]; [left; exact E1|right; rewrite E; exact E1].
    + left. rewrite (consistent_reach st0 _ _ C R), V0. exact Ev.
  - intros Ne y. destruct (N y) as [A1 B]. split.
    + intros R. apply RR in R. rewrite A1; [rewrite Z0; reflexivity| |apply Hall; exact R].
      rewrite (consistent_reach st0 _ _ C R), V0. exact Ne.
    + intros NR. rewrite B; [apply Z0|]. destruct (Hc y) as [E|R]; [|exfalso; apply NR; apply RR; exact R].
      destruct (val_dec (val st0 y) v) as [E1|E1]; [left; exact E1|right; rewrite E; exact E1].
Qed.
