(* C04 — proofs for arbitrary nesting depth (Deep.v): the invariant [wfb] is preserved by every
   mutator applied at any path and by whole-value assignment; failing operations are inert;
   the boolean law holds of the model. *)
From Coq Require Import ZArith List Bool Lia Arith PeanoNat.
From TV Require Import Common.PySlice Common.PyList Common.PyListInv Common.Harness
  C05.Normalize C05.Model C05.Law C05.Corr C05.Proofs C04.Model C04.Law C04.Corr C04.Proofs C04.DefaultProofs C04.Deep.
Import ListNotations.
Local Open Scope Z_scope.

(* induction over items with the nested list *)
Section ItemInd.
  Variable P : item -> Prop.
  Hypothesis HA : forall z, P (Atom z).
  Hypothesis HL : forall l, Forall P l -> P (Lst l).
  Hypothesis HD : forall m, Forall (fun p => P (snd p)) m -> P (Dct m).
  Fixpoint item_ind' (x : item) : P x :=
    match x with
    | Atom z => HA z
    | Lst l => HL l ((fix go (l : list item) : Forall P l :=
                        match l with
                        | [] => Forall_nil P
                        | y :: r => Forall_cons y (item_ind' y) (go r)
                        end) l)
    | Dct m => HD m ((fix go (m : list (Z * item)) : Forall (fun p => P (snd p)) m :=
                        match m with
                        | [] => Forall_nil _
                        | p :: r => Forall_cons p (item_ind' (snd p)) (go r)
                        end) m)
    end.
End ItemInd.

Lemma item_eqb_refl x : item_eqb x x = true.
Proof.
  induction x as [z|l IH|m IH] using item_ind'; cbn; [apply Z.eqb_refl| |].
  - induction IH as [|y r Hy _ IHr]; [reflexivity|]. rewrite Hy. exact IHr.
  - induction IH as [|[k y] r Hy _ IHr]; [reflexivity|]. cbn in Hy. rewrite Z.eqb_refl, Hy. exact IHr.
Qed.

(* ---------- dicts of items ---------- *)
Section IMap.
  Variable R : Z * item -> Prop.
  Lemma F_dset k v m : R (k, v) -> Forall R m -> Forall R (dset k v m).
  Proof.
    intros Hp F. induction m as [|[k' v'] m IH]; cbn; [constructor; [exact Hp|constructor]|].
    inversion F; subst. destruct (k =? k'); constructor; auto.
  Qed.
  Lemma F_dupdate ps : forall m, Forall R ps -> Forall R m -> Forall R (dupdate ps m).
  Proof.
    induction ps as [|[k v] ps IH]; intros m Fp Fm; cbn; [exact Fm|].
    inversion Fp; subst. apply IH; [assumption|]. apply F_dset; assumption.
  Qed.
  Lemma F_dremove k m : Forall R m -> Forall R (dremove k m).
  Proof.
    intros F. apply Forall_forall. intros x Hx. apply filter_In in Hx. rewrite Forall_forall in F. apply F, Hx.
  Qed.
End IMap.
Lemma dlookup_In k m v : dlookup k m = Some v -> In (k, v) m.
Proof.
  induction m as [|[k' v'] m IH]; cbn; [discriminate|]. destruct (Z.eqb_spec k k') as [->|].
  - intros H. inversion H. left. reflexivity.
  - intros H. right. apply IH. exact H.
Qed.
Lemma dset_same k v m : dlookup k m = Some v -> dset k v m = m.
Proof.
  induction m as [|[k' v'] m IH]; cbn; [discriminate|]. destruct (Z.eqb_spec k k') as [->|].
  - intros H. inversion H. reflexivity.
  - intros H. f_equal. apply IH. exact H.
Qed.

Lemma mapM_length {A B} (f : A -> option B) l l' : mapM f l = Some l' -> length l' = length l.
Proof.
  revert l'. induction l as [|x l IH]; intros l' H; cbn in H.
  - inversion H. reflexivity.
  - destruct (f x); [|discriminate]. destruct (mapM f l) as [r|]; [|discriminate]. inversion H. cbn.
    f_equal. apply IH. reflexivity.
Qed.
Lemma mapM_Forall {A B} (f : A -> option B) (Q : B -> Prop) l l' :
  (forall x y, In x l -> f x = Some y -> Q y) -> mapM f l = Some l' -> Forall Q l'.
Proof.
  revert l'. induction l as [|x l IH]; intros l' Hf H; cbn in H.
  - inversion H. constructor.
  - destruct (f x) as [y|] eqn:E; [|discriminate]. destruct (mapM f l) as [r|]; [|discriminate]. inversion H.
    constructor; [apply (Hf x y); [left; reflexivity|exact E]|].
    apply IH; [|reflexivity]. intros x0 y0 Hin. apply Hf. right. exact Hin.
Qed.

Lemma validate_wf t : forall x y, validate t x = Some y -> wfb t y = true.
Proof.
  induction t as [vk|inner IH mn mx|kk vt IH]; intros x y H; cbn in H.
  3:{ destruct x as [z|l|m]; try discriminate.
      destruct (mapM _ m) as [qs|] eqn:M; [|discriminate]. inversion H. cbn.
      apply forallb_Forall. apply F_dupdate; [|constructor].
      eapply mapM_Forall; [|exact M]. intros [k v] [k' v'] _ Hp. cbn in Hp.
      destruct (vld_of kk k) as [k1|] eqn:K; [|discriminate]. destruct (validate vt v) as [v1|] eqn:V; [|discriminate].
      inversion Hp; subst. cbn. rewrite (vld_of_dom kk k k' K), (IH v v' V). reflexivity. }
  - destruct x as [z|l|m]; try discriminate. destruct (vld_of vk z) as [w|] eqn:V; [|discriminate]. inversion H.
    cbn. eapply vld_of_dom. exact V.
  - destruct x as [z|l|m]; try discriminate. destruct (len_ok mn mx (zlen l)) eqn:L; [|discriminate].
    destruct (mapM (validate inner) l) as [l'|] eqn:M; [|discriminate]. inversion H. cbn.
    apply andb_true_iff. split.
    + apply forallb_Forall. eapply mapM_Forall; [|exact M]. intros x0 y0 _ Hv. eapply IH. exact Hv.
    + pose proof (mapM_length _ _ _ M) as E. unfold zlen in *. rewrite E. exact L.
Qed.

(* ---------- one level ---------- *)
Definition lout (r : lres) : res unit := fst (fst r).
Definition lafter (r : lres) : list item := snd (fst r).
Definition lnev (r : lres) : nat := snd r.

Section LevelProofs.
  Variable ivld : item -> option item.
  Variable Q : item -> Prop.
  Hypothesis HQ : forall r y, ivld r = Some y -> Q y.
  Variable mn : Z.
  Variable mx : option Z.

  Definition LvInv (l : list item) : Prop := Forall Q l /\ len_ok mn mx (zlen l) = true.
  Notation step := (level_step ivld mn mx).

  Lemma mapM_Q rs ys : mapM ivld rs = Some ys -> Forall Q ys /\ zlen ys = zlen rs.
  Proof.
    intros H. split; [eapply mapM_Forall; [|exact H]; intros x y _; apply HQ|].
    pose proof (mapM_length _ _ _ H) as E. unfold zlen. rewrite E. reflexivity.
  Qed.

  Lemma lguard_inv n l k : LvInv l -> (len_ok mn mx n = true -> LvInv (lafter k)) -> LvInv (lafter (lguard mn mx n l k)).
  Proof. intros I H. unfold lguard. destruct (len_ok mn mx n); [auto|exact I]. Qed.

  Theorem level_inv l o : LvInv l -> LvInv (lafter (step l o)).
  Proof.
    intros I. pose proof I as [F LN]. destruct o; cbn [level_step].
    - apply lguard_inv; [exact I|]. intros G. destruct (ivld r) as [y|] eqn:V; [|exact I].
      cbn. split; [apply Forall_app; split; [exact F|constructor; [eapply HQ; exact V|constructor]]|].
      replace (zlen (l ++ [y])) with (zlen l + 1); [exact G|unfold zlen; rewrite app_length; cbn; lia].
    - apply lguard_inv; [exact I|]. intros G. destruct (mapM ivld rs) as [ys|] eqn:V; [|exact I].
      destruct (mapM_Q rs ys V) as [FQ E]. cbn. split; [apply Forall_app; split; assumption|].
      replace (zlen (l ++ ys)) with (zlen l + zlen rs); [exact G|unfold zlen in *; rewrite app_length; lia].
    - apply lguard_inv; [exact I|]. intros G. destruct (ivld r) as [y|] eqn:V; [|exact I].
      cbn. split; [apply Forall_insert; [eapply HQ; exact V|exact F]|]. rewrite insert_length. exact G.
    - destruct (ivld r) as [y|] eqn:V; [|exact I].
      destruct (setitem_int l i y) as [l'|e] eqn:E; [|exact I]. cbn.
      split; [eapply Forall_setitem_int; [eapply HQ; exact V|exact F|exact E]|].
      rewrite (setitem_int_length l l' i y E). exact LN.
    - destruct (getitem_slice l sl) as [removed|e] eqn:G; [|exact I].
      assert (forall n, (if is_step1 sl then len_ok mn mx n = true /\ n = zlen l - zlen removed + zlen rs else True) ->
              LvInv (lafter (match mapM ivld rs with
                             | None => lraise TraitError l
                             | Some ys => match setitem_slice l sl ys with
                                          | Raise e => lraise e l
                                          | Ok l' => lok l' (b2n (nonempty ys || nonempty removed))
                                          end
                             end))) as K.
      { intros n Hn. destruct (mapM ivld rs) as [ys|] eqn:V; [|exact I].
        destruct (mapM_Q rs ys V) as [FQ EL].
        destruct (setitem_slice l sl ys) as [l'|e] eqn:E; [|exact I]. cbn.
        split; [eapply Forall_setitem_slice; [exact F|exact FQ|exact E]|].
        destruct (setitem_slice_length l l' removed ys sl E G) as [EQ _]. rewrite <- is_step1_eqb in EQ.
        destruct (is_step1 sl).
        - destruct Hn as [Hn ->]. rewrite EQ, EL. exact Hn.
        - rewrite EQ. exact LN. }
      destruct (is_step1 sl) eqn:S1.
      + unfold lguard. destruct (len_ok mn mx (zlen l - zlen removed + zlen rs)) eqn:LO; [|exact I].
        apply (K (zlen l - zlen removed + zlen rs)). split; [exact LO|reflexivity].
      + destruct (zlen rs =? zlen removed); [|exact I]. apply (K 0). exact Logic.I.
    - apply lguard_inv; [exact I|]. intros G. destruct (delitem_int l i) as [l'|e] eqn:E; [|exact I]. cbn.
      split; [eapply Forall_delitem_int; eassumption|].
      pose proof (delitem_int_length l l' i E). pose proof (zlen_nonneg l').
      replace (zlen l') with (Z.max (zlen l - 1) 0) by lia. exact G.
    - destruct (getitem_slice l sl) as [removed|e] eqn:G; [|exact I].
      apply lguard_inv; [exact I|]. intros LO. destruct (delitem_slice l sl) as [l'|e] eqn:E; [|exact I]. cbn.
      split; [eapply Forall_delitem_slice; eassumption|].
      destruct (delitem_slice_length l l' removed sl E G).
      replace (zlen l') with (Z.max (zlen l - zlen removed) 0) by lia. exact LO.
    - apply lguard_inv; [exact I|]. intros G. destruct (pop l _) as [[x l']|e] eqn:E; [|exact I]. cbn.
      split; [eapply Forall_pop; eassumption|].
      pose proof (pop_length l l' _ x E). pose proof (zlen_nonneg l').
      replace (zlen l') with (Z.max (zlen l - 1) 0) by lia. exact G.
    - cbn. split; [apply Forall_rev; exact F|]. unfold zlen. rewrite rev_length. exact LN.
    - apply lguard_inv; [exact I|]. intros G. cbn. split; [constructor|exact G].
    - (* GRemove *)
      apply lguard_inv; [exact I|]. intros G. destruct (remove item_pyeq l r) as [l'|e] eqn:E; [|exact I]. cbn.
      split; [eapply Forall_remove; eassumption|].
      pose proof (remove_length item_pyeq l l' r E). pose proof (zlen_nonneg l').
      replace (zlen l') with (Z.max (zlen l - 1) 0) by lia. exact G.
    - (* GSort *)
      cbn. split; [apply Forall_sort; exact F|]. unfold zlen. rewrite sort_length. exact LN.
    - (* GImul *)
      apply lguard_inv; [exact I|]. intros G.
      assert (LvInv (imul l n)) as R by (split; [apply Forall_imul; exact F|rewrite imul_length; exact G]).
      destruct (n <? 1); exact R.
  Qed.

  Theorem level_inert l o e : lout (step l o) = Raise e -> lafter (step l o) = l /\ lnev (step l o) = 0%nat.
  Proof.
    destruct o; cbn [level_step]; unfold lguard, lraise, lok, lout, lafter, lnev;
      repeat match goal with
             | |- context [match ?x with _ => _ end] => destruct x eqn:?
             end; cbn [fst snd]; intros H; try discriminate; auto.
  Qed.

  Theorem level_success l o :
    lout (step l o) = Ok tt -> forallb (fun r => match ivld r with Some _ => true | None => false end) (g_offered o) = true.
  Proof.
    assert (forall rs ys, mapM ivld rs = Some ys ->
            forallb (fun r => match ivld r with Some _ => true | None => false end) rs = true) as MA.
    { induction rs as [|r rs IH]; intros ys H; cbn in *; [reflexivity|].
      destruct (ivld r); [|discriminate]. destruct (mapM ivld rs) as [t|]; [|discriminate]. cbn. eapply IH. reflexivity. }
    destruct o; cbn [level_step g_offered]; unfold lguard, lraise, lok, lout;
      repeat match goal with
             | |- context [match ?x with _ => _ end] => destruct x eqn:?
             end; cbn [fst snd]; intros H; try discriminate; try reflexivity; cbn [forallb];
      repeat match goal with
             | V : ivld _ = Some _ |- _ => rewrite V
             | V : mapM ivld _ = Some _ |- _ => apply MA in V; rewrite V
             end; try reflexivity.
  Qed.
End LevelProofs.

(* ---------- one dict level ---------- *)
Definition dout (r : dres) : res unit := fst (fst r).
Definition dafter (r : dres) : imap := snd (fst r).
Definition dnev (r : dres) : nat := snd r.

Section DLevelProofs.
  Variable kvld : Z -> option Z.
  Variable vvld : item -> option item.
  Variable PK : Z -> Prop.
  Variable Q : item -> Prop.
  Hypothesis HPK : forall k k', kvld k = Some k' -> PK k'.
  Hypothesis HQ : forall r y, vvld r = Some y -> Q y.

  Definition DR (p : Z * item) : Prop := PK (fst p) /\ Q (snd p).
  Definition DvInv (m : imap) : Prop := Forall DR m.
  Notation step := (dlevel_step kvld vvld).

  Lemma pair_vld_DR p q : pair_vld kvld vvld p = Some q -> DR q.
  Proof.
    unfold pair_vld. destruct (kvld (fst p)) as [k'|] eqn:K; [|discriminate].
    destruct (vvld (snd p)) as [v'|] eqn:V; [|discriminate]. intros H. inversion H. split; cbn; eauto.
  Qed.

  Theorem dlevel_inv m o : DvInv m -> DvInv (dafter (step m o)).
  Proof.
    intros F. unfold DvInv in *. destruct o as [k r|ps|k r|k|k| ]; cbn [dlevel_step].
    - destruct (pair_vld kvld vvld (k, r)) as [[k' y]|] eqn:V; [|exact F].
      cbn. apply F_dset; [eapply pair_vld_DR; exact V|exact F].
    - destruct (mapM (pair_vld kvld vvld) ps) as [qs|] eqn:V; [|exact F]. cbn.
      apply F_dupdate; [|exact F]. eapply mapM_Forall; [|exact V]. intros x y _ Hp. eapply pair_vld_DR. exact Hp.
    - destruct (dlookup k m); [exact F|].
      destruct (pair_vld kvld vvld (k, r)) as [[k' y]|] eqn:V; [|exact F].
      cbn. apply F_dset; [eapply pair_vld_DR; exact V|exact F].
    - destruct (dlookup k m); [|exact F]. cbn. apply F_dremove. exact F.
    - destruct (dlookup k m); [|exact F]. cbn. apply F_dremove. exact F.
    - cbn. constructor.
  Qed.

  Theorem dlevel_inert m o e : dout (step m o) = Raise e -> dafter (step m o) = m /\ dnev (step m o) = 0%nat.
  Proof.
    destruct o; cbn [dlevel_step]; unfold draise, dok, dout, dafter, dnev;
      repeat match goal with
             | |- context [match ?x with _ => _ end] => destruct x eqn:?
             end; cbn [fst snd]; intros H; try discriminate; auto.
  Qed.

  Theorem dlevel_success m o :
    dout (step m o) = Ok tt ->
    forallb (fun p => match pair_vld kvld vvld p with Some _ => true | None => false end) (d_offered_pairs m o) = true.
  Proof.
    assert (forall ps qs, mapM (pair_vld kvld vvld) ps = Some qs ->
            forallb (fun p => match pair_vld kvld vvld p with Some _ => true | None => false end) ps = true) as MA.
    { induction ps as [|p ps IH]; intros qs H; cbn in *; [reflexivity|].
      destruct (pair_vld kvld vvld p); [|discriminate]. destruct (mapM _ ps) as [t|]; [|discriminate]. cbn. eapply IH. reflexivity. }
    destruct o; cbn [dlevel_step d_offered_pairs]; unfold draise, dok, dout;
      repeat match goal with
             | |- context [match ?x with _ => _ end] => destruct x eqn:?
             end; cbn [fst snd]; intros H; try discriminate; try reflexivity; cbn [forallb];
      repeat match goal with
             | V : pair_vld _ _ _ = Some _ |- _ => rewrite V
             | V : mapM _ _ = Some _ |- _ => apply MA in V; rewrite V
             end; try reflexivity.
  Qed.
End DLevelProofs.

(* ---------- any path ---------- *)
Lemma wfb_list inner mn mx l :
  wfb (TList inner mn mx) (Lst l) = true <-> LvInv (fun y => wfb inner y = true) mn mx l.
Proof. cbn. unfold LvInv. rewrite andb_true_iff, forallb_Forall. reflexivity. Qed.

Lemma wfb_dict kk vt m :
  wfb (TDict kk vt) (Dct m) = true <-> DvInv (fun k => dom_of kk k = true) (fun y => wfb vt y = true) m.
Proof.
  cbn. unfold DvInv, DR. rewrite forallb_Forall. split; intros F; eapply Forall_impl; try exact F; cbn; intros [k v]; cbn.
  - intros H. apply andb_true_iff in H. exact H.
  - intros [A B]. rewrite A, B. reflexivity.
Qed.

Theorem path_inv : forall path t x o, wfb t x = true -> wfb t (dp_after (path_step t x path o)) = true.
Proof.
  induction path as [|[j|k] p IH]; intros t x o W.
  - destruct t as [vk|inner mn mx|kk vt]; destruct x as [z|l|m]; destruct o as [g|d];
      cbn [path_step bad_path dp_after]; try exact W.
    + destruct (level_step (validate inner) mn mx l g) as [[out l'] n] eqn:E. cbn [dp_after].
      apply wfb_list. apply wfb_list in W.
      pose proof (level_inv (validate inner) (fun y => wfb inner y = true) (fun r y => validate_wf inner r y) mn mx l g W) as I.
      rewrite E in I. exact I.
    + destruct (dlevel_step (vld_of kk) (validate vt) m d) as [[out m'] n] eqn:E. cbn [dp_after].
      apply wfb_dict. apply wfb_dict in W.
      pose proof (dlevel_inv (vld_of kk) (validate vt) (fun k => dom_of kk k = true) (fun y => wfb vt y = true)
                             (fun a b => vld_of_dom kk a b) (fun r y => validate_wf vt r y) m d W) as I.
      rewrite E in I. exact I.
  - destruct t as [vk|inner mn mx|kk vt]; destruct x as [z|l|m]; cbn [path_step bad_path dp_after]; try exact W.
    destruct (nth_error l j) as [y|] eqn:N; cbn [dp_after]; [|exact W].
    apply wfb_list. apply wfb_list in W. destruct W as [F LN].
    assert (wfb inner y = true) as Wy by (rewrite Forall_forall in F; apply F; eapply nth_error_In; exact N).
    split.
    + apply Forall_set_nth; [apply IH; exact Wy|exact F].
    + unfold zlen. rewrite set_nth_length; [exact LN|]. apply nth_error_Some. congruence.
  - destruct t as [vk|inner mn mx|kk vt]; destruct x as [z|l|m]; cbn [path_step bad_path dp_after]; try exact W.
    destruct (dlookup k m) as [y|] eqn:N; cbn [dp_after]; [|exact W].
    apply wfb_dict. apply wfb_dict in W. unfold DvInv in *.
    pose proof (dlookup_In k m y N) as Hin. pose proof W as W0. rewrite Forall_forall in W0. destruct (W0 _ Hin) as [HK HY].
    apply F_dset; [|exact W]. split; cbn; [exact HK|apply IH; exact HY].
Qed.

Theorem path_inert : forall path t x o e,
  dp_out (path_step t x path o) = Raise e -> dp_after (path_step t x path o) = x /\ dp_events (path_step t x path o) = 0%nat.
Proof.
  induction path as [|[j|k] p IH]; intros t x o e.
  - destruct t as [vk|inner mn mx|kk vt]; destruct x as [z|l|m]; destruct o as [g|d];
      cbn [path_step bad_path dp_out dp_after dp_events]; auto.
    + destruct (level_step (validate inner) mn mx l g) as [[out l'] n] eqn:E. cbn [dp_out dp_after dp_events].
      intros H. pose proof (level_inert (validate inner) mn mx l g e) as LI. rewrite E in LI.
      unfold lout, lafter, lnev in LI. cbn [fst snd] in LI. destruct (LI H) as [-> ->]. auto.
    + destruct (dlevel_step (vld_of kk) (validate vt) m d) as [[out m'] n] eqn:E. cbn [dp_out dp_after dp_events].
      intros H. pose proof (dlevel_inert (vld_of kk) (validate vt) m d e) as LI. rewrite E in LI.
      unfold dout, dafter, dnev in LI. cbn [fst snd] in LI. destruct (LI H) as [-> ->]. auto.
  - destruct t as [vk|inner mn mx|kk vt]; destruct x as [z|l|m]; cbn [path_step bad_path dp_out dp_after dp_events]; auto.
    destruct (nth_error l j) as [y|] eqn:N; cbn [dp_out dp_after dp_events]; auto.
    intros H. destruct (IH inner y o e H) as [HA HE]. rewrite HA, HE. split; [|reflexivity].
    f_equal. apply set_nth_same. exact N.
  - destruct t as [vk|inner mn mx|kk vt]; destruct x as [z|l|m]; cbn [path_step bad_path dp_out dp_after dp_events]; auto.
    destruct (dlookup k m) as [y|] eqn:N; cbn [dp_out dp_after dp_events]; auto.
    intros H. destruct (IH vt y o e H) as [HA HE]. rewrite HA, HE. split; [|reflexivity].
    f_equal. apply dset_same. exact N.
Qed.

Theorem path_success : forall path t x o,
  dp_out (path_step t x path o) = Ok tt -> offered_ok t x (DPath path o) = true.
Proof.
  induction path as [|[j|k] p IH]; intros t x o.
  - destruct t as [vk|inner mn mx|kk vt]; destruct x as [z|l|m]; destruct o as [g|d];
      cbn [path_step bad_path dp_out offered_ok type_at item_at]; try discriminate; auto.
    + destruct (level_step (validate inner) mn mx l g) as [[out l'] n] eqn:E. cbn [dp_out]. intros H.
      pose proof (level_success (validate inner) mn mx l g) as LS. rewrite E in LS. unfold lout in LS. cbn [fst] in LS.
      exact (LS H).
    + destruct (dlevel_step (vld_of kk) (validate vt) m d) as [[out m'] n] eqn:E. cbn [dp_out]. intros H.
      pose proof (dlevel_success (vld_of kk) (validate vt) m d) as LS. rewrite E in LS. unfold dout in LS. cbn [fst] in LS.
      specialize (LS H). rewrite forallb_forall in *. intros [a b] Hin. specialize (LS _ Hin).
      unfold pair_vld in LS. cbn [fst snd] in *. unfold acc_of, accb.
      destruct (vld_of kk a); [|discriminate]. destruct (validate vt b); [reflexivity|discriminate].
  - destruct t as [vk|inner mn mx|kk vt]; destruct x as [z|l|m]; cbn [path_step bad_path dp_out]; try discriminate.
    destruct (nth_error l j) as [y|] eqn:N; cbn [dp_out]; [|discriminate]. intros H.
    pose proof (IH inner y o H) as R. destruct o as [g|d]; cbn [offered_ok type_at item_at] in *; [exact R|].
    rewrite N. exact R.
  - destruct t as [vk|inner mn mx|kk vt]; destruct x as [z|l|m]; cbn [path_step bad_path dp_out]; try discriminate.
    destruct (dlookup k m) as [y|] eqn:N; cbn [dp_out]; [|discriminate]. intros H.
    pose proof (IH vt y o H) as R. destruct o as [g|d]; cbn [offered_ok type_at item_at] in *; [exact R|].
    rewrite N. exact R.
Qed.

(* ---------- whole steps and histories ---------- *)
Theorem deep_inv t x o : wfb t x = true -> wfb t (dp_after (deep_step t x o)) = true.
Proof.
  intros W. destruct o as [path g|r]; cbn [deep_step]; [apply path_inv; exact W|].
  destruct (validate t r) as [y|] eqn:V; cbn [dp_after]; [eapply validate_wf; exact V|exact W].
Qed.

Theorem deep_inert t x o e :
  dp_out (deep_step t x o) = Raise e -> dp_after (deep_step t x o) = x /\ dp_events (deep_step t x o) = 0%nat.
Proof.
  destruct o as [path g|r]; cbn [deep_step]; [apply path_inert|].
  destruct (validate t r); cbn; [discriminate|auto].
Qed.

Theorem deep_inv_reachable t : forall ops x, wfb t x = true ->
  Forall (fun p => wfb t (dp_after (snd p)) = true) (deep_run t x ops).
Proof.
  induction ops as [|o ops IH]; intros x W; cbn [deep_run]; constructor.
  - cbn. apply deep_inv. exact W.
  - apply IH. apply deep_inv. exact W.
Qed.

Theorem deep_law_step t x o :
  wfb t x = true -> law_deep_step t x o (deep_step t x o) = [] /\ wfb t (dp_after (deep_step t x o)) = true.
Proof.
  intros W. pose proof (deep_inv t x o W) as W'. split; [|exact W'].
  unfold law_deep_step. rewrite W', orb_true_r. cbn [chk app].
  destruct (dp_out (deep_step t x o)) as [[]|e] eqn:EO.
  - cbn [is_trait_error is_raise negb orb chk app].
    assert (offered_ok t x o = true) as ->; [|reflexivity].
    destruct o as [path g|r]; cbn [deep_step] in *.
    + exact (path_success path t x g EO).
    + cbn [offered_ok]. unfold accb. destruct (validate t r); [reflexivity|discriminate].
  - destruct (deep_inert t x o e EO) as [HA HE]. rewrite HA, HE, item_eqb_refl.
    cbn. rewrite !orb_true_r. destruct e; reflexivity.
Qed.

Theorem deep_law_hist t : forall ops x i, wfb t x = true -> law_deep_hist t i x (deep_run t x ops) = [].
Proof.
  induction ops as [|o ops IH]; intros x i W; cbn [deep_run law_deep_hist]; [reflexivity|].
  destruct (deep_law_step t x o W) as [H1 H2]. rewrite H1, (IH _ _ H2). reflexivity.
Qed.
