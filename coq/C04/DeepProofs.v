(* C04 — proofs for arbitrary nesting depth (Deep.v): the invariant [wfb] is preserved by every
   mutator applied at any path and by whole-value assignment; failing operations are inert;
   the boolean law holds of the model. *)
From Coq Require Import ZArith List Bool Lia Arith PeanoNat.
From TV Require Import Common.PySlice Common.PyList Common.PyListInv Common.Harness
  C05.Normalize C05.Model C05.Law C05.Corr C05.Proofs C04.Model C04.Law C04.Corr C04.Proofs C04.Deep.
Import ListNotations.
Local Open Scope Z_scope.

(* induction over items with the nested list *)
Section ItemInd.
  Variable P : item -> Prop.
  Hypothesis HA : forall z, P (Atom z).
  Hypothesis HL : forall l, Forall P l -> P (Lst l).
  Fixpoint item_ind' (x : item) : P x :=
    match x with
    | Atom z => HA z
    | Lst l => HL l ((fix go (l : list item) : Forall P l :=
                        match l with
                        | [] => Forall_nil P
                        | y :: r => Forall_cons y (item_ind' y) (go r)
                        end) l)
    end.
End ItemInd.

Lemma item_eqb_refl x : item_eqb x x = true.
Proof.
  induction x as [z|l IH] using item_ind'; cbn; [apply Z.eqb_refl|].
  induction IH as [|y r Hy _ IHr]; [reflexivity|]. rewrite Hy. exact IHr.
Qed.

Lemma vld_of_dom k x y : vld_of k x = Some y -> dom_of k y = true.
Proof.
  destruct k; cbn; intros H.
  - reflexivity.
  - destruct ((0 <=? x) && (x <? 100)) eqn:E; inversion H; subst. exact E.
  - destruct ((0 <=? x) && (x <? 100)) eqn:E; [inversion H; subst; exact E|].
    destruct ((100 <=? x) && (x <? 200)) eqn:E2; [inversion H; subst; lia|].
    destruct ((300 <=? x) && (x <? 400)) eqn:E3; inversion H; subst. lia.
  - destruct ((0 <=? x) && (x <? 90)) eqn:E; inversion H; subst. lia.
Qed.

Lemma mapM_length {A B} (f : A -> option B) l l' : mapM f l = Some l' -> length l' = length l.
Proof.
  revert l'. induction l as [|x l IH]; intros l' H; cbn in H.
  - inversion H. reflexivity.
  - destruct (f x); [|discriminate]. destruct (mapM f l) as [r|]; [|discriminate]. inversion H. cbn.
    f_equal. apply IH. reflexivity.
Qed.
Lemma mapM_Forall {A B} (f : A -> option B) (Q : B -> Prop) l l' :
  (forall x y, In x l -> f x = Some y -> Q y) -> mapM f l = Some l' -> Forall Q l'.
Proof.
  revert l'. induction l as [|x l IH]; intros l' Hf H; cbn in H.
  - inversion H. constructor.
  - destruct (f x) as [y|] eqn:E; [|discriminate]. destruct (mapM f l) as [r|]; [|discriminate]. inversion H.
    constructor; [apply (Hf x y); [left; reflexivity|exact E]|].
    apply IH; [|reflexivity]. intros x0 y0 Hin. apply Hf. right. exact Hin.
Qed.

Lemma validate_wf t : forall x y, validate t x = Some y -> wfb t y = true.
Proof.
  induction t as [vk|inner IH mn mx]; intros x y H; cbn in H.
  - destruct x as [z|l]; [|discriminate]. destruct (vld_of vk z) as [w|] eqn:V; [|discriminate]. inversion H.
    cbn. eapply vld_of_dom. exact V.
  - destruct x as [z|l]; [discriminate|]. destruct (len_ok mn mx (zlen l)) eqn:L; [|discriminate].
    destruct (mapM (validate inner) l) as [l'|] eqn:M; [|discriminate]. inversion H. cbn.
    apply andb_true_iff. split.
    + apply forallb_Forall. eapply mapM_Forall; [|exact M]. intros x0 y0 _ Hv. eapply IH. exact Hv.
    + pose proof (mapM_length _ _ _ M) as E. unfold zlen in *. rewrite E. exact L.
Qed.

(* ---------- one level ---------- *)
Definition lout (r : lres) : res unit := fst (fst r).
Definition lafter (r : lres) : list item := snd (fst r).
Definition lnev (r : lres) : nat := snd r.

Section LevelProofs.
  Variable ivld : item -> option item.
  Variable Q : item -> Prop.
  Hypothesis HQ : forall r y, ivld r = Some y -> Q y.
  Variable mn : Z.
  Variable mx : option Z.

  Definition LvInv (l : list item) : Prop := Forall Q l /\ len_ok mn mx (zlen l) = true.
  Notation step := (level_step ivld mn mx).

  Lemma mapM_Q rs ys : mapM ivld rs = Some ys -> Forall Q ys /\ zlen ys = zlen rs.
  Proof.
    intros H. split; [eapply mapM_Forall; [|exact H]; intros x y _; apply HQ|].
    pose proof (mapM_length _ _ _ H) as E. unfold zlen. rewrite E. reflexivity.
  Qed.

  Lemma lguard_inv n l k : LvInv l -> (len_ok mn mx n = true -> LvInv (lafter k)) -> LvInv (lafter (lguard mn mx n l k)).
  Proof. intros I H. unfold lguard. destruct (len_ok mn mx n); [auto|exact I]. Qed.

  Theorem level_inv l o : LvInv l -> LvInv (lafter (step l o)).
  Proof.
    intros I. pose proof I as [F LN]. destruct o; cbn [level_step].
    - apply lguard_inv; [exact I|]. intros G. destruct (ivld r) as [y|] eqn:V; [|exact I].
      cbn. split; [apply Forall_app; split; [exact F|constructor; [eapply HQ; exact V|constructor]]|].
      replace (zlen (l ++ [y])) with (zlen l + 1); [exact G|unfold zlen; rewrite app_length; cbn; lia].
    - apply lguard_inv; [exact I|]. intros G. destruct (mapM ivld rs) as [ys|] eqn:V; [|exact I].
      destruct (mapM_Q rs ys V) as [FQ E]. cbn. split; [apply Forall_app; split; assumption|].
      replace (zlen (l ++ ys)) with (zlen l + zlen rs); [exact G|unfold zlen in *; rewrite app_length; lia].
    - apply lguard_inv; [exact I|]. intros G. destruct (ivld r) as [y|] eqn:V; [|exact I].
      cbn. split; [apply Forall_insert; [eapply HQ; exact V|exact F]|]. rewrite insert_length. exact G.
    - destruct (ivld r) as [y|] eqn:V; [|exact I].
      destruct (setitem_int l i y) as [l'|e] eqn:E; [|exact I]. cbn.
      split; [eapply Forall_setitem_int; [eapply HQ; exact V|exact F|exact E]|].
      rewrite (setitem_int_length l l' i y E). exact LN.
    - destruct (getitem_slice l sl) as [removed|e] eqn:G; [|exact I].
      assert (forall n, (if is_step1 sl then len_ok mn mx n = true /\ n = zlen l - zlen removed + zlen rs else True) ->
              LvInv (lafter (match mapM ivld rs with
                             | None => lraise TraitError l
                             | Some ys => match setitem_slice l sl ys with
                                          | Raise e => lraise e l
                                          | Ok l' => lok l' (b2n (nonempty ys || nonempty removed))
                                          end
                             end))) as K.
      { intros n Hn. destruct (mapM ivld rs) as [ys|] eqn:V; [|exact I].
        destruct (mapM_Q rs ys V) as [FQ EL].
        destruct (setitem_slice l sl ys) as [l'|e] eqn:E; [|exact I]. cbn.
        split; [eapply Forall_setitem_slice; [exact F|exact FQ|exact E]|].
        destruct (setitem_slice_length l l' removed ys sl E G) as [EQ _]. rewrite <- is_step1_eqb in EQ.
        destruct (is_step1 sl).
        - destruct Hn as [Hn ->]. rewrite EQ, EL. exact Hn.
        - rewrite EQ. exact LN. }
      destruct (is_step1 sl) eqn:S1.
      + unfold lguard. destruct (len_ok mn mx (zlen l - zlen removed + zlen rs)) eqn:LO; [|exact I].
        apply (K (zlen l - zlen removed + zlen rs)). split; [exact LO|reflexivity].
      + destruct (zlen rs =? zlen removed); [|exact I]. apply (K 0). exact Logic.I.
    - apply lguard_inv; [exact I|]. intros G. destruct (delitem_int l i) as [l'|e] eqn:E; [|exact I]. cbn.
      split; [eapply Forall_delitem_int; eassumption|].
      pose proof (delitem_int_length l l' i E). pose proof (zlen_nonneg l').
      replace (zlen l') with (Z.max (zlen l - 1) 0) by lia. exact G.
    - destruct (getitem_slice l sl) as [removed|e] eqn:G; [|exact I].
      apply lguard_inv; [exact I|]. intros LO. destruct (delitem_slice l sl) as [l'|e] eqn:E; [|exact I]. cbn.
      split; [eapply Forall_delitem_slice; eassumption|].
      destruct (delitem_slice_length l l' removed sl E G).
      replace (zlen l') with (Z.max (zlen l - zlen removed) 0) by lia. exact LO.
    - apply lguard_inv; [exact I|]. intros G. destruct (pop l _) as [[x l']|e] eqn:E; [|exact I]. cbn.
      split; [eapply Forall_pop; eassumption|].
      pose proof (pop_length l l' _ x E). pose proof (zlen_nonneg l').
      replace (zlen l') with (Z.max (zlen l - 1) 0) by lia. exact G.
    - cbn. split; [apply Forall_rev; exact F|]. unfold zlen. rewrite rev_length. exact LN.
    - apply lguard_inv; [exact I|]. intros G. cbn. split; [constructor|exact G].
  Qed.

  Theorem level_inert l o e : lout (step l o) = Raise e -> lafter (step l o) = l /\ lnev (step l o) = 0%nat.
  Proof.
    destruct o; cbn [level_step]; unfold lguard, lraise, lok, lout, lafter, lnev;
      repeat match goal with
             | |- context [match ?x with _ => _ end] => destruct x eqn:?
             end; cbn [fst snd]; intros H; try discriminate; auto.
  Qed.

  Theorem level_success l o :
    lout (step l o) = Ok tt -> forallb (fun r => match ivld r with Some _ => true | None => false end) (g_offered o) = true.
  Proof.
    assert (forall rs ys, mapM ivld rs = Some ys ->
            forallb (fun r => match ivld r with Some _ => true | None => false end) rs = true) as MA.
    { induction rs as [|r rs IH]; intros ys H; cbn in *; [reflexivity|].
      destruct (ivld r); [|discriminate]. destruct (mapM ivld rs) as [t|]; [|discriminate]. cbn. eapply IH. reflexivity. }
    destruct o; cbn [level_step g_offered]; unfold lguard, lraise, lok, lout;
      repeat match goal with
             | |- context [match ?x with _ => _ end] => destruct x eqn:?
             end; cbn [fst snd]; intros H; try discriminate; try reflexivity; cbn [forallb];
      repeat match goal with
             | V : ivld _ = Some _ |- _ => rewrite V
             | V : mapM ivld _ = Some _ |- _ => apply MA in V; rewrite V
             end; try reflexivity.
  Qed.
End LevelProofs.

(* ---------- any path ---------- *)
Lemma wfb_list inner mn mx l :
  wfb (TList inner mn mx) (Lst l) = true <-> LvInv (fun y => wfb inner y = true) mn mx l.
Proof. cbn. unfold LvInv. rewrite andb_true_iff, forallb_Forall. reflexivity. Qed.

Theorem path_inv : forall path t x o, wfb t x = true -> wfb t (dp_after (path_step t x path o)) = true.
Proof.
  induction path as [|j p IH]; intros t x o W; destruct t as [vk|inner mn mx]; destruct x as [z|l];
    cbn [path_step dp_after]; try exact W.
  - destruct (level_step (validate inner) mn mx l o) as [[out l'] n] eqn:E. cbn [dp_after].
    apply wfb_list. apply wfb_list in W.
    pose proof (level_inv (validate inner) (fun y => wfb inner y = true) (fun r y => validate_wf inner r y) mn mx l o W) as I.
    rewrite E in I. exact I.
  - destruct (nth_error l j) as [y|] eqn:N; cbn [dp_after]; [|exact W].
    apply wfb_list. apply wfb_list in W. destruct W as [F LN].
    assert (wfb inner y = true) as Wy by (rewrite Forall_forall in F; apply F; eapply nth_error_In; exact N).
    split.
    + apply Forall_set_nth; [apply IH; exact Wy|exact F].
    + unfold zlen. rewrite set_nth_length; [exact LN|]. apply nth_error_Some. congruence.
Qed.

Theorem path_inert : forall path t x o e,
  dp_out (path_step t x path o) = Raise e -> dp_after (path_step t x path o) = x /\ dp_events (path_step t x path o) = 0%nat.
Proof.
  induction path as [|j p IH]; intros t x o e; destruct t as [vk|inner mn mx]; destruct x as [z|l];
    cbn [path_step dp_out dp_after dp_events]; auto.
  - destruct (level_step (validate inner) mn mx l o) as [[out l'] n] eqn:E. cbn [dp_out dp_after dp_events].
    intros H. pose proof (level_inert (validate inner) mn mx l o e) as LI. rewrite E in LI.
    unfold lout, lafter, lnev in LI. cbn [fst snd] in LI. destruct (LI H) as [-> ->]. auto.
  - destruct (nth_error l j) as [y|] eqn:N; cbn [dp_out dp_after dp_events]; auto.
    intros H. destruct (IH inner y o e H) as [HA HE]. rewrite HA, HE. split; [|reflexivity].
    f_equal. apply set_nth_same. exact N.
Qed.

Theorem path_success : forall path t x o,
  dp_out (path_step t x path o) = Ok tt ->
  match type_at t path with
  | Some (TList inner _ _) => forallb (accb inner) (g_offered o) = true
  | _ => True
  end.
Proof.
  induction path as [|j p IH]; intros t x o; destruct t as [vk|inner mn mx]; destruct x as [z|l];
    cbn [path_step type_at dp_out]; try discriminate; auto.
  - destruct (level_step (validate inner) mn mx l o) as [[out l'] n] eqn:E. cbn [dp_out]. intros H.
    pose proof (level_success (validate inner) mn mx l o) as LS. rewrite E in LS. unfold lout in LS. cbn [fst] in LS.
    exact (LS H).
  - destruct (nth_error l j) as [y|] eqn:N; cbn [dp_out]; [|discriminate]. intros H. exact (IH inner y o H).
Qed.

(* ---------- whole steps and histories ---------- *)
Theorem deep_inv t x o : wfb t x = true -> wfb t (dp_after (deep_step t x o)) = true.
Proof.
  intros W. destruct o as [path g|r]; cbn [deep_step]; [apply path_inv; exact W|].
  destruct (validate t r) as [y|] eqn:V; cbn [dp_after]; [eapply validate_wf; exact V|exact W].
Qed.

Theorem deep_inert t x o e :
  dp_out (deep_step t x o) = Raise e -> dp_after (deep_step t x o) = x /\ dp_events (deep_step t x o) = 0%nat.
Proof.
  destruct o as [path g|r]; cbn [deep_step]; [apply path_inert|].
  destruct (validate t r); cbn; [discriminate|auto].
Qed.

Theorem deep_inv_reachable t : forall ops x, wfb t x = true ->
  Forall (fun p => wfb t (dp_after (snd p)) = true) (deep_run t x ops).
Proof.
  induction ops as [|o ops IH]; intros x W; cbn [deep_run]; constructor.
  - cbn. apply deep_inv. exact W.
  - apply IH. apply deep_inv. exact W.
Qed.

Theorem deep_law_step t x o :
  wfb t x = true -> law_deep_step t x o (deep_step t x o) = [] /\ wfb t (dp_after (deep_step t x o)) = true.
Proof.
  intros W. pose proof (deep_inv t x o W) as W'. split; [|exact W'].
  unfold law_deep_step. rewrite W', orb_true_r. cbn [chk app].
  destruct (dp_out (deep_step t x o)) as [[]|e] eqn:EO.
  - cbn [is_trait_error is_raise negb orb chk app].
    assert (offered_ok t o = true) as ->; [|reflexivity].
    destruct o as [path g|r]; cbn [offered_ok deep_step] in *.
    + pose proof (path_success path t x g EO) as PS. destruct (type_at t path) as [[vk|inner mn mx]|]; auto.
    + unfold accb. destruct (validate t r); [reflexivity|discriminate].
  - destruct (deep_inert t x o e EO) as [HA HE]. rewrite HA, HE, item_eqb_refl.
    cbn. rewrite !orb_true_r. destruct e; reflexivity.
Qed.

Theorem deep_law_hist t : forall ops x i, wfb t x = true -> law_deep_hist t i x (deep_run t x ops) = [].
Proof.
  induction ops as [|o ops IH]; intros x i W; cbn [deep_run law_deep_hist]; [reflexivity|].
  destruct (deep_law_step t x o W) as [H1 H2]. rewrite H1, (IH _ _ H2). reflexivity.
Qed.
