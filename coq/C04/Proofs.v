(* C04 — proofs: the invariant (every element in the range of the inner trait, length
   within minlen..maxlen) is preserved by every mutator and by whole-value assignment,
   hence holds after every history; a failing operation is inert; the boolean law of
   Law.v holds of the models. *)
From Coq Require Import ZArith List Bool Lia Arith PeanoNat.
From TV Require Import Common.PySlice Common.PyList Common.PyListInv Common.LSet Common.LMap Common.Harness
  C05.Normalize C05.Model C05.Law C05.Proofs C04.Model C04.Law.
Import ListNotations.
Local Open Scope Z_scope.

Lemma is_step1_eqb sl : is_step1 sl = (slice_step sl =? 1).
Proof. destruct sl as [[a b] [k|]]; reflexivity. Qed.

Lemma forallb_Forall {A} (f : A -> bool) l : forallb f l = true <-> Forall (fun x => f x = true) l.
Proof. rewrite forallb_forall, Forall_forall. reflexivity. Qed.

(* ================= lists ================= *)
Section ListProofs.
  Variable vld : Z -> option Z.
  Variable P : Z -> Prop.
  Hypothesis HP : forall x y, vld x = Some y -> P y.

  Lemma vld_all_P xs ys : vld_all vld xs = Some ys -> Forall P ys.
  Proof.
    revert ys. induction xs as [|x xs IH]; intros ys H; cbn in H.
    - inversion H. constructor.
    - destruct (vld x) as [y|] eqn:V; [|discriminate]. destruct (vld_all vld xs) as [r|]; [|discriminate].
      inversion H. constructor; [eapply HP; exact V|apply IH; reflexivity].
  Qed.

  (* the reference result of C05 (the built-in list on the validated items) keeps the invariant *)
  Lemma builtin_P l o l' r alt : Forall P l -> builtin vld l o = (Ok (l', r), alt) -> Forall P l'.
  Proof.
    intros F H. destruct o; cbn [builtin] in H.
    - destruct (vld v) as [y|] eqn:V; [|discriminate]. inversion H as [[H1 H2]]. clear H H2.
      destruct (setitem_int l i y) eqn:E; cbn in H1; [|discriminate]. inversion H1; subst.
      eapply Forall_setitem_int; [eapply HP; exact V|exact F|exact E].
    - destruct (vld_all vld vs) as [ys|] eqn:V; [|discriminate]. inversion H as [[H1 H2]]. clear H H2.
      destruct (setitem_slice l sl ys) eqn:E; cbn in H1; [|discriminate]. inversion H1; subst.
      eapply Forall_setitem_slice; [exact F|eapply vld_all_P; exact V|exact E].
    - inversion H as [[H1 H2]]. destruct (delitem_int l i) eqn:E; cbn in H1; [|discriminate]. inversion H1; subst.
      eapply Forall_delitem_int; eassumption.
    - inversion H as [[H1 H2]]. destruct (delitem_slice l sl) eqn:E; cbn in H1; [|discriminate]. inversion H1; subst.
      eapply Forall_delitem_slice; eassumption.
    - destruct (vld v) as [y|] eqn:V; [|discriminate]. inversion H; subst.
      apply Forall_app. split; [exact F|constructor; [eapply HP; exact V|constructor]].
    - destruct (vld_all vld vs) as [ys|] eqn:V; [|discriminate]. inversion H; subst.
      apply Forall_app. split; [exact F|eapply vld_all_P; exact V].
    - destruct (vld_all vld vs) as [ys|] eqn:V; [|discriminate]. inversion H; subst.
      apply Forall_app. split; [exact F|eapply vld_all_P; exact V].
    - destruct (fits n); [|discriminate]. inversion H; subst. apply Forall_imul. exact F.
    - discriminate H.
    - destruct (vld v) as [y|] eqn:V; [|discriminate]. destruct (fits i); [|discriminate]. inversion H; subst.
      apply Forall_insert; [eapply HP; exact V|exact F].
    - cbv zeta in H. destruct (fits _); [|discriminate]. inversion H as [[H1 H2]].
      destruct (pop l _) as [[x l2]|] eqn:E; cbn in H1; [|discriminate].
      inversion H1; subst. eapply Forall_pop; eassumption.
    - inversion H as [[H1 H2]]. destruct (remove py_eq l v) eqn:E; cbn in H1; [|discriminate]. inversion H1; subst.
      eapply Forall_remove; eassumption.
    - inversion H; subst. apply Forall_rev. exact F.
    - inversion H; subst. apply Forall_sort. exact F.
    - inversion H; subst. constructor.
    - destruct (vld v) as [y|] eqn:V; [|discriminate]. destruct (fits i); [|discriminate]. inversion H; subst.
      apply Forall_insert; [eapply HP; exact V|exact F].
    - cbv zeta in H. destruct (fits _); [|discriminate]. inversion H as [[H1 H2]].
      destruct (pop l _) as [[x l2]|] eqn:E; cbn in H1; [|discriminate].
      inversion H1; subst. eapply Forall_pop; eassumption.
    - destruct (fits n); [|discriminate]. inversion H; subst. apply Forall_imul. exact F.
    - destruct (slice_step sl =? 0); discriminate H.
    - discriminate H.
    - discriminate H.
  Qed.

  (* ... and has exactly the length the TraitListObject override announced *)
  Lemma builtin_len l o l' r alt an :
    builtin vld l o = (Ok (l', r), alt) -> announced l o = Ok an ->
    zlen l' = match an with Some n => n | None => zlen l end.
  Proof.
    intros H AN. pose proof (zlen_nonneg l') as NN. destruct o; cbn [builtin] in H; cbn [announced] in AN.
    - inversion AN; subst. destruct (vld v) as [y|]; [|discriminate]. inversion H as [[H1 H2]].
      destruct (setitem_int l i y) eqn:E; cbn in H1; [|discriminate]. inversion H1; subst.
      eapply setitem_int_length; exact E.
    - destruct (vld_all vld vs) as [ys|] eqn:V; [|discriminate]. inversion H as [[H1 H2]]. clear H H2.
      destruct (setitem_slice l sl ys) eqn:E; cbn in H1; [|discriminate]. inversion H1; subst. clear H1.
      destruct (getitem_slice l sl) as [rm|] eqn:G; cbn [bind] in AN; [|discriminate].
      destruct (setitem_slice_length l l' rm ys sl E G) as [EL _].
      pose proof (vld_all_length vld vs ys V) as LV.
      rewrite is_step1_eqb in AN. destruct (slice_step sl =? 1).
      + inversion AN; subst. unfold zlen in *. lia.
      + destruct (zlen vs =? zlen rm); inversion AN; subst. exact EL.
    - inversion AN; subst. inversion H as [[H1 H2]].
      destruct (delitem_int l i) eqn:E; cbn in H1; [|discriminate]. inversion H1; subst.
      pose proof (delitem_int_length l l' i E). lia.
    - destruct (getitem_slice l sl) as [rm|] eqn:G; cbn [bind] in AN; [|discriminate]. inversion AN; subst.
      inversion H as [[H1 H2]]. destruct (delitem_slice l sl) eqn:E; cbn in H1; [|discriminate]. inversion H1; subst.
      destruct (delitem_slice_length l l' rm sl E G). lia.
    - inversion AN; subst. destruct (vld v); [|discriminate]. inversion H; subst.
      unfold zlen. rewrite app_length. cbn. lia.
    - inversion AN; subst. destruct (vld_all vld vs) as [ys|] eqn:V; [|discriminate]. inversion H; subst.
      pose proof (vld_all_length vld vs ys V). unfold zlen. rewrite app_length. lia.
    - inversion AN; subst. destruct (vld_all vld vs) as [ys|] eqn:V; [|discriminate]. inversion H; subst.
      pose proof (vld_all_length vld vs ys V). unfold zlen. rewrite app_length. lia.
    - inversion AN; subst. destruct (fits n); [|discriminate]. inversion H; subst. apply imul_length.
    - discriminate H.
    - inversion AN; subst. destruct (vld v); [|discriminate]. destruct (fits i); [|discriminate]. inversion H; subst. apply insert_length.
    - inversion AN; subst. cbv zeta in H. destruct (fits _); [|discriminate]. inversion H as [[H1 H2]].
      destruct (pop l _) as [[x l2]|] eqn:E; cbn in H1; [|discriminate]. inversion H1; subst.
      pose proof (pop_length l l' _ x E). lia.
    - inversion AN; subst. inversion H as [[H1 H2]].
      destruct (remove py_eq l v) eqn:E; cbn in H1; [|discriminate]. inversion H1; subst.
      pose proof (remove_length py_eq l l' v E). lia.
    - inversion AN; subst. inversion H; subst. unfold zlen. rewrite rev_length. reflexivity.
    - inversion AN; subst. inversion H; subst. unfold zlen. rewrite sort_length. reflexivity.
    - inversion AN; subst. inversion H; subst. reflexivity.
    - inversion AN; subst. destruct (vld v); [|discriminate]. destruct (fits i); [|discriminate]. inversion H; subst. apply insert_length.
    - inversion AN; subst. cbv zeta in H. destruct (fits _); [|discriminate]. inversion H as [[H1 H2]].
      destruct (pop l _) as [[x l2]|] eqn:E; cbn in H1; [|discriminate]. inversion H1; subst.
      pose proof (pop_length l l' _ x E). lia.
    - inversion AN; subst. destruct (fits n); [|discriminate]. inversion H; subst. apply imul_length.
    - discriminate AN.
    - discriminate AN.
    - discriminate H.
  Qed.

  (* what a TraitList step leaves behind, read through C05's refinement theorem *)
  Lemma tl_after l o :
    (o_out (tl_step vld l o) = Ok tt /\
     exists l' r alt, builtin vld l o = (Ok (l', r), alt) /\ o_after (tl_step vld l o) = l') \/
    (exists e, o_out (tl_step vld l o) = Raise e /\ o_after (tl_step vld l o) = l /\ o_events (tl_step vld l o) = []).
  Proof.
    destruct (step_refines vld l o) as (HO & HA & _). cbv zeta in *.
    destruct (o_out (tl_step vld l o)) as [[]|e] eqn:EO.
    - left. split; [reflexivity|]. destruct (builtin vld l o) as [[[l' r]|e'] alt]; cbn in *; [|discriminate].
      exists l', r, alt. auto.
    - right. exists e. destruct (step_failing_untouched vld l o e EO). auto.
  Qed.

  Definition LInv (mn : Z) (mx : option Z) (l : list Z) : Prop := Forall P l /\ len_ok mn mx (zlen l) = true.

  Lemma tlo_cases mn mx l o :
    let ob := tlo_step vld mn mx l o in
    (o_out ob = Ok tt /\ tlo_step vld mn mx l o = tl_step vld l o /\
     exists an, announced l o = Ok an /\ match an with Some n => len_ok mn mx n = true | None => True end) \/
    (exists e, o_out ob = Raise e /\ o_after ob = l /\ o_events ob = []).
  Proof.
    cbv zeta. destruct (tlo_step_split vld mn mx l o) as [(p & q & e & -> & E & _)|E]; rewrite E;
      [right; exists e; cbn; auto|].
    unfold tlo_step0. destruct (announced l o) as [[n|]|e] eqn:AN.
    - destruct (len_ok mn mx n) eqn:LO.
      + destruct (tl_after l o) as [[HO _]|(e & HO & HA & HE)].
        * left. split; [exact HO|]. split; [reflexivity|]. exists (Some n). auto.
        * right. exists e. auto.
      + right. exists TraitError. auto.
    - destruct (tl_after l o) as [[HO _]|(e & HO & HA & HE)].
      + left. split; [exact HO|]. split; [reflexivity|]. exists None. auto.
      + right. exists e. auto.
    - right. exists e. auto.
  Qed.

  Theorem tlo_inv mn mx l o : LInv mn mx l -> LInv mn mx (o_after (tlo_step vld mn mx l o)).
  Proof.
    intros [F LN]. destruct (tlo_cases mn mx l o) as [(HO & EQ & an & AN & LO)|(e & HO & HA & HE)].
    - rewrite EQ in *. destruct (tl_after l o) as [(_ & l' & r & alt & HB & HA)|(e & HO' & _)]; [|congruence].
      rewrite HA. split; [eapply builtin_P; eassumption|].
      rewrite (builtin_len l o l' r alt an HB AN). destruct an; [exact LO|exact LN].
    - rewrite HA. split; assumption.
  Qed.

  Theorem tlo_failing_inert mn mx l o e :
    o_out (tlo_step vld mn mx l o) = Raise e ->
    o_after (tlo_step vld mn mx l o) = l /\ o_events (tlo_step vld mn mx l o) = [].
  Proof.
    intros H. destruct (tlo_cases mn mx l o) as [(HO & _)|(e' & HO & HA & HE)]; [congruence|auto].
  Qed.

  (* with whole-value assignment *)
  Theorem list_inv mn mx l lo : LInv mn mx l -> LInv mn mx (o_after (list_step vld mn mx l lo)).
  Proof.
    intros I. destruct lo as [o|il vs]; [apply tlo_inv; exact I|]. cbn [list_step].
    destruct (il && len_ok mn mx (zlen vs)) eqn:G; [|exact I].
    destruct (vld_all vld vs) as [ys|] eqn:V; [|exact I]. cbn.
    apply andb_true_iff in G. destruct G as [_ G]. split; [eapply vld_all_P; exact V|].
    pose proof (vld_all_length vld vs ys V) as E. unfold zlen in *. rewrite E. exact G.
  Qed.

  Theorem list_failing_inert mn mx l lo e :
    o_out (list_step vld mn mx l lo) = Raise e ->
    o_after (list_step vld mn mx l lo) = l /\ o_events (list_step vld mn mx l lo) = [].
  Proof.
    destruct lo as [o|il vs]; [apply tlo_failing_inert|]. cbn [list_step].
    destruct (il && len_ok mn mx (zlen vs)); [|cbn; auto].
    destruct (vld_all vld vs); cbn; [discriminate|auto].
  Qed.

  Theorem list_inv_reachable mn mx : forall ops l, LInv mn mx l ->
    Forall (fun p => LInv mn mx (o_after (snd p))) (list_run vld mn mx l ops).
  Proof.
    induction ops as [|o ops IH]; intros l I; cbn [list_run]; constructor.
    - cbn. apply list_inv. exact I.
    - apply IH. apply list_inv. exact I.
  Qed.
End ListProofs.

Section ListLawProofs.
  Variable vld : Z -> option Z.
  Variable dom acc : Z -> bool.
  Hypothesis Hdom : forall x y, vld x = Some y -> dom y = true.
  Hypothesis Hacc : forall x y, vld x = Some y -> acc x = true.

  Lemma vld_all_acc xs ys : vld_all vld xs = Some ys -> forallb acc xs = true.
  Proof.
    revert ys. induction xs as [|x xs IH]; intros ys H; cbn in *; [reflexivity|].
    destruct (vld x) as [y|] eqn:V; [|discriminate]. destruct (vld_all vld xs) as [r|]; [|discriminate].
    rewrite (Hacc x y V), (IH r eq_refl). reflexivity.
  Qed.

  Lemma builtin_acc l o x alt : builtin vld l o = (Ok x, alt) -> forallb acc (offered o) = true.
  Proof.
    intros H. destruct o; cbn [builtin offered] in *; try reflexivity.
    - destruct (vld v) as [y|] eqn:V; [|discriminate]. cbn. rewrite (Hacc v y V). reflexivity.
    - destruct (vld_all vld vs) as [ys|] eqn:V; [|discriminate]. eapply vld_all_acc; exact V.
    - destruct (vld v) as [y|] eqn:V; [|discriminate]. cbn. rewrite (Hacc v y V). reflexivity.
    - destruct (vld_all vld vs) as [ys|] eqn:V; [|discriminate]. eapply vld_all_acc; exact V.
    - destruct (vld_all vld vs) as [ys|] eqn:V; [|discriminate]. eapply vld_all_acc; exact V.
    - destruct (vld v) as [y|] eqn:V; [|discriminate]. cbn. rewrite (Hacc v y V). reflexivity.
    - destruct (vld v) as [y|] eqn:V; [|discriminate]. cbn. rewrite (Hacc v y V). reflexivity.
  Qed.

  Lemma list_ok_LInv mn mx l : list_ok dom mn mx l = true <-> LInv (fun x => dom x = true) mn mx l.
  Proof. unfold list_ok, LInv. rewrite andb_true_iff, forallb_Forall. reflexivity. Qed.

  Lemma list_success_acc mn mx l lo :
    o_out (list_step vld mn mx l lo) = Ok tt -> forallb acc (loffered lo) = true.
  Proof.
    destruct lo as [o|il vs]; cbn [list_step loffered].
    - intros H. destruct (tlo_cases vld mn mx l o) as [(HO & EQ & _)|(e & HO & _)]; [|congruence].
      rewrite EQ in *. destruct (tl_after vld l o) as [(_ & l' & r & alt & HB & _)|(e & HO' & _)]; [|congruence].
      eapply builtin_acc. exact HB.
    - destruct (il && len_ok mn mx (zlen vs)); [|cbn; discriminate].
      destruct (vld_all vld vs) as [ys|] eqn:V; [|cbn; discriminate]. intros _. eapply vld_all_acc. exact V.
  Qed.

  Theorem list_law_step mn mx l lo :
    list_ok dom mn mx l = true ->
    law_list_step dom acc mn mx l lo (list_step vld mn mx l lo) = [] /\
    list_ok dom mn mx (o_after (list_step vld mn mx l lo)) = true.
  Proof.
    intros I. pose proof I as I0. apply list_ok_LInv in I.
    pose proof (list_inv vld _ Hdom mn mx l lo I) as [F LN].
    assert (list_ok dom mn mx (o_after (list_step vld mn mx l lo)) = true) as OK
      by (apply list_ok_LInv; split; assumption).
    split; [|exact OK]. unfold law_list_step.
    apply forallb_Forall in F. rewrite F, LN, !orb_true_r. cbn [chk app].
    destruct (o_out (list_step vld mn mx l lo)) as [[]|e] eqn:EO.
    - cbn [is_trait_error is_raise negb orb chk app]. rewrite (list_success_acc mn mx l lo EO). reflexivity.
    - destruct (list_failing_inert vld mn mx l lo e EO) as [HA HE]. rewrite HA, HE, zlist_eqb_refl.
      cbn [is_nil andb is_raise negb orb]. rewrite !orb_true_r. destruct e; reflexivity.
  Qed.

  Theorem list_law_hist mn mx : forall ops l i, list_ok dom mn mx l = true ->
    law_list_hist dom acc mn mx i l (list_run vld mn mx l ops) = [].
  Proof.
    induction ops as [|o ops IH]; intros l i I; cbn [list_run law_list_hist]; [reflexivity|].
    destruct (list_law_step mn mx l o I) as [H1 H2]. rewrite H1, (IH _ _ H2). reflexivity.
  Qed.
End ListLawProofs.

(* ================= sets (model: C07) ================= *)
Ltac split_matches :=
  repeat match goal with
         | |- context [match ?x with _ => _ end] => destruct x eqn:?
         end.
Ltac s_open o :=
  destruct o as [x|x|x|hint| |args|[a|a]|[a|a]|[a|a]|[a|a]|args|args|a|k];
  unfold S.step, S.removed_only, S.ok, S.raise; cbv zeta.

Section SetProofs.
  Variable vld : Z -> option Z.
  Variable P : Z -> Prop.
  Hypothesis HP : forall x y, vld x = Some y -> P y.

  Lemma s_vld_all_P xs ys : S.vld_all vld xs = Some ys -> Forall P ys.
  Proof.
    revert ys. induction xs as [|x xs IH]; intros ys H; cbn in H.
    - inversion H. constructor.
    - destruct (vld x) as [y|] eqn:V; [|discriminate]. destruct (S.vld_all vld xs) as [r|]; [|discriminate].
      inversion H. constructor; [eapply HP; exact V|apply IH; reflexivity].
  Qed.

  Lemma F_filter (f : Z -> bool) l : Forall P l -> Forall P (filter f l).
  Proof. intros F. apply Forall_forall. intros x Hx. apply filter_In in Hx. rewrite Forall_forall in F. apply F, Hx. Qed.
  Lemma F_diff a b : Forall P a -> Forall P (diff a b). Proof. apply F_filter. Qed.
  Lemma F_inter a b : Forall P a -> Forall P (inter a b). Proof. apply F_filter. Qed.
  Lemma F_remove1 x a : Forall P a -> Forall P (remove1 x a). Proof. apply F_filter. Qed.
  Lemma F_union a b : Forall P a -> Forall P b -> Forall P (union a b).
  Proof. intros. unfold union. apply Forall_app. auto. Qed.
  Lemma F_fold_inter args : forall s, Forall P s -> Forall P (fold_left inter args s).
  Proof. induction args as [|a args IH]; intros s F; cbn; [exact F|]. apply IH, F_inter, F. Qed.
  Lemma F_fold_diff args : forall s, Forall P s -> Forall P (fold_left diff args s).
  Proof. induction args as [|a args IH]; intros s F; cbn; [exact F|]. apply IH, F_diff, F. Qed.

  Theorem set_step_P s o : Forall P s -> Forall P (S.o_after (S.step vld s o)).
  Proof.
    intros F. s_open o; split_matches; cbn [S.o_after];
      repeat match goal with
             | H : S.vld_all vld _ = Some _ |- _ => apply s_vld_all_P in H
             | H : vld _ = Some _ |- _ => apply HP in H
             end;
      auto using F_diff, F_inter, F_remove1, F_union, F_fold_inter, F_fold_diff, Forall_nil, Forall_cons.
    all: try (unfold S.inter_all, S.diff_all; auto using F_fold_inter, F_fold_diff).
  Qed.

  Theorem set_step_inert s o e :
    S.o_out (S.step vld s o) = S.Raise e -> S.o_after (S.step vld s o) = s /\ S.o_events (S.step vld s o) = [].
  Proof.
    s_open o; split_matches; cbn [S.o_out S.o_after S.o_events]; intros H; try discriminate; auto.
  Qed.

  Definition SInv (s : list Z) : Prop := Forall P s.

  Theorem set_inv s so : SInv s -> SInv (so_after (set_step vld s so)).
  Proof.
    intros F. destruct so as [o|is vs]; cbn [set_step].
    - unfold so_after, s_view. cbn [fst snd]. apply set_step_P. exact F.
    - destruct is; [|exact F]. destruct (S.vld_all vld vs) as [ys|] eqn:V; [|exact F].
      unfold so_after. cbn [fst snd]. eapply s_vld_all_P. exact V.
  Qed.

  Theorem set_failing_inert s so e :
    so_out (set_step vld s so) = S.Raise e -> so_after (set_step vld s so) = s /\ so_nev (set_step vld s so) = 0%nat.
  Proof.
    destruct so as [o|is vs]; cbn [set_step].
    - unfold so_out, so_after, so_nev, s_view. cbn [fst snd]. intros H.
      destruct (set_step_inert s o e H) as [H1 H2]. rewrite H1, H2. auto.
    - destruct is; [|cbn; auto]. destruct (S.vld_all vld vs); cbn; [discriminate|auto].
  Qed.

  Theorem set_inv_reachable : forall ops s, SInv s ->
    Forall (fun p => SInv (so_after (snd p))) (set_run vld s ops).
  Proof.
    induction ops as [|o ops IH]; intros s I; cbn [set_run]; constructor.
    - cbn. apply set_inv. exact I.
    - apply IH. apply set_inv. exact I.
  Qed.
End SetProofs.

Section SetLawProofs.
  Variable vld : Z -> option Z.
  Variable dom acc : Z -> bool.
  Hypothesis Hdom : forall x y, vld x = Some y -> dom y = true.
  Hypothesis Hacc : forall x y, vld x = Some y -> acc x = true.

  Lemma s_vld_all_acc xs ys : S.vld_all vld xs = Some ys -> forallb acc xs = true.
  Proof.
    revert ys. induction xs as [|x xs IH]; intros ys H; cbn in *; [reflexivity|].
    destruct (vld x) as [y|] eqn:V; [|discriminate]. destruct (S.vld_all vld xs) as [r|]; [|discriminate].
    rewrite (Hacc x y V), (IH r eq_refl). reflexivity.
  Qed.

  Lemma diff_inter_same l s : diff l (inter s l) = diff l s.
  Proof.
    unfold diff. apply filter_ext_in. intros x Hx. unfold inter. rewrite mem_filter.
    apply mem_In in Hx. rewrite Hx, andb_true_r. reflexivity.
  Qed.

  Lemma set_success_acc s o : S.o_out (S.step vld s o) = S.Ok -> forallb acc (s_offered s o) = true.
  Proof.
    s_open o; cbn [s_offered]; try rewrite <- (diff_inter_same a s); split_matches; cbn [S.o_out]; intros H;
      try discriminate; try reflexivity;
      try (eapply s_vld_all_acc; eassumption).
    cbn. erewrite Hacc by eassumption. reflexivity.
    cbn. erewrite Hacc by eassumption. reflexivity.
  Qed.

  Theorem set_law_step s so :
    forallb dom s = true ->
    law_set_step dom acc s so (set_step vld s so) = [] /\ forallb dom (so_after (set_step vld s so)) = true.
  Proof.
    intros I. apply forallb_Forall in I.
    pose proof (set_inv vld _ Hdom s so I) as F. apply forallb_Forall in F.
    split; [|exact F]. unfold law_set_step. rewrite F, orb_true_r. cbn [chk app].
    destruct (so_out (set_step vld s so)) as [|e] eqn:EO.
    - cbn [s_is_trait_error s_is_raise negb orb chk app].
      assert (forallb acc (so_offered s so) = true) as ->; [|reflexivity].
      destruct so as [o|is vs]; cbn [so_offered set_step] in *.
      + apply set_success_acc. exact EO.
      + destruct is; [|discriminate]. destruct (S.vld_all vld vs) eqn:V; [|discriminate].
        eapply s_vld_all_acc. exact V.
    - destruct (set_failing_inert vld s so e EO) as [HA HE]. rewrite HA, HE.
      assert (seteq s s = true) as -> by (apply seteq_spec; reflexivity).
      cbn. rewrite !orb_true_r. destruct e; reflexivity.
  Qed.

  Theorem set_law_hist : forall ops s i, forallb dom s = true ->
    law_set_hist dom acc i s (set_run vld s ops) = [].
  Proof.
    induction ops as [|o ops IH]; intros s i I; cbn [set_run law_set_hist]; [reflexivity|].
    destruct (set_law_step s o I) as [H1 H2]. rewrite H1, (IH _ _ H2). reflexivity.
  Qed.
End SetLawProofs.

(* ================= dicts (model: C06) ================= *)
Ltac d_open o :=
  destruct o as [k v|k|asmap ps|asmap ps|k v|k dflt| | ];
  unfold D.step, D.store, D.do_update, D.ok, D.raise, D.mk; cbv zeta.

Section DictProofs.
  Variable kv vv : Z -> option Z.
  Variable PK PV : Z -> Prop.
  Hypothesis HK : forall x y, kv x = Some y -> PK y.
  Hypothesis HV : forall x y, vv x = Some y -> PV y.

  Definition DP (p : Z * Z) : Prop := PK (fst p) /\ PV (snd p).
  Definition DInv (m : amap) : Prop := Forall DP m.

  Lemma F_mset k v m : DP (k, v) -> Forall DP m -> Forall DP (mset k v m).
  Proof.
    intros Hp F. induction m as [|[k' v'] m IH]; cbn; [constructor; [exact Hp|constructor]|].
    inversion F; subst. destruct (k =? k'); constructor; auto.
  Qed.
  Lemma F_update_all ps : forall m, Forall DP ps -> Forall DP m -> Forall DP (update_all ps m).
  Proof.
    induction ps as [|[k v] ps IH]; intros m Fp Fm; cbn; [exact Fm|].
    inversion Fp; subst. apply IH; [assumption|]. apply F_mset; assumption.
  Qed.
  Lemma F_mremove k m : Forall DP m -> Forall DP (mremove k m).
  Proof.
    intros F. apply Forall_forall. intros x Hx. apply filter_In in Hx. rewrite Forall_forall in F. apply F, Hx.
  Qed.

  Lemma upd_loop_P m items : forall vd a c vd' a' c',
    Forall DP vd -> D.upd_loop kv vv m items vd a c = Some (vd', a', c') -> Forall DP vd'.
  Proof.
    induction items as [|[k v] items IH]; intros vd a c vd' a' c' F H; cbn in H.
    - inversion H; subst. exact F.
    - destruct (kv k) as [vk|] eqn:K; [|discriminate]. destruct (vv v) as [vvv|] eqn:V; [|discriminate].
      assert (DP (vk, vvv)) as Hp by (split; cbn; [eapply HK|eapply HV]; eassumption).
      destruct (lookup vk m); eapply IH; try exact H; apply F_mset; assumption.
  Qed.

  Lemma vld_pairs_P ps qs : vld_pairs kv vv ps = Some qs -> Forall DP qs.
  Proof.
    revert qs. induction ps as [|[k v] ps IH]; intros qs H; cbn in H.
    - inversion H. constructor.
    - destruct (kv k) as [vk|] eqn:K; [|discriminate]. destruct (vv v) as [vvv|] eqn:V; [|discriminate].
      destruct (vld_pairs kv vv ps) as [r|]; [|discriminate]. inversion H. constructor; [|apply IH; reflexivity].
      split; cbn; [eapply HK|eapply HV]; eassumption.
  Qed.

  Theorem dict_step_P tgt m o : DInv m -> DInv (D.o_after (D.step kv vv tgt m o)).
  Proof.
    intros F. unfold DInv in *. d_open o; split_matches; cbn [D.o_after]; subst;
      try exact F; try (apply F_mremove; exact F); try constructor.
    all: try (apply F_mset; [split; cbn; [eapply HK|eapply HV]; eassumption|exact F]).
    all: try (apply F_update_all; [|exact F]; eapply upd_loop_P; [|eassumption]; constructor).
  Qed.

  Theorem dict_step_inert tgt m o e :
    D.o_out (D.step kv vv tgt m o) = D.Raise e ->
    D.o_after (D.step kv vv tgt m o) = m /\ D.o_events (D.step kv vv tgt m o) = [].
  Proof.
    d_open o; split_matches; cbn [D.o_out D.o_after D.o_events]; intros H; try discriminate; auto.
  Qed.

  Theorem dict_inv m o : DInv m -> DInv (do_after (dict_step kv vv m o)).
  Proof.
    intros F. destruct o as [o|isd ps|ps kw]; cbn [dict_step].
    - unfold do_after, d_view. cbn [fst snd]. apply dict_step_P. exact F.
    - destruct isd; [|exact F]. destruct (vld_pairs kv vv (update_all ps [])) as [qs|] eqn:V; [|exact F].
      unfold do_after. cbn [fst snd]. apply F_update_all; [eapply vld_pairs_P; exact V|constructor].
    - exact F.
  Qed.

  Theorem dict_failing_inert m o e :
    do_out (dict_step kv vv m o) = D.Raise e ->
    do_after (dict_step kv vv m o) = m /\ do_nev (dict_step kv vv m o) = 0%nat.
  Proof.
    destruct o as [o|isd ps|ps kw]; cbn [dict_step].
    - unfold do_out, do_after, do_nev, d_view. cbn [fst snd]. intros H.
      destruct (dict_step_inert D.Plain m o e H) as [H1 H2]. rewrite H1, H2. auto.
    - destruct isd; [|cbn; auto]. destruct (vld_pairs kv vv (update_all ps [])); cbn; [discriminate|auto].
    - cbn. auto.
  Qed.

  Theorem dict_inv_reachable : forall ops m, DInv m ->
    Forall (fun p => DInv (do_after (snd p))) (dict_run kv vv m ops).
  Proof.
    induction ops as [|o ops IH]; intros m I; cbn [dict_run]; constructor.
    - cbn. apply dict_inv. exact I.
    - apply IH. apply dict_inv. exact I.
  Qed.
End DictProofs.

Section DictLawProofs.
  Variable kv vv : Z -> option Z.
  Variable kdom kacc vdom vacc : Z -> bool.
  Hypothesis Hkdom : forall x y, kv x = Some y -> kdom y = true.
  Hypothesis Hvdom : forall x y, vv x = Some y -> vdom y = true.
  Hypothesis Hkacc : forall x y, kv x = Some y -> kacc x = true.
  Hypothesis Hvacc : forall x y, vv x = Some y -> vacc x = true.

  Let accp (p : Z * Z) : bool := kacc (fst p) && vacc (snd p).

  Lemma upd_loop_acc m items : forall vd a c r,
    D.upd_loop kv vv m items vd a c = Some r -> forallb accp items = true.
  Proof.
    induction items as [|[k v] items IH]; intros vd a c r H; cbn in *; [reflexivity|].
    destruct (kv k) as [vk|] eqn:K; [|discriminate]. destruct (vv v) as [vvv|] eqn:V; [|discriminate].
    unfold accp at 1. cbn [fst snd]. rewrite (Hkacc k vk K), (Hvacc v vvv V). cbn.
    destruct (lookup vk m); eapply IH; exact H.
  Qed.

  Lemma vld_pairs_acc ps qs : vld_pairs kv vv ps = Some qs -> forallb accp ps = true.
  Proof.
    revert qs. induction ps as [|[k v] ps IH]; intros qs H; cbn in *; [reflexivity|].
    destruct (kv k) as [vk|] eqn:K; [|discriminate]. destruct (vv v) as [vvv|] eqn:V; [|discriminate].
    destruct (vld_pairs kv vv ps) as [r|]; [|discriminate].
    unfold accp at 1. cbn [fst snd]. rewrite (Hkacc k vk K), (Hvacc v vvv V), (IH r eq_refl). reflexivity.
  Qed.

  Lemma dict_success_acc tgt m o :
    D.o_out (D.step kv vv tgt m o) = D.Ok -> forallb accp (d_offered m o) = true.
  Proof.
    d_open o; cbn [d_offered]; unfold has, D.items_of; split_matches; cbn [D.o_out]; intros H;
      try discriminate; try reflexivity;
      try (eapply upd_loop_acc; unfold D.items_of; eassumption).
    all: cbn; unfold accp; cbn [fst snd]; erewrite Hkacc, Hvacc by eassumption; reflexivity.
  Qed.

  Definition dokb (m : amap) : bool := dict_ok kdom vdom m.

  Lemma dokb_DInv m : dokb m = true <-> DInv (fun x => kdom x = true) (fun x => vdom x = true) m.
  Proof.
    unfold dokb, dict_ok, DInv, DP. rewrite forallb_Forall. split; intros F; eapply Forall_impl; try exact F;
      cbn; intros p Hp; [apply andb_true_iff in Hp|apply andb_true_iff]; exact Hp.
  Qed.

  Theorem dict_law_step m o :
    dokb m = true ->
    law_dict_step kdom kacc vdom vacc m o (dict_step kv vv m o) = [] /\ dokb (do_after (dict_step kv vv m o)) = true.
  Proof.
    intros I. apply dokb_DInv in I.
    pose proof (dict_inv kv vv _ _ Hkdom Hvdom m o I) as F. apply dokb_DInv in F.
    split; [|exact F]. unfold law_dict_step. unfold dokb in F. rewrite F, orb_true_r. cbn [chk app].
    destruct (do_out (dict_step kv vv m o)) as [|e] eqn:EO.
    - cbn [d_is_trait_error d_is_raise negb orb chk app].
      assert (forallb (fun p => kacc (fst p) && vacc (snd p)) (do_offered m o) = true) as ->; [|reflexivity].
      destruct o as [o|isd ps|ps kw]; cbn [do_offered dict_step] in *.
      + apply (dict_success_acc D.Plain). exact EO.
      + destruct isd; [|discriminate]. destruct (vld_pairs kv vv (update_all ps [])) eqn:V; [|discriminate].
        eapply vld_pairs_acc. exact V.
      + discriminate EO.
    - destruct (dict_failing_inert kv vv m o e EO) as [HA HE]. rewrite HA, HE, mapeq_refl.
      cbn. rewrite !orb_true_r. destruct e; reflexivity.
  Qed.

  Theorem dict_law_hist : forall ops m i, dokb m = true ->
    law_dict_hist kdom kacc vdom vacc i m (dict_run kv vv m ops) = [].
  Proof.
    induction ops as [|o ops IH]; intros m i I; cbn [dict_run law_dict_hist]; [reflexivity|].
    destruct (dict_law_step m o I) as [H1 H2]. rewrite H1, (IH _ _ H2). reflexivity.
  Qed.
End DictLawProofs.

(* ================= List(List(T)) ================= *)
Section NestedProofs.
  Variable vld : Z -> option Z.
  Variable P : Z -> Prop.
  Hypothesis HP : forall x y, vld x = Some y -> P y.
  Variables imn omn : Z.
  Variables imx omx : option Z.

  Definition Q (inner : list Z) : Prop := LInv P imn imx inner.
  Definition NInv (l : list (list Z)) : Prop := Forall Q l /\ len_ok omn omx (zlen l) = true.

  Notation step := (nested_step vld imn omn imx omx).

  Lemma ivld_Q r y : ivld vld imn imx r = Some y -> Q y.
  Proof.
    destruct r as [vs|]; cbn; [|discriminate]. destruct (len_ok imn imx (zlen vs)) eqn:L; [|discriminate].
    intros V. split; [eapply vld_all_P; eassumption|].
    pose proof (vld_all_length vld vs y V) as E. unfold zlen in *. rewrite E. exact L.
  Qed.

  Lemma ivld_all_Q rs ys : ivld_all vld imn imx rs = Some ys -> Forall Q ys /\ zlen ys = zlen rs.
  Proof.
    revert ys. induction rs as [|r rs IH]; intros ys H; cbn in H.
    - inversion H. split; [constructor|reflexivity].
    - destruct (ivld vld imn imx r) as [y|] eqn:V; [|discriminate].
      destruct (ivld_all vld imn imx rs) as [t|]; [|discriminate]. inversion H; subst.
      destruct (IH t eq_refl) as [F E]. split; [constructor; [eapply ivld_Q; exact V|exact F]|].
      unfold zlen in *. cbn [length]. lia.
  Qed.

  Lemma guard_inv n l k :
    NInv l -> (len_ok omn omx n = true -> NInv (n_after k)) -> NInv (n_after (guard omn omx n l k)).
  Proof. intros I H. unfold guard. destruct (len_ok omn omx n); [auto|exact I]. Qed.

  Theorem nested_inv l o : NInv l -> NInv (n_after (step l o)).
  Proof.
    intros I. pose proof I as [F LN]. destruct o; cbn [nested_step].
    - (* NAppend *)
      apply guard_inv; [exact I|]. intros G. destruct (ivld vld imn imx r) as [y|] eqn:V; [|exact I].
      cbn. split; [apply Forall_app; split; [exact F|constructor; [eapply ivld_Q; exact V|constructor]]|].
      replace (zlen (l ++ [y])) with (zlen l + 1); [exact G|unfold zlen; rewrite app_length; cbn; lia].
    - (* NExtend *)
      apply guard_inv; [exact I|]. intros G. destruct (ivld_all vld imn imx rs) as [ys|] eqn:V; [|exact I].
      destruct (ivld_all_Q rs ys V) as [FQ E]. cbn. split; [apply Forall_app; split; assumption|].
      replace (zlen (l ++ ys)) with (zlen l + zlen rs); [exact G|unfold zlen in *; rewrite app_length; lia].
    - (* NInsert *)
      apply guard_inv; [exact I|]. intros G. destruct (ivld vld imn imx r) as [y|] eqn:V; [|exact I].
      cbn. split; [apply Forall_insert; [eapply ivld_Q; exact V|exact F]|]. rewrite insert_length. exact G.
    - (* NSetInt *)
      destruct (ivld vld imn imx r) as [y|] eqn:V; [|exact I].
      destruct (setitem_int l i y) as [l'|e] eqn:E; [|exact I]. cbn.
      split; [eapply Forall_setitem_int; [eapply ivld_Q; exact V|exact F|exact E]|].
      rewrite (setitem_int_length l l' i y E). exact LN.
    - (* NSetSlice *)
      destruct (getitem_slice l sl) as [removed|e] eqn:G; [|exact I].
      assert (forall n, (if is_step1 sl then len_ok omn omx n = true /\ n = zlen l - zlen removed + zlen rs else True) ->
              NInv (n_after (match ivld_all vld imn imx rs with
                             | None => nraise TraitError l
                             | Some ys => match setitem_slice l sl ys with
                                          | Raise e => nraise e l
                                          | Ok l' => nok l' (b2n (nonempty ys || nonempty removed))
                                          end
                             end))) as K.
      { intros n Hn. destruct (ivld_all vld imn imx rs) as [ys|] eqn:V; [|exact I].
        destruct (ivld_all_Q rs ys V) as [FQ EL].
        destruct (setitem_slice l sl ys) as [l'|e] eqn:E; [|exact I]. cbn.
        split; [eapply Forall_setitem_slice; [exact F|exact FQ|exact E]|].
        destruct (setitem_slice_length l l' removed ys sl E G) as [EQ _]. rewrite <- is_step1_eqb in EQ.
        destruct (is_step1 sl).
        - destruct Hn as [Hn ->]. rewrite EQ, EL. exact Hn.
        - rewrite EQ. exact LN. }
      destruct (is_step1 sl) eqn:S1.
      + unfold guard. destruct (len_ok omn omx (zlen l - zlen removed + zlen rs)) eqn:LO; [|exact I].
        apply (K (zlen l - zlen removed + zlen rs)). split; [exact LO|reflexivity].
      + destruct (zlen rs =? zlen removed); [|exact I]. apply (K 0). exact Logic.I.
    - (* NDelInt *)
      apply guard_inv; [exact I|]. intros G. destruct (delitem_int l i) as [l'|e] eqn:E; [|exact I]. cbn.
      split; [eapply Forall_delitem_int; eassumption|].
      pose proof (delitem_int_length l l' i E). pose proof (zlen_nonneg l').
      replace (zlen l') with (Z.max (zlen l - 1) 0) by lia. exact G.
    - (* NDelSlice *)
      destruct (getitem_slice l sl) as [removed|e] eqn:G; [|exact I].
      apply guard_inv; [exact I|]. intros LO. destruct (delitem_slice l sl) as [l'|e] eqn:E; [|exact I]. cbn.
      split; [eapply Forall_delitem_slice; eassumption|].
      destruct (delitem_slice_length l l' removed sl E G).
      replace (zlen l') with (Z.max (zlen l - zlen removed) 0) by lia. exact LO.
    - (* NPop *)
      apply guard_inv; [exact I|]. intros G. destruct (pop l _) as [[x l']|e] eqn:E; [|exact I]. cbn.
      split; [eapply Forall_pop; eassumption|].
      pose proof (pop_length l l' _ x E). pose proof (zlen_nonneg l').
      replace (zlen l') with (Z.max (zlen l - 1) 0) by lia. exact G.
    - (* NReverse *)
      cbn. split; [apply Forall_rev; exact F|]. unfold zlen. rewrite rev_length. exact LN.
    - (* NClear *)
      apply guard_inv; [exact I|]. intros G. cbn. split; [constructor|exact G].
    - (* NAssign *)
      destruct rs as [rs|]; [|exact I]. destruct (len_ok omn omx (zlen rs)) eqn:LO; [|exact I].
      destruct (ivld_all vld imn imx rs) as [ys|] eqn:V; [|exact I]. destruct (ivld_all_Q rs ys V) as [FQ E].
      cbn. split; [exact FQ|]. rewrite E. exact LO.
    - (* NInner *)
      destruct (nth_error l j) as [inner|] eqn:N; [|exact I]. cbn.
      assert (Q inner) as QI by (rewrite Forall_forall in F; apply F; eapply nth_error_In; exact N).
      split.
      + apply Forall_set_nth; [apply (tlo_inv vld P HP imn imx inner o QI)|exact F].
      + unfold zlen. rewrite set_nth_length; [exact LN|]. apply nth_error_Some. congruence.
  Qed.

  Theorem nested_failing_inert l o e :
    n_out (step l o) = Raise e -> n_after (step l o) = l /\ n_events (step l o) = 0%nat.
  Proof.
    destruct o; cbn [nested_step]; unfold guard, nraise, nok;
      repeat match goal with
             | |- context [match ?x with _ => _ end] =>
                 lazymatch x with
                 | tlo_step _ _ _ _ _ => fail
                 | _ => destruct x eqn:?
                 end
             end; cbn [n_out n_after n_events]; intros H; try discriminate; auto.
    (* NInner *)
    destruct (tlo_failing_inert vld imn imx l0 o e H) as [HA HE]. rewrite HA, HE.
    split; [apply set_nth_same; assumption|reflexivity].
  Qed.

  Theorem nested_inv_reachable : forall ops l, NInv l ->
    Forall (fun p => NInv (n_after (snd p))) (nested_run vld imn omn imx omx l ops).
  Proof.
    induction ops as [|o ops IH]; intros l I; cbn [nested_run]; constructor.
    - cbn. apply nested_inv. exact I.
    - apply IH. apply nested_inv. exact I.
  Qed.
End NestedProofs.

Lemma nl_eqb_refl (l : list (list Z)) : nl_eqb l l = true.
Proof. unfold nl_eqb. induction l as [|a l IH]; cbn; [reflexivity|]. rewrite zlist_eqb_refl, IH. reflexivity. Qed.

Section NestedLawProofs.
  Variable vld : Z -> option Z.
  Variable dom acc : Z -> bool.
  Hypothesis Hdom : forall x y, vld x = Some y -> dom y = true.
  Hypothesis Hacc : forall x y, vld x = Some y -> acc x = true.
  Variables imn omn : Z.
  Variables imx omx : option Z.

  Notation step := (nested_step vld imn omn imx omx).
  Notation PD := (fun x => dom x = true).

  Lemma ivld_acc r y : ivld vld imn imx r = Some y -> raw_acc acc imn imx r = true.
  Proof.
    destruct r as [vs|]; cbn; [|discriminate]. destruct (len_ok imn imx (zlen vs)); [|discriminate].
    intros V. rewrite (vld_all_acc vld acc Hacc vs y V). reflexivity.
  Qed.
  Lemma ivld_all_acc rs ys : ivld_all vld imn imx rs = Some ys -> forallb (raw_acc acc imn imx) rs = true.
  Proof.
    revert ys. induction rs as [|r rs IH]; intros ys H; cbn in *; [reflexivity|].
    destruct (ivld vld imn imx r) as [y|] eqn:V; [|discriminate].
    destruct (ivld_all vld imn imx rs) as [t|]; [|discriminate].
    rewrite (ivld_acc r y V), (IH t eq_refl). reflexivity.
  Qed.

  Lemma nested_success_acc l o :
    n_out (step l o) = Ok tt ->
    forallb (raw_acc acc imn imx) (n_offered o) && forallb acc (n_inner_offered o) = true.
  Proof.
    destruct o as [r|rs|i r|i r|sl rs|i|sl|oi| | |rs|j io];
      cbn [nested_step n_offered n_inner_offered]; unfold guard, nraise, nok;
      repeat match goal with
             | |- context [match ?x with _ => _ end] =>
                 lazymatch x with
                 | tlo_step _ _ _ _ _ => fail
                 | _ => destruct x eqn:?
                 end
             end; cbn [n_out]; intros H; try discriminate; try reflexivity; cbn [forallb];
      repeat match goal with
             | V : ivld _ _ _ _ = Some _ |- _ => apply ivld_acc in V; rewrite V
             | V : ivld_all _ _ _ _ = Some _ |- _ => apply ivld_all_acc in V; rewrite V
             end; try reflexivity.
    (* NInner *)
    cbn.
    match goal with
    | N : nth_error l _ = Some ?inner |- _ => apply (list_success_acc vld acc Hacc imn imx inner (LOp io)); exact H
    end.
  Qed.

  Lemma nested_ok_NInv l : nested_ok dom imn omn imx omx l = true <-> NInv PD imn omn imx omx l.
  Proof.
    unfold nested_ok, NInv, Q. rewrite andb_true_iff, forallb_Forall.
    split; intros [F L]; (split; [|exact L]); eapply Forall_impl; try exact F; cbn; intros a Ha.
    - apply (list_ok_LInv dom imn imx a). exact Ha.
    - apply (list_ok_LInv dom imn imx a). exact Ha.
  Qed.

  Theorem nested_law_step l o :
    nested_ok dom imn omn imx omx l = true ->
    law_nested_step dom acc imn omn imx omx l o (step l o) = [] /\
    nested_ok dom imn omn imx omx (n_after (step l o)) = true.
  Proof.
    intros I. apply nested_ok_NInv in I.
    pose proof (nested_inv vld PD Hdom imn omn imx omx l o I) as N.
    pose proof N as OK. apply nested_ok_NInv in OK. split; [|exact OK].
    destruct N as [F LN]. unfold law_nested_step.
    assert (forallb (forallb dom) (n_after (step l o)) = true) as ->.
    { apply forallb_Forall. eapply Forall_impl; [|exact F]. cbn. intros a [Ha _]. apply forallb_Forall. exact Ha. }
    assert (forallb (fun l0 => len_ok imn imx (zlen l0)) (n_after (step l o)) = true) as ->.
    { apply forallb_Forall. eapply Forall_impl; [|exact F]. cbn. intros a [_ Ha]. exact Ha. }
    rewrite LN, !orb_true_r. cbn [andb chk app].
    destruct (n_out (step l o)) as [[]|e] eqn:EO.
    - cbn [is_trait_error is_raise negb orb chk app]. rewrite (nested_success_acc l o EO). reflexivity.
    - destruct (nested_failing_inert vld imn omn imx omx l o e EO) as [HA HE]. rewrite HA, HE.
      rewrite nl_eqb_refl.
      cbn. rewrite !orb_true_r. destruct e; reflexivity.
  Qed.
End NestedLawProofs.

Section NestedHist.
  Variable vld : Z -> option Z.
  Variable dom acc : Z -> bool.
  Hypothesis Hdom : forall x y, vld x = Some y -> dom y = true.
  Hypothesis Hacc : forall x y, vld x = Some y -> acc x = true.
  Variables imn omn : Z.
  Variables imx omx : option Z.

  Theorem nested_law_hist : forall ops l i, nested_ok dom imn omn imx omx l = true ->
    law_nested_hist dom acc imn omn imx omx i l (nested_run vld imn omn imx omx l ops) = [].
  Proof.
    induction ops as [|o ops IH]; intros l i I; cbn [nested_run law_nested_hist]; [reflexivity|].
    destruct (nested_law_step vld dom acc Hdom Hacc imn omn imx omx l o I) as [H1 H2].
    rewrite H1, (IH _ _ H2). reflexivity.
  Qed.
End NestedHist.

(* ================= Dict(K, List(T)) ================= *)
Section NDictProofs.
  Variable kv vld : Z -> option Z.
  Variable PK P : Z -> Prop.
  Hypothesis HK : forall x y, kv x = Some y -> PK y.
  Hypothesis HP : forall x y, vld x = Some y -> P y.
  Variable imn : Z.
  Variable imx : option Z.

  Definition NDP (p : Z * list Z) : Prop := PK (fst p) /\ LInv P imn imx (snd p).
  Definition NDInv (m : ndict) : Prop := Forall NDP m.
  Notation step := (ndict_step kv vld imn imx).

  Lemma F_nd_set k v m : NDP (k, v) -> Forall NDP m -> Forall NDP (nd_set k v m).
  Proof.
    intros Hp F. induction m as [|[k' v'] m IH]; cbn; [constructor; [exact Hp|constructor]|].
    inversion F; subst. destruct (k =? k'); constructor; auto.
  Qed.
  Lemma F_nd_update ps : forall m, Forall NDP ps -> Forall NDP m -> Forall NDP (nd_update ps m).
  Proof.
    induction ps as [|[k v] ps IH]; intros m Fp Fm; cbn; [exact Fm|].
    inversion Fp; subst. apply IH; [assumption|]. apply F_nd_set; assumption.
  Qed.
  Lemma F_nd_remove k m : Forall NDP m -> Forall NDP (nd_remove k m).
  Proof.
    intros F. apply Forall_forall. intros x Hx. apply filter_In in Hx. rewrite Forall_forall in F. apply F, Hx.
  Qed.
  Lemma nd_lookup_In k m v : nd_lookup k m = Some v -> In (k, v) m.
  Proof.
    induction m as [|[k' v'] m IH]; cbn; [discriminate|]. destruct (Z.eqb_spec k k') as [->|].
    - intros H. inversion H. left. reflexivity.
    - intros H. right. apply IH. exact H.
  Qed.
  Lemma nd_set_same k v m : nd_lookup k m = Some v -> nd_set k v m = m.
  Proof.
    induction m as [|[k' v'] m IH]; cbn; [discriminate|]. destruct (Z.eqb_spec k k') as [->|].
    - intros H. inversion H. reflexivity.
    - intros H. f_equal. apply IH. exact H.
  Qed.

  Lemma nd_vld_pairs_P ps qs : nd_vld_pairs kv vld imn imx ps = Some qs -> Forall NDP qs.
  Proof.
    revert qs. induction ps as [|[k r] ps IH]; intros qs H; cbn in H.
    - inversion H. constructor.
    - destruct (kv k) as [k'|] eqn:K; [|discriminate]. destruct (ivld vld imn imx r) as [y|] eqn:V; [|discriminate].
      destruct (nd_vld_pairs kv vld imn imx ps) as [t|]; [|discriminate]. inversion H.
      constructor; [|apply IH; reflexivity]. split; cbn; [eapply HK; exact K|eapply ivld_Q; eassumption].
  Qed.

  Theorem ndict_inv m o : NDInv m -> NDInv (nd_after (step m o)).
  Proof.
    intros F. unfold NDInv in *. destruct o as [k r|ps|k r|k|k| |ps|k io]; cbn [ndict_step].
    - destruct (kv k) as [k'|] eqn:K; [|exact F]. destruct (ivld vld imn imx r) as [y|] eqn:V; [|exact F].
      cbn. apply F_nd_set; [|exact F]. split; cbn; [eapply HK; exact K|eapply ivld_Q; eassumption].
    - destruct (nd_vld_pairs kv vld imn imx ps) as [qs|] eqn:V; [|exact F]. cbn.
      apply F_nd_update; [eapply nd_vld_pairs_P; exact V|exact F].
    - destruct (nd_lookup k m); [exact F|].
      destruct (kv k) as [k'|] eqn:K; [|exact F]. destruct (ivld vld imn imx r) as [y|] eqn:V; [|exact F].
      cbn. apply F_nd_set; [|exact F]. split; cbn; [eapply HK; exact K|eapply ivld_Q; eassumption].
    - destruct (nd_lookup k m); [|exact F]. cbn. apply F_nd_remove. exact F.
    - destruct (nd_lookup k m); [|exact F]. cbn. apply F_nd_remove. exact F.
    - cbn. constructor.
    - destruct (nd_vld_pairs kv vld imn imx ps) as [qs|] eqn:V; [|exact F]. cbn.
      apply F_nd_update; [eapply nd_vld_pairs_P; exact V|constructor].
    - destruct (nd_lookup k m) as [inner|] eqn:N; [|exact F]. cbn.
      pose proof (nd_lookup_In k m inner N) as Hin. rewrite Forall_forall in F. destruct (F _ Hin) as [HKk HQ].
      apply F_nd_set; [|apply Forall_forall; exact F]. split; cbn; [exact HKk|].
      apply (tlo_inv vld P HP imn imx inner io HQ).
  Qed.

  Theorem ndict_failing_inert m o e :
    nd_out (step m o) = Raise e -> nd_after (step m o) = m /\ nd_events (step m o) = 0%nat.
  Proof.
    destruct o as [k r|ps|k r|k|k| |ps|k io]; cbn [ndict_step]; unfold ndraise, ndok;
      repeat match goal with
             | |- context [match ?x with _ => _ end] =>
                 lazymatch x with
                 | tlo_step _ _ _ _ _ => fail
                 | _ => destruct x eqn:?
                 end
             end; cbn [nd_out nd_after nd_events]; intros H; try discriminate; auto.
    match goal with
    | N : nd_lookup k m = Some ?inner |- _ =>
        destruct (tlo_failing_inert vld imn imx inner io e H) as [HA HE]; rewrite HA, HE;
        split; [apply nd_set_same; exact N|reflexivity]
    end.
  Qed.

  Theorem ndict_inv_reachable : forall ops m, NDInv m ->
    Forall (fun p => NDInv (nd_after (snd p))) (ndict_run kv vld imn imx m ops).
  Proof.
    induction ops as [|o ops IH]; intros m I; cbn [ndict_run]; constructor.
    - cbn. apply ndict_inv. exact I.
    - apply IH. apply ndict_inv. exact I.
  Qed.
End NDictProofs.

Lemma nd_eqb_refl (m : ndict) : nd_eqb m m = true.
Proof.
  unfold nd_eqb. induction m as [|[k v] m IH]; cbn; [reflexivity|].
  rewrite Z.eqb_refl, zlist_eqb_refl, IH. reflexivity.
Qed.

Section NDictLawProofs.
  Variable kv vld : Z -> option Z.
  Variable kdom kacc dom acc : Z -> bool.
  Hypothesis Hkdom : forall x y, kv x = Some y -> kdom y = true.
  Hypothesis Hkacc : forall x y, kv x = Some y -> kacc x = true.
  Hypothesis Hdom : forall x y, vld x = Some y -> dom y = true.
  Hypothesis Hacc : forall x y, vld x = Some y -> acc x = true.
  Variable imn : Z.
  Variable imx : option Z.
  Notation step := (ndict_step kv vld imn imx).
  Notation okb := (ndict_ok kdom dom imn imx).

  Lemma okb_NDInv m : okb m = true <-> NDInv (fun x => kdom x = true) (fun x => dom x = true) imn imx m.
  Proof.
    unfold ndict_ok, NDInv, NDP. rewrite forallb_Forall.
    split; intros F; eapply Forall_impl; try exact F; cbn; intros [k v]; cbn.
    - intros H. apply andb_true_iff in H. destruct H as [H L]. apply andb_true_iff in H. destruct H as [HK' HD].
      split; [exact HK'|]. apply (list_ok_LInv dom imn imx v). unfold list_ok. rewrite HD, L. reflexivity.
    - intros [HK' HL]. apply (list_ok_LInv dom imn imx v) in HL. unfold list_ok in HL.
      apply andb_true_iff in HL. destruct HL as [HD L]. rewrite HK', HD, L. reflexivity.
  Qed.

  Lemma nd_vld_pairs_acc ps qs : nd_vld_pairs kv vld imn imx ps = Some qs ->
    forallb (fun p => kacc (fst p) && raw_acc acc imn imx (snd p)) ps = true.
  Proof.
    revert qs. induction ps as [|[k r] ps IH]; intros qs H; cbn in *; [reflexivity|].
    destruct (kv k) as [k'|] eqn:K; [|discriminate]. destruct (ivld vld imn imx r) as [y|] eqn:V; [|discriminate].
    destruct (nd_vld_pairs kv vld imn imx ps) as [t|]; [|discriminate].
    rewrite (Hkacc k k' K), (ivld_acc vld acc Hacc imn imx r y V), (IH t eq_refl). reflexivity.
  Qed.

  Lemma ndict_success_acc m o :
    nd_out (step m o) = Ok tt ->
    forallb (fun p => kacc (fst p) && raw_acc acc imn imx (snd p)) (nd_offered m o)
    && forallb acc (nd_inner_offered o) = true.
  Proof.
    destruct o as [k r|ps|k r|k|k| |ps|k io]; cbn [ndict_step nd_offered nd_inner_offered]; unfold ndraise, ndok;
      repeat match goal with
             | |- context [match ?x with _ => _ end] =>
                 lazymatch x with
                 | tlo_step _ _ _ _ _ => fail
                 | _ => destruct x eqn:?
                 end
             end; cbn [nd_out]; intros H; try discriminate; try reflexivity; cbn [forallb fst snd];
      repeat match goal with
             | V : kv _ = Some _ |- _ => apply Hkacc in V; rewrite V
             | V : ivld _ _ _ _ = Some _ |- _ => apply (ivld_acc vld acc Hacc) in V; rewrite V
             | V : nd_vld_pairs _ _ _ _ _ = Some _ |- _ => apply nd_vld_pairs_acc in V; rewrite V
             end; try reflexivity.
    cbn.
    match goal with
    | N : nd_lookup k m = Some ?inner |- _ => apply (list_success_acc vld acc Hacc imn imx inner (LOp io)); exact H
    end.
  Qed.

  Theorem ndict_law_step m o :
    okb m = true ->
    law_ndict_step kdom kacc dom acc imn imx m o (step m o) = [] /\ okb (nd_after (step m o)) = true.
  Proof.
    intros I. apply okb_NDInv in I.
    pose proof (ndict_inv kv vld _ _ Hkdom Hdom imn imx m o I) as F. apply okb_NDInv in F.
    split; [|exact F]. unfold law_ndict_step. rewrite F, orb_true_r. cbn [chk app].
    destruct (nd_out (step m o)) as [[]|e] eqn:EO.
    - cbn [is_trait_error is_raise negb orb chk app]. rewrite (ndict_success_acc m o EO). reflexivity.
    - destruct (ndict_failing_inert kv vld imn imx m o e EO) as [HA HE]. rewrite HA, HE, nd_eqb_refl.
      cbn. rewrite !orb_true_r. destruct e; reflexivity.
  Qed.

  Theorem ndict_law_hist : forall ops m i, okb m = true ->
    law_ndict_hist kdom kacc dom acc imn imx i m (ndict_run kv vld imn imx m ops) = [].
  Proof.
    induction ops as [|o ops IH]; intros m i I; cbn [ndict_run law_ndict_hist]; [reflexivity|].
    destruct (ndict_law_step m o I) as [H1 H2]. rewrite H1, (IH _ _ H2). reflexivity.
  Qed.
End NDictLawProofs.
