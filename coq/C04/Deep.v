(* C04 — containers of arbitrary nesting depth: List(List(... List(T) ...)) with bounds at every
   level.  An item is an atom or a list of items; a trait type is an atomic inner trait or a
   List of a trait type with length bounds.  [validate] is List.validate / the atomic
   validator, recursively; [level_step] is one TraitListObject (length guard + TraitList
   method + built-in list) over items with an arbitrary item validator; [deep_step] applies a
   mutator to the list found by following a path of indices from the trait value.
   Definitions (model, law, correspondence) only; proofs are in DeepProofs.v. *)
From Coq Require Import ZArith List Bool.
From TV Require Import Common.PySlice Common.PyList Common.Harness C05.Normalize C05.Model C05.Law C05.Corr
  C04.Model C04.Law C04.Corr.
Import ListNotations.
Local Open Scope Z_scope.

Inductive item := Atom (z : Z) | Lst (l : list item).
Inductive ttype := TAtom (vk : vkind) | TList (inner : ttype) (mn : Z) (mx : option Z).

Fixpoint mapM {A B} (f : A -> option B) (l : list A) : option (list B) :=
  match l with
  | [] => Some []
  | x :: r => match f x with
              | None => None
              | Some y => match mapM f r with None => None | Some ys => Some (y :: ys) end
              end
  end.

(* the trait's validation of a raw value (trait_types.py: List.validate + TraitListObject.__init__,
   item by item through the inner trait) *)
Fixpoint validate (t : ttype) (x : item) : option item :=
  match t with
  | TAtom vk => match x with Atom z => option_map Atom (vld_of vk z) | Lst _ => None end
  | TList inner mn mx =>
      match x with
      | Lst l => if len_ok mn mx (zlen l) then option_map Lst (mapM (validate inner) l) else None
      | Atom _ => None
      end
  end.

(* the invariant: every atom in the range of its trait, every list within its bounds, at every depth *)
Fixpoint wfb (t : ttype) (x : item) : bool :=
  match t with
  | TAtom vk => match x with Atom z => dom_of vk z | Lst _ => false end
  | TList inner mn mx =>
      match x with
      | Lst l => forallb (wfb inner) l && len_ok mn mx (zlen l)
      | Atom _ => false
      end
  end.

Fixpoint item_eqb (a b : item) : bool :=
  match a, b with
  | Atom x, Atom y => x =? y
  | Lst l, Lst m =>
      (fix go (l m : list item) : bool :=
         match l, m with
         | [], [] => true
         | x :: l', y :: m' => item_eqb x y && go l' m'
         | _, _ => false
         end) l m
  | _, _ => false
  end.

(* the mutators of one list level (remove / sort / *= are covered for flat lists by C05.Model) *)
Inductive gop :=
| GAppend (r : item) | GExtend (rs : list item) | GInsert (i : Z) (r : item)
| GSetInt (i : Z) (r : item) | GSetSlice (sl : slice) (rs : list item)
| GDelInt (i : Z) | GDelSlice (sl : slice) | GPop (i : option Z) | GReverse | GClear.

Definition lres := (res unit * list item * nat)%type.
Definition lraise (e : exn) (l : list item) : lres := (Raise e, l, 0%nat).
Definition lok (l : list item) (n : nat) : lres := (Ok tt, l, n).

Section Level.
  Variable ivld : item -> option item.
  Variable mn : Z.
  Variable mx : option Z.

  Definition lguard (n : Z) (l : list item) (k : lres) : lres := if len_ok mn mx n then k else lraise TraitError l.

  Definition level_step (l : list item) (o : gop) : lres :=
    let len := zlen l in
    match o with
    | GAppend r =>
        lguard (len + 1) l match ivld r with None => lraise TraitError l | Some y => lok (l ++ [y]) 1 end
    | GExtend rs =>
        lguard (len + zlen rs) l
          match mapM ivld rs with None => lraise TraitError l | Some ys => lok (l ++ ys) (b2n (nonempty ys)) end
    | GInsert i r =>
        lguard (len + 1) l match ivld r with None => lraise TraitError l | Some y => lok (insert l i y) 1 end
    | GSetInt i r =>
        match ivld r with
        | None => lraise TraitError l
        | Some y => match setitem_int l i y with Raise e => lraise e l | Ok l' => lok l' 1 end
        end
    | GSetSlice sl rs =>
        match getitem_slice l sl with
        | Raise e => lraise e l
        | Ok removed =>
            let k :=
              match mapM ivld rs with
              | None => lraise TraitError l
              | Some ys => match setitem_slice l sl ys with
                           | Raise e => lraise e l
                           | Ok l' => lok l' (b2n (nonempty ys || nonempty removed))
                           end
              end in
            if is_step1 sl then lguard (len - zlen removed + zlen rs) l k
            else if zlen rs =? zlen removed then k else lraise ValueError l
        end
    | GDelInt i =>
        lguard (Z.max (len - 1) 0) l match delitem_int l i with Raise e => lraise e l | Ok l' => lok l' 1 end
    | GDelSlice sl =>
        match getitem_slice l sl with
        | Raise e => lraise e l
        | Ok removed =>
            lguard (Z.max (len - zlen removed) 0) l
              match delitem_slice l sl with Raise e => lraise e l | Ok l' => lok l' (b2n (nonempty removed)) end
        end
    | GPop oi =>
        lguard (Z.max (len - 1) 0) l
          match pop l (match oi with Some i => i | None => -1 end) with
          | Raise e => lraise e l
          | Ok (_, l') => lok l' 1
          end
    | GReverse => lok (rev l) (b2n (nonempty l))
    | GClear => lguard 0 l (lok [] (b2n (nonempty l)))
    end.
End Level.

(* observation: outcome, the whole trait value afterwards, number of notifications *)
Record dpobs := mkDP { dp_out : res unit; dp_after : item; dp_events : nat }.

Inductive dpop :=
| DPath (path : list nat) (o : gop)        (* a mutator of the list reached from the value by these indices *)
| DPAssign (x : item).                      (* whole-value assignment *)

Fixpoint path_step (t : ttype) (x : item) (path : list nat) (o : gop) : dpobs :=
  match t, x with
  | TList inner mn mx, Lst l =>
      match path with
      | [] => let '(out, l', n) := level_step (validate inner) mn mx l o in mkDP out (Lst l') n
      | j :: p =>
          match nth_error l j with
          | None => mkDP (Raise IndexError) x 0
          | Some y => let ob := path_step inner y p o in mkDP (dp_out ob) (Lst (set_nth j (dp_after ob) l)) (dp_events ob)
          end
      end
  | _, _ => mkDP (Raise TypeError) x 0      (* the path leaves the lists: the harness never does that *)
  end.

Definition deep_step (t : ttype) (x : item) (o : dpop) : dpobs :=
  match o with
  | DPath path g => path_step t x path g
  | DPAssign r => match validate t r with Some y => mkDP (Ok tt) y 0 | None => mkDP (Raise TraitError) x 0 end
  end.

Fixpoint deep_run (t : ttype) (x : item) (ops : list dpop) : list (dpop * dpobs) :=
  match ops with
  | [] => []
  | o :: r => let ob := deep_step t x o in (o, ob) :: deep_run t (dp_after ob) r
  end.

(* ---------- law ---------- *)
Definition accb (t : ttype) (r : item) : bool := match validate t r with Some _ => true | None => false end.

(* the trait type of the list a path leads to *)
Fixpoint type_at (t : ttype) (path : list nat) : option ttype :=
  match path, t with
  | [], _ => Some t
  | _ :: p, TList inner _ _ => type_at inner p
  | _ :: _, TAtom _ => None
  end.

Definition g_offered (o : gop) : list item :=
  match o with
  | GAppend r | GInsert _ r | GSetInt _ r => [r]
  | GExtend rs | GSetSlice _ rs => rs
  | _ => []
  end.

(* clause 5: every raw item offered is acceptable to the item trait of the addressed list, else something is raised *)
Definition offered_ok (t : ttype) (o : dpop) : bool :=
  match o with
  | DPAssign r => accb t r
  | DPath path g =>
      match type_at t path with
      | Some (TList inner _ _) => forallb (accb inner) (g_offered g)
      | _ => true
      end
  end.

Definition law_deep_step (t : ttype) (before : item) (o : dpop) (ob : dpobs) : list Z :=
  let same := item_eqb (dp_after ob) before && Nat.eqb (dp_events ob) 0 in
  chk 1 (negb (wfb t before) || wfb t (dp_after ob))
  ++ chk 3 (negb (is_trait_error (dp_out ob)) || same)
  ++ chk 4 (negb (is_raise (dp_out ob)) || same)
  ++ chk 5 (offered_ok t o || is_raise (dp_out ob)).

Fixpoint law_deep_hist (t : ttype) (i : Z) (before : item) (h : list (dpop * dpobs)) : list Z :=
  match h with
  | [] => []
  | (o, ob) :: r => lifted i (law_deep_step t before o ob) ++ law_deep_hist t (i + 1) (dp_after ob) r
  end.

(* ---------- correspondence ---------- *)
Definition dpcase := (ttype * item * list (dpop * dpobs))%type.
Definition dpobs_diff (m i : dpobs) : list Z :=
  chk 1 (out_eqb (dp_out m) (dp_out i)) ++ chk 2 (item_eqb (dp_after m) (dp_after i))
  ++ chk 3 (Nat.eqb (dp_events m) (dp_events i)).
Fixpoint corr_deep_hist (t : ttype) (i : Z) (s : item) (h : list (dpop * dpobs)) : list Z :=
  match h with
  | [] => []
  | (o, ob) :: r => lifted i (dpobs_diff (deep_step t s o) ob) ++ corr_deep_hist t (i + 1) (dp_after ob) r
  end.
Definition corr_deep (c : dpcase) : list Z := let '(t, init, h) := c in corr_deep_hist t 0 init h.
Definition law_deep (c : dpcase) : list Z :=
  let '(t, init, h) := c in start_ok (wfb t init) ++ law_deep_hist t 0 init h.
