(* C04 — containers of arbitrary nesting depth: any nesting of List(...) (bounds at every level) and
   Dict(K, ...) (atomic keys) over atomic inner traits: List(List(T)), Dict(K, List(T)), Dict(K, Dict(K', V)),
   List(Dict(K, List(T))), ...  An item is an atom, a list of items or a dict from atoms to items; a trait type is
   an atomic inner trait, a List of a trait type with length bounds, or a Dict of a key trait and a trait type.  [validate] is List.validate / the atomic
   validator, recursively; [level_step] is one TraitListObject (length guard + TraitList
   method + built-in list) over items with an arbitrary item validator; [deep_step] applies a
   mutator to the list found by following a path of indices from the trait value.
   Definitions (model, law, correspondence) only; proofs are in DeepProofs.v. *)
From Coq Require Import ZArith List Bool.
From TV Require Import Common.PySlice Common.PyList Common.Harness C05.Normalize C05.Model C05.Law C05.Corr
  C04.Model C04.Law C04.Corr.
Import ListNotations.
Local Open Scope Z_scope.

Inductive item := Atom (z : Z) | Lst (l : list item) | Dct (m : list (Z * item)).
Inductive ttype := TAtom (vk : vkind) | TList (inner : ttype) (mn : Z) (mx : option Z) | TDict (kk : vkind) (vt : ttype).

(* dicts of items: association lists in insertion order *)
Definition imap := list (Z * item).
Fixpoint dlookup (k : Z) (m : imap) : option item :=
  match m with [] => None | (k', v) :: r => if k =? k' then Some v else dlookup k r end.
Fixpoint dset (k : Z) (v : item) (m : imap) : imap :=
  match m with
  | [] => [(k, v)]
  | (k', v') :: r => if k =? k' then (k, v) :: r else (k', v') :: dset k v r
  end.
Definition dremove (k : Z) (m : imap) : imap := filter (fun p => negb (k =? fst p)) m.
Definition dupdate (ps m : imap) : imap := fold_left (fun acc p => dset (fst p) (snd p) acc) ps m.

Fixpoint mapM {A B} (f : A -> option B) (l : list A) : option (list B) :=
  match l with
  | [] => Some []
  | x :: r => match f x with
              | None => None
              | Some y => match mapM f r with None => None | Some ys => Some (y :: ys) end
              end
  end.

(* the trait's validation of a raw value (trait_types.py: List.validate + TraitListObject.__init__,
   item by item through the inner trait) *)
Fixpoint validate (t : ttype) (x : item) : option item :=
  match t with
  | TAtom vk => match x with Atom z => option_map Atom (vld_of vk z) | _ => None end
  | TList inner mn mx =>
      match x with
      | Lst l => if len_ok mn mx (zlen l) then option_map Lst (mapM (validate inner) l) else None
      | _ => None
      end
  | TDict kk vt =>                          (* Dict.validate + TraitDictObject.__init__: {kv(k): vv(v) for k, v in items} *)
      match x with
      | Dct m =>
          option_map (fun qs => Dct (dupdate qs []))
            (mapM (fun p => match vld_of kk (fst p), validate vt (snd p) with
                            | Some k', Some v' => Some (k', v')
                            | _, _ => None
                            end) m)
      | _ => None
      end
  end.

(* the invariant: every atom in the range of its trait, every list within its bounds, at every depth *)
Fixpoint wfb (t : ttype) (x : item) : bool :=
  match t with
  | TAtom vk => match x with Atom z => dom_of vk z | _ => false end
  | TList inner mn mx =>
      match x with
      | Lst l => forallb (wfb inner) l && len_ok mn mx (zlen l)
      | _ => false
      end
  | TDict kk vt =>
      match x with
      | Dct m => forallb (fun p => dom_of kk (fst p) && wfb vt (snd p)) m
      | _ => false
      end
  end.

Fixpoint item_eqb (a b : item) : bool :=
  match a, b with
  | Atom x, Atom y => x =? y
  | Lst l, Lst m =>
      (fix go (l m : list item) : bool :=
         match l, m with
         | [], [] => true
         | x :: l', y :: m' => item_eqb x y && go l' m'
         | _, _ => false
         end) l m
  | Dct l, Dct m =>
      (fix go (l m : list (Z * item)) : bool :=
         match l, m with
         | [], [] => true
         | (k, x) :: l', (k', y) :: m' => (k =? k') && item_eqb x y && go l' m'
         | _, _ => false
         end) l m
  | _, _ => false
  end.

(* Python == between items (list.remove / list.index): atoms by py_eq, lists element by element; dicts are never
   compared by the harness (remove / sort are not generated on lists of dicts: dict == ignores the order and dict <
   raises TypeError), they compare unequal here *)
Fixpoint item_pyeq (a b : item) : bool :=
  match a, b with
  | Atom x, Atom y => py_eq x y
  | Lst l, Lst m =>
      (fix go (l m : list item) : bool :=
         match l, m with
         | [], [] => true
         | x :: l', y :: m' => item_pyeq x y && go l' m'
         | _, _ => false
         end) l m
  | _, _ => false
  end.

(* Python < between items (list.sort): atoms by their order, lists lexicographically (the first position where
   the items are not ==, else the shorter list); items of different kinds never meet at one level *)
Fixpoint item_lt (a b : item) : bool :=
  match a, b with
  | Atom x, Atom y => x <? y
  | Lst l, Lst m =>
      (fix go (l m : list item) : bool :=
         match l, m with
         | [], _ :: _ => true
         | x :: l', y :: m' => if item_pyeq x y then go l' m' else item_lt x y
         | _, [] => false
         end) l m
  | _, _ => false
  end.
Definition item_leb (a b : item) : bool := negb (item_lt b a).

(* the mutators of one list level: every mutating method of list *)
Inductive gop :=
| GAppend (r : item) | GExtend (rs : list item) | GInsert (i : Z) (r : item)
| GSetInt (i : Z) (r : item) | GSetSlice (sl : slice) (rs : list item)
| GDelInt (i : Z) | GDelSlice (sl : slice) | GPop (i : option Z) | GReverse | GClear
| GRemove (r : item) | GSort (reverse : bool) | GImul (n : Z).

Definition lres := (res unit * list item * nat)%type.
Definition lraise (e : exn) (l : list item) : lres := (Raise e, l, 0%nat).
Definition lok (l : list item) (n : nat) : lres := (Ok tt, l, n).

Section Level.
  Variable ivld : item -> option item.
  Variable mn : Z.
  Variable mx : option Z.

  Definition lguard (n : Z) (l : list item) (k : lres) : lres := if len_ok mn mx n then k else lraise TraitError l.

  Definition level_step (l : list item) (o : gop) : lres :=
    let len := zlen l in
    match o with
    | GAppend r =>
        lguard (len + 1) l match ivld r with None => lraise TraitError l | Some y => lok (l ++ [y]) 1 end
    | GExtend rs =>
        lguard (len + zlen rs) l
          match mapM ivld rs with None => lraise TraitError l | Some ys => lok (l ++ ys) (b2n (nonempty ys)) end
    | GInsert i r =>
        lguard (len + 1) l match ivld r with None => lraise TraitError l | Some y => lok (insert l i y) 1 end
    | GSetInt i r =>
        match ivld r with
        | None => lraise TraitError l
        | Some y => match setitem_int l i y with Raise e => lraise e l | Ok l' => lok l' 1 end
        end
    | GSetSlice sl rs =>
        match getitem_slice l sl with
        | Raise e => lraise e l
        | Ok removed =>
            let k :=
              match mapM ivld rs with
              | None => lraise TraitError l
              | Some ys => match setitem_slice l sl ys with
                           | Raise e => lraise e l
                           | Ok l' => lok l' (b2n (nonempty ys || nonempty removed))
                           end
              end in
            if is_step1 sl then lguard (len - zlen removed + zlen rs) l k
            else if zlen rs =? zlen removed then k else lraise ValueError l
        end
    | GDelInt i =>
        lguard (Z.max (len - 1) 0) l match delitem_int l i with Raise e => lraise e l | Ok l' => lok l' 1 end
    | GDelSlice sl =>
        match getitem_slice l sl with
        | Raise e => lraise e l
        | Ok removed =>
            lguard (Z.max (len - zlen removed) 0) l
              match delitem_slice l sl with Raise e => lraise e l | Ok l' => lok l' (b2n (nonempty removed)) end
        end
    | GPop oi =>
        lguard (Z.max (len - 1) 0) l
          match pop l (match oi with Some i => i | None => -1 end) with
          | Raise e => lraise e l
          | Ok (_, l') => lok l' 1
          end
    | GReverse => lok (rev l) (b2n (nonempty l))
    | GClear => lguard 0 l (lok [] (b2n (nonempty l)))
    | GRemove r =>                                         (* the raw value is searched with ==, not validated *)
        lguard (Z.max (len - 1) 0) l
          match remove item_pyeq l r with Raise e => lraise e l | Ok l' => lok l' 1 end
    | GSort rv => lok (sort item_leb rv l) (b2n (nonempty l))       (* not overridden by TraitListObject *)
    | GImul n =>
        lguard (Z.max 0 (len * n)) l
          (if n <? 1 then lok (imul l n) (b2n (nonempty l))
           else lok (imul l n) (b2n (nonempty (skipn (length l) (imul l n)))))
    end.
End Level.

(* the mutators of one dict level (TraitDict, trait_dict_object.py l.159-344, with a mapping argument for update) *)
Inductive dgop :=
| DgSetItem (k : Z) (r : item) | DgUpdate (ps : list (Z * item)) | DgSetDefault (k : Z) (r : item)
| DgDelItem (k : Z) | DgPop (k : Z) | DgClear.

Definition dres := (res unit * imap * nat)%type.
Definition draise (e : exn) (m : imap) : dres := (Raise e, m, 0%nat).
Definition dok (m : imap) (n : nat) : dres := (Ok tt, m, n).

Section DLevel.
  Variable kvld : Z -> option Z.
  Variable vvld : item -> option item.

  Definition pair_vld (p : Z * item) : option (Z * item) :=
    match kvld (fst p), vvld (snd p) with Some k', Some v' => Some (k', v') | _, _ => None end.

  Definition dlevel_step (m : imap) (o : dgop) : dres :=
    match o with
    | DgSetItem k r =>
        match pair_vld (k, r) with None => draise TraitError m | Some (k', y) => dok (dset k' y m) 1 end
    | DgUpdate ps =>
        match mapM pair_vld ps with
        | None => draise TraitError m
        | Some qs => dok (dupdate qs m) (b2n (nonempty qs))
        end
    | DgSetDefault k r =>                            (* raw key containment first *)
        match dlookup k m with
        | Some _ => dok m 0
        | None => match pair_vld (k, r) with None => draise TraitError m | Some (k', y) => dok (dset k' y m) 1 end
        end
    | DgDelItem k | DgPop k =>
        match dlookup k m with Some _ => dok (dremove k m) 1 | None => draise OtherError m end    (* KeyError *)
    | DgClear => dok [] (b2n (nonempty m))
    end.
End DLevel.

(* observation: outcome, the whole trait value afterwards, number of notifications *)
Record dpobs := mkDP { dp_out : res unit; dp_after : item; dp_events : nat }.

(* one step of a path: the j-th item of a list, or the value at a (raw) key of a dict *)
Inductive pelem := PIdx (j : nat) | PKey (k : Z).
(* the mutator applied at the end of the path: of a list or of a dict *)
Inductive nodeop := OnList (g : gop) | OnDict (d : dgop).

Inductive dpop :=
| DPath (path : list pelem) (o : nodeop)   (* a mutator of the container reached from the value by this path *)
| DPAssign (x : item).                      (* whole-value assignment *)

Definition bad_path (x : item) : dpobs := mkDP (Raise TypeError) x 0.   (* the harness never leaves the containers *)

Fixpoint path_step (t : ttype) (x : item) (path : list pelem) (o : nodeop) : dpobs :=
  match path with
  | [] =>
      match t, x, o with
      | TList inner mn mx, Lst l, OnList g =>
          let '(out, l', n) := level_step (validate inner) mn mx l g in mkDP out (Lst l') n
      | TDict kk vt, Dct m, OnDict d =>
          let '(out, m', n) := dlevel_step (vld_of kk) (validate vt) m d in mkDP out (Dct m') n
      | _, _, _ => bad_path x
      end
  | PIdx j :: p =>
      match t, x with
      | TList inner mn mx, Lst l =>
          match nth_error l j with
          | None => mkDP (Raise IndexError) x 0
          | Some y => let ob := path_step inner y p o in mkDP (dp_out ob) (Lst (set_nth j (dp_after ob) l)) (dp_events ob)
          end
      | _, _ => bad_path x
      end
  | PKey k :: p =>
      match t, x with
      | TDict kk vt, Dct m =>
          match dlookup k m with
          | None => mkDP (Raise OtherError) x 0          (* KeyError *)
          | Some y => let ob := path_step vt y p o in mkDP (dp_out ob) (Dct (dset k (dp_after ob) m)) (dp_events ob)
          end
      | _, _ => bad_path x
      end
  end.

Definition deep_step (t : ttype) (x : item) (o : dpop) : dpobs :=
  match o with
  | DPath path g => path_step t x path g
  | DPAssign r => match validate t r with Some y => mkDP (Ok tt) y 0 | None => mkDP (Raise TraitError) x 0 end
  end.

Fixpoint deep_run (t : ttype) (x : item) (ops : list dpop) : list (dpop * dpobs) :=
  match ops with
  | [] => []
  | o :: r => let ob := deep_step t x o in (o, ob) :: deep_run t (dp_after ob) r
  end.

(* ---------- law ---------- *)
Definition accb (t : ttype) (r : item) : bool := match validate t r with Some _ => true | None => false end.

(* the trait type of the list a path leads to *)
Fixpoint type_at (t : ttype) (path : list pelem) : option ttype :=
  match path, t with
  | [], _ => Some t
  | PIdx _ :: p, TList inner _ _ => type_at inner p
  | PKey _ :: p, TDict _ vt => type_at vt p
  | _ :: _, _ => None
  end.

Definition g_offered (o : gop) : list item :=
  match o with
  | GAppend r | GInsert _ r | GSetInt _ r => [r]
  | GExtend rs | GSetSlice _ rs => rs
  | _ => []
  end.
(* the pairs a dict mutator validates (setdefault on a present raw key validates nothing) *)
Definition d_offered_pairs (m : imap) (d : dgop) : list (Z * item) :=
  match d with
  | DgSetItem k r => [(k, r)]
  | DgUpdate ps => ps
  | DgSetDefault k r => match dlookup k m with Some _ => [] | None => [(k, r)] end
  | _ => []
  end.
(* the container a path leads to *)
Fixpoint item_at (x : item) (path : list pelem) : option item :=
  match path, x with
  | [], _ => Some x
  | PIdx j :: p, Lst l => match nth_error l j with Some y => item_at y p | None => None end
  | PKey k :: p, Dct m => match dlookup k m with Some y => item_at y p | None => None end
  | _ :: _, _ => None
  end.

(* clause 5: every raw item offered is acceptable to the item trait of the addressed list, else something is raised *)
Definition offered_ok (t : ttype) (before : item) (o : dpop) : bool :=
  match o with
  | DPAssign r => accb t r
  | DPath path (OnList g) =>
      match type_at t path with
      | Some (TList inner _ _) => forallb (accb inner) (g_offered g)
      | _ => true
      end
  | DPath path (OnDict d) =>
      match type_at t path, item_at before path with
      | Some (TDict kk vt), Some (Dct m) =>
          forallb (fun p => acc_of kk (fst p) && accb vt (snd p)) (d_offered_pairs m d)
      | _, _ => true
      end
  end.

Definition law_deep_step (t : ttype) (before : item) (o : dpop) (ob : dpobs) : list Z :=
  let same := item_eqb (dp_after ob) before && Nat.eqb (dp_events ob) 0 in
  chk 1 (negb (wfb t before) || wfb t (dp_after ob))
  ++ chk 3 (negb (is_trait_error (dp_out ob)) || same)
  ++ chk 4 (negb (is_raise (dp_out ob)) || same)
  ++ chk 5 (offered_ok t before o || is_raise (dp_out ob)).

Fixpoint law_deep_hist (t : ttype) (i : Z) (before : item) (h : list (dpop * dpobs)) : list Z :=
  match h with
  | [] => []
  | (o, ob) :: r => lifted i (law_deep_step t before o ob) ++ law_deep_hist t (i + 1) (dp_after ob) r
  end.

(* ---------- correspondence ---------- *)
Definition dpcase := (ttype * item * list (dpop * dpobs))%type.
Definition dpobs_diff (m i : dpobs) : list Z :=
  chk 1 (out_eqb (dp_out m) (dp_out i)) ++ chk 2 (item_eqb (dp_after m) (dp_after i))
  ++ chk 3 (Nat.eqb (dp_events m) (dp_events i)).
Fixpoint corr_deep_hist (t : ttype) (i : Z) (s : item) (h : list (dpop * dpobs)) : list Z :=
  match h with
  | [] => []
  | (o, ob) :: r => lifted i (dpobs_diff (deep_step t s o) ob) ++ corr_deep_hist t (i + 1) (dp_after ob) r
  end.
Definition corr_deep (c : dpcase) : list Z := let '(t, init, h) := c in corr_deep_hist t 0 init h.
Definition law_deep (c : dpcase) : list Z :=
  let '(t, init, h) := c in start_ok (wfb t init) ++ law_deep_hist t 0 init h.
