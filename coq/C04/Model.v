(* C04 — executable model of the container objects stored in List / Dict / Set traits:
     lists  : TraitListObject = C05.Model.tlo_step (trait_list_object.py l.541-902),
     sets   : TraitSetObject  = C04.SetModel.step  (trait_set_object.py; copy of C07.Model),
     dicts  : TraitDictObject = C04.DictModel.step (trait_dict_object.py; copy of C06.Model),
   plus whole-value assignment (List/Set/Dict.validate, trait_types.py l.2630-2648,
   2890-2904, 3036-3048: the value must be a list/set/dict (within minlen..maxlen for a
   list) and is copied item by item through the validators into a fresh container
   object), plus the nested configuration List(List(T)) (the outer item validator is
   List.validate of the inner trait; the inner lists are TraitListObjects themselves).
   Executable definitions only. *)
From Coq Require Import ZArith List Bool String.
From TV Require Import Common.PySlice Common.PyList Common.LSet Common.LMap C05.Normalize C05.Model.
Require TV.C04.DictModel TV.C04.SetModel.
Import ListNotations.
Local Open Scope Z_scope.

(* the dict and set models: C04's own copies of C06.Model / C07.Model (see DictModel.v, SetModel.v) *)
Module D := TV.C04.DictModel.
Module S := TV.C04.SetModel.

(* ---------------- List(T, minlen, maxlen) ---------------- *)
Inductive lop :=
| LOp (o : op)                                  (* a mutator of the stored TraitListObject *)
| LAssign (is_list : bool) (vs : list Z).       (* obj.l = value (a list, or something else) *)

Definition list_step (vld : Z -> option Z) (mn : Z) (mx : option Z) (l : list Z) (lo : lop) : obs :=
  match lo with
  | LOp o => tlo_step vld mn mx l o
  | LAssign il vs =>                             (* List.validate, then TraitListObject.__init__ *)
      if il && len_ok mn mx (zlen vs) then
        match vld_all vld vs with Some ys => ok ys [] | None => raise TraitError l end
      else raise TraitError l
  end.

Fixpoint list_run vld mn mx (l : list Z) (ops : list lop) : list (lop * obs) :=
  match ops with
  | [] => []
  | o :: r => let ob := list_step vld mn mx l o in (o, ob) :: list_run vld mn mx (o_after ob) r
  end.

(* ---------------- Set(T) ---------------- *)
(* The set and dict models are those of C07 / C06; C04 reads them through their field
   accessors only: outcome, contents, number of notifications (and pop's value). *)
Definition sobs := (S.outcome * list Z * nat * option Z)%type.
Definition s_view (ob : S.obs) : sobs := (S.o_out ob, S.o_after ob, List.length (S.o_events ob), S.o_ret ob).
Definition so_out (ob : sobs) : S.outcome := fst (fst (fst ob)).
Definition so_after (ob : sobs) : list Z := snd (fst (fst ob)).
Definition so_nev (ob : sobs) : nat := snd (fst ob).

Inductive sop := SOp (o : S.op) | SAssign (is_set : bool) (vs : list Z).

Definition set_step (vld : Z -> option Z) (s : list Z) (so : sop) : sobs :=
  match so with
  | SOp o => s_view (S.step vld s o)
  | SAssign is vs =>                            (* Set.validate, then TraitSetObject.__init__ *)
      if is then match S.vld_all vld vs with
                 | Some ys => (S.Ok, ys, 0%nat, None)
                 | None => (S.Raise S.TraitError, s, 0%nat, None)
                 end
      else (S.Raise S.TraitError, s, 0%nat, None)
  end.

Fixpoint set_run vld (s : list Z) (ops : list sop) : list (sop * sobs) :=
  match ops with
  | [] => []
  | o :: r => let ob := set_step vld s o in (o, ob) :: set_run vld (so_after ob) r
  end.

(* ---------------- Dict(K, V) ---------------- *)
Definition dobs := (D.outcome * amap * nat)%type.
Definition d_view (ob : D.obs) : dobs := (D.o_out ob, D.o_after ob, List.length (D.o_events ob)).
Definition do_out (ob : dobs) : D.outcome := fst (fst ob).
Definition do_after (ob : dobs) : amap := snd (fst ob).
Definition do_nev (ob : dobs) : nat := snd ob.

Inductive dop := DOp (o : D.op) | DAssign (is_dict : bool) (ps : list (Z * Z))
| DUpdateKw (ps kw : list (Z * Z)).     (* update called with keyword arguments kw (and a mapping ps): update takes one positional argument only *)

(* {key_validator(k): value_validator(v) for k, v in items}: the first rejection aborts *)
Fixpoint vld_pairs (kv vv : Z -> option Z) (ps : list (Z * Z)) : option (list (Z * Z)) :=
  match ps with
  | [] => Some []
  | (k, v) :: r =>
      match kv k with
      | None => None
      | Some k' => match vv v with
                   | None => None
                   | Some v' => match vld_pairs kv vv r with None => None | Some r' => Some ((k', v') :: r') end
                   end
      end
  end.

Definition dict_step (kv vv : Z -> option Z) (m : amap) (o : dop) : dobs :=
  match o with
  | DOp o => d_view (D.step kv vv D.Plain m o)
  | DAssign isd ps =>                           (* Dict.validate, then TraitDictObject.__init__ *)
      if isd then
        match vld_pairs kv vv (update_all ps []) with       (* value is a dict: unique raw keys *)
        | Some qs => (D.Ok, update_all qs [], 0%nat)
        | None => (D.Raise D.TraitError, m, 0%nat)
        end
      else (D.Raise D.TraitError, m, 0%nat)
  | DUpdateKw _ _ => (D.Raise D.TypeError, m, 0%nat)    (* trait_dict_object.py l.244 `def update(self, other)` *)
  end.

Fixpoint dict_run kv vv (m : amap) (ops : list dop) : list (dop * dobs) :=
  match ops with
  | [] => []
  | o :: r => let ob := dict_step kv vv m o in (o, ob) :: dict_run kv vv (do_after ob) r
  end.

(* ---------------- List(List(T)) ---------------- *)
(* a raw item offered to the outer list: a Python list of atoms, or something else *)
Inductive raw := RList (vs : list Z) | RBad.

Inductive nop :=
| NAppend (r : raw) | NExtend (rs : list raw) | NInsert (i : Z) (r : raw)
| NSetInt (i : Z) (r : raw) | NSetSlice (sl : slice) (rs : list raw)
| NDelInt (i : Z) | NDelSlice (sl : slice) | NPop (i : option Z)
| NReverse | NClear
| NAssign (rs : option (list raw))               (* obj.l = [...] / obj.l = <not a list> *)
| NInner (j : nat) (o : op).                      (* a mutator of the inner list obj.l[j] *)

(* outcome, contents, number of notifications (outer + inner lists) *)
Record nobs := mkN { n_out : res unit; n_after : list (list Z); n_events : nat }.

Section Nested.
  Variable vld : Z -> option Z.
  Variables imn omn : Z.
  Variables imx omx : option Z.

  (* the outer item validator: List.validate of the inner trait *)
  Definition ivld (r : raw) : option (list Z) :=
    match r with
    | RList vs => if len_ok imn imx (zlen vs) then vld_all vld vs else None
    | RBad => None
    end.
  Fixpoint ivld_all (rs : list raw) : option (list (list Z)) :=
    match rs with
    | [] => Some []
    | r :: t => match ivld r with
                | None => None
                | Some y => match ivld_all t with None => None | Some ys => Some (y :: ys) end
                end
    end.

  Definition nraise (e : exn) (l : list (list Z)) : nobs := mkN (Raise e) l 0.
  Definition nok (l : list (list Z)) (n : nat) : nobs := mkN (Ok tt) l n.
  Definition guard (n : Z) (l : list (list Z)) (k : nobs) : nobs :=
    if len_ok omn omx n then k else nraise TraitError l.
  Definition b2n (b : bool) : nat := if b then 1%nat else 0%nat.

  Definition nested_step (l : list (list Z)) (o : nop) : nobs :=
    let len := zlen l in
    match o with
    | NAppend r =>
        guard (len + 1) l
          match ivld r with None => nraise TraitError l | Some y => nok (l ++ [y]) 1 end
    | NExtend rs =>
        guard (len + zlen rs) l
          match ivld_all rs with None => nraise TraitError l | Some ys => nok (l ++ ys) (b2n (nonempty ys)) end
    | NInsert i r =>
        guard (len + 1) l
          match ivld r with None => nraise TraitError l | Some y => nok (insert l i y) 1 end
    | NSetInt i r =>
        match ivld r with
        | None => nraise TraitError l
        | Some y => match setitem_int l i y with Raise e => nraise e l | Ok l' => nok l' 1 end
        end
    | NSetSlice sl rs =>
        match getitem_slice l sl with
        | Raise e => nraise e l
        | Ok removed =>
            let k :=
              match ivld_all rs with
              | None => nraise TraitError l
              | Some ys => match setitem_slice l sl ys with
                           | Raise e => nraise e l
                           | Ok l' => nok l' (b2n (nonempty ys || nonempty removed))
                           end
              end in
            if is_step1 sl then guard (len - zlen removed + zlen rs) l k
            else if zlen rs =? zlen removed then k else nraise ValueError l
        end
    | NDelInt i =>
        guard (Z.max (len - 1) 0) l
          match delitem_int l i with Raise e => nraise e l | Ok l' => nok l' 1 end
    | NDelSlice sl =>
        match getitem_slice l sl with
        | Raise e => nraise e l
        | Ok removed =>
            guard (Z.max (len - zlen removed) 0) l
              match delitem_slice l sl with Raise e => nraise e l | Ok l' => nok l' (b2n (nonempty removed)) end
        end
    | NPop oi =>
        guard (Z.max (len - 1) 0) l
          match pop l (match oi with Some i => i | None => -1 end) with
          | Raise e => nraise e l
          | Ok (_, l') => nok l' 1
          end
    | NReverse => nok (rev l) (b2n (nonempty l))
    | NClear => guard 0 l (nok [] (b2n (nonempty l)))
    | NAssign None => nraise TraitError l
    | NAssign (Some rs) =>
        if len_ok omn omx (zlen rs) then
          match ivld_all rs with None => nraise TraitError l | Some ys => nok ys 0 end
        else nraise TraitError l
    | NInner j o =>
        match nth_error l j with
        | None => nraise IndexError l
        | Some inner =>
            let ob := tlo_step vld imn imx inner o in
            mkN (o_out ob) (set_nth j (o_after ob) l) (List.length (o_events ob))
        end
    end.

  Fixpoint nested_run (l : list (list Z)) (ops : list nop) : list (nop * nobs) :=
    match ops with
    | [] => []
    | o :: r => let ob := nested_step l o in (o, ob) :: nested_run (n_after ob) r
    end.
End Nested.

(* ---------------- Dict(K, List(T)) ---------------- *)
(* association list in insertion order, values are the inner lists *)
Definition ndict := list (Z * list Z).
Fixpoint nd_lookup (k : Z) (m : ndict) : option (list Z) :=
  match m with [] => None | (k', v) :: r => if k =? k' then Some v else nd_lookup k r end.
Fixpoint nd_set (k : Z) (v : list Z) (m : ndict) : ndict :=
  match m with
  | [] => [(k, v)]
  | (k', v') :: r => if k =? k' then (k, v) :: r else (k', v') :: nd_set k v r
  end.
Definition nd_remove (k : Z) (m : ndict) : ndict := filter (fun p => negb (k =? fst p)) m.
Definition nd_update (ps m : ndict) : ndict := fold_left (fun acc p => nd_set (fst p) (snd p) acc) ps m.

Inductive ndop :=
| NDSetItem (k : Z) (r : raw) | NDUpdate (ps : list (Z * raw)) | NDSetDefault (k : Z) (r : raw)
| NDDelItem (k : Z) | NDPop (k : Z) | NDClear
| NDAssign (ps : list (Z * raw))
| NDInner (k : Z) (o : op).                      (* a mutator of the inner list obj.d[k] *)

Record ndobs := mkND { nd_out : res unit; nd_after : ndict; nd_events : nat }.

Section NDict.
  Variable kv vld : Z -> option Z.
  Variable imn : Z.
  Variable imx : option Z.

  Definition ndraise (e : exn) (m : ndict) : ndobs := mkND (Raise e) m 0.
  Definition ndok (m : ndict) (n : nat) : ndobs := mkND (Ok tt) m n.

  (* {key_validator(k): value_validator(v) for k, v in items} / the loop of update *)
  Fixpoint nd_vld_pairs (ps : list (Z * raw)) : option ndict :=
    match ps with
    | [] => Some []
    | (k, r) :: t =>
        match kv k with
        | None => None
        | Some k' => match ivld vld imn imx r with
                     | None => None
                     | Some y => match nd_vld_pairs t with None => None | Some t' => Some ((k', y) :: t') end
                     end
        end
    end.

  Definition ndict_step (m : ndict) (o : ndop) : ndobs :=
    match o with
    | NDSetItem k r =>                               (* TraitDict.__setitem__, l.159-183 *)
        match kv k with
        | None => ndraise TraitError m
        | Some k' => match ivld vld imn imx r with
                     | None => ndraise TraitError m
                     | Some y => ndok (nd_set k' y m) 1
                     end
        end
    | NDUpdate ps =>                                 (* update with a dict argument, l.241-269 *)
        match nd_vld_pairs ps with
        | None => ndraise TraitError m
        | Some qs => ndok (nd_update qs m) (if nonempty qs then 1 else 0)
        end
    | NDSetDefault k r =>                            (* setdefault, l.271-296: raw key containment first *)
        match nd_lookup k m with
        | Some _ => ndok m 0
        | None =>
            match kv k with
            | None => ndraise TraitError m
            | Some k' => match ivld vld imn imx r with
                         | None => ndraise TraitError m
                         | Some y => ndok (nd_set k' y m) 1
                         end
            end
        end
    | NDDelItem k | NDPop k =>                       (* __delitem__ l.185-201 / pop(key) l.298-325: raw key *)
        match nd_lookup k m with
        | Some _ => ndok (nd_remove k m) 1
        | None => ndraise OtherError m
        end
    | NDClear => ndok [] (if nonempty m then 1 else 0)
    | NDAssign ps =>                                 (* Dict.validate + TraitDictObject.__init__ *)
        match nd_vld_pairs ps with
        | None => ndraise TraitError m
        | Some qs => ndok (nd_update qs []) 0
        end
    | NDInner k o =>
        match nd_lookup k m with
        | None => ndraise OtherError m
        | Some inner =>
            let ob := tlo_step vld imn imx inner o in
            mkND (o_out ob) (nd_set k (o_after ob) m) (List.length (o_events ob))
        end
    end.

  Fixpoint ndict_run (m : ndict) (ops : list ndop) : list (ndop * ndobs) :=
    match ops with
    | [] => []
    | o :: r => let ob := ndict_step m o in (o, ob) :: ndict_run (nd_after ob) r
    end.
End NDict.

(* ---------------- the mutating methods the op types enumerate ---------------- *)
Local Open Scope string_scope.
Definition op_method (o : op) : string :=
  match o with
  | SetInt _ _ | SetSlice _ _ | SetSliceN _ => "__setitem__" | DelInt _ | DelSlice _ => "__delitem__"
  | Append _ => "append" | Extend _ | ExtendN => "extend" | Iadd _ => "__iadd__" | Imul _ | ImulQ _ _ => "__imul__"
  | Insert _ _ | InsertX _ _ => "insert" | Pop _ | PopX _ => "pop" | ImulX _ => "__imul__" | Remove _ => "remove" | Reverse => "reverse"
  | Sort _ _ | SortPos => "sort" | Clear => "clear"
  end.
Definition list_mutators : list string :=
  ["__delitem__"; "__iadd__"; "__imul__"; "__setitem__"; "append"; "clear"; "extend"; "insert"; "pop";
   "remove"; "reverse"; "sort"].

Definition sop_method (o : S.op) : string :=
  match o with
  | S.Add _ => "add" | S.Discard _ => "discard" | S.Remove _ => "remove" | S.Pop _ => "pop"
  | S.Clear => "clear" | S.Update _ => "update" | S.Ior _ => "__ior__" | S.Iand _ => "__iand__"
  | S.Isub _ => "__isub__" | S.Ixor _ => "__ixor__" | S.DiffUpdate _ => "difference_update"
  | S.InterUpdate _ => "intersection_update" | S.SymDiffUpdate _ => "symmetric_difference_update"
  | S.Copy _ => "copy"
  end.
Definition set_mutators : list string :=
  ["__iand__"; "__ior__"; "__isub__"; "__ixor__"; "add"; "clear"; "difference_update"; "discard";
   "intersection_update"; "pop"; "remove"; "symmetric_difference_update"; "update"].

Definition dop_method (o : D.op) : string :=
  match o with
  | D.SetItem _ _ => "__setitem__" | D.DelItem _ => "__delitem__" | D.Update _ _ => "update"
  | D.Ior _ _ => "__ior__" | D.SetDefault _ _ => "setdefault" | D.Pop _ _ => "pop"
  | D.PopItem => "popitem" | D.Clear => "clear"
  end.
Definition dict_mutators : list string :=
  ["__delitem__"; "__ior__"; "__setitem__"; "clear"; "pop"; "popitem"; "setdefault"; "update"].
