(* C04 — the property as boolean checkers on one observed history, per container kind.
   They do not mention the step functions of the models: they are applied verbatim to
   the observations recorded from the implementation and proved of the models in Proofs.v.
   [dom] is the range of the inner trait (after its documented conversion), [acc] says
   whether the inner trait accepts a raw value.  Clause codes:
     1 an element / key / value / member outside the inner trait's range is stored
     2 the length is outside minlen..maxlen
       (1 and 2 are reported at the step that breaks the invariant: they compare the state
        after the step with a state before that satisfied it; the initial state is checked
        by the *_hist functions at step 0 through the start-state clause 6)
     3 TraitError raised, but the contents changed or somebody was notified
     4 another exception raised (IndexError/ValueError/KeyError/TypeError of the built-in),
       but the contents changed or somebody was notified
     5 a value the inner trait rejects was offered to be stored and nothing was raised *)
From Coq Require Import ZArith List Bool.
From TV Require Import Common.PySlice Common.PyList Common.LSet Common.LMap Common.Harness
  C05.Model C05.Law C04.Model.
Import ListNotations.
Local Open Scope Z_scope.

Definition is_trait_error (o : res unit) : bool := match o with Raise TraitError => true | _ => false end.
Definition lifted (i : Z) (cs : list Z) : list Z := map (fun c => 100 * i + c) cs.
(* clause 6: the value the history starts from (the result of the first whole-value
   assignment) already violates the invariant *)
Definition start_ok (b : bool) : list Z := chk 6 b.

(* ---------------- lists ---------------- *)
Section ListLaw.
  Variable dom acc : Z -> bool.
  Variable mn : Z.
  Variable mx : option Z.

  Definition list_ok (l : list Z) : bool := forallb dom l && len_ok mn mx (zlen l).

  Definition offered (o : op) : list Z :=
    match o with
    | SetInt _ v | Append v | Insert _ v | InsertX _ v => [v]
    | SetSlice _ vs | Extend vs | Iadd vs => vs
    | _ => []
    end.
  Definition loffered (lo : lop) : list Z :=
    match lo with LOp o => offered o | LAssign _ vs => vs end.

  Definition law_list_step (before : list Z) (lo : lop) (ob : obs) : list Z :=
    let same := zlist_eqb (o_after ob) before && is_nil (o_events ob) in
    chk 1 (negb (forallb dom before) || forallb dom (o_after ob))
    ++ chk 2 (negb (len_ok mn mx (zlen before)) || len_ok mn mx (zlen (o_after ob)))
    ++ chk 3 (negb (is_trait_error (o_out ob)) || same)
    ++ chk 4 (negb (is_raise (o_out ob)) || same)
    ++ chk 5 (forallb acc (loffered lo) || is_raise (o_out ob)).

  Fixpoint law_list_hist (i : Z) (before : list Z) (h : list (lop * obs)) : list Z :=
    match h with
    | [] => []
    | (o, ob) :: r => lifted i (law_list_step before o ob) ++ law_list_hist (i + 1) (o_after ob) r
    end.
End ListLaw.

(* ---------------- sets ---------------- *)
Definition s_is_raise (o : S.outcome) : bool := match o with S.Ok => false | S.Raise _ => true end.
Definition s_is_trait_error (o : S.outcome) : bool := match o with S.Raise S.TraitError => true | _ => false end.

Section SetLaw.
  Variable dom acc : Z -> bool.

  Definition s_arg (a : S.arg) : list Z := match a with S.ASet l | S.AList l => l end.
  (* ^= validates only the members that are not removed; the others validate every member *)
  Definition s_offered (before : list Z) (o : S.op) : list Z :=
    match o with
    | S.Add x => [x]
    | S.Update args => concat args
    | S.Ior (S.ASet l) => l
    | S.Ixor (S.ASet l) | S.SymDiffUpdate l => diff l before
    | _ => []
    end.
  Definition so_offered (before : list Z) (so : sop) : list Z :=
    match so with SOp o => s_offered before o | SAssign _ vs => vs end.

  Definition law_set_step (before : list Z) (so : sop) (ob : sobs) : list Z :=
    let same := seteq (so_after ob) before && Nat.eqb (so_nev ob) 0 in
    chk 1 (negb (forallb dom before) || forallb dom (so_after ob))
    ++ chk 3 (negb (s_is_trait_error (so_out ob)) || same)
    ++ chk 4 (negb (s_is_raise (so_out ob)) || same)
    ++ chk 5 (forallb acc (so_offered before so) || s_is_raise (so_out ob)).

  Fixpoint law_set_hist (i : Z) (before : list Z) (h : list (sop * sobs)) : list Z :=
    match h with
    | [] => []
    | (o, ob) :: r => lifted i (law_set_step before o ob) ++ law_set_hist (i + 1) (so_after ob) r
    end.
End SetLaw.

(* ---------------- dicts ---------------- *)
Definition d_is_raise (o : D.outcome) : bool := match o with D.Ok => false | D.Raise _ => true end.
Definition d_is_trait_error (o : D.outcome) : bool := match o with D.Raise D.TraitError => true | _ => false end.

Section DictLaw.
  Variable kdom kacc vdom vacc : Z -> bool.

  Definition dict_ok (m : amap) : bool := forallb (fun p => kdom (fst p) && vdom (snd p)) m.

  (* pairs that the operation validates (setdefault on a present raw key validates nothing) *)
  Definition d_offered (before : amap) (o : D.op) : list (Z * Z) :=
    match o with
    | D.SetItem k v => [(k, v)]
    | D.Update asmap ps | D.Ior asmap ps => if asmap then update_all ps [] else ps
    | D.SetDefault k v => if has k before then [] else [(k, v)]
    | _ => []
    end.
  Definition do_offered (before : amap) (o : dop) : list (Z * Z) :=
    match o with DOp o => d_offered before o | DAssign _ ps => update_all ps [] | DUpdateKw ps kw => ps ++ kw end.

  Definition law_dict_step (before : amap) (o : dop) (ob : dobs) : list Z :=
    let same := mapeq (do_after ob) before && Nat.eqb (do_nev ob) 0 in
    chk 1 (negb (dict_ok before) || dict_ok (do_after ob))
    ++ chk 3 (negb (d_is_trait_error (do_out ob)) || same)
    ++ chk 4 (negb (d_is_raise (do_out ob)) || same)
    ++ chk 5 (forallb (fun p => kacc (fst p) && vacc (snd p)) (do_offered before o) || d_is_raise (do_out ob)).

  Fixpoint law_dict_hist (i : Z) (before : amap) (h : list (dop * dobs)) : list Z :=
    match h with
    | [] => []
    | (o, ob) :: r => lifted i (law_dict_step before o ob) ++ law_dict_hist (i + 1) (do_after ob) r
    end.
End DictLaw.

(* ---------------- List(List(T)) ---------------- *)
Section NestedLaw.
  Variable dom acc : Z -> bool.
  Variables imn omn : Z.
  Variables imx omx : option Z.

  Definition inner_ok (l : list Z) : bool := forallb dom l && len_ok imn imx (zlen l).
  Definition nested_ok (l : list (list Z)) : bool := forallb inner_ok l && len_ok omn omx (zlen l).
  Definition nl_eqb := list_eqb zlist_eqb.

  (* a raw item the outer trait must reject *)
  Definition raw_acc (r : raw) : bool :=
    match r with RList vs => forallb acc vs && len_ok imn imx (zlen vs) | RBad => false end.
  Definition n_offered (o : nop) : list raw :=
    match o with
    | NAppend r | NInsert _ r | NSetInt _ r => [r]
    | NExtend rs | NSetSlice _ rs | NAssign (Some rs) => rs
    | NAssign None => [RBad]
    | _ => []
    end.
  Definition n_inner_offered (o : nop) : list Z := match o with NInner _ io => offered io | _ => [] end.

  Definition law_nested_step (before : list (list Z)) (o : nop) (ob : nobs) : list Z :=
    let same := nl_eqb (n_after ob) before && Nat.eqb (n_events ob) 0 in
    chk 1 (negb (forallb (forallb dom) before) || forallb (forallb dom) (n_after ob))
    ++ chk 2 (negb (forallb (fun l => len_ok imn imx (zlen l)) before && len_ok omn omx (zlen before))
              || (forallb (fun l => len_ok imn imx (zlen l)) (n_after ob) && len_ok omn omx (zlen (n_after ob))))
    ++ chk 3 (negb (is_trait_error (n_out ob)) || same)
    ++ chk 4 (negb (is_raise (n_out ob)) || same)
    ++ chk 5 ((forallb raw_acc (n_offered o) && forallb acc (n_inner_offered o)) || is_raise (n_out ob)).

  Fixpoint law_nested_hist (i : Z) (before : list (list Z)) (h : list (nop * nobs)) : list Z :=
    match h with
    | [] => []
    | (o, ob) :: r => lifted i (law_nested_step before o ob) ++ law_nested_hist (i + 1) (n_after ob) r
    end.
End NestedLaw.

(* ---------------- Dict(K, List(T)) ---------------- *)
Section NDictLaw.
  Variable kdom kacc dom acc : Z -> bool.
  Variable imn : Z.
  Variable imx : option Z.

  Definition nd_eqb (a b : ndict) : bool :=
    list_eqb (fun p q => (fst p =? fst q) && zlist_eqb (snd p) (snd q)) a b.
  Definition ndict_ok (m : ndict) : bool :=
    forallb (fun p => kdom (fst p) && forallb dom (snd p) && len_ok imn imx (zlen (snd p))) m.

  Definition nd_offered (before : ndict) (o : ndop) : list (Z * raw) :=
    match o with
    | NDSetItem k r => [(k, r)]
    | NDUpdate ps | NDAssign ps => ps
    | NDSetDefault k r => match nd_lookup k before with Some _ => [] | None => [(k, r)] end
    | _ => []
    end.
  Definition nd_inner_offered (o : ndop) : list Z := match o with NDInner _ io => offered io | _ => [] end.

  Definition law_ndict_step (before : ndict) (o : ndop) (ob : ndobs) : list Z :=
    let same := nd_eqb (nd_after ob) before && Nat.eqb (nd_events ob) 0 in
    chk 1 (negb (ndict_ok before) || ndict_ok (nd_after ob))
    ++ chk 3 (negb (is_trait_error (nd_out ob)) || same)
    ++ chk 4 (negb (is_raise (nd_out ob)) || same)
    ++ chk 5 ((forallb (fun p => kacc (fst p) && raw_acc acc imn imx (snd p)) (nd_offered before o)
               && forallb acc (nd_inner_offered o)) || is_raise (nd_out ob)).

  Fixpoint law_ndict_hist (i : Z) (before : ndict) (h : list (ndop * ndobs)) : list Z :=
    match h with
    | [] => []
    | (o, ob) :: r => lifted i (law_ndict_step before o ob) ++ law_ndict_hist (i + 1) (nd_after ob) r
    end.
End NDictLaw.
