(* C04 — property theorems for arbitrary nesting depth (List(List(... List(T)))), every level with
   its own bounds, every inner trait of the harness, every path, every history. *)
From Coq Require Import ZArith List Bool.
From TV Require Import Common.PySlice Common.PyList Common.Harness C05.Normalize C05.Model C05.Law
  C04.Model C04.Law C04.Corr C04.Deep C04.DeepProofs.
Import ListNotations.
Local Open Scope Z_scope.

(* after every history the trait value satisfies the invariant at every depth *)
Theorem inv_any_depth_reachable :
  forall (t : ttype) (ops : list dpop) (x : item),
    wfb t x = true -> Forall (fun p => wfb t (dp_after (snd p)) = true) (deep_run t x ops).
Proof. exact deep_inv_reachable. Qed.
Print Assumptions inv_any_depth_reachable.

Theorem any_depth_failing_op_inert :
  forall (t : ttype) (x : item) (o : dpop) (e : exn),
    dp_out (deep_step t x o) = Raise e -> dp_after (deep_step t x o) = x /\ dp_events (deep_step t x o) = 0%nat.
Proof. exact deep_inert. Qed.
Print Assumptions any_depth_failing_op_inert.

Theorem any_depth_law_holds_on_every_history :
  forall (t : ttype) (ops : list dpop) (x : item) (i : Z),
    wfb t x = true -> law_deep_hist t i x (deep_run t x ops) = [].
Proof. exact deep_law_hist. Qed.
Print Assumptions any_depth_law_holds_on_every_history.

(* what a validated value is *)
Theorem validated_values_satisfy_the_invariant :
  forall (t : ttype) (raw y : item), validate t raw = Some y -> wfb t y = true.
Proof. exact validate_wf. Qed.
Print Assumptions validated_values_satisfy_the_invariant.

(* Non-vacuity: depth 3, bounds at every level, a converting atom trait; refusals for an
   invalid atom two levels down, for an illegal inner length and for a non-list, and successes *)
Example depth3_nontrivial :
  let t := TList (TList (TList (TAtom VCInt) 0 (Some 2)) 1 None) 1 (Some 2) in
  let x := Lst [Lst [Lst [Atom 1]; Lst []]] in
  let h := deep_run t x
             [DPath [0%nat; 0%nat] (GAppend (Atom 105)); DPath [0%nat; 0%nat] (GAppend (Atom 3));
              DPath [0%nat; 1%nat] (GAppend (Atom 200)); DPath [0%nat] (GSetInt 1 (Lst [Atom 1; Atom 2; Atom 3]));
              DPath [] (GAppend (Atom 7)); DPath [] (GAppend (Lst [Lst [Atom 109]])); DPath [] (GAppend (Lst [Lst []]));
              DPath [0%nat] GClear; DPAssign (Lst [Lst [Lst [Atom 4; Atom 200]]]); DPAssign (Lst [Lst [Lst [Atom 104]]])] in
  wfb t x = true /\
  map (fun p => dp_out (snd p)) h =
    [Ok tt; Raise TraitError; Raise TraitError; Raise TraitError; Raise TraitError; Ok tt; Raise TraitError;
     Raise TraitError; Raise TraitError; Ok tt] /\
  dp_after (snd (last h (DPAssign x, mkDP (Ok tt) x 0))) = Lst [Lst [Lst [Atom 4]]].
Proof. vm_compute. repeat split; reflexivity. Qed.
