(* C04 — property theorems for arbitrary nesting of List(...) (own bounds at every level) and Dict(K, ...) over the
   inner traits of the harness: every trait type, every path (list indices and dict keys), every mutator of list and
   dict at the end of the path, whole-value assignment, every history. *)
From Coq Require Import ZArith List Bool.
From TV Require Import Common.PySlice Common.PyList Common.Harness C05.Normalize C05.Model C05.Law
  C04.Model C04.Law C04.Corr C04.Deep C04.DeepProofs.
Import ListNotations.
Local Open Scope Z_scope.

(* after every history the trait value satisfies the invariant at every depth *)
Theorem inv_any_depth_reachable :
  forall (t : ttype) (ops : list dpop) (x : item),
    wfb t x = true -> Forall (fun p => wfb t (dp_after (snd p)) = true) (deep_run t x ops).
Proof. exact deep_inv_reachable. Qed.
Print Assumptions inv_any_depth_reachable.

Theorem any_depth_failing_op_inert :
  forall (t : ttype) (x : item) (o : dpop) (e : exn),
    dp_out (deep_step t x o) = Raise e -> dp_after (deep_step t x o) = x /\ dp_events (deep_step t x o) = 0%nat.
Proof. exact deep_inert. Qed.
Print Assumptions any_depth_failing_op_inert.

Theorem any_depth_law_holds_on_every_history :
  forall (t : ttype) (ops : list dpop) (x : item) (i : Z),
    wfb t x = true -> law_deep_hist t i x (deep_run t x ops) = [].
Proof. exact deep_law_hist. Qed.
Print Assumptions any_depth_law_holds_on_every_history.

(* what a validated value is *)
Theorem validated_values_satisfy_the_invariant :
  forall (t : ttype) (raw y : item), validate t raw = Some y -> wfb t y = true.
Proof. exact validate_wf. Qed.
Print Assumptions validated_values_satisfy_the_invariant.

(* Non-vacuity: depth 3, bounds at every level, a converting atom trait; refusals for an
   invalid atom two levels down, for an illegal inner length and for a non-list, and successes *)
Example depth3_nontrivial :
  let t := TList (TList (TList (TAtom VCInt) 0 (Some 2)) 1 None) 1 (Some 2) in
  let x := Lst [Lst [Lst [Atom 1]; Lst []]] in
  let h := deep_run t x
             [DPath [PIdx 0%nat; PIdx 0%nat] (OnList (GAppend (Atom 105))); DPath [PIdx 0%nat; PIdx 0%nat] (OnList (GAppend (Atom 3)));
              DPath [PIdx 0%nat; PIdx 1%nat] (OnList (GAppend (Atom 200))); DPath [PIdx 0%nat] (OnList (GSetInt 1 (Lst [Atom 1; Atom 2; Atom 3])));
              DPath [] (OnList (GAppend (Atom 7))); DPath [] (OnList (GAppend (Lst [Lst [Atom 109]]))); DPath [] (OnList (GAppend (Lst [Lst []])));
              DPath [PIdx 0%nat] (OnList GClear); DPAssign (Lst [Lst [Lst [Atom 4; Atom 200]]]); DPAssign (Lst [Lst [Lst [Atom 104]]])] in
  wfb t x = true /\
  map (fun p => dp_out (snd p)) h =
    [Ok tt; Raise TraitError; Raise TraitError; Raise TraitError; Raise TraitError; Ok tt; Raise TraitError;
     Raise TraitError; Raise TraitError; Ok tt] /\
  dp_after (snd (last h (DPAssign x, mkDP (Ok tt) x 0))) = Lst [Lst [Lst [Atom 4]]].
Proof. vm_compute. repeat split; reflexivity. Qed.

(* Non-vacuity: every list mutator (incl. remove, sort, *=) below the top level, and dict nodes: a
   Dict(CInt, Dict(Int, List(Int, maxlen=2))) value mutated through dict keys and list indices *)
Example all_mutators_and_dict_nodes :
  let tl := TList (TList (TAtom VInt) 0 (Some 4)) 0 None in
  let xl := Lst [Lst [Atom 3; Atom 1; Atom 2]; Lst [Atom 1]] in
  let hl := deep_run tl xl
              [DPath [PIdx 0%nat] (OnList (GSort false)); DPath [PIdx 0%nat] (OnList (GRemove (Atom 2)));
               DPath [PIdx 0%nat] (OnList (GImul 2)); DPath [PIdx 0%nat] (OnList (GImul 2));
               DPath [] (OnList (GSort false)); DPath [] (OnList (GRemove (Lst [Atom 1])))] in
  let td := TDict VCInt (TDict VInt (TList (TAtom VInt) 0 (Some 2))) in
  let xd := Dct [(1, Dct [(5, Lst [Atom 7])])] in
  let hd := deep_run td xd
              [DPath [PKey 1; PKey 5] (OnList (GAppend (Atom 8))); DPath [PKey 1; PKey 5] (OnList (GAppend (Atom 9)));
               DPath [PKey 1] (OnDict (DgSetItem 6 (Lst [Atom 1; Atom 2; Atom 3])));
               DPath [PKey 1] (OnDict (DgSetItem 106 (Lst [])));
               DPath [] (OnDict (DgSetItem 102 (Dct [(4, Lst [Atom 200])])));
               DPath [] (OnDict (DgSetItem 102 (Dct [(4, Lst [Atom 2])])));
               DPath [PKey 2; PKey 4] (OnList (GPop None)); DPath [PKey 9] (OnDict DgClear)] in
  wfb tl xl = true /\ wfb td xd = true /\
  map (fun p => dp_out (snd p)) hl = [Ok tt; Ok tt; Ok tt; Raise TraitError; Ok tt; Ok tt] /\
  dp_after (snd (last hl (DPAssign xl, mkDP (Ok tt) xl 0))) = Lst [Lst [Atom 1; Atom 3; Atom 1; Atom 3]] /\
  map (fun p => dp_out (snd p)) hd =
    [Ok tt; Raise TraitError; Raise TraitError; Raise TraitError; Raise TraitError; Ok tt; Ok tt; Raise OtherError] /\
  dp_after (snd (last hd (DPAssign xd, mkDP (Ok tt) xd 0))) = Dct [(1, Dct [(5, Lst [Atom 7; Atom 8])]); (2, Dct [(4, Lst [])])].
Proof. vm_compute. repeat split; reflexivity. Qed.
