(* C04 — property theorems only.  Each is closed by [exact] of a lemma of Proofs.v and
   followed by Print Assumptions.  [vld], [kv], [vv] range over every inner trait seen
   as a validator (accepting, rejecting, converting); [P] is any predicate that holds of
   everything a validator returns (instantiate with "is in the range of vld"); length
   bounds, lists, indices, slices and histories are unbounded. *)
From Coq Require Import ZArith List Bool String.
From TV Require Import Common.PySlice Common.PyList Common.LSet Common.LMap Common.Harness
  C05.Normalize C05.Model C05.Law C04.Model C04.Law C04.Proofs C04.Corr C04.DefaultProofs.
Import ListNotations.
Local Open Scope Z_scope.

Definition in_rng (vld : Z -> option Z) (x : Z) : Prop := exists y, vld y = Some x.

(* ---------- List(T, minlen, maxlen) ---------- *)
Theorem inv_list :
  forall (vld : Z -> option Z) (mn : Z) (mx : option Z) (l : list Z) (lo : lop),
    LInv (in_rng vld) mn mx l -> LInv (in_rng vld) mn mx (o_after (list_step vld mn mx l lo)).
Proof. intros vld. apply list_inv. intros x y H. exists x. exact H. Qed.
Print Assumptions inv_list.

Theorem inv_list_reachable :
  forall (vld : Z -> option Z) (mn : Z) (mx : option Z) (ops : list lop) (l : list Z),
    LInv (in_rng vld) mn mx l ->
    Forall (fun p => LInv (in_rng vld) mn mx (o_after (snd p))) (list_run vld mn mx l ops).
Proof. intros vld. apply list_inv_reachable. intros x y H. exists x. exact H. Qed.
Print Assumptions inv_list_reachable.

Theorem list_failing_op_inert :
  forall (vld : Z -> option Z) (mn : Z) (mx : option Z) (l : list Z) (lo : lop) (e : exn),
    o_out (list_step vld mn mx l lo) = Raise e ->
    o_after (list_step vld mn mx l lo) = l /\ o_events (list_step vld mn mx l lo) = [].
Proof. exact list_failing_inert. Qed.
Print Assumptions list_failing_op_inert.

Theorem list_law_holds_on_every_history :
  forall (vld : Z -> option Z) (dom acc : Z -> bool),
    (forall x y, vld x = Some y -> dom y = true) -> (forall x y, vld x = Some y -> acc x = true) ->
  forall (mn : Z) (mx : option Z) (ops : list lop) (l : list Z) (i : Z),
    list_ok dom mn mx l = true -> law_list_hist dom acc mn mx i l (list_run vld mn mx l ops) = [].
Proof. exact list_law_hist. Qed.
Print Assumptions list_law_holds_on_every_history.

(* ---------- Set(T) ---------- *)
Theorem inv_set_reachable :
  forall (vld : Z -> option Z) (ops : list sop) (s : list Z),
    Forall (in_rng vld) s -> Forall (fun p => Forall (in_rng vld) (so_after (snd p))) (set_run vld s ops).
Proof. intros vld. apply set_inv_reachable. intros x y H. exists x. exact H. Qed.
Print Assumptions inv_set_reachable.

Theorem set_failing_op_inert :
  forall (vld : Z -> option Z) (s : list Z) (so : sop) (e : S.exn),
    so_out (set_step vld s so) = S.Raise e ->
    so_after (set_step vld s so) = s /\ so_nev (set_step vld s so) = 0%nat.
Proof. exact set_failing_inert. Qed.
Print Assumptions set_failing_op_inert.

Theorem set_law_holds_on_every_history :
  forall (vld : Z -> option Z) (dom acc : Z -> bool),
    (forall x y, vld x = Some y -> dom y = true) -> (forall x y, vld x = Some y -> acc x = true) ->
  forall (ops : list sop) (s : list Z) (i : Z),
    forallb dom s = true -> law_set_hist dom acc i s (set_run vld s ops) = [].
Proof. exact set_law_hist. Qed.
Print Assumptions set_law_holds_on_every_history.

(* ---------- Dict(K, V) ---------- *)
Theorem inv_dict_reachable :
  forall (kv vv : Z -> option Z) (ops : list dop) (m : amap),
    DInv (in_rng kv) (in_rng vv) m ->
    Forall (fun p => DInv (in_rng kv) (in_rng vv) (do_after (snd p))) (dict_run kv vv m ops).
Proof. intros kv vv. apply dict_inv_reachable; intros x y H; exists x; exact H. Qed.
Print Assumptions inv_dict_reachable.

Theorem dict_failing_op_inert :
  forall (kv vv : Z -> option Z) (m : amap) (o : dop) (e : D.exn),
    do_out (dict_step kv vv m o) = D.Raise e ->
    do_after (dict_step kv vv m o) = m /\ do_nev (dict_step kv vv m o) = 0%nat.
Proof. exact dict_failing_inert. Qed.
Print Assumptions dict_failing_op_inert.

Theorem dict_law_holds_on_every_history :
  forall (kv vv : Z -> option Z) (kdom kacc vdom vacc : Z -> bool),
    (forall x y, kv x = Some y -> kdom y = true) -> (forall x y, vv x = Some y -> vdom y = true) ->
    (forall x y, kv x = Some y -> kacc x = true) -> (forall x y, vv x = Some y -> vacc x = true) ->
  forall (ops : list dop) (m : amap) (i : Z),
    dict_ok kdom vdom m = true -> law_dict_hist kdom kacc vdom vacc i m (dict_run kv vv m ops) = [].
Proof. exact dict_law_hist. Qed.
Print Assumptions dict_law_holds_on_every_history.

(* ---------- List(List(T)) ---------- *)
Theorem inv_nested_reachable :
  forall (vld : Z -> option Z) (imn omn : Z) (imx omx : option Z) (ops : list nop) (l : list (list Z)),
    NInv (in_rng vld) imn omn imx omx l ->
    Forall (fun p => NInv (in_rng vld) imn omn imx omx (n_after (snd p))) (nested_run vld imn omn imx omx l ops).
Proof. intros vld. apply nested_inv_reachable. intros x y H. exists x. exact H. Qed.
Print Assumptions inv_nested_reachable.

Theorem nested_failing_op_inert :
  forall (vld : Z -> option Z) (imn omn : Z) (imx omx : option Z) (l : list (list Z)) (o : nop) (e : exn),
    n_out (nested_step vld imn omn imx omx l o) = Raise e ->
    n_after (nested_step vld imn omn imx omx l o) = l /\ n_events (nested_step vld imn omn imx omx l o) = 0%nat.
Proof. exact nested_failing_inert. Qed.
Print Assumptions nested_failing_op_inert.

Theorem nested_law_holds_on_every_history :
  forall (vld : Z -> option Z) (dom acc : Z -> bool),
    (forall x y, vld x = Some y -> dom y = true) -> (forall x y, vld x = Some y -> acc x = true) ->
  forall (imn omn : Z) (imx omx : option Z) (ops : list nop) (l : list (list Z)) (i : Z),
    nested_ok dom imn omn imx omx l = true ->
    law_nested_hist dom acc imn omn imx omx i l (nested_run vld imn omn imx omx l ops) = [].
Proof. exact nested_law_hist. Qed.
Print Assumptions nested_law_holds_on_every_history.

(* ---------- Dict(K, List(T)) ---------- *)
Theorem inv_dict_of_lists_reachable :
  forall (kv vld : Z -> option Z) (imn : Z) (imx : option Z) (ops : list ndop) (m : ndict),
    NDInv (in_rng kv) (in_rng vld) imn imx m ->
    Forall (fun p => NDInv (in_rng kv) (in_rng vld) imn imx (nd_after (snd p))) (ndict_run kv vld imn imx m ops).
Proof. intros kv vld. apply ndict_inv_reachable; intros x y H; exists x; exact H. Qed.
Print Assumptions inv_dict_of_lists_reachable.

Theorem dict_of_lists_failing_op_inert :
  forall (kv vld : Z -> option Z) (imn : Z) (imx : option Z) (m : ndict) (o : ndop) (e : exn),
    nd_out (ndict_step kv vld imn imx m o) = Raise e ->
    nd_after (ndict_step kv vld imn imx m o) = m /\ nd_events (ndict_step kv vld imn imx m o) = 0%nat.
Proof. exact ndict_failing_inert. Qed.
Print Assumptions dict_of_lists_failing_op_inert.

Theorem dict_of_lists_law_holds_on_every_history :
  forall (kv vld : Z -> option Z) (kdom kacc dom acc : Z -> bool),
    (forall x y, kv x = Some y -> kdom y = true) -> (forall x y, kv x = Some y -> kacc x = true) ->
    (forall x y, vld x = Some y -> dom y = true) -> (forall x y, vld x = Some y -> acc x = true) ->
  forall (imn : Z) (imx : option Z) (ops : list ndop) (m : ndict) (i : Z),
    ndict_ok kdom dom imn imx m = true ->
    law_ndict_hist kdom kacc dom acc imn imx i m (ndict_run kv vld imn imx m ops) = [].
Proof. exact ndict_law_hist. Qed.
Print Assumptions dict_of_lists_law_holds_on_every_history.

(* ---------- default values ---------- *)
(* a declared default that the model lets through on the first read satisfies the invariant
   (so a default outside the bounds / with an invalid item is refused) *)
Theorem materialised_default_satisfies_the_invariant :
  forall vk mn mx d l, default_list vk mn mx d = Ok l -> law_default (DfList vk mn mx d (Ok l)) = [].
Proof. exact default_list_valid. Qed.
Print Assumptions materialised_default_satisfies_the_invariant.

(* ---------- the op types enumerate the mutating methods ---------- *)
Theorem mutator_list_complete :
  (forall m, In m list_mutators -> exists o, op_method o = m) /\ (forall o, In (op_method o) list_mutators) /\
  (forall m, In m set_mutators -> exists o, sop_method o = m) /\
  (forall m, In m dict_mutators -> exists o, dop_method o = m) /\ (forall o, In (dop_method o) dict_mutators).
Proof.
  repeat split.
  - intros m H. cbn in H.
    repeat (destruct H as [<-|H]); try contradiction;
    [exists (DelInt 0)|exists (Iadd [])|exists (Imul 0)|exists (SetInt 0 0)|exists (Append 0)|exists Clear|exists (Extend [])
    |exists (Insert 0 0)|exists (Pop None)|exists (Remove 0)|exists Reverse|exists (Sort 0 false)]; reflexivity.
  - intros o. destruct o; cbn; tauto.
  - intros m H. cbn in H.
    repeat (destruct H as [<-|H]); try contradiction;
    [exists (S.Iand (S.ASet []))|exists (S.Ior (S.ASet []))|exists (S.Isub (S.ASet []))|exists (S.Ixor (S.ASet []))
    |exists (S.Add 0)|exists S.Clear|exists (S.DiffUpdate [])|exists (S.Discard 0)|exists (S.InterUpdate [])
    |exists (S.Pop None)|exists (S.Remove 0)|exists (S.SymDiffUpdate [])|exists (S.Update [])]; reflexivity.
  - intros m H. cbn in H.
    repeat (destruct H as [<-|H]); try contradiction;
    [exists (D.DelItem 0)|exists (D.Ior true [])|exists (D.SetItem 0 0)|exists D.Clear|exists (D.Pop 0 None)
    |exists D.PopItem|exists (D.SetDefault 0 0)|exists (D.Update true [])]; reflexivity.
  - intros o. destruct o; cbn; tauto.
Qed.
Print Assumptions mutator_list_complete.

(* the validators of the correspondence harness meet the hypotheses of the law theorems *)
Theorem harness_validators_fit :
  forall k x y, vld_of k x = Some y -> dom_of k y = true /\ acc_of k x = true.
Proof.
  intros k x y H. split; [eapply vld_of_dom; exact H|unfold acc_of; rewrite H; reflexivity].
Qed.
Print Assumptions harness_validators_fit.

(* Non-vacuity: a bounded list of a converting inner trait; the invariant holds at the start
   and the history contains refusals for both reasons and successful changes. *)
Example history_nontrivial :
  let h := list_run (vld_of VCInt) 1 (Some 3) [1; 2; 3]
             [LOp (Append 4); LOp (SetSlice (None, None, Some 2) [7; 200]); LOp (SetInt 0 105); LOp (Pop None);
              LOp (Pop None); LOp (Pop None); LAssign true [1; 2; 3; 4]; LAssign true [9; 108]] in
  list_ok (dom_of VCInt) 1 (Some 3) [1; 2; 3] = true /\
  map (fun p => o_out (snd p)) h =
    [Raise TraitError; Raise TraitError; Ok tt; Ok tt; Ok tt; Raise TraitError; Raise TraitError; Ok tt] /\
  map (fun p => o_after (snd p)) h =
    [[1; 2; 3]; [1; 2; 3]; [5; 2; 3]; [5; 2]; [5]; [5]; [5]; [9; 8]].
Proof. vm_compute. repeat split; reflexivity. Qed.
