(* C04 — default values: a default that can be read satisfies the invariant (the model of
   materialisation is validation; C04/Corr.v default_list / law_default). *)
From Coq Require Import ZArith List Bool Lia.
From TV Require Import Common.PySlice Common.PyList Common.PyListInv Common.LSet Common.LMap Common.Harness
  C05.Normalize C05.Model C05.Law C05.Proofs C04.Model C04.Law C04.Corr C04.Proofs.
Import ListNotations.
Local Open Scope Z_scope.

(* ================= default values (first read of a never-assigned trait) ================= *)
Lemma vld_of_dom k x y : vld_of k x = Some y -> dom_of k y = true.
Proof.
  destruct k; cbn; intros H.
  - reflexivity.
  - destruct ((0 <=? x) && (x <? 100)) eqn:E; inversion H; subst. exact E.
  - remember (vpart x) as v. clear Heqv.
    destruct ((0 <=? v) && (v <? 100)) eqn:E; [inversion H; subst; exact E|].
    destruct ((100 <=? v) && (v <? 200)) eqn:E2; [inversion H; subst; lia|].
    destruct ((300 <=? v) && (v <? 400)) eqn:E3; inversion H; subst. lia.
  - destruct ((0 <=? x) && (x <? 90)) eqn:E; inversion H; subst. lia.
  - destruct ((x =? 200) || (x =? 203)) eqn:E; inversion H; subst. exact E.
Qed.

Lemma default_list_valid vk mn mx d l :
  default_list vk mn mx d = Ok l -> law_default (DfList vk mn mx d (Ok l)) = [].
Proof.
  unfold default_list, law_default, start_ok. cbn [list_step].
  destruct (len_ok mn mx (zlen d)) eqn:L; cbn [andb]; [|discriminate].
  destruct (vld_all (vld_of vk) d) as [ys|] eqn:V; cbn; [|discriminate]. intros H. inversion H; subst.
  assert (list_ok (dom_of vk) mn mx l = true) as ->; [|reflexivity].
  unfold list_ok. apply andb_true_iff. split.
  - apply forallb_Forall. eapply (vld_all_P (vld_of vk) (fun x => dom_of vk x = true)); [|exact V].
    intros x y Hv. eapply vld_of_dom. exact Hv.
  - pose proof (vld_all_length (vld_of vk) d l V) as E. unfold zlen in *. rewrite E. exact L.
Qed.
