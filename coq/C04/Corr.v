(* C04 — correspondence: cases per container kind; the models are re-synchronised on the
   implementation's contents after every step. *)
From Coq Require Import ZArith List Bool String.
From TV Require Import Common.PySlice Common.PyList Common.LSet Common.LMap Common.Harness
  C05.Model C05.Law C05.Corr C04.Model C04.Law.
Import ListNotations.
Local Open Scope Z_scope.

(* range and acceptance of the harness validators (C05.Model.vld_of) *)
Definition dom_of (k : vkind) (x : Z) : bool :=
  match k with VAll => true | VInt | VCInt => (0 <=? x) && (x <? 100) | VInc => (1 <=? x) && (x <? 91)
  | VInst => (x =? 200) || (x =? 203) end.
Definition acc_of (k : vkind) (x : Z) : bool := match vld_of k x with Some _ => true | None => false end.

(* ---------- lists ---------- *)
Definition lcase := (vkind * Z * option Z * list Z * list (lop * obs))%type.

Fixpoint corr_list_hist (f : list Z -> lop -> obs) (i : Z) (s : list Z) (h : list (lop * obs)) : list Z :=
  match h with
  | [] => []
  | (o, ob) :: r => lifted i (obs_diff (f s o) ob) ++ corr_list_hist f (i + 1) (o_after ob) r
  end.
Definition corr_list (c : lcase) : list Z :=
  let '(vk, mn, mx, init, h) := c in corr_list_hist (list_step (vld_of vk) mn mx) 0 init h.
Definition law_list (c : lcase) : list Z :=
  let '(vk, mn, mx, init, h) := c in
  start_ok (list_ok (dom_of vk) mn mx init) ++ law_list_hist (dom_of vk) (acc_of vk) mn mx 0 init h.

(* ---------- sets ---------- *)
Definition scase := (vkind * list Z * list (sop * sobs))%type.

Definition s_exn_eqb (a b : S.exn) : bool :=
  match a, b with
  | S.KeyError, S.KeyError | S.TraitError, S.TraitError | S.TypeError, S.TypeError
  | S.AttributeError, S.AttributeError | S.OtherError, S.OtherError => true
  | _, _ => false
  end.
Definition s_out_eqb (a b : S.outcome) : bool :=
  match a, b with S.Ok, S.Ok => true | S.Raise x, S.Raise y => s_exn_eqb x y | _, _ => false end.

(* pop: the model removes the element the implementation returned *)
Definition with_hint (so : sop) (ret : option Z) : sop :=
  match so with SOp (S.Pop _) => SOp (S.Pop ret) | _ => so end.

Fixpoint corr_set_hist (vld : Z -> option Z) (i : Z) (s : list Z) (h : list (sop * sobs)) : list Z :=
  match h with
  | [] => []
  | (o, ob) :: r =>
      let '(out, after, nev, ret) := ob in
      let '(mout, mafter, mnev, mret) := set_step vld s (with_hint o ret) in
      lifted i (chk 1 (s_out_eqb mout out) ++ chk 2 (seteq mafter after)
                ++ chk 3 (Nat.eqb mnev nev) ++ chk 4 (opt_eqb Z.eqb mret ret))
      ++ corr_set_hist vld (i + 1) after r
  end.
Definition corr_set (c : scase) : list Z := let '(vk, init, h) := c in corr_set_hist (vld_of vk) 0 init h.
Definition law_set (c : scase) : list Z :=
  let '(vk, init, h) := c in start_ok (forallb (dom_of vk) init) ++ law_set_hist (dom_of vk) (acc_of vk) 0 init h.

(* ---------- dicts ---------- *)
Definition dcase := (vkind * vkind * amap * list (dop * dobs))%type.

Definition d_exn_eqb (a b : D.exn) : bool :=
  match a, b with
  | D.KeyError, D.KeyError | D.TraitError, D.TraitError | D.TypeError, D.TypeError
  | D.ValueError, D.ValueError | D.OtherError, D.OtherError => true
  | _, _ => false
  end.
Definition d_out_eqb (a b : D.outcome) : bool :=
  match a, b with D.Ok, D.Ok => true | D.Raise x, D.Raise y => d_exn_eqb x y | _, _ => false end.

Fixpoint corr_dict_hist (kv vv : Z -> option Z) (i : Z) (s : amap) (h : list (dop * dobs)) : list Z :=
  match h with
  | [] => []
  | (o, ob) :: r =>
      let '(out, after, nev) := ob in
      let '(mout, mafter, mnev) := dict_step kv vv s o in
      lifted i (chk 1 (d_out_eqb mout out) ++ chk 2 (mapeq mafter after) ++ chk 3 (Nat.eqb mnev nev))
      ++ corr_dict_hist kv vv (i + 1) after r
  end.
Definition corr_dict (c : dcase) : list Z :=
  let '(kk, vk, init, h) := c in corr_dict_hist (vld_of kk) (vld_of vk) 0 init h.
Definition law_dict (c : dcase) : list Z :=
  let '(kk, vk, init, h) := c in
  start_ok (dict_ok (dom_of kk) (dom_of vk) init)
  ++ law_dict_hist (dom_of kk) (acc_of kk) (dom_of vk) (acc_of vk) 0 init h.

(* ---------- List(List(T)) ---------- *)
Definition ncase := (vkind * (Z * option Z) * (Z * option Z) * list (list Z) * list (nop * nobs))%type.

Definition nobs_diff (m i : nobs) : list Z :=
  chk 1 (out_eqb (n_out m) (n_out i)) ++ chk 2 (nl_eqb (n_after m) (n_after i))
  ++ chk 3 (Nat.eqb (n_events m) (n_events i)).
Fixpoint corr_nested_hist (f : list (list Z) -> nop -> nobs) (i : Z) (s : list (list Z))
  (h : list (nop * nobs)) : list Z :=
  match h with
  | [] => []
  | (o, ob) :: r => lifted i (nobs_diff (f s o) ob) ++ corr_nested_hist f (i + 1) (n_after ob) r
  end.
Definition corr_nested (c : ncase) : list Z :=
  let '(vk, (imn, imx), (omn, omx), init, h) := c in
  corr_nested_hist (nested_step (vld_of vk) imn omn imx omx) 0 init h.
Definition law_nested (c : ncase) : list Z :=
  let '(vk, (imn, imx), (omn, omx), init, h) := c in
  start_ok (nested_ok (dom_of vk) imn omn imx omx init)
  ++ law_nested_hist (dom_of vk) (acc_of vk) imn omn imx omx 0 init h.

(* ---------- Dict(Str, List(T)) ---------- *)
(* keys are Str: the atoms 100..199, accepted unchanged *)
Definition kdom_str (x : Z) : bool := (100 <=? x) && (x <? 200).
Definition kv_str (x : Z) : option Z := if kdom_str x then Some x else None.
Definition ndcase := (vkind * (Z * option Z) * ndict * list (ndop * ndobs))%type.

Definition ndobs_diff (m i : ndobs) : list Z :=
  chk 1 (out_eqb (nd_out m) (nd_out i)) ++ chk 2 (nd_eqb (nd_after m) (nd_after i))
  ++ chk 3 (Nat.eqb (nd_events m) (nd_events i)).
Fixpoint corr_ndict_hist (f : ndict -> ndop -> ndobs) (i : Z) (s : ndict) (h : list (ndop * ndobs)) : list Z :=
  match h with
  | [] => []
  | (o, ob) :: r => lifted i (ndobs_diff (f s o) ob) ++ corr_ndict_hist f (i + 1) (nd_after ob) r
  end.
Definition corr_ndict (c : ndcase) : list Z :=
  let '(vk, (imn, imx), init, h) := c in corr_ndict_hist (ndict_step kv_str (vld_of vk) imn imx) 0 init h.
Definition law_ndict (c : ndcase) : list Z :=
  let '(vk, (imn, imx), init, h) := c in
  start_ok (ndict_ok kdom_str (dom_of vk) imn imx init)
  ++ law_ndict_hist kdom_str kdom_str (dom_of vk) (acc_of vk) imn imx 0 init h.

(* ---------- default values: the first read of a never-assigned trait ---------- *)
(* The declared default is turned into the container object on first access (TraitListObject /
   TraitSetObject / TraitDictObject constructors, not List.validate): it must either be refused
   (TraitError, nothing readable) or satisfy the invariant.  Observation: the read's outcome and,
   if it succeeded, the contents. *)
Inductive dfl :=
| DfList (vk : vkind) (mn : Z) (mx : option Z) (d : list Z) (ob : res (list Z))
| DfSet (vk : vkind) (d : list Z) (ob : res (list Z))
| DfDict (kk vk : vkind) (ps : amap) (ob : res amap).

Definition res_diff {A} (eqb : A -> A -> bool) (m i : res A) : list Z :=
  match m, i with
  | Ok a, Ok b => chk 2 (eqb a b)
  | Raise x, Raise y => chk 1 (exn_eqb x y)
  | _, _ => [1]
  end.

(* the model: materialising a default is validating it like an assigned value *)
Definition default_list (vk : vkind) (mn : Z) (mx : option Z) (d : list Z) : res (list Z) :=
  let ob := list_step (vld_of vk) mn mx [] (LAssign true d) in
  match o_out ob with Ok _ => Ok (o_after ob) | Raise e => Raise e end.
Definition default_set (vk : vkind) (d : list Z) : res (list Z) :=
  let ob := set_step (vld_of vk) [] (SAssign true d) in
  match so_out ob with S.Ok => Ok (so_after ob) | S.Raise _ => Raise TraitError end.
Definition default_dict (kk vk : vkind) (ps : amap) : res amap :=
  let ob := dict_step (vld_of kk) (vld_of vk) [] (DAssign true ps) in
  match do_out ob with D.Ok => Ok (do_after ob) | D.Raise _ => Raise TraitError end.

Definition corr_default (c : dfl) : list Z :=
  match c with
  | DfList vk mn mx d ob => res_diff zlist_eqb (default_list vk mn mx d) ob
  | DfSet vk d ob => res_diff seteq (default_set vk d) ob
  | DfDict kk vk ps ob => res_diff mapeq (default_dict kk vk ps) ob
  end.
(* clause 6: a readable default value violates the invariant *)
Definition law_default (c : dfl) : list Z :=
  match c with
  | DfList vk mn mx _ (Ok l) => start_ok (list_ok (dom_of vk) mn mx l)
  | DfSet vk _ (Ok s) => start_ok (forallb (dom_of vk) s)
  | DfDict kk vk _ (Ok m) => start_ok (dict_ok (dom_of kk) (dom_of vk) m)
  | _ => []
  end.
