(* C15 — the property: the documented language, its documented meaning, and the boolean law evaluated
   on one observation of parse / compile_str.  Nothing here uses handle_tree or create_graphs. *)
From Coq Require Import ZArith List Bool.
From TV Require Import Common.Harness C15.Model.
Import ListNotations.
Open Scope Z_scope.

(* ------------------------------------------------------------------ the grammar, rule by rule *)
(* [doc = false]: _dsl_grammar.lark as written (the ?-rules inline, brackets leave no node, left recursion kept):
       element:  trait | items | metadata | "[" parallel "]"
       series:   (series (notify|quiet))? element              series_terminal:   (series (notify|quiet))? (element | anytrait)
       parallel: (parallel ",")? series                         parallel_terminal: (parallel_terminal ",")? series_terminal
   [D_x doc false] are the plain rules, [D_x doc true] the _terminal variants; start = D_par doc true.
   [doc = true]: the documented language (manual: '"*" may only appear as a terminal item - one that is not followed
   directly or indirectly by a "." or ":" connector ... "[a.*, b.c]" is permitted'; grammar comment: '"b.*" and
   "[a:*,b]" are valid'): a bracket in terminal position contains a terminal parallel. *)
Inductive D_elem (doc : bool) : bool -> list tok -> tree -> Prop :=
| De_items b w : is_items w = true -> D_elem doc b [W w] TItems
| De_trait b w : is_items w = false -> D_elem doc b [W w] (TTrait w)
| De_meta b w : D_elem doc b [PLUS; W w] (TMeta w)
| De_any : D_elem doc true [STAR] TAny
| De_br b ts t : D_par doc (b && doc) ts t -> D_elem doc b (LBR :: ts ++ [RBR]) t
with D_ser (doc : bool) : bool -> list tok -> tree -> Prop :=
| Ds_one b ts t : D_elem doc b ts t -> D_ser doc b ts t
| Ds_cons b ts1 t1 c ts2 t2 :
    D_ser doc false ts1 t1 -> D_elem doc b ts2 t2 -> D_ser doc b (ts1 ++ TC c :: ts2) (TSeries t1 c t2)
with D_par (doc : bool) : bool -> list tok -> tree -> Prop :=
| Dp_one b ts t : D_ser doc b ts t -> D_par doc b ts t
| Dp_cons b ts1 t1 ts2 t2 :
    D_par doc b ts1 t1 -> D_ser doc b ts2 t2 -> D_par doc b (ts1 ++ COMMA :: ts2) (TPar t1 t2).

Definition D_start (ts : list tok) (t : tree) : Prop := D_par false true ts t.       (* the parser's grammar *)
Definition Doc_start (ts : list tok) (t : tree) : Prop := D_par true true ts t.      (* the documented language *)

(* the text level: a string belongs to the language iff it lexes to a derivable token list *)
Definition in_language (doc : bool) (s : list chr) (t : tree) : Prop :=
  exists ts, lex s = Some ts /\ D_par doc true ts t.

(* ------------------------------------------------------------------ the lexical layer, declaratively *)
(* NAME: /[a-zA-Z_]\w*/ with maximal munch, the seven one-character terminals, %ignore WS.
   [Spell ts s]: the text s spells the token list ts. *)
Fixpoint word_chars (cs : list chr) : option word :=
  match cs with
  | [] => Some []
  | (CStart c | CCont c) :: r => match word_chars r with Some w => Some (c :: w) | None => None end
  | _ => None
  end.
Definition starts_wordchar (s : list chr) : bool :=
  match s with (CStart _ | CCont _) :: _ => true | _ => false end.

Inductive Spell : list tok -> list chr -> Prop :=
| Sp_end : Spell [] []
| Sp_ws ts s : Spell ts s -> Spell ts (CWs :: s)                                   (* whitespace is ignored *)
| Sp_sym ts s x t : sym_of x = Some t -> Spell ts s -> Spell (t :: ts) (x :: s)
| Sp_word ts s c0 cs w :                                                           (* [a-zA-Z_] \w*, longest match *)
    word_chars cs = Some w -> starts_wordchar s = false -> Spell ts s ->
    Spell (W (c0 :: w) :: ts) (CStart c0 :: cs ++ s).

(* ------------------------------------------------------------------ the documented meaning *)
(* What a path element matches (manual, "Semantics of Traits DSL"). *)
Inductive matcher :=
| MTrait (w : word)        (* a trait of that name; an error if absent *)
| MItemsTrait              (* "items": a trait named items, if there is one *)
| MDictItems | MListItems | MSetItems   (* "items": the items of a dict / list / set, if the object is one *)
| MMeta (w : word)         (* "+name": every trait with that metadata *)
| MAnyTrait.               (* "*" *)

(* What follows an element on its path: a connector, or nothing (the element is last). *)
Inductive link := LEnd | LConn (c : conn).

(* "notification enabled on an element iff it is last or followed by '.'" *)
Definition notify_of (l : link) : bool :=
  match l with LEnd => true | LConn CDot => true | LConn CColon => false end.

(* The observed paths of an expression; [l] is what follows the whole expression.
   "a.b" / "a:b": a path of a, the connector, a path of b;  "a,b" and brackets: either;  "items": four ways. *)
Fixpoint raw_paths (t : tree) (l : link) : list (list (matcher * link)) :=
  match t with
  | TTrait w => [[(MTrait w, l)]]
  | TItems => [[(MItemsTrait, l)]; [(MDictItems, l)]; [(MListItems, l)]; [(MSetItems, l)]]
  | TMeta w => [[(MMeta w, l)]]
  | TAny => [[(MAnyTrait, l)]]
  | TSeries a c b => flat_map (fun p => map (app p) (raw_paths b l)) (raw_paths a (LConn c))
  | TPar a b => raw_paths a l ++ raw_paths b l
  end.

(* the observer the manual gives for a matcher (notification.rst, "Expression" section) *)
Definition node_of (ml : matcher * link) : node :=
  let n := notify_of (snd ml) in
  match fst ml with
  | MTrait w => NNamed w n false
  | MItemsTrait => NNamed items_word n true
  | MDictItems => NDict n true
  | MListItems => NList n true
  | MSetItems => NSet n true
  | MMeta w => NFilt n (FMeta w)
  | MAnyTrait => NFilt n FAny
  end.

Definition doc_paths_l (t : tree) (l : link) : list (list node) := map (map node_of) (raw_paths t l).
Definition doc_paths (t : tree) : list (list node) := doc_paths_l t LEnd.

(* the expression API (manual, "Expression" section): a.then(b) observes a path of a followed by a path of b,
   a | b observes either *)
Fixpoint paths (e : expr) : list (list node) :=
  match e with
  | ESingle n => [[n]]
  | ESeries a b => flat_map (fun p => map (app p) (paths b)) (paths a)
  | EPar a b => paths a ++ paths b
  end.

(* ------------------------------------------------------------------ the law on one observation *)
Definition path_eqb (p q : list node) : bool := list_eqb node_eqb p q.
Definition path_subset (a b : list (list node)) : bool := forallb (fun p => existsb (path_eqb p) b) a.
Definition path_set_eqb (a b : list (list node)) : bool := path_subset a b && path_subset b a.

Fixpoint has_dup (l : list (list node)) : bool :=
  match l with [] => false | p :: r => existsb (path_eqb p) r || has_dup r end.

(* is there a "*" inside brackets? (classifies a rejection as the listed finding F10) *)
Fixpoint star_in_brackets (depth : Z) (ts : list tok) : bool :=
  match ts with
  | [] => false
  | LBR :: r => star_in_brackets (depth + 1) r
  | RBR :: r => star_in_brackets (depth - 1) r
  | STAR :: r => (0 <? depth) || star_in_brackets depth r
  | _ :: r => star_in_brackets depth r
  end.

(* does the text contain a connector at all?  (compile_str can only meet the uniqueness check of ObserverGraph below
   a connector: a refusal of a connector-free text such as "a, a" is not the listed finding F17) *)
Fixpoint has_series (t : tree) : bool :=
  match t with
  | TSeries _ _ _ => true
  | TPar l r => has_series l || has_series r
  | _ => false
  end.

(* where a repeated pattern sits: among the alternatives that follow a connector (the right operand of some series:
   "a.[b,b]", "a.[b,b].c" - there the compiled alternatives become children of one ObserverGraph node, finding F17), or
   elsewhere (top level "x.y, x.y", a leading group "[a,a]:b") *)
Fixpoint dup_right_l (t : tree) (l : link) : bool :=      (* l: what follows t *)
  match t with
  | TSeries a c b => has_dup (doc_paths_l b l) || dup_right_l a (LConn c) || dup_right_l b l
  | TPar a b => dup_right_l a l || dup_right_l b l
  | _ => false
  end.
Definition dup_right (t : tree) : bool := dup_right_l t LEnd.
Fixpoint dup_right_e (e : expr) : bool :=
  match e with
  | ESeries a b => has_dup (paths b) || dup_right_e a || dup_right_e b
  | EPar a b => dup_right_e a || dup_right_e b
  | ESingle _ => false
  end.

Definition is_rejected (o : outcome) : bool := match o with Rejected => true | _ => false end.

(* the documented recogniser: lexer + the parser at doc = true (Proofs.v: it decides Doc_start) *)
Definition doc_parse (s : list chr) : option (list tok * tree) :=
  match lex s with
  | None => None
  | Some ts => match parse_toks_gen true ts with Some t => Some (ts, t) | None => None end
  end.

(* codes:
   1  in the documented language, rejected, and a "*" stands inside brackets        (F10)
   2  not in the documented language but accepted
   3  in the language, parsed, but compile_str raises; the alternatives after some connector repeat a pattern (F17)
   18 in the language, parsed, compile_str raises, a path is repeated but the text has no connector ("a, a")
   19 in the language, parsed, compile_str raises, a path is repeated, but not among the alternatives after a connector
      ("x.y, x.y", "[a,a]:b")
   4  accepted, but the observed paths (with notify flags) are not the documented ones
   5  in the language, parsed, compile_str raises although all denoted paths are distinct
   6  in the documented language, rejected, no "*" inside brackets
   11 an exception other than ValueError
   13 (Corr.law_codes) the answer for a text changes between calls: asked again, after the compiled graphs were
      used, after the lru caches were dropped
   14 (Corr.law_codes) the entry points contradict each other: parse rejects what compile_str or HasTraits.observe
      (alone or inside a list) accepts, or conversely, or compile_expr (parse s) is not what compile_str s returns *)
Definition law_single (s : list chr) (o : outcome) : list Z :=
  match o with Crashed => [11] | _ =>
  match doc_parse s with
  | None => chk 2 (is_rejected o)
  | Some (ts, t) =>
      match o with
      | Rejected => if star_in_brackets 0 ts then [1] else [6]
      | CompileError => if has_dup (doc_paths t)
                        then (if has_series t then (if dup_right t then [3] else [19]) else [18]) else [5]
      | Graphs gs => chk 4 (path_set_eqb (flat_map graph_paths gs) (doc_paths t))
      | Crashed => [11]
      end
  end end.

(* An expression built through the Python API (trait / metadata / anytrait / dict_items / list_items / set_items,
   then, |, join, the chaining methods) and compiled with compile_expr: same codes 3, 4, 5, 11. *)
Definition law_expr (e : expr) (o : outcome) : list Z :=
  match o with
  | Graphs gs => chk 4 (path_set_eqb (flat_map graph_paths gs) (paths e))
  | CompileError => if has_dup (paths e) then (if dup_right_e e then [3] else [19]) else [5]
  | _ => [11]
  end.

(* Two texts.  [same = true]: two spellings of one expression (whitespace at token boundaries, redundant brackets,
   regrouped series / parallel): equal patterns, element by element, by ObserverGraph.__eq__; [pyeq]/[hasheq] are
   what Python's own == and hash() said about the two compile_str results.  In every case Python-equal results
   must denote the same paths (otherwise removal by one text would take away the registration of another).
   7  one spelling accepted, the other not      8  graphs differ
   9  Python == false                          10  hashes differ
   12 Python == true although the observed paths differ
   15 (Corr.law_codes) a handler registered on a probe object by the first spelling could not be removed by the second *)
Definition same_class (a b : outcome) : bool :=
  match a, b with
  | Rejected, Rejected | CompileError, CompileError | Graphs _, Graphs _ | Crashed, Crashed => true
  | _, _ => false
  end.
Definition law_pair (same : bool) (o1 o2 : outcome) (pyeq hasheq : bool) : list Z :=
  (if same then chk 7 (same_class o1 o2) else [])
  ++ match o1, o2 with
     | Graphs g1, Graphs g2 =>
         (if same then chk 8 (list_eqb graph_eqb g1 g2) ++ chk 9 pyeq ++ chk 10 hasheq else [])
         ++ chk 12 (negb pyeq || path_set_eqb (flat_map graph_paths g1) (flat_map graph_paths g2))
     | _, _ => []
     end.

(* ------------------------------------------------------------------ which traits a pattern hooks: documented meaning *)
(* Manual: a name matches the trait of that name (an error if the object has none; "items" only if there is one);
   "items" also stands for the items of a list, the values of a dict, the items of a set - whichever the object is;
   "+metadata_name matches any trait on the object that has metadata metadata_name" (a value other than None,
   _metadata_filter.py docstring); "*" matches any trait.  A list / dict / set has no traits: a name, "+name" or "*"
   applied to it is an error.  The handler is attached to what is matched when the element notifies, and the rest of
   the path applies to the objects the matched traits hold / to the items. *)
Definition m_obs (m : matcher) (o : nat) (ob : object) : list oitem * list hit :=
  match ob, m with
  | OTraits ts, MTrait w => match find_trait ts w with Some t => ([trait_item t], []) | None => ([], [Err o w]) end
  | OTraits ts, MItemsTrait => match find_trait ts items_word with Some t => ([trait_item t], []) | None => ([], []) end
  | OTraits ts, MMeta w => (map trait_item (filter (fun t => not_none (meta_of (t_meta t) w)) ts), [])
  | OTraits ts, MAnyTrait => (map trait_item ts, [])
  | OList items, MListItems => ([([], items)], [])
  | ODict vals, MDictItems => ([([], vals)], [])
  | OSet items, MSetItems => ([([], items)], [])
  | _, MTrait w => ([], [Err o w])
  | _, (MMeta _ | MAnyTrait) => ([], [Err o []])
  | _, (MItemsTrait | MDictItems | MListItems | MSetItems) => ([], [])
  end.

Fixpoint hook_mpath (h : heap) (o : nat) (p : list (matcher * link)) : list hit :=
  match p with
  | [] => []
  | ml :: r =>
      let '(obs, errs) := m_obs (fst ml) o (nth_obj h o) in
      errs ++ (if notify_of (snd ml) then map (fun x => Hit o (fst x)) obs else [])
      ++ flat_map (fun x => flat_map (fun o' => hook_mpath h o' r) (snd x)) obs
  end.

Definition doc_hooks (h : heap) (o : nat) (t : tree) : list hit := flat_map (hook_mpath h o) (raw_paths t LEnd).

(* The probe of the end-to-end clause (tools/drivers/c15_driver.py, classes Leaf / Root): every Leaf object has the traits
     t_true (tag=True) t_false (tag=False) t_zero (tag=0) t_empty (tag="") t_tuple (tag=()) t_none (tag=None)
     t_absent (no metadata) t_other (other=1)                                   (trait numbers 0..7)
   object 0 = the root: a Leaf with in addition child (8) holding object 1, kids (10) holding the list 2 = [3; 4],
   table (11) holding the dict 5 with the value 6, group (12) holding the set 7 = {8}; objects 1, 3, 4, 6, 8 are Leafs.
   A change of trait number i of object v is reported as 32*v + i; a mutation of the container v as 32*v + 9;
   a change reported for an object after it was replaced (no longer reachable from the root) as 1000 + that. *)
Definition probe_names : list word :=
  [[116; 95; 116; 114; 117; 101]; [116; 95; 102; 97; 108; 115; 101]; [116; 95; 122; 101; 114; 111]; [116; 95; 101; 109; 112; 116; 121]; [116; 95; 116; 117; 112; 108; 101]; [116; 95; 110; 111; 110; 101]; [116; 95; 97; 98; 115; 101; 110; 116]; [116; 95; 111; 116; 104; 101; 114]].
Definition w_child : word := [99; 104; 105; 108; 100].
Definition w_kids : word := [107; 105; 100; 115].
Definition w_table : word := [116; 97; 98; 108; 101].
Definition w_group : word := [103; 114; 111; 117; 112].
Definition w_tag : word := [116; 97; 103].
Definition w_other : word := [111; 116; 104; 101; 114].
Definition w_tadded : word := [116; 114; 97; 105; 116; 95; 97; 100; 100; 101; 100].
Definition w_tmod : word := [116; 114; 97; 105; 116; 95; 109; 111; 100; 105; 102; 105; 101; 100].
Definition w_new : word := [122; 122; 95; 110; 101; 119].
(* every HasTraits object also carries the events trait_added (13) and trait_modified (14), and the driver adds a trait
   zz_new (16) to every Leaf with add_trait after the registration ("*" matches any trait, also one added later) *)
Definition leaf_traits : list tdesc :=
  map (fun nv => mkT (fst nv) (snd nv) None)
      (combine probe_names
         [[(w_tag, MVTruthy)]; [(w_tag, MVFalsy)]; [(w_tag, MVFalsy)]; [(w_tag, MVFalsy)]; [(w_tag, MVFalsy)];
          [(w_tag, MVNone)]; []; [(w_other, MVTruthy)]])
  ++ [mkT w_tadded [] None; mkT w_tmod [] None; mkT w_new [] None].
Definition probe_heap : heap :=
  [OTraits (leaf_traits ++ [mkT w_child [] (Some 1%nat); mkT w_kids [] (Some 2%nat); mkT w_table [] (Some 5%nat);
                            mkT w_group [] (Some 7%nat)]);
   OTraits leaf_traits; OList [3%nat; 4%nat]; OTraits leaf_traits; OTraits leaf_traits;
   ODict [6%nat]; OTraits leaf_traits; OSet [8%nat]; OTraits leaf_traits].

Fixpoint index_of (w : word) (l : list word) (i : Z) : Z :=
  match l with [] => 31 | x :: r => if word_eqb x w then i else index_of w r (i + 1) end.
Definition hit_code (x : hit) : option Z :=
  match x with
  | Hit o w => Some (32 * Z.of_nat o +
                     (if word_eqb w w_child then 8 else if word_eqb w [] then 9 else if word_eqb w w_kids then 10
                      else if word_eqb w w_table then 11 else if word_eqb w w_group then 12
                      else if word_eqb w w_tadded then 13 else if word_eqb w w_tmod then 14
                      else if word_eqb w w_new then 16 else index_of w probe_names 0))
  | Err _ _ => None
  end.
Definition has_err (l : list hit) : bool := existsb (fun x => match x with Err _ _ => true | _ => false end) l.
Fixpoint hit_codes (l : list hit) : list Z :=
  match l with [] => [] | x :: r => match hit_code x with Some c => c :: hit_codes r | None => hit_codes r end end.

Definition zsubset (a b : list Z) : bool := forallb (fun x => existsb (Z.eqb x) b) a.
Definition zset_eqb (a b : list Z) : bool := zsubset a b && zsubset b a.

(* 16  the handler registered by the text on the probe fired for another set of traits than the documented one
   17  observe raised although the documented meaning hooks without error, or conversely *)
Definition law_hook (s : list chr) (registered : bool) (fired : list Z) : list Z :=
  match doc_parse s with
  | Some (_, t) =>
      let want := doc_hooks probe_heap 0 t in
      if has_err want then chk 17 (negb registered)
      else chk 17 registered ++ (if registered then chk 16 (zset_eqb (hit_codes want) fired) else [])
  | None => []
  end.
