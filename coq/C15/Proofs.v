(* C15 — proofs.  Part 1: the recursive-descent parser decides the grammar (both readings of Law.v) *)
From Coq Require Import ZArith List Bool Arith Lia.
From TV Require Import Common.Harness C15.Model C15.Law.
Import ListNotations.
Open Scope nat_scope.

Scheme D_elem_min := Minimality for D_elem Sort Prop
  with D_ser_min := Minimality for D_ser Sort Prop
  with D_par_min := Minimality for D_par Sort Prop.
Combined Scheme D_mutind from D_elem_min, D_ser_min, D_par_min.

Definition le_flag (b b' : bool) : Prop := b = true -> b' = true.

Lemma le_flag_and b b' d : le_flag b b' -> le_flag (b && d) (b' && d).
Proof. unfold le_flag. destruct b, b', d; cbn; auto. Qed.
Lemma le_flag_false b : le_flag false b.
Proof. intro H; discriminate. Qed.
Lemma le_flag_refl b : le_flag b b.
Proof. intro H; exact H. Qed.

Section Grammar.
Variable doc : bool.

(* ---------- three facts about the position flag ---------- *)
Lemma promote_mut :
  (forall b ts t, D_elem doc b ts t -> forall b', le_flag b b' -> D_elem doc b' ts t) /\
  (forall b ts t, D_ser doc b ts t -> forall b', le_flag b b' -> D_ser doc b' ts t) /\
  (forall b ts t, D_par doc b ts t -> forall b', le_flag b b' -> D_par doc b' ts t).
Proof.
  apply D_mutind; intros.
  - now apply De_items.
  - now apply De_trait.
  - apply De_meta.
  - rewrite (H eq_refl). apply De_any.
  - apply De_br. apply H0. now apply le_flag_and.
  - apply Ds_one. auto.
  - apply Ds_cons; auto.
  - apply Dp_one. auto.
  - apply Dp_cons; auto.
Qed.

Lemma nostar_mut :
  (forall b ts t, D_elem doc b ts t -> b = false -> has_any t = false) /\
  (forall b ts t, D_ser doc b ts t -> b = false -> has_any t = false) /\
  (forall b ts t, D_par doc b ts t -> b = false -> has_any t = false).
Proof.
  apply D_mutind; intros; subst; cbn; auto; try discriminate.
  - rewrite (H0 eq_refl), (H2 eq_refl). reflexivity.
  - rewrite (H0 eq_refl), (H2 eq_refl). reflexivity.
Qed.

Lemma demote_mut :
  (forall b ts t, D_elem doc b ts t -> has_any t = false -> D_elem doc false ts t) /\
  (forall b ts t, D_ser doc b ts t -> has_any t = false -> D_ser doc false ts t) /\
  (forall b ts t, D_par doc b ts t -> has_any t = false -> D_par doc false ts t).
Proof.
  apply D_mutind; intros.
  - now apply De_items.
  - now apply De_trait.
  - apply De_meta.
  - discriminate.
  - apply De_br. cbn. auto.
  - apply Ds_one. auto.
  - cbn in H3. apply orb_false_elim in H3. destruct H3. apply Ds_cons; auto.
  - apply Dp_one. auto.
  - cbn in H3. apply orb_false_elim in H3. destruct H3. apply Dp_cons; auto.
Qed.

(* ---------- soundness ---------- *)
Definition sound (p : list tok -> res) (D : list tok -> tree -> Prop) : Prop :=
  forall ts t r, p ts = Some (t, r) -> exists pre, ts = pre ++ r /\ D pre t.

Lemma p_elem_sound rec : (forall b, sound (rec b) (D_par doc b)) -> forall b, sound (p_elem doc rec b) (D_elem doc b).
Proof.
  intros Hrec b ts t r H. unfold p_elem in H.
  destruct ts as [|[w| | |c| | |] ts']; try discriminate.
  - inversion H; subst. exists [W w]. split; [reflexivity|].
    destruct (is_items w) eqn:E; [now apply De_items|now apply De_trait].
  - destruct ts' as [|[w| | |c| | |] ts'']; try discriminate. inversion H; subst.
    exists [PLUS; W w]. split; [reflexivity|constructor].
  - destruct b; [|discriminate]. inversion H; subst. exists [STAR]. split; [reflexivity|constructor].
  - destruct (rec (b && doc) ts') as [[t' r']|] eqn:E; [|discriminate].
    destruct r' as [|[w| | |c| | |] r'']; try discriminate. inversion H; subst.
    destruct (Hrec _ _ _ _ E) as (pre & -> & HD).
    exists (LBR :: pre ++ [RBR]). split; [|constructor; exact HD].
    cbn. rewrite <- app_assoc. reflexivity.
Qed.

Lemma ser_loop_sound pe b : sound pe (D_elem doc b) ->
  forall k left ts t r pre0, D_ser doc b pre0 left -> ser_loop pe k left ts = Some (t, r) ->
  exists pre, ts = pre ++ r /\ D_ser doc b (pre0 ++ pre) t.
Proof.
  intros Hpe. induction k as [|k IH]; intros left ts t r pre0 HD H; [discriminate|].
  cbn [ser_loop] in H.
  destruct ts as [|[w| | |c| | |] ts'];
    try (inversion H; subst; exists []; split; [reflexivity|rewrite app_nil_r; assumption]).
  destruct (has_any left) eqn:Ha; [discriminate|].
  destruct (pe ts') as [[e r']|] eqn:E; [|discriminate].
  destruct (Hpe _ _ _ E) as (pe_pre & -> & HE).
  assert (HD0 : D_ser doc false pre0 left) by (eapply (proj1 (proj2 demote_mut)); eauto).
  destruct (IH _ _ _ _ (pre0 ++ TC c :: pe_pre) (Ds_cons _ _ _ _ c _ _ HD0 HE) H) as (pre & -> & HD').
  exists (TC c :: pe_pre ++ pre). split.
  - cbn. rewrite <- app_assoc. reflexivity.
  - rewrite <- app_assoc in HD'. exact HD'.
Qed.

Lemma p_ser_sound rec k : (forall b, sound (rec b) (D_par doc b)) -> forall b, sound (p_ser doc rec b k) (D_ser doc b).
Proof.
  intros Hrec b ts t r H. unfold p_ser in H.
  destruct (p_elem doc rec b ts) as [[e r0]|] eqn:E; [|discriminate].
  destruct (p_elem_sound rec Hrec b _ _ _ E) as (pre0 & -> & HE).
  destruct (ser_loop_sound _ b (p_elem_sound rec Hrec b) _ _ _ _ _ pre0 (Ds_one _ _ _ _ HE) H) as (pre & -> & HD).
  exists (pre0 ++ pre). split; [rewrite app_assoc; reflexivity|exact HD].
Qed.

Lemma par_loop_sound ps b : sound ps (D_ser doc b) ->
  forall k left ts t r pre0, D_par doc b pre0 left -> par_loop ps k left ts = Some (t, r) ->
  exists pre, ts = pre ++ r /\ D_par doc b (pre0 ++ pre) t.
Proof.
  intros Hps. induction k as [|k IH]; intros left ts t r pre0 HD H; [discriminate|].
  cbn [par_loop] in H.
  destruct ts as [|[w| | |c| | |] ts'];
    try (inversion H; subst; exists []; split; [reflexivity|rewrite app_nil_r; assumption]).
  destruct (ps ts') as [[e r']|] eqn:E; [|discriminate].
  destruct (Hps _ _ _ E) as (ps_pre & -> & HE).
  destruct (IH _ _ _ _ (pre0 ++ COMMA :: ps_pre) (Dp_cons _ _ _ _ _ _ HD HE) H) as (pre & -> & HD').
  exists (COMMA :: ps_pre ++ pre). split.
  - cbn. rewrite <- app_assoc. reflexivity.
  - rewrite <- app_assoc in HD'. exact HD'.
Qed.

Lemma p_par_sound fuel : forall b, sound (p_par doc fuel b) (D_par doc b).
Proof.
  induction fuel as [|f IH]; intros b ts t r H; [discriminate|].
  cbn [p_par] in H. unfold p_par_body in H.
  destruct (p_ser doc (p_par doc f) b f ts) as [[s r0]|] eqn:E; [|discriminate].
  destruct (p_ser_sound _ _ IH b _ _ _ E) as (pre0 & -> & HS).
  destruct (par_loop_sound _ b (p_ser_sound _ _ IH b) _ _ _ _ _ pre0 (Dp_one _ _ _ _ HS) H) as (pre & -> & HD).
  exists (pre0 ++ pre). split; [rewrite app_assoc; reflexivity|exact HD].
Qed.

Lemma parse_toks_gen_sound ts t : parse_toks_gen doc ts = Some t -> D_par doc true ts t.
Proof.
  unfold parse_toks_gen. intros H.
  destruct (p_par doc (fuel_for ts) true ts) as [[t' r]|] eqn:E; [|discriminate].
  destruct r; [|discriminate]. inversion H; subst.
  destruct (p_par_sound _ _ _ _ _ E) as (pre & -> & HD). rewrite app_nil_r. exact HD.
Qed.

(* ---------- completeness, with an explicit fuel bound ---------- *)
Definition no_tc (r : list tok) : Prop := match r with TC _ :: _ => False | _ => True end.
Definition no_comma (r : list tok) : Prop := match r with COMMA :: _ => False | _ => True end.

Lemma ser_loop_mono pe k left ts x : ser_loop pe k left ts = Some x ->
  forall k', k <= k' -> ser_loop pe k' left ts = Some x.
Proof.
  revert left ts. induction k as [|k IH]; intros left ts H k' Hk; [discriminate|].
  destruct k' as [|k']; [lia|]. cbn [ser_loop] in *.
  destruct ts as [|[w| | |c| | |] ts']; try exact H.
  destruct (has_any left); [discriminate|].
  destruct (pe ts') as [[e r']|]; [|discriminate]. apply IH; [exact H|lia].
Qed.
Lemma par_loop_mono ps k left ts x : par_loop ps k left ts = Some x ->
  forall k', k <= k' -> par_loop ps k' left ts = Some x.
Proof.
  revert left ts. induction k as [|k IH]; intros left ts H k' Hk; [discriminate|].
  destruct k' as [|k']; [lia|]. cbn [par_loop] in *.
  destruct ts as [|[w| | |c| | |] ts']; try exact H.
  destruct (ps ts') as [[e r']|]; [|discriminate]. apply IH; [exact H|lia].
Qed.
Lemma ser_loop_stop pe k left r : no_tc r -> ser_loop pe (S k) left r = Some (left, r).
Proof. intros H. cbn [ser_loop]. destruct r as [|[w| | |c| | |] r']; try reflexivity. destruct H. Qed.
Lemma par_loop_stop ps k left r : no_comma r -> par_loop ps (S k) left r = Some (left, r).
Proof. intros H. cbn [par_loop]. destruct r as [|[w| | |c| | |] r']; try reflexivity. destruct H. Qed.

Definition C_elem (b : bool) (ts : list tok) (t : tree) : Prop :=
  forall b', le_flag b b' -> forall f, 2 * length ts <= f -> forall rest,
    p_elem doc (p_par doc f) b' (ts ++ rest) = Some (t, rest).
Definition C_ser (b : bool) (ts : list tok) (t : tree) : Prop :=
  forall b', le_flag b b' -> forall f, 2 * length ts <= f -> forall k rest x,
    ser_loop (p_elem doc (p_par doc f) b') k t rest = Some x ->
    p_ser doc (p_par doc f) b' (k + 2 * length ts) (ts ++ rest) = Some x.
Definition C_par (b : bool) (ts : list tok) (t : tree) : Prop :=
  forall b', le_flag b b' -> forall f, 2 * length ts + 1 <= f -> forall ks, 2 * length ts + 1 <= ks ->
    forall kp rest x, no_tc rest ->
    par_loop (p_ser doc (p_par doc f) b' ks) kp t rest = Some x ->
    p_par_body doc (p_par doc f) b' ks (kp + (2 * length ts + 1)) (ts ++ rest) = Some x.

Lemma complete_mut :
  (forall b ts t, D_elem doc b ts t -> C_elem b ts t) /\
  (forall b ts t, D_ser doc b ts t -> C_ser b ts t) /\
  (forall b ts t, D_par doc b ts t -> C_par b ts t).
Proof.
  apply D_mutind.
  - intros b w Hw b' _ f _ rest. cbn. rewrite Hw. reflexivity.
  - intros b w Hw b' _ f _ rest. cbn. rewrite Hw. reflexivity.
  - intros b w b' _ f _ rest. reflexivity.
  - intros b' Hb f _ rest. rewrite (Hb eq_refl). reflexivity.
  - (* brackets *)
    intros b ts t _ IH b' Hb f Hf rest.
    cbn [length] in Hf. rewrite app_length in Hf. cbn [length] in Hf.
    destruct f as [|f]; [lia|]. cbn [app p_elem]. rewrite <- app_assoc. cbn [app].
    cbn [p_par].
    assert (exists kp, f = S kp + (2 * length ts + 1)) as (kp & Ef) by (exists (f - (2 * length ts + 1) - 1); lia).
    assert (p_par_body doc (p_par doc f) (b' && doc) f (S kp + (2 * length ts + 1)) (ts ++ RBR :: rest)
            = Some (t, RBR :: rest)) as Hcall.
    { apply (IH (b' && doc) (le_flag_and _ _ _ Hb) f ltac:(lia) f ltac:(lia) (S kp) (RBR :: rest) (t, RBR :: rest) I).
      apply par_loop_stop. exact I. }
    rewrite <- Ef in Hcall. rewrite Hcall. reflexivity.
  - (* series: one element *)
    intros b ts t _ IH b' Hb f Hf k rest x Hx.
    unfold p_ser. rewrite (IH b' Hb f Hf). eapply ser_loop_mono; [exact Hx|lia].
  - (* series: left recursion *)
    intros b ts1 t1 c ts2 t2 HD1 IH1 _ IH2 b' Hb f Hf k rest x Hx.
    rewrite app_length in *. cbn [length] in *. rewrite <- app_assoc. cbn [app].
    replace (k + 2 * (length ts1 + S (length ts2))) with ((k + 2 * length ts2 + 2) + 2 * length ts1) by lia.
    apply (IH1 b' (le_flag_false _) f ltac:(lia)).
    apply ser_loop_mono with (k := S k); [|lia]. cbn [ser_loop].
    rewrite (proj1 (proj2 nostar_mut) _ _ _ HD1 eq_refl).
    rewrite (IH2 b' Hb f ltac:(lia)). exact Hx.
  - (* parallel: one series *)
    intros b ts t _ IH b' Hb f Hf ks Hks kp rest x Hr Hx.
    unfold p_par_body.
    assert (exists k0, ks = S k0 + 2 * length ts) as (k0 & Ek) by (exists (ks - 2 * length ts - 1); lia).
    assert (p_ser doc (p_par doc f) b' (S k0 + 2 * length ts) (ts ++ rest) = Some (t, rest)) as Hcall.
    { apply (IH b' Hb f ltac:(lia) (S k0) rest (t, rest)). apply ser_loop_stop. exact Hr. }
    rewrite <- Ek in Hcall. rewrite Hcall.
    eapply par_loop_mono; [exact Hx|lia].
  - (* parallel: left recursion *)
    intros b ts1 t1 ts2 t2 _ IH1 _ IH2 b' Hb f Hf ks Hks kp rest x Hr Hx.
    rewrite app_length in *. cbn [length] in *. rewrite <- app_assoc. cbn [app].
    replace (kp + (2 * (length ts1 + S (length ts2)) + 1))
      with ((kp + 2 * length ts2 + 2) + (2 * length ts1 + 1)) by lia.
    apply (IH1 b' Hb f ltac:(lia) ks ltac:(lia)); [exact I|].
    apply par_loop_mono with (k := S kp); [|lia]. cbn [par_loop].
    assert (exists k0, ks = S k0 + 2 * length ts2) as (k0 & Ek) by (exists (ks - 2 * length ts2 - 1); lia).
    assert (p_ser doc (p_par doc f) b' (S k0 + 2 * length ts2) (ts2 ++ rest) = Some (t2, rest)) as Hcall.
    { apply (IH2 b' Hb f ltac:(lia) (S k0) rest (t2, rest)). apply ser_loop_stop. exact Hr. }
    rewrite <- Ek in Hcall. rewrite Hcall. exact Hx.
Qed.

Lemma parse_toks_gen_complete ts t : D_par doc true ts t -> parse_toks_gen doc ts = Some t.
Proof.
  intros HD. unfold parse_toks_gen, fuel_for.
  replace (2 * length ts + 3) with (S (2 * length ts + 2)) by lia. cbn [p_par].
  assert (p_par_body doc (p_par doc (2 * length ts + 2)) true (2 * length ts + 2) (1 + (2 * length ts + 1)) (ts ++ [])
          = Some (t, [])) as Hcall.
  { apply (proj2 (proj2 complete_mut) _ _ _ HD true (le_flag_refl _) (2 * length ts + 2) ltac:(lia) (2 * length ts + 2) ltac:(lia) 1 [] (t, []) I).
    apply par_loop_stop. exact I. }
  rewrite app_nil_r in Hcall. replace (1 + (2 * length ts + 1)) with (2 * length ts + 2) in Hcall by lia.
  rewrite Hcall. reflexivity.
Qed.

Lemma parse_toks_gen_iff ts t : parse_toks_gen doc ts = Some t <-> D_par doc true ts t.
Proof. split; [apply parse_toks_gen_sound|apply parse_toks_gen_complete]. Qed.

(* the grammar is unambiguous: a token list has at most one derivation tree *)
Lemma derivation_unique ts t1 t2 : D_par doc true ts t1 -> D_par doc true ts t2 -> t1 = t2.
Proof.
  intros H1 H2. apply parse_toks_gen_complete in H1. apply parse_toks_gen_complete in H2.
  rewrite H1 in H2. now inversion H2.
Qed.

End Grammar.

(* ================================================================== Part 2: the two grammars *)
Lemma lark_subset_doc_mut :
  (forall b ts t, D_elem false b ts t -> D_elem true b ts t) /\
  (forall b ts t, D_ser false b ts t -> D_ser true b ts t) /\
  (forall b ts t, D_par false b ts t -> D_par true b ts t).
Proof.
  apply D_mutind; intros.
  - now apply De_items.
  - now apply De_trait.
  - apply De_meta.
  - apply De_any.
  - apply De_br. rewrite andb_false_r in H0.
    eapply (proj2 (proj2 (promote_mut true))); [exact H0|apply le_flag_false].
  - apply Ds_one; auto.
  - apply Ds_cons; auto.
  - apply Dp_one; auto.
  - apply Dp_cons; auto.
Qed.

Lemma lark_subset_doc ts t : D_start ts t -> Doc_start ts t.
Proof. apply lark_subset_doc_mut. Qed.

(* tokens of "[a.*, b.c]" *)
Definition f10_tokens : list tok :=
  [LBR; W [97%Z]; TC CDot; STAR; COMMA; W [98%Z]; TC CDot; W [99%Z]; RBR].
Definition f10_text : list chr :=
  [CLbr; CStart 97; CDotC; CStar; CCommaC; CWs; CStart 98; CDotC; CStart 99; CRbr].

Lemma f10_refuted :
  exists t, Doc_start f10_tokens t /\ parse_toks f10_tokens = None /\
            lex f10_text = Some f10_tokens /\ compile_str f10_text = Rejected.
Proof.
  exists (TPar (TSeries (TTrait [97%Z]) CDot TAny) (TSeries (TTrait [98%Z]) CDot (TTrait [99%Z]))).
  split; [|repeat split; vm_compute; reflexivity].
  apply parse_toks_gen_sound. vm_compute. reflexivity.
Qed.

(* ================================================================== Part 3: "*" only in terminal position *)
Open Scope Z_scope.
Definition bump (t : tok) : Z := match t with LBR => 1 | RBR => -1 | _ => 0 end.
Fixpoint depth (ts : list tok) : Z := match ts with [] => 0 | t :: r => bump t + depth r end.

Definition next_ok (r : list tok) : bool := match r with [] | COMMA :: _ => true | _ => false end.
Definition is_star (t : tok) : bool := match t with STAR => true | _ => false end.

(* every "*" token stands at bracket depth 0 and is followed by "," or by the end of the text *)
Fixpoint star_ok (d : Z) (ts : list tok) : bool :=
  match ts with
  | [] => true
  | t :: r => (if is_star t then (d =? 0) && next_ok r else true) && star_ok (d + bump t) r
  end.

Lemma depth_app a b : depth (a ++ b) = depth a + depth b.
Proof. induction a; cbn [app depth]; lia. Qed.

Definition no_star (ts : list tok) : Prop := forall t, In t ts -> is_star t = false.

Lemma no_star_app a b : no_star a -> no_star b -> no_star (a ++ b).
Proof. intros Ha Hb t Ht. apply in_app_or in Ht. destruct Ht; auto. Qed.
Lemma no_star_cons t r : is_star t = false -> no_star r -> no_star (t :: r).
Proof. intros Ht Hr x [<-|Hx]; auto. Qed.
Lemma no_star_nil : no_star [].
Proof. intros t []. Qed.

Lemma star_ok_no_star ts : no_star ts -> forall d, star_ok d ts = true.
Proof.
  induction ts as [|t r IH]; intros H d; [reflexivity|]. cbn [star_ok].
  rewrite (H t (or_introl eq_refl)). rewrite IH; [reflexivity|]. intros x Hx. apply H. now right.
Qed.

Lemma star_ok_app_nostar a b d : no_star a -> star_ok d (a ++ b) = star_ok (d + depth a) b.
Proof.
  revert d. induction a as [|t r IH]; intros d H; cbn [app depth star_ok].
  - f_equal. lia.
  - rewrite (H t (or_introl eq_refl)). cbn [andb]. rewrite IH.
    + f_equal. lia.
    + intros x Hx. apply H. now right.
Qed.

Lemma star_ok_app_comma a b d :
  star_ok d (a ++ COMMA :: b) = star_ok d a && star_ok (d + depth a) b.
Proof.
  revert d. induction a as [|t r IH]; intros d; cbn [app depth star_ok].
  - cbn. f_equal; lia.
  - rewrite IH. replace (d + (bump t + depth r)) with (d + bump t + depth r) by lia.
    destruct (is_star t); [|cbn [andb]; reflexivity].
    assert (next_ok (r ++ COMMA :: b) = next_ok r) as ->.
    { destruct r as [|x r']; [reflexivity|]. destruct x; reflexivity. }
    rewrite andb_assoc. reflexivity.
Qed.

Lemma star_terminal_mut :
  (forall b ts t, D_elem false b ts t -> depth ts = 0 /\ (b = false -> no_star ts) /\ star_ok 0 ts = true) /\
  (forall b ts t, D_ser false b ts t -> depth ts = 0 /\ (b = false -> no_star ts) /\ star_ok 0 ts = true) /\
  (forall b ts t, D_par false b ts t -> depth ts = 0 /\ (b = false -> no_star ts) /\ star_ok 0 ts = true).
Proof.
  apply D_mutind.
  - intros b w _. repeat split. intros _. apply no_star_cons; [reflexivity|apply no_star_nil].
  - intros b w _. repeat split. intros _. apply no_star_cons; [reflexivity|apply no_star_nil].
  - intros b w. repeat split. intros _. repeat (apply no_star_cons; [reflexivity|]). apply no_star_nil.
  - repeat split. discriminate.
  - intros b ts t _ (Hd & Hn & _). rewrite andb_false_r in Hn. specialize (Hn eq_refl).
    assert (no_star (LBR :: ts ++ [RBR])) as Hns.
    { apply no_star_cons; [reflexivity|]. apply no_star_app; [exact Hn|].
      apply no_star_cons; [reflexivity|apply no_star_nil]. }
    split; [|split].
    + cbn [depth]. rewrite depth_app. cbn [depth bump]. lia.
    + intros _. exact Hns.
    + now apply star_ok_no_star.
  - intros b ts t _ H. exact H.
  - intros b ts1 t1 c ts2 t2 _ (Hd1 & Hn1 & _) _ (Hd2 & Hn2 & Hs2). specialize (Hn1 eq_refl).
    split; [|split].
    + rewrite depth_app. cbn [depth bump]. lia.
    + intros Hb. apply no_star_app; [exact Hn1|]. apply no_star_cons; [reflexivity|auto].
    + rewrite star_ok_app_nostar by exact Hn1. rewrite Hd1. cbn [star_ok is_star bump]. cbn [andb].
      replace (0 + 0 + 0) with 0 by lia. exact Hs2.
  - intros b ts t _ H. exact H.
  - intros b ts1 t1 ts2 t2 _ (Hd1 & Hn1 & Hs1) _ (Hd2 & Hn2 & Hs2).
    split; [|split].
    + rewrite depth_app. cbn [depth bump]. lia.
    + intros Hb. apply no_star_app; [auto|]. apply no_star_cons; [reflexivity|auto].
    + rewrite star_ok_app_comma, Hs1, Hd1. cbn [andb]. exact Hs2.
Qed.

Lemma star_only_terminal_lemma ts t : D_start ts t -> star_ok 0 ts = true.
Proof. intros H. apply (proj2 (proj2 star_terminal_mut) _ _ _ H). Qed.

Lemma star_elsewhere_rejected s ts :
  lex s = Some ts -> star_ok 0 ts = false -> compile_str s = Rejected.
Proof.
  intros Hl Hs. unfold compile_str, parse. rewrite Hl.
  destruct (parse_toks ts) as [t|] eqn:E; [|reflexivity].
  apply parse_toks_gen_sound in E. apply star_only_terminal_lemma in E. congruence.
Qed.
Close Scope Z_scope.

(* ================================================================== Part 4: meaning *)
Section GraphInd.
  Variable P : graph -> Prop.
  Hypothesis H : forall n cs, Forall P cs -> P (G n cs).
  Fixpoint graph_ind' (g : graph) : P g :=
    match g with
    | G n cs => H n cs ((fix go (l : list graph) : Forall P l :=
                           match l with
                           | [] => Forall_nil P
                           | x :: r => Forall_cons x (graph_ind' x) (go r)
                           end) cs)
    end.
End GraphInd.

Definition prod (A B : list (list node)) : list (list node) := flat_map (fun p => map (app p) B) A.
Definition cat (A Q : list (list node)) : list (list node) := match Q with [] => A | _ => prod A Q end.

Lemma graph_paths_nonempty g : graph_paths g <> [].
Proof.
  induction g as [n cs IH] using graph_ind'. destruct cs as [|c cs]; cbn; [discriminate|].
  inversion IH; subst. destruct (graph_paths c) eqn:E; [contradiction|]. cbn. discriminate.
Qed.

Lemma flat_gp_nil br : flat_map graph_paths br = [] -> br = [].
Proof.
  destruct br as [|g r]; [reflexivity|]. cbn. intros H. apply app_eq_nil in H. destruct H as [H _].
  now apply graph_paths_nonempty in H.
Qed.

Lemma prod_nonempty A B : A <> [] -> B <> [] -> prod A B <> [].
Proof. destruct A as [|a A]; [contradiction|]. destruct B as [|b B]; [contradiction|]. intros _ _. cbn. discriminate. Qed.

Lemma paths_nonempty e : paths e <> [].
Proof.
  induction e; cbn.
  - discriminate.
  - now apply prod_nonempty.
  - intros H. apply app_eq_nil in H. destruct H. contradiction.
Qed.

Lemma prod_app A A' B : prod (A ++ A') B = prod A B ++ prod A' B.
Proof. unfold prod. apply flat_map_app. Qed.

Lemma prod_cons a A B : prod (a :: A) B = map (app a) B ++ prod A B.
Proof. reflexivity. Qed.

Lemma prod_map_app a B Q : prod (map (app a) B) Q = map (app a) (prod B Q).
Proof.
  induction B as [|b B IH]; [reflexivity|]. cbn [map]. rewrite !prod_cons.
  rewrite IH, map_app, map_map. f_equal. apply map_ext. intros q. now rewrite app_assoc.
Qed.

Lemma prod_assoc A B Q : prod (prod A B) Q = prod A (prod B Q).
Proof.
  induction A as [|a A IH]; [reflexivity|]. rewrite !prod_cons.
  rewrite prod_app, IH, prod_map_app. reflexivity.
Qed.

Lemma cat_assoc A B Q : B <> [] -> cat (prod A B) Q = cat A (cat B Q).
Proof.
  intros HB. destruct Q as [|q Q].
  - cbn [cat]. destruct B; [contradiction|reflexivity].
  - cbn [cat]. rewrite prod_assoc. destruct (prod B (q :: Q)) eqn:E; [|reflexivity].
    exfalso. revert E. apply prod_nonempty; [exact HB|discriminate].
Qed.

Lemma cat_app A A' Q : cat (A ++ A') Q = cat A Q ++ cat A' Q.
Proof. destruct Q; cbn [cat]; [reflexivity|apply prod_app]. Qed.

Lemma create_graphs_paths e : forall br gs,
  create_graphs e br = Some gs -> flat_map graph_paths gs = cat (paths e) (flat_map graph_paths br).
Proof.
  induction e as [n|a IHa b IHb|a IHa b IHb]; intros br gs H; cbn [create_graphs paths] in *.
  - destruct (distinctb br); [|discriminate]. inversion H; subst. cbn [flat_map]. rewrite app_nil_r.
    destruct br as [|c cs]; [reflexivity|].
    destruct (flat_map graph_paths (c :: cs)) as [|q Q] eqn:E.
    + apply flat_gp_nil in E. discriminate.
    + cbn [graph_paths]. rewrite E. cbn [cat prod flat_map]. rewrite app_nil_r. reflexivity.
  - destruct (create_graphs b br) as [bs|] eqn:Eb; [|discriminate].
    rewrite (IHa _ _ H), (IHb _ _ Eb). symmetry. apply cat_assoc. apply paths_nonempty.
  - destruct (create_graphs a br) as [l|] eqn:Ea; [|discriminate].
    destruct (create_graphs b br) as [r|] eqn:Eb; [|discriminate]. inversion H; subst.
    rewrite flat_map_app, (IHa _ _ Ea), (IHb _ _ Eb), cat_app. reflexivity.
Qed.

Lemma map_prod (f : matcher * link -> node) A B :
  map (map f) (flat_map (fun p => map (app p) B) A) = prod (map (map f) A) (map (map f) B).
Proof.
  induction A as [|a A IH]; [reflexivity|]. cbn [flat_map map]. rewrite prod_cons.
  rewrite map_app, IH. f_equal. rewrite !map_map. apply map_ext. intros q. apply map_app.
Qed.

Lemma handle_paths t : forall l, paths (handle_tree t (notify_of l)) = doc_paths_l t l.
Proof.
  induction t as [w| |w| |a IHa c b IHb|a IHa b IHb]; intros l; try reflexivity.
  - cbn [handle_tree paths]. unfold doc_paths_l. cbn [raw_paths]. rewrite map_prod.
    replace (conn_notifies c) with (notify_of (LConn c)) by (destruct c; reflexivity).
    rewrite IHa, IHb. reflexivity.
  - cbn [handle_tree paths]. unfold doc_paths_l. cbn [raw_paths]. rewrite map_app.
    rewrite IHa, IHb. reflexivity.
Qed.

(* what compile_str returns denotes exactly the documented paths, notify flags included *)
Lemma meaning_lemma t gs : compile_tree t = Graphs gs -> flat_map graph_paths gs = doc_paths t.
Proof.
  unfold compile_tree. destruct (create_graphs (handle_tree t true) []) as [g|] eqn:E; [|discriminate].
  intros H. inversion H; subst. rewrite (create_graphs_paths _ _ _ E). cbn [flat_map cat].
  apply (handle_paths t LEnd).
Qed.

(* every path has the shape  (m1, connector) ... (mk-1, connector) (mk, end): so notification is enabled on an
   element iff it is last or followed by "." *)
Lemma raw_paths_shape t : forall l p, In p (raw_paths t l) ->
  exists q m, p = q ++ [(m, l)] /\ Forall (fun ml => exists c, snd ml = LConn c) q.
Proof.
  induction t as [w| |w| |a IHa c b IHb|a IHa b IHb]; intros l p Hp; cbn [raw_paths] in Hp.
  - destruct Hp as [<-|[]]. exists [], (MTrait w). split; [reflexivity|constructor].
  - destruct Hp as [<-|[<-|[<-|[<-|[]]]]]; eexists [], _; (split; [reflexivity|constructor]).
  - destruct Hp as [<-|[]]. exists [], (MMeta w). split; [reflexivity|constructor].
  - destruct Hp as [<-|[]]. exists [], MAnyTrait. split; [reflexivity|constructor].
  - apply in_flat_map in Hp. destruct Hp as (pa & Ha & Hp). apply in_map_iff in Hp. destruct Hp as (pb & <- & Hb).
    destruct (IHa _ _ Ha) as (qa & ma & -> & Fa). destruct (IHb _ _ Hb) as (qb & mb & -> & Fb).
    exists ((qa ++ [(ma, LConn c)]) ++ qb), mb. split; [now rewrite app_assoc|].
    apply Forall_app. split; [|exact Fb]. apply Forall_app. split; [exact Fa|]. constructor; [|constructor].
    now exists c.
  - apply in_app_or in Hp. destruct Hp; eauto.
Qed.

Lemma notify_iff_last_or_dot_lemma t p : In p (raw_paths t LEnd) ->
  exists q m, p = q ++ [(m, LEnd)] /\
    notify_of LEnd = true /\
    Forall (fun ml => exists c, snd ml = LConn c /\ notify_of (snd ml) = conn_notifies c) q.
Proof.
  intros H. destruct (raw_paths_shape _ _ _ H) as (q & m & -> & F). exists q, m. repeat split.
  eapply Forall_impl; [|exact F]. intros ml (c & Hc). exists c. split; [exact Hc|]. rewrite Hc. now destruct c.
Qed.

Lemma items_four_way n :
  paths (handle_tree TItems n) = [[NNamed items_word n true]; [NDict n true]; [NList n true]; [NSet n true]]
  /\ raw_paths TItems LEnd = [[(MItemsTrait, LEnd)]; [(MDictItems, LEnd)]; [(MListItems, LEnd)]; [(MSetItems, LEnd)]].
Proof. split; reflexivity. Qed.

(* ================================================================== Part 5: equal patterns *)
Lemma word_eqb_refl w : word_eqb w w = true.
Proof. induction w as [|x w IH]; [reflexivity|]. cbn. now rewrite Z.eqb_refl. Qed.
Lemma node_eqb_refl n : node_eqb n n = true.
Proof.
  destruct n as [w a b|a f|a b|a b|a b]; cbn; rewrite ?word_eqb_refl, ?eqb_reflx; try reflexivity.
  destruct f; cbn; [reflexivity|apply word_eqb_refl].
Qed.

Lemma graph_eqb_refl g : graph_eqb g g = true.
Proof.
  induction g as [n cs IH] using graph_ind'. cbn [graph_eqb]. rewrite node_eqb_refl. cbn [andb].
  assert (forallb (fun x => existsb (fun y => graph_eqb x y) cs) cs = true) as ->.
  { apply forallb_forall. intros x Hx. apply existsb_exists. exists x. split; [exact Hx|].
    rewrite Forall_forall in IH. now apply IH. }
  apply forallb_forall. intros x Hx. apply existsb_exists. exists x. split; [exact Hx|].
  rewrite Forall_forall in IH. now apply IH.
Qed.

Lemma graphs_eqb_refl gs : list_eqb graph_eqb gs gs = true.
Proof. induction gs as [|g gs IH]; [reflexivity|]. cbn. now rewrite graph_eqb_refl. Qed.

Definition outcome_same (a b : outcome) : bool :=
  match a, b with
  | Rejected, Rejected | CompileError, CompileError | Crashed, Crashed => true
  | Graphs x, Graphs y => list_eqb graph_eqb x y
  | _, _ => false
  end.

(* the same text always compiles to equal patterns (ObserverGraph.__eq__), so removal by text matches registration *)
Lemma parse_deterministic_lemma s1 s2 : s1 = s2 -> outcome_same (compile_str s1) (compile_str s2) = true.
Proof. intros ->. destruct (compile_str s2); try reflexivity. apply graphs_eqb_refl. Qed.

(* then() and | are associative on the compiled graphs, literally *)
Lemma series_assoc a b c br :
  create_graphs (ESeries (ESeries a b) c) br = create_graphs (ESeries a (ESeries b c)) br.
Proof. cbn [create_graphs]. destruct (create_graphs c br); [|reflexivity]. reflexivity. Qed.

Lemma par_assoc a b c br :
  create_graphs (EPar (EPar a b) c) br = create_graphs (EPar a (EPar b c)) br.
Proof.
  cbn [create_graphs]. destruct (create_graphs a br); [|reflexivity].
  destruct (create_graphs b br); [|reflexivity]. destruct (create_graphs c br); [|reflexivity].
  now rewrite app_assoc.
Qed.

(* regrouping by brackets: "x.y.z" = "x.[y.z]", "x,y,z" = "x,[y,z]", whatever the connectors and the position *)
Lemma regroup_series x c1 y c2 z n br :
  create_graphs (handle_tree (TSeries (TSeries x c1 y) c2 z) n) br =
  create_graphs (handle_tree (TSeries x c1 (TSeries y c2 z)) n) br.
Proof. cbn [handle_tree]. apply series_assoc. Qed.

Lemma regroup_par x y z n br :
  create_graphs (handle_tree (TPar (TPar x y) z) n) br = create_graphs (handle_tree (TPar x (TPar y z)) n) br.
Proof. cbn [handle_tree]. apply par_assoc. Qed.

(* redundant brackets around a "*"-free expression leave no trace: same tree *)
Lemma brackets_same_tree ts t :
  parse_toks ts = Some t -> has_any t = false -> parse_toks (LBR :: ts ++ [RBR]) = Some t.
Proof.
  intros H Ha. apply parse_toks_gen_sound in H. apply parse_toks_gen_complete.
  apply Dp_one, Ds_one, De_br. cbn [andb]. now apply (proj2 (proj2 (demote_mut false)) _ _ _ H).
Qed.

(* ---------- whitespace ---------- *)
Definition is_symb (x : chr) : bool := match sym_of x with Some _ => true | None => false end.

Lemma flush_none_id (o : option (list tok)) : option_map (flush None) o = o.
Proof. destruct o; reflexivity. Qed.

Lemma lex_ws_ws cur r : lex_go cur (CWs :: CWs :: r) = lex_go cur (CWs :: r).
Proof. cbn [lex_go]. now rewrite flush_none_id. Qed.

Lemma lex_ws_sym cur x r : is_symb x = true -> lex_go cur (CWs :: x :: r) = lex_go cur (x :: r).
Proof.
  intros Hx. destruct x; try discriminate; cbn [lex_go sym_of];
    destruct (lex_go None r); cbn; destruct cur; reflexivity.
Qed.

Lemma lex_sym_ws cur x r : is_symb x = true -> lex_go cur (x :: CWs :: r) = lex_go cur (x :: r).
Proof.
  intros Hx. destruct x; try discriminate; cbn [lex_go sym_of]; now rewrite flush_none_id.
Qed.

Lemma lex_ws_end s : forall cur, lex_go cur (s ++ [CWs]) = lex_go cur s.
Proof.
  induction s as [|x s IH]; intros cur; [reflexivity|].
  destruct x; cbn [app lex_go sym_of]; rewrite ?IH; try reflexivity.
  destruct cur; [apply IH|reflexivity].
Qed.

Lemma lex_context a b : (forall cur, lex_go cur a = lex_go cur b) ->
  forall pre cur, lex_go cur (pre ++ a) = lex_go cur (pre ++ b).
Proof.
  intros H. induction pre as [|x pre IH]; intros cur; [apply H|].
  destruct x; cbn [app lex_go sym_of]; rewrite ?IH; try reflexivity.
  destruct cur; [apply IH|reflexivity].
Qed.

Lemma compile_lex s1 s2 : lex s1 = lex s2 -> compile_str s1 = compile_str s2.
Proof. unfold compile_str, parse. now intros ->. Qed.

Lemma whitespace_lemma :
  (forall pre x r, is_symb x = true -> compile_str (pre ++ CWs :: x :: r) = compile_str (pre ++ x :: r)) /\
  (forall pre x r, is_symb x = true -> compile_str (pre ++ x :: CWs :: r) = compile_str (pre ++ x :: r)) /\
  (forall pre r, compile_str (pre ++ CWs :: CWs :: r) = compile_str (pre ++ CWs :: r)) /\
  (forall s, compile_str (CWs :: s) = compile_str s) /\
  (forall s, compile_str (s ++ [CWs]) = compile_str s).
Proof.
  repeat split; intros; apply compile_lex; unfold lex.
  - apply lex_context. intros cur. now apply lex_ws_sym.
  - apply lex_context. intros cur. now apply lex_sym_ws.
  - apply lex_context. intros cur. apply lex_ws_ws.
  - cbn [lex_go]. apply flush_none_id.
  - apply lex_ws_end.
Qed.

(* ================================================================== text level *)
Lemma parse_iff s t : parse s = Some t <-> in_language false s t.
Proof.
  unfold parse, in_language. split.
  - destruct (lex s) as [ts|]; [|discriminate]. intros H. exists ts. split; [reflexivity|].
    now apply parse_toks_gen_sound.
  - intros (ts & -> & H). now apply parse_toks_gen_complete.
Qed.

Lemma doc_parse_iff s ts t : doc_parse s = Some (ts, t) <-> lex s = Some ts /\ Doc_start ts t.
Proof.
  unfold doc_parse. split.
  - destruct (lex s) as [ts'|]; [|discriminate].
    destruct (parse_toks_gen true ts') as [t'|] eqn:E; [|discriminate]. intros H. inversion H; subst.
    split; [reflexivity|]. now apply parse_toks_gen_sound.
  - intros (-> & H). now rewrite (parse_toks_gen_complete true _ _ H).
Qed.

(* "a.[b,b]" *)
Definition f17_text : list chr := [CStart 97; CDotC; CLbr; CStart 98; CCommaC; CStart 98; CRbr].
Lemma f17_refuted :
  exists t, in_language false f17_text t /\ in_language true f17_text t /\ compile_str f17_text = CompileError
            /\ doc_paths t = [[NNamed [97%Z] true false; NNamed [98%Z] true false];
                              [NNamed [97%Z] true false; NNamed [98%Z] true false]].
Proof.
  exists (TSeries (TTrait [97%Z]) CDot (TPar (TTrait [98%Z]) (TTrait [98%Z]))).
  assert (in_language false f17_text (TSeries (TTrait [97%Z]) CDot (TPar (TTrait [98%Z]) (TTrait [98%Z])))) as H.
  { apply parse_iff. vm_compute. reflexivity. }
  split; [exact H|]. split; [|split; vm_compute; reflexivity].
  destruct H as (ts & Hl & HD). exists ts. split; [exact Hl|]. now apply lark_subset_doc.
Qed.

(* ================================================================== Part 6: the model satisfies the law, up to F10 and F17 *)
Open Scope Z_scope.

Lemma depth_zero_mut doc :
  (forall b ts t, D_elem doc b ts t -> depth ts = 0) /\
  (forall b ts t, D_ser doc b ts t -> depth ts = 0) /\
  (forall b ts t, D_par doc b ts t -> depth ts = 0).
Proof.
  apply D_mutind; intros; try reflexivity; auto.
  - cbn [depth]. rewrite depth_app. cbn [depth bump]. lia.
  - rewrite depth_app. cbn [depth bump]. lia.
  - rewrite depth_app. cbn [depth bump]. lia.
Qed.

Lemma sib_app a : forall d b,
  star_in_brackets d (a ++ b) = star_in_brackets d a || star_in_brackets (d + depth a) b.
Proof.
  induction a as [|t r IH]; intros d b; cbn [app depth star_in_brackets].
  - cbn. f_equal. lia.
  - destruct t; cbn [star_in_brackets bump]; rewrite IH; rewrite ?orb_assoc; f_equal; f_equal; lia.
Qed.

(* a documented text without a "*" inside brackets is derivable in the parser's grammar *)
Lemma doc_minus_f10_mut :
  (forall b ts t, D_elem true b ts t -> forall d, 0 <= d -> star_in_brackets d ts = false ->
      D_elem false b ts t /\ (0 < d -> has_any t = false)) /\
  (forall b ts t, D_ser true b ts t -> forall d, 0 <= d -> star_in_brackets d ts = false ->
      D_ser false b ts t /\ (0 < d -> has_any t = false)) /\
  (forall b ts t, D_par true b ts t -> forall d, 0 <= d -> star_in_brackets d ts = false ->
      D_par false b ts t /\ (0 < d -> has_any t = false)).
Proof.
  apply D_mutind.
  - intros b w Hw d _ _. split; [now apply De_items|reflexivity].
  - intros b w Hw d _ _. split; [now apply De_trait|reflexivity].
  - intros b w d _ _. split; [apply De_meta|reflexivity].
  - intros d Hd Hs. split; [apply De_any|]. intros Hpos. cbn in Hs. apply orb_false_elim in Hs.
    destruct Hs as [Hs _]. apply Z.ltb_ge in Hs. lia.
  - intros b ts t HD IH d Hd Hs. cbn [app star_in_brackets] in Hs. rewrite sib_app in Hs.
    apply orb_false_elim in Hs. destruct Hs as [Hs _].
    destruct (IH (d + 1) ltac:(lia) Hs) as [H1 H2]. specialize (H2 ltac:(lia)).
    split; [|intros _; exact H2]. apply De_br. rewrite andb_false_r.
    now apply (proj2 (proj2 (demote_mut false)) _ _ _ H1).
  - intros b ts t _ IH d Hd Hs. destruct (IH d Hd Hs). split; [now apply Ds_one|assumption].
  - intros b ts1 t1 c ts2 t2 HD1 IH1 _ IH2 d Hd Hs. rewrite sib_app in Hs. apply orb_false_elim in Hs.
    destruct Hs as [Hs1 Hs2]. rewrite (proj1 (proj2 (depth_zero_mut true)) _ _ _ HD1) in Hs2.
    cbn [star_in_brackets] in Hs2. replace (d + 0) with d in Hs2 by lia.
    destruct (IH1 d Hd Hs1) as [A1 B1]. destruct (IH2 d Hd Hs2) as [A2 B2].
    split; [now apply Ds_cons|]. intros Hpos. cbn [has_any]. now rewrite (B1 Hpos), (B2 Hpos).
  - intros b ts t _ IH d Hd Hs. destruct (IH d Hd Hs). split; [now apply Dp_one|assumption].
  - intros b ts1 t1 ts2 t2 HD1 IH1 _ IH2 d Hd Hs. rewrite sib_app in Hs. apply orb_false_elim in Hs.
    destruct Hs as [Hs1 Hs2]. rewrite (proj2 (proj2 (depth_zero_mut true)) _ _ _ HD1) in Hs2.
    cbn [star_in_brackets] in Hs2. replace (d + 0) with d in Hs2 by lia.
    destruct (IH1 d Hd Hs1) as [A1 B1]. destruct (IH2 d Hd Hs2) as [A2 B2].
    split; [now apply Dp_cons|]. intros Hpos. cbn [has_any]. now rewrite (B1 Hpos), (B2 Hpos).
Qed.

Lemma doc_minus_f10 ts t : Doc_start ts t -> star_in_brackets 0 ts = false -> D_start ts t.
Proof. intros H Hs. apply (proj2 (proj2 doc_minus_f10_mut) _ _ _ H 0 ltac:(lia) Hs). Qed.
Close Scope Z_scope.

(* ---------- equal graphs denote the same paths; a refused compilation denotes some path twice ---------- *)
Lemma path_eqb_refl p : path_eqb p p = true.
Proof. induction p as [|n p IH]; [reflexivity|]. cbn. now rewrite node_eqb_refl. Qed.

Lemma path_subset_refl l : path_subset l l = true.
Proof.
  apply forallb_forall. intros p Hp. apply existsb_exists. exists p. split; [exact Hp|apply path_eqb_refl].
Qed.

Lemma path_set_eqb_refl l : path_set_eqb l l = true.
Proof. unfold path_set_eqb. now rewrite path_subset_refl. Qed.

Lemma gp_cons n c cs : graph_paths (G n (c :: cs)) = map (cons n) (flat_map graph_paths (c :: cs)).
Proof. reflexivity. Qed.

Lemma graph_eqb_paths g1 : forall g2, graph_eqb g1 g2 = true ->
  forall p, In p (graph_paths g1) -> exists q, In q (graph_paths g2) /\ path_eqb p q = true.
Proof.
  induction g1 as [n1 c1 IH] using graph_ind'. intros [n2 c2] H p Hp.
  cbn [graph_eqb] in H. apply andb_prop in H. destruct H as [H H2]. apply andb_prop in H. destruct H as [Hn H1].
  rewrite forallb_forall in H1, H2.
  destruct c1 as [|x1 c1'].
  - destruct c2 as [|y c2'].
    + cbn in Hp. destruct Hp as [<-|[]]. exists [n2]. split; [now left|]. cbn. now rewrite Hn.
    + specialize (H2 y (or_introl eq_refl)). discriminate.
  - rewrite gp_cons in Hp. apply in_map_iff in Hp. destruct Hp as (p' & <- & Hp').
    apply in_flat_map in Hp'. destruct Hp' as (x & Hx & Hpx).
    specialize (H1 x Hx). apply existsb_exists in H1. destruct H1 as (y & Hy & Hxy).
    rewrite Forall_forall in IH. destruct (IH x Hx y Hxy p' Hpx) as (q' & Hq' & He).
    exists (n2 :: q'). split.
    + destruct c2 as [|y0 c2']; [destruct Hy|]. rewrite gp_cons. apply in_map. apply in_flat_map. now exists y.
    + cbn. now rewrite Hn.
Qed.

Lemma graphs_eqb_paths g1 : forall g2, list_eqb graph_eqb g1 g2 = true ->
  path_subset (flat_map graph_paths g1) (flat_map graph_paths g2) = true.
Proof.
  induction g1 as [|x g1 IH]; intros [|y g2] H; try discriminate; [reflexivity|].
  cbn [list_eqb] in H. apply andb_prop in H. destruct H as [Hxy H]. specialize (IH _ H).
  apply forallb_forall. intros p Hp. apply existsb_exists. cbn [flat_map] in *. apply in_app_or in Hp.
  destruct Hp as [Hp|Hp].
  - destruct (graph_eqb_paths _ _ Hxy _ Hp) as (q & Hq & He). exists q. split; [apply in_or_app; now left|exact He].
  - unfold path_subset in IH. rewrite forallb_forall in IH. specialize (IH p Hp). apply existsb_exists in IH.
    destruct IH as (q & Hq & He). exists q. split; [apply in_or_app; now right|exact He].
Qed.

Lemma has_dup_app_l a b : has_dup a = true -> has_dup (a ++ b) = true.
Proof.
  induction a as [|x a IH]; [discriminate|]. cbn [app has_dup]. intros H. apply orb_prop in H. destruct H as [H|H].
  - apply existsb_exists in H. destruct H as (q & Hq & He).
    assert (existsb (path_eqb x) (a ++ b) = true) as ->; [|reflexivity].
    apply existsb_exists. exists q. split; [apply in_or_app; now left|exact He].
  - rewrite (IH H). apply orb_true_r.
Qed.
Lemma has_dup_app_r a b : has_dup b = true -> has_dup (a ++ b) = true.
Proof. intros H. induction a as [|x a IH]; [exact H|]. cbn [app has_dup]. rewrite IH. apply orb_true_r. Qed.
Lemma has_dup_cross a b p q : In p a -> In q b -> path_eqb p q = true -> has_dup (a ++ b) = true.
Proof.
  intros Hp Hq He. induction a as [|x a IH]; [destruct Hp|]. cbn [app has_dup]. destruct Hp as [->|Hp].
  - assert (existsb (path_eqb p) (a ++ b) = true) as ->; [|reflexivity].
    apply existsb_exists. exists q. split; [apply in_or_app; now right|exact He].
  - rewrite (IH Hp). apply orb_true_r.
Qed.

Lemma path_eqb_app a p q : path_eqb (a ++ p) (a ++ q) = path_eqb p q.
Proof. induction a as [|n a IH]; [reflexivity|]. cbn. rewrite node_eqb_refl. exact IH. Qed.

Lemma has_dup_map_app a Q : has_dup Q = true -> has_dup (map (app a) Q) = true.
Proof.
  induction Q as [|p Q IH]; [discriminate|]. cbn [map has_dup]. intros H. apply orb_prop in H. destruct H as [H|H].
  - apply existsb_exists in H. destruct H as (q & Hq & He).
    assert (existsb (path_eqb (a ++ p)) (map (app a) Q) = true) as ->; [|reflexivity].
    apply existsb_exists. exists (a ++ q). split; [now apply in_map|]. now rewrite path_eqb_app.
  - rewrite (IH H). apply orb_true_r.
Qed.

Lemma has_dup_cat A Q : A <> [] -> has_dup Q = true -> has_dup (cat A Q) = true.
Proof.
  intros HA HQ. destruct Q as [|q Q]; [discriminate|]. cbn [cat]. destruct A as [|a A]; [contradiction|].
  rewrite prod_cons. apply has_dup_app_l. now apply has_dup_map_app.
Qed.

Lemma distinctb_dup br : distinctb br = false -> has_dup (flat_map graph_paths br) = true.
Proof.
  induction br as [|x r IH]; [discriminate|]. cbn [distinctb flat_map]. intros H.
  apply andb_false_elim in H. destruct H as [H|H].
  - apply negb_false_iff in H. apply existsb_exists in H. destruct H as (y & Hy & Hxy).
    destruct (graph_paths x) as [|p ps] eqn:E; [now apply graph_paths_nonempty in E|].
    destruct (graph_eqb_paths _ _ Hxy p) as (q & Hq & He); [rewrite E; now left|].
    apply has_dup_cross with (p := p) (q := q); [now left| |exact He]. apply in_flat_map. now exists y.
  - apply has_dup_app_r. now apply IH.
Qed.

Lemma create_graphs_none e : forall br,
  create_graphs e br = None -> has_dup (cat (paths e) (flat_map graph_paths br)) = true.
Proof.
  induction e as [n|a IHa b IHb|a IHa b IHb]; intros br H; cbn [create_graphs paths] in *.
  - destruct (distinctb br) eqn:E; [discriminate|]. apply has_dup_cat; [discriminate|]. now apply distinctb_dup.
  - fold (prod (paths a) (paths b)). rewrite cat_assoc by apply paths_nonempty.
    destruct (create_graphs b br) as [bs|] eqn:Eb.
    + rewrite <- (create_graphs_paths _ _ _ Eb). now apply IHa.
    + apply has_dup_cat; [apply paths_nonempty|]. now apply IHb.
  - rewrite cat_app. destruct (create_graphs a br) as [l|] eqn:Ea.
    + destruct (create_graphs b br) as [r|] eqn:Eb; [discriminate|]. apply has_dup_app_r. now apply IHb.
    + apply has_dup_app_l. now apply IHa.
Qed.

Lemma compile_error_dup t : compile_tree t = CompileError -> has_dup (doc_paths t) = true.
Proof.
  unfold compile_tree. destruct (create_graphs (handle_tree t true) []) eqn:E; [discriminate|]. intros _.
  apply create_graphs_none in E. cbn [flat_map cat] in E. pose proof (handle_paths t LEnd) as HH.
  cbn [notify_of] in HH. now rewrite HH in E.
Qed.

(* without a connector nothing is ever put below a node: compile_str cannot refuse *)
Lemma no_series_compiles t : has_series t = false -> forall n, create_graphs (handle_tree t n) [] <> None.
Proof.
  induction t as [w| |w| |a IHa c b IHb|a IHa b IHb]; intros H n; cbn in *; try discriminate.
  apply orb_false_elim in H. destruct H as [Ha Hb]. specialize (IHa Ha n). specialize (IHb Hb n).
  destruct (create_graphs (handle_tree a n) []); [|contradiction].
  destruct (create_graphs (handle_tree b n) []); [discriminate|contradiction].
Qed.
Lemma compile_error_series t : compile_tree t = CompileError -> has_series t = true.
Proof.
  unfold compile_tree. intros H. destruct (has_series t) eqn:E; [reflexivity|].
  pose proof (no_series_compiles t E true) as Hn. destruct (create_graphs (handle_tree t true) []); [discriminate|contradiction].
Qed.

Lemma compile_tree_not_rejected t : compile_tree t <> Rejected /\ compile_tree t <> Crashed.
Proof. unfold compile_tree. destruct (create_graphs _ _); split; discriminate. Qed.

(* The law evaluated on the model's own outcome can only raise the two listed findings:
   code 1 (documented text with a bracketed "*" rejected, F10) and code 3 (a repeated path refused, F17). *)
Lemma model_law s c : In c (law_single s (compile_str s)) -> c = 1%Z \/ c = 3%Z \/ c = 19%Z.
Proof.
  unfold law_single. destruct (doc_parse s) as [[ts t]|] eqn:Ed.
  - apply doc_parse_iff in Ed. destruct Ed as [Hl HD].
    unfold compile_str, parse. rewrite Hl.
    destruct (parse_toks ts) as [t'|] eqn:Ep.
    + assert (t' = t) as ->.
      { apply parse_toks_gen_sound in Ep. apply lark_subset_doc in Ep. eapply derivation_unique; eauto. }
      destruct (compile_tree t) as [| |gs|] eqn:Ec.
      * now destruct (compile_tree_not_rejected t).
      * rewrite (compile_error_dup _ Ec), (compile_error_series _ Ec).
        destruct (dup_right t); intros [<-|[]]; auto.
      * rewrite (meaning_lemma _ _ Ec), path_set_eqb_refl. intros [].
      * now destruct (compile_tree_not_rejected t).
    + destruct (star_in_brackets 0 ts) eqn:Es; [intros [<-|[]]; now left|].
      apply doc_minus_f10 in HD; [|exact Es]. apply (parse_toks_gen_complete false) in HD.
      unfold parse_toks in Ep. congruence.
  - assert (compile_str s = Rejected) as ->; [|intros []].
    unfold compile_str. destruct (parse s) as [t|] eqn:Ep; [|reflexivity]. exfalso.
    apply parse_iff in Ep. destruct Ep as (ts & Hl & HD). apply lark_subset_doc in HD.
    assert (doc_parse s = Some (ts, t)) as E by (apply doc_parse_iff; split; assumption). congruence.
Qed.

(* with the two findings excluded the law holds outright *)
Lemma model_law_clean s :
  (forall ts, lex s = Some ts -> star_in_brackets 0 ts = false) -> compile_str s <> CompileError ->
  law_single s (compile_str s) = [].
Proof.
  intros Hs Hc. destruct (law_single s (compile_str s)) as [|c l] eqn:E; [reflexivity|]. exfalso.
  assert (In c (law_single s (compile_str s))) as Hin by (rewrite E; now left).
  pose proof (model_law _ _ Hin) as Hc13. clear Hin.
  unfold law_single in E. destruct (doc_parse s) as [[ts t]|] eqn:Ed.
  - pose proof (proj1 (doc_parse_iff _ _ _) Ed) as [Hl _]. specialize (Hs _ Hl).
    destruct (compile_str s) as [| |gs|] eqn:Eo.
    + rewrite Hs in E. inversion E; subst. destruct Hc13 as [?|[?|?]]; discriminate.
    + now apply Hc.
    + destruct (path_set_eqb _ _); inversion E; subst. destruct Hc13 as [?|[?|?]]; discriminate.
    + inversion E; subst. destruct Hc13 as [?|[?|?]]; discriminate.
  - destruct (compile_str s); cbn in E; inversion E; subst; destruct Hc13 as [?|[?|?]]; discriminate.
Qed.

(* Python-equal results denote the same paths (clause 12 of the pair law on the model) *)
Lemma equal_graphs_same_paths g1 g2 : list_eqb graph_eqb g1 g2 = true ->
  path_subset (flat_map graph_paths g1) (flat_map graph_paths g2) = true.
Proof. apply graphs_eqb_paths. Qed.

(* ================================================================== Part 7: the lexer meets its declarative spec *)
Lemma lex_word_run cs : forall w' s ts, word_chars cs = Some w' -> starts_wordchar s = false ->
  lex_go None s = Some ts -> forall w, lex_go (Some w) (cs ++ s) = Some (W (w ++ w') :: ts).
Proof.
  induction cs as [|ch cs IH]; intros w' s ts Hw Hs Hl w.
  - inversion Hw; subst. rewrite app_nil_r. cbn [app].
    destruct s as [|x r]; [cbn in *; now inversion Hl|].
    destruct x; try discriminate; cbn [lex_go sym_of] in *;
      destruct (lex_go None r); cbn in *; inversion Hl; subst; reflexivity.
  - destruct ch; try discriminate; cbn [word_chars] in Hw;
      destruct (word_chars cs) as [w''|] eqn:E; try discriminate; inversion Hw; subst;
      cbn [app lex_go]; rewrite (IH _ _ _ eq_refl Hs Hl); now rewrite <- app_assoc.
Qed.

Lemma lex_complete_spell ts s : Spell ts s -> lex s = Some ts.
Proof.
  unfold lex. induction 1 as [|ts s _ IH|ts s x t Hx _ IH|ts s c0 cs w Hw Hs _ IH].
  - reflexivity.
  - cbn [lex_go]. now rewrite IH.
  - destruct x; try discriminate; cbn [lex_go sym_of] in *; rewrite IH; now inversion Hx.
  - cbn [lex_go]. now rewrite (lex_word_run _ _ _ _ Hw Hs IH).
Qed.

Lemma lex_sound_spell s :
  (forall ts, lex_go None s = Some ts -> Spell ts s) /\
  (forall w ts, lex_go (Some w) s = Some ts ->
     exists cs w' ts' s', s = cs ++ s' /\ word_chars cs = Some w' /\ starts_wordchar s' = false /\
                          ts = W (w ++ w') :: ts' /\ Spell ts' s').
Proof.
  induction s as [|ch r [IHn IHs]].
  - split.
    + intros ts H. inversion H. constructor.
    + intros w ts H. inversion H. exists [], [], [], []. split; [reflexivity|]. split; [reflexivity|].
      split; [reflexivity|]. split; [now rewrite app_nil_r|]. constructor.
  - split.
    + intros ts H. destruct ch; cbn [lex_go sym_of] in H; try discriminate.
      * destruct (IHs _ _ H) as (cs & w' & ts' & s' & -> & Hw & Hs & -> & Hsp). now apply Sp_word.
      * destruct (lex_go None r) as [ts0|] eqn:E; [|discriminate]. cbn in H. inversion H; subst. apply Sp_ws. auto.
      * destruct (lex_go None r) as [ts0|] eqn:E; [|discriminate]. inversion H; subst. apply Sp_sym; auto.
      * destruct (lex_go None r) as [ts0|] eqn:E; [|discriminate]. inversion H; subst. apply Sp_sym; auto.
      * destruct (lex_go None r) as [ts0|] eqn:E; [|discriminate]. inversion H; subst. apply Sp_sym; auto.
      * destruct (lex_go None r) as [ts0|] eqn:E; [|discriminate]. inversion H; subst. apply Sp_sym; auto.
      * destruct (lex_go None r) as [ts0|] eqn:E; [|discriminate]. inversion H; subst. apply Sp_sym; auto.
      * destruct (lex_go None r) as [ts0|] eqn:E; [|discriminate]. inversion H; subst. apply Sp_sym; auto.
      * destruct (lex_go None r) as [ts0|] eqn:E; [|discriminate]. inversion H; subst. apply Sp_sym; auto.
    + intros w ts H. destruct ch; cbn [lex_go sym_of] in H; try discriminate.
      * destruct (IHs _ _ H) as (cs & w' & ts' & s' & -> & Hw & Hs & -> & Hsp).
        exists (CStart c :: cs), (c :: w'), ts', s'. repeat split; auto.
        -- cbn [word_chars]. now rewrite Hw.
        -- now rewrite <- app_assoc.
      * destruct (IHs _ _ H) as (cs & w' & ts' & s' & -> & Hw & Hs & -> & Hsp).
        exists (CCont c :: cs), (c :: w'), ts', s'. repeat split; auto.
        -- cbn [word_chars]. now rewrite Hw.
        -- now rewrite <- app_assoc.
      * destruct (lex_go None r) as [ts0|] eqn:E; [|discriminate]. cbn in H. inversion H; subst.
        exists [], [], ts0, (CWs :: r). split; [reflexivity|]. split; [reflexivity|]. split; [reflexivity|].
        split; [now rewrite app_nil_r|]. apply Sp_ws. auto.
      * destruct (lex_go None r) as [ts0|] eqn:E; [|discriminate]. inversion H; subst.
        eexists [], [], _, _. split; [reflexivity|]. split; [reflexivity|]. split; [reflexivity|].
        split; [now rewrite app_nil_r|]. apply Sp_sym; auto.
      * destruct (lex_go None r) as [ts0|] eqn:E; [|discriminate]. inversion H; subst.
        eexists [], [], _, _. split; [reflexivity|]. split; [reflexivity|]. split; [reflexivity|].
        split; [now rewrite app_nil_r|]. apply Sp_sym; auto.
      * destruct (lex_go None r) as [ts0|] eqn:E; [|discriminate]. inversion H; subst.
        eexists [], [], _, _. split; [reflexivity|]. split; [reflexivity|]. split; [reflexivity|].
        split; [now rewrite app_nil_r|]. apply Sp_sym; auto.
      * destruct (lex_go None r) as [ts0|] eqn:E; [|discriminate]. inversion H; subst.
        eexists [], [], _, _. split; [reflexivity|]. split; [reflexivity|]. split; [reflexivity|].
        split; [now rewrite app_nil_r|]. apply Sp_sym; auto.
      * destruct (lex_go None r) as [ts0|] eqn:E; [|discriminate]. inversion H; subst.
        eexists [], [], _, _. split; [reflexivity|]. split; [reflexivity|]. split; [reflexivity|].
        split; [now rewrite app_nil_r|]. apply Sp_sym; auto.
      * destruct (lex_go None r) as [ts0|] eqn:E; [|discriminate]. inversion H; subst.
        eexists [], [], _, _. split; [reflexivity|]. split; [reflexivity|]. split; [reflexivity|].
        split; [now rewrite app_nil_r|]. apply Sp_sym; auto.
      * destruct (lex_go None r) as [ts0|] eqn:E; [|discriminate]. inversion H; subst.
        eexists [], [], _, _. split; [reflexivity|]. split; [reflexivity|]. split; [reflexivity|].
        split; [now rewrite app_nil_r|]. apply Sp_sym; auto.
Qed.

Lemma lex_iff_spell s ts : lex s = Some ts <-> Spell ts s.
Proof. split; [apply lex_sound_spell|apply lex_complete_spell]. Qed.

(* ================================================================== Part 8: ObserverGraph.__eq__ ignores the order of children *)
From Coq Require Import Permutation.

Lemma graph_eqb_perm n cs cs' : Permutation cs cs' -> graph_eqb (G n cs) (G n cs') = true.
Proof.
  intros HP. cbn [graph_eqb]. rewrite node_eqb_refl. cbn [andb]. apply andb_true_intro. split.
  - apply forallb_forall. intros x Hx. apply existsb_exists. exists x. split.
    + eapply Permutation_in; eauto.
    + apply graph_eqb_refl.
  - apply forallb_forall. intros y Hy. apply existsb_exists. exists y. split.
    + eapply Permutation_in; [apply Permutation_sym|]; eauto.
    + apply graph_eqb_refl.
Qed.

Lemma par_comm a b br l : create_graphs (EPar a b) br = Some l ->
  exists l', create_graphs (EPar b a) br = Some l' /\ Permutation l l'.
Proof.
  cbn [create_graphs]. destruct (create_graphs a br) as [x|]; [|discriminate].
  destruct (create_graphs b br) as [y|]; [|discriminate]. intros H. inversion H; subst.
  exists (y ++ x). split; [reflexivity|apply Permutation_app_comm].
Qed.

Lemma word_eqb_sym a : forall b, word_eqb a b = word_eqb b a.
Proof. induction a as [|x a IH]; intros [|y b]; cbn; try reflexivity. now rewrite Z.eqb_sym, IH. Qed.
Lemma bool_eqb_sym a b : Bool.eqb a b = Bool.eqb b a.
Proof. now destruct a, b. Qed.
Lemma node_eqb_sym a b : node_eqb a b = node_eqb b a.
Proof.
  destruct a as [w n o|n f|n o|n o|n o], b as [w' n' o'|n' f'|n' o'|n' o'|n' o']; cbn; try reflexivity;
    rewrite ?(word_eqb_sym w w'), ?(bool_eqb_sym n n'), ?(bool_eqb_sym o o'); try reflexivity.
  destruct f, f'; cbn; try reflexivity. now rewrite word_eqb_sym.
Qed.

Lemma forallb_ext_in {A} (f g : A -> bool) l : (forall x, In x l -> f x = g x) -> forallb f l = forallb g l.
Proof.
  induction l as [|x l IH]; intros H; [reflexivity|]. cbn. rewrite (H x (or_introl eq_refl)), IH; [reflexivity|].
  intros y Hy. apply H. now right.
Qed.
Lemma existsb_ext_in {A} (f g : A -> bool) l : (forall x, In x l -> f x = g x) -> existsb f l = existsb g l.
Proof.
  induction l as [|x l IH]; intros H; [reflexivity|]. cbn. rewrite (H x (or_introl eq_refl)), IH; [reflexivity|].
  intros y Hy. apply H. now right.
Qed.

Lemma graph_eqb_sym a : forall b, graph_eqb a b = graph_eqb b a.
Proof.
  induction a as [n1 c1 IH] using graph_ind'. intros [n2 c2]. cbn [graph_eqb].
  rewrite Forall_forall in IH. rewrite (node_eqb_sym n1 n2). rewrite <- !andb_assoc. f_equal.
  rewrite andb_comm. f_equal.
  - apply forallb_ext_in. intros y _. apply existsb_ext_in. intros x Hx. now apply IH.
  - apply forallb_ext_in. intros x Hx. apply existsb_ext_in. intros y _. now apply IH.
Qed.

Lemma word_eqb_eq a : forall b, word_eqb a b = true -> a = b.
Proof.
  induction a as [|x a IH]; intros [|y b] H; try discriminate; [reflexivity|].
  cbn in H. apply andb_prop in H. destruct H as [H1 H2]. apply Z.eqb_eq in H1. subst. f_equal. auto.
Qed.
Lemma node_eqb_eq a b : node_eqb a b = true -> a = b.
Proof.
  destruct a as [w n o|n f|n o|n o|n o], b as [w' n' o'|n' f'|n' o'|n' o'|n' o']; cbn; try discriminate; intros H;
    repeat (apply andb_prop in H; destruct H as [H ?]);
    repeat match goal with
           | X : Bool.eqb _ _ = true |- _ => apply eqb_prop in X; subst
           | X : word_eqb _ _ = true |- _ => apply word_eqb_eq in X; subst
           end; try reflexivity.
  destruct f, f'; cbn in *; try discriminate; try reflexivity.
  match goal with X : word_eqb _ _ = true |- _ => apply word_eqb_eq in X; subst end. reflexivity.
Qed.

Lemma graph_eqb_trans a : forall b c, graph_eqb a b = true -> graph_eqb b c = true -> graph_eqb a c = true.
Proof.
  induction a as [n1 c1 IH] using graph_ind'. intros [n2 c2] [n3 c3] Hab Hbc. cbn [graph_eqb] in *.
  rewrite Forall_forall in IH.
  apply andb_prop in Hab. destruct Hab as [Hab Hab2]. apply andb_prop in Hab. destruct Hab as [Hn12 Hab1].
  apply andb_prop in Hbc. destruct Hbc as [Hbc Hbc2]. apply andb_prop in Hbc. destruct Hbc as [Hn23 Hbc1].
  apply node_eqb_eq in Hn12. apply node_eqb_eq in Hn23. subst. rewrite node_eqb_refl. cbn [andb].
  rewrite forallb_forall in Hab1, Hab2, Hbc1, Hbc2.
  apply andb_true_intro. split; apply forallb_forall.
  - intros x Hx. specialize (Hab1 x Hx). apply existsb_exists in Hab1. destruct Hab1 as (y & Hy & Hxy).
    specialize (Hbc1 y Hy). apply existsb_exists in Hbc1. destruct Hbc1 as (z & Hz & Hyz).
    apply existsb_exists. exists z. split; [exact Hz|]. eapply IH; eauto.
  - intros z Hz. specialize (Hbc2 z Hz). apply existsb_exists in Hbc2. destruct Hbc2 as (y & Hy & Hyz).
    specialize (Hab2 y Hy). apply existsb_exists in Hab2. destruct Hab2 as (x & Hx & Hxy).
    apply existsb_exists. exists x. split; [exact Hx|]. eapply IH; eauto.
Qed.

(* ================================================================== the expression API *)
Lemma expr_meaning e :
  (forall gs, create_graphs e [] = Some gs -> flat_map graph_paths gs = paths e) /\
  (create_graphs e [] = None -> has_dup (paths e) = true).
Proof.
  split.
  - intros gs H. now rewrite (create_graphs_paths _ _ _ H).
  - intros H. apply create_graphs_none in H. exact H.
Qed.

Lemma expr_law e : forall c,
  In c (law_expr e (match create_graphs e [] with Some gs => Graphs gs | None => CompileError end)) -> c = 3%Z \/ c = 19%Z.
Proof.
  intros c. unfold law_expr. destruct (create_graphs e []) as [gs|] eqn:E.
  - rewrite (proj1 (expr_meaning e) _ E), path_set_eqb_refl. intros [].
  - rewrite (proj2 (expr_meaning e) E). destruct (dup_right_e e); intros [<-|[]]; auto.
Qed.

Lemma graphs_eqb_sym g1 : forall g2, list_eqb graph_eqb g1 g2 = list_eqb graph_eqb g2 g1.
Proof.
  induction g1 as [|x g1 IH]; intros [|y g2]; cbn; try reflexivity. now rewrite graph_eqb_sym, IH.
Qed.

(* clause 12 of the pair law on the model: results equal by ObserverGraph.__eq__ denote the same set of paths *)
Lemma equal_graphs_same_path_set g1 g2 : list_eqb graph_eqb g1 g2 = true ->
  path_set_eqb (flat_map graph_paths g1) (flat_map graph_paths g2) = true.
Proof.
  intros H. unfold path_set_eqb. rewrite (graphs_eqb_paths _ _ H). rewrite graphs_eqb_sym in H.
  now rewrite (graphs_eqb_paths _ _ H).
Qed.

Lemma model_pair_law same s1 s2 c :
  let o1 := compile_str s1 in let o2 := compile_str s2 in
  In c (law_pair same o1 o2 (outcome_same o1 o2) (outcome_same o1 o2)) -> same = true /\ (c = 7%Z \/ c = 8%Z \/ c = 9%Z \/ c = 10%Z).
Proof.
  cbn zeta. unfold law_pair. intros H. apply in_app_or in H. destruct H as [H|H].
  - destruct same; [|destruct H]. split; [reflexivity|]. destruct (same_class _ _); cbn in H; [destruct H|].
    destruct H as [<-|[]]. now left.
  - destruct (compile_str s1) as [| |g1|] eqn:E1; try destruct H;
      destruct (compile_str s2) as [| |g2|] eqn:E2; try destruct H.
    apply in_app_or in H. destruct H as [H|H].
    + destruct same; [|destruct H]. split; [reflexivity|]. cbn [outcome_same] in H.
      destruct (list_eqb graph_eqb g1 g2); cbn in H; [destruct H|].
      destruct H as [<-|[<-|[<-|[]]]]; auto.
    + cbn [outcome_same] in H. destruct (list_eqb graph_eqb g1 g2) eqn:E.
      * rewrite (equal_graphs_same_path_set _ _ E) in H. cbn in H. destruct H.
      * cbn in H. destruct H.
Qed.

(* ================================================================== Part 9: which traits a pattern hooks *)
Lemma flat_map_nil_fun {A B} (f : A -> list B) l : (forall x, f x = []) -> flat_map f l = [].
Proof. intros H. induction l as [|x l IH]; [reflexivity|]. cbn. now rewrite H, IH. Qed.

Lemma hook_path_single h o n :
  hook_path h o [n] =
  let '(obs, errs) := observables n o (nth_obj h o) in
  errs ++ (if node_notify n then map (fun x => Hit o (fst x)) obs else []).
Proof.
  cbn [hook_path]. destruct (observables n o (nth_obj h o)) as [obs errs].
  rewrite flat_map_nil_fun; [now rewrite app_nil_r|]. intros x. now apply flat_map_nil_fun.
Qed.

(* the walk over a graph reaches exactly what the walks along its paths reach *)
Lemma hook_graph_paths h g : forall o x,
  In x (hook_graph h o g) <-> exists p, In p (graph_paths g) /\ In x (hook_path h o p).
Proof.
  induction g as [n cs IH] using graph_ind'. intros o x. rewrite Forall_forall in IH.
  destruct cs as [|c cs].
  - cbn [graph_paths hook_graph flat_map]. pose proof (hook_path_single h o n) as HS.
    destruct (observables n o (nth_obj h o)) as [obs errs] eqn:E. cbn zeta in HS. rewrite app_nil_r.
    split.
    + intros Hx. exists [n]. split; [now left|]. now rewrite HS.
    + intros (p & [<-|[]] & Hx). now rewrite HS in Hx.
  - rewrite gp_cons. cbn [hook_graph].
    destruct (observables n o (nth_obj h o)) as [obs errs] eqn:E.
    split.
    + intros Hx. apply in_app_or in Hx. destruct Hx as [Hx|Hx]; [|apply in_app_or in Hx; destruct Hx as [Hx|Hx]].
      * destruct (flat_map graph_paths (c :: cs)) as [|p0 ps] eqn:Ep; [now apply flat_gp_nil in Ep|].
        exists (n :: p0). split; [now left|]. cbn [hook_path]. rewrite E. apply in_or_app. now left.
      * destruct (flat_map graph_paths (c :: cs)) as [|p0 ps] eqn:Ep; [now apply flat_gp_nil in Ep|].
        exists (n :: p0). split; [now left|]. cbn [hook_path]. rewrite E. apply in_or_app. right.
        apply in_or_app. now left.
      * apply in_flat_map in Hx. destruct Hx as (c' & Hc' & Hx). apply in_flat_map in Hx.
        destruct Hx as (it & Hit & Hx). apply in_flat_map in Hx. destruct Hx as (o' & Ho' & Hx).
        apply (IH c' Hc') in Hx. destruct Hx as (p & Hp & Hx).
        exists (n :: p). split.
        -- apply in_map. apply in_flat_map. now exists c'.
        -- cbn [hook_path]. rewrite E. apply in_or_app. right. apply in_or_app. right.
           apply in_flat_map. exists it. split; [exact Hit|]. apply in_flat_map. now exists o'.
    + intros (p & Hp & Hx). apply in_map_iff in Hp. destruct Hp as (p' & <- & Hp').
      cbn [hook_path] in Hx. rewrite E in Hx.
      apply in_app_or in Hx. destruct Hx as [Hx|Hx]; [apply in_or_app; now left|].
      apply in_app_or in Hx. destruct Hx as [Hx|Hx]; [apply in_or_app; right; apply in_or_app; now left|].
      apply in_or_app. right. apply in_or_app. right.
      apply in_flat_map in Hx. destruct Hx as (it & Hit & Hx). apply in_flat_map in Hx. destruct Hx as (o' & Ho' & Hx).
      apply in_flat_map in Hp'. destruct Hp' as (c' & Hc' & Hp').
      apply in_flat_map. exists c'. split; [exact Hc'|]. apply in_flat_map. exists it. split; [exact Hit|].
      apply in_flat_map. exists o'. split; [exact Ho'|]. apply (IH c' Hc'). now exists p'.
Qed.

Lemma filter_true {A} (l : list A) : filter (fun _ => true) l = l.
Proof. induction l as [|x l IH]; [reflexivity|]. cbn. now rewrite IH. Qed.

(* element by element, the observer the parser builds matches what the manual says the element matches *)
Lemma observables_node_of ml o ob : observables (node_of ml) o ob = m_obs (fst ml) o ob.
Proof.
  destruct ml as [m l].
  destruct m as [w| | | | |w| ]; destruct ob as [ts|items|vals|items];
    cbn [node_of fst snd observables m_obs unless filter_ok]; try reflexivity.
  all: try (match goal with |- context [find_trait ?a ?b] => destruct (find_trait a b); reflexivity end).
  all: try (unfold filter_ok; now rewrite filter_true).
Qed.
Lemma notify_node_of ml : node_notify (node_of ml) = notify_of (snd ml).
Proof. destruct ml as [m l]. destruct m; reflexivity. Qed.

Lemma hook_path_node_of h p : forall o, hook_path h o (map node_of p) = hook_mpath h o p.
Proof.
  induction p as [|ml p IH]; intros o; [reflexivity|].
  cbn [map hook_path hook_mpath]. rewrite observables_node_of, notify_node_of.
  destruct (m_obs (fst ml) o (nth_obj h o)) as [obs errs]. f_equal. f_equal.
  apply flat_map_ext. intros it. apply flat_map_ext. intros o'. apply IH.
Qed.

(* on every heap, from every object: the handler ends up on exactly the traits / containers the documented meaning
   names (and observe raises exactly when the documented meaning meets an error) *)
Lemma hooks_meaning_lemma t gs : compile_tree t = Graphs gs ->
  forall h o x, In x (flat_map (hook_graph h o) gs) <-> In x (doc_hooks h o t).
Proof.
  intros Hc h o x. pose proof (meaning_lemma _ _ Hc) as HM. unfold doc_paths, doc_paths_l in HM.
  unfold doc_hooks. rewrite !in_flat_map. split.
  - intros (g & Hg & Hx). apply hook_graph_paths in Hx. destruct Hx as (p & Hp & Hx).
    assert (In p (flat_map graph_paths gs)) as Hin by (apply in_flat_map; now exists g).
    rewrite HM in Hin. apply in_map_iff in Hin. destruct Hin as (q & <- & Hq).
    exists q. split; [exact Hq|]. now rewrite <- hook_path_node_of.
  - intros (q & Hq & Hx). rewrite <- hook_path_node_of in Hx.
    assert (In (map node_of q) (flat_map graph_paths gs)) as Hin by (rewrite HM; now apply in_map).
    apply in_flat_map in Hin. destruct Hin as (g & Hg & Hp). exists g. split; [exact Hg|].
    apply hook_graph_paths. now exists (map node_of q).
Qed.

(* "+name" hooks a trait iff its metadata value is not None - falsy values included *)
Lemma metadata_hooks_iff_not_none w ts x :
  In x (fst (m_obs (MMeta w) 0 (OTraits ts))) <->
  exists t, In t ts /\ meta_of (t_meta t) w <> MVNone /\ x = trait_item t.
Proof.
  cbn. rewrite in_map_iff. split.
  - intros (t & <- & Ht). apply filter_In in Ht. destruct Ht as [H1 H2]. exists t. repeat split; auto.
    intros E. rewrite E in H2. discriminate.
  - intros (t & H1 & H2 & ->). exists t. split; [reflexivity|]. apply filter_In. split; [exact H1|].
    destruct (meta_of (t_meta t) w); [contradiction|reflexivity|reflexivity].
Qed.

(* "items" is four-way at run time: on a list / dict / set it is the container and its items (values), on a HasTraits
   object the trait named items if there is one, and never an error *)
Lemma flat_map_const_nil {A B} (l : list A) : flat_map (fun _ : A => @nil B) l = [].
Proof. now apply flat_map_nil_fun. Qed.

Lemma items_runtime h o l :
  let ob := nth_obj h o in
  flat_map (hook_mpath h o) (raw_paths TItems l) =
  match ob with
  | OTraits ts => match find_trait ts items_word with
                  | Some t => if notify_of l then [Hit o (t_name t)] else []
                  | None => [] end
  | _ => if notify_of l then [Hit o []] else []
  end.
Proof.
  cbn zeta. cbn [raw_paths flat_map hook_mpath fst snd]. destruct (nth_obj h o) as [ts|items|vals|items]; cbn [m_obs].
  - destruct (find_trait ts items_word) as [t|]; destruct (notify_of l); cbn; rewrite ?flat_map_const_nil; reflexivity.
  - destruct (notify_of l); cbn; rewrite ?flat_map_const_nil; reflexivity.
  - destruct (notify_of l); cbn; rewrite ?flat_map_const_nil; reflexivity.
  - destruct (notify_of l); cbn; rewrite ?flat_map_const_nil; reflexivity.
Qed.

(* ================================================================== Part 10: brackets at the text level, both languages *)
Lemma flush_app cur ts x : flush cur ts ++ x = flush cur (ts ++ x).
Proof. destruct cur; reflexivity. Qed.

Lemma lex_rbr_end s : forall cur, lex_go cur (s ++ [CRbr]) = option_map (fun ts => ts ++ [RBR]) (lex_go cur s).
Proof.
  induction s as [|x s IH]; intros cur.
  - cbn. now rewrite flush_app.
  - destruct x; cbn [app lex_go sym_of]; rewrite ?IH; try reflexivity;
      try (destruct (lex_go None s); cbn; [now rewrite flush_app|reflexivity]).
    destruct cur; [apply IH|reflexivity].
Qed.

Lemma lex_brackets s ts : lex s = Some ts -> lex (CLbr :: s ++ [CRbr]) = Some (LBR :: ts ++ [RBR]).
Proof. unfold lex. intros H. cbn [lex_go sym_of]. now rewrite lex_rbr_end, H. Qed.

(* in the documented language brackets never matter; in the parser's language they do not matter around a "*"-free text *)
Lemma doc_brackets_same_tree ts t : parse_toks_gen true ts = Some t -> parse_toks_gen true (LBR :: ts ++ [RBR]) = Some t.
Proof.
  intros H. apply parse_toks_gen_sound in H. apply parse_toks_gen_complete. now apply Dp_one, Ds_one, De_br.
Qed.

Lemma brackets_text s t : parse s = Some t -> has_any t = false -> compile_str (CLbr :: s ++ [CRbr]) = compile_str s.
Proof.
  unfold compile_str, parse. destruct (lex s) as [ts|] eqn:E; [|discriminate]. intros H Ha.
  rewrite (lex_brackets _ _ E), (brackets_same_tree _ _ H Ha), H. reflexivity.
Qed.

Lemma doc_brackets_text s ts t : doc_parse s = Some (ts, t) -> doc_parse (CLbr :: s ++ [CRbr]) = Some (LBR :: ts ++ [RBR], t).
Proof.
  unfold doc_parse. destruct (lex s) as [ts'|] eqn:E; [|discriminate].
  destruct (parse_toks_gen true ts') as [t'|] eqn:Ep; [|discriminate]. intros H. inversion H; subst.
  now rewrite (lex_brackets _ _ E), (doc_brackets_same_tree _ _ Ep).
Qed.

(* whitespace rewrites do not leave the documented language either: doc_parse depends on the text through lex only *)
Lemma doc_parse_lex s1 s2 : lex s1 = lex s2 -> doc_parse s1 = doc_parse s2.
Proof. unfold doc_parse. now intros ->. Qed.

Lemma whitespace_doc_lemma :
  (forall pre x r, is_symb x = true -> doc_parse (pre ++ CWs :: x :: r) = doc_parse (pre ++ x :: r)) /\
  (forall pre x r, is_symb x = true -> doc_parse (pre ++ x :: CWs :: r) = doc_parse (pre ++ x :: r)) /\
  (forall pre r, doc_parse (pre ++ CWs :: CWs :: r) = doc_parse (pre ++ CWs :: r)) /\
  (forall s, doc_parse (CWs :: s) = doc_parse s) /\
  (forall s, doc_parse (s ++ [CWs]) = doc_parse s).
Proof.
  repeat split; intros; apply doc_parse_lex; unfold lex.
  - apply lex_context. intros cur. now apply lex_ws_sym.
  - apply lex_context. intros cur. now apply lex_sym_ws.
  - apply lex_context. intros cur. apply lex_ws_ws.
  - cbn [lex_go]. apply flush_none_id.
  - apply lex_ws_end.
Qed.

(* ================================================================== the hook law on the model *)
Lemma in_hit_codes c l : In c (hit_codes l) <-> exists x, In x l /\ hit_code x = Some c.
Proof.
  induction l as [|x l IH]; cbn [hit_codes].
  - split; [intros []|intros (x & [] & _)].
  - destruct (hit_code x) as [d|] eqn:E.
    + split.
      * intros [<-|H]; [exists x; split; [now left|exact E]|].
        apply IH in H. destruct H as (y & Hy & Ey). exists y. split; [now right|exact Ey].
      * intros (y & [<-|Hy] & Ey); [left; congruence|]. right. apply IH. now exists y.
    + rewrite IH. split; intros (y & Hy & Ey); exists y; (split; [|exact Ey]).
      * now right.
      * destruct Hy as [<-|Hy]; [congruence|exact Hy].
Qed.

Lemma has_err_ext a b : (forall x, In x a <-> In x b) -> has_err a = has_err b.
Proof.
  intros H. unfold has_err. destruct (existsb _ a) eqn:Ea; symmetry.
  - apply existsb_exists in Ea. destruct Ea as (x & Hx & Ex). apply existsb_exists. exists x. split; [now apply H|exact Ex].
  - destruct (existsb _ b) eqn:Eb; [|reflexivity]. apply existsb_exists in Eb. destruct Eb as (x & Hx & Ex).
    assert (existsb (fun x0 : hit => match x0 with Hit _ _ => false | Err _ _ => true end) a = true) as C
      by (apply existsb_exists; exists x; split; [now apply H|exact Ex]). congruence.
Qed.

Lemma zsubset_codes a b : (forall x, In x a -> In x b) -> zsubset (hit_codes a) (hit_codes b) = true.
Proof.
  intros H. apply forallb_forall. intros c Hc. apply in_hit_codes in Hc. destruct Hc as (x & Hx & Ex).
  apply existsb_exists. exists c. split; [|apply Z.eqb_refl]. apply in_hit_codes. exists x. split; [now apply H|exact Ex].
Qed.

(* for every text the model compiles, the end-to-end hook law (clauses 16, 17) holds of the model's own walk *)
Lemma model_hook_law s gs : compile_str s = Graphs gs ->
  let hits := flat_map (hook_graph probe_heap 0) gs in
  law_hook s (negb (has_err hits)) (hit_codes hits) = [].
Proof.
  intros Hc hits. unfold law_hook.
  unfold compile_str in Hc. destruct (parse s) as [t|] eqn:Ep; [|discriminate].
  pose proof Ep as Ep'. apply parse_iff in Ep'. destruct Ep' as (ts & Hl & HD). apply lark_subset_doc in HD.
  assert (doc_parse s = Some (ts, t)) as -> by (apply doc_parse_iff; now split).
  pose proof (hooks_meaning_lemma _ _ Hc probe_heap 0) as HM. fold hits in HM.
  rewrite <- (has_err_ext _ _ HM). destruct (has_err hits) eqn:Eh; cbn [negb].
  - reflexivity.
  - cbn [chk app]. unfold zset_eqb.
    rewrite (zsubset_codes (doc_hooks probe_heap 0 t) hits) by (intros x Hx; now apply HM).
    rewrite (zsubset_codes hits (doc_hooks probe_heap 0 t)) by (intros x Hx; now apply HM). reflexivity.
Qed.

(* the same for expressions built through the API: compile_expr's graphs hook what the paths of the expression hook *)
Lemma expr_hooks e gs : create_graphs e [] = Some gs ->
  forall h o x, In x (flat_map (hook_graph h o) gs) <-> In x (flat_map (hook_path h o) (paths e)).
Proof.
  intros Hc h o x. pose proof (proj1 (expr_meaning e) _ Hc) as HM. rewrite !in_flat_map. split.
  - intros (g & Hg & Hx). apply hook_graph_paths in Hx. destruct Hx as (p & Hp & Hx).
    exists p. split; [|exact Hx]. rewrite <- HM. apply in_flat_map. now exists g.
  - intros (p & Hp & Hx). rewrite <- HM in Hp. apply in_flat_map in Hp. destruct Hp as (g & Hg & Hp).
    exists g. split; [exact Hg|]. apply hook_graph_paths. now exists p.
Qed.

(* patterns equal by ObserverGraph.__eq__ hook the same (object, trait) pairs on every heap: removing by an equal
   pattern addresses exactly what the registration hooked *)
Lemma path_eqb_eq p : forall q, path_eqb p q = true -> p = q.
Proof.
  induction p as [|n p IH]; intros [|m q] H; try discriminate; [reflexivity|].
  cbn in H. apply andb_prop in H. destruct H as [H1 H2]. apply node_eqb_eq in H1. subst. f_equal. now apply IH.
Qed.

Lemma equal_graph_hooks_sub h o g1 g2 x : graph_eqb g1 g2 = true -> In x (hook_graph h o g1) -> In x (hook_graph h o g2).
Proof.
  intros He Hx. apply hook_graph_paths in Hx. destruct Hx as (p & Hp & Hx).
  destruct (graph_eqb_paths _ _ He _ Hp) as (q & Hq & Hpq). apply path_eqb_eq in Hpq. subst.
  apply hook_graph_paths. now exists q.
Qed.

Lemma equal_patterns_hooks g1 : forall g2, list_eqb graph_eqb g1 g2 = true ->
  forall h o x, In x (flat_map (hook_graph h o) g1) <-> In x (flat_map (hook_graph h o) g2).
Proof.
  induction g1 as [|a g1 IH]; intros [|b g2] H h o x; try discriminate; [reflexivity|].
  cbn [list_eqb] in H. apply andb_prop in H. destruct H as [Hab H]. cbn [flat_map]. rewrite !in_app_iff.
  rewrite (IH _ H h o x). split; (intros [Hx|Hx]; [left|now right]).
  - now apply (equal_graph_hooks_sub h o a b).
  - apply (equal_graph_hooks_sub h o b a); [now rewrite graph_eqb_sym|exact Hx].
Qed.
