(* C15 — proofs.  Part 1: the recursive-descent parser decides the grammar (both readings of Law.v) *)
From Coq Require Import ZArith List Bool Arith Lia.
From TV Require Import Common.Harness C15.Model C15.Law.
Import ListNotations.
Open Scope nat_scope.

Scheme D_elem_min := Minimality for D_elem Sort Prop
  with D_ser_min := Minimality for D_ser Sort Prop
  with D_par_min := Minimality for D_par Sort Prop.
Combined Scheme D_mutind from D_elem_min, D_ser_min, D_par_min.

Definition le_flag (b b' : bool) : Prop := b = true -> b' = true.

Lemma le_flag_and b b' d : le_flag b b' -> le_flag (b && d) (b' && d).
Proof. unfold le_flag. destruct b, b', d; cbn; auto. Qed.
Lemma le_flag_false b : le_flag false b.
Proof. intro H; discriminate. Qed.
Lemma le_flag_refl b : le_flag b b.
Proof. intro H; exact H. Qed.

Section Grammar.
Variable doc : bool.

(* ---------- three facts about the position flag ---------- *)
Lemma promote_mut :
  (forall b ts t, D_elem doc b ts t -> forall b', le_flag b b' -> D_elem doc b' ts t) /\
  (forall b ts t, D_ser doc b ts t -> forall b', le_flag b b' -> D_ser doc b' ts t) /\
  (forall b ts t, D_par doc b ts t -> forall b', le_flag b b' -> D_par doc b' ts t).
Proof.
  apply D_mutind; intros.
  - now apply De_items.
  - now apply De_trait.
  - apply De_meta.
  - rewrite (H eq_refl). apply De_any.
  - apply De_br. apply H0. now apply le_flag_and.
  - apply Ds_one. auto.
  - apply Ds_cons; auto.
  - apply Dp_one. auto.
  - apply Dp_cons; auto.
Qed.

Lemma nostar_mut :
  (forall b ts t, D_elem doc b ts t -> b = false -> has_any t = false) /\
  (forall b ts t, D_ser doc b ts t -> b = false -> has_any t = false) /\
  (forall b ts t, D_par doc b ts t -> b = false -> has_any t = false).
Proof.
  apply D_mutind; intros; subst; cbn; auto; try discriminate.
  - rewrite (H0 eq_refl), (H2 eq_refl). reflexivity.
  - rewrite (H0 eq_refl), (H2 eq_refl). reflexivity.
Qed.

Lemma demote_mut :
  (forall b ts t, D_elem doc b ts t -> has_any t = false -> D_elem doc false ts t) /\
  (forall b ts t, D_ser doc b ts t -> has_any t = false -> D_ser doc false ts t) /\
  (forall b ts t, D_par doc b ts t -> has_any t = false -> D_par doc false ts t).
Proof.
  apply D_mutind; intros.
  - now apply De_items.
  - now apply De_trait.
  - apply De_meta.
  - discriminate.
  - apply De_br. cbn. auto.
  - apply Ds_one. auto.
  - cbn in H3. apply orb_false_elim in H3. destruct H3. apply Ds_cons; auto.
  - apply Dp_one. auto.
  - cbn in H3. apply orb_false_elim in H3. destruct H3. apply Dp_cons; auto.
Qed.

(* ---------- soundness ---------- *)
Definition sound (p : list tok -> res) (D : list tok -> tree -> Prop) : Prop :=
  forall ts t r, p ts = Some (t, r) -> exists pre, ts = pre ++ r /\ D pre t.

Lemma p_elem_sound rec : (forall b, sound (rec b) (D_par doc b)) -> forall b, sound (p_elem doc rec b) (D_elem doc b).
Proof.
  intros Hrec b ts t r H. unfold p_elem in H.
  destruct ts as [|[w| | |c| | |] ts']; try discriminate.
  - inversion H; subst. exists [W w]. split; [reflexivity|].
    destruct (is_items w) eqn:E; [now apply De_items|now apply De_trait].
  - destruct ts' as [|[w| | |c| | |] ts'']; try discriminate. inversion H; subst.
    exists [PLUS; W w]. split; [reflexivity|constructor].
  - destruct b; [|discriminate]. inversion H; subst. exists [STAR]. split; [reflexivity|constructor].
  - destruct (rec (b && doc) ts') as [[t' r']|] eqn:E; [|discriminate].
    destruct r' as [|[w| | |c| | |] r'']; try discriminate. inversion H; subst.
    destruct (Hrec _ _ _ _ E) as (pre & -> & HD).
    exists (LBR :: pre ++ [RBR]). split; [|constructor; exact HD].
    cbn. rewrite <- app_assoc. reflexivity.
Qed.

Lemma ser_loop_sound pe b : sound pe (D_elem doc b) ->
  forall k left ts t r pre0, D_ser doc b pre0 left -> ser_loop pe k left ts = Some (t, r) ->
  exists pre, ts = pre ++ r /\ D_ser doc b (pre0 ++ pre) t.
Proof.
  intros Hpe. induction k as [|k IH]; intros left ts t r pre0 HD H; [discriminate|].
  cbn [ser_loop] in H.
  destruct ts as [|[w| | |c| | |] ts'];
    try (inversion H; subst; exists []; split; [reflexivity|rewrite app_nil_r; assumption]).
  destruct (has_any left) eqn:Ha; [discriminate|].
  destruct (pe ts') as [[e r']|] eqn:E; [|discriminate].
  destruct (Hpe _ _ _ E) as (pe_pre & -> & HE).
  assert (HD0 : D_ser doc false pre0 left) by (eapply (proj1 (proj2 demote_mut)); eauto).
  destruct (IH _ _ _ _ (pre0 ++ TC c :: pe_pre) (Ds_cons _ _ _ _ c _ _ HD0 HE) H) as (pre & -> & HD').
  exists (TC c :: pe_pre ++ pre). split.
  - cbn. rewrite <- app_assoc. reflexivity.
  - rewrite <- app_assoc in HD'. exact HD'.
Qed.

Lemma p_ser_sound rec k : (forall b, sound (rec b) (D_par doc b)) -> forall b, sound (p_ser doc rec b k) (D_ser doc b).
Proof.
  intros Hrec b ts t r H. unfold p_ser in H.
  destruct (p_elem doc rec b ts) as [[e r0]|] eqn:E; [|discriminate].
  destruct (p_elem_sound rec Hrec b _ _ _ E) as (pre0 & -> & HE).
  destruct (ser_loop_sound _ b (p_elem_sound rec Hrec b) _ _ _ _ _ pre0 (Ds_one _ _ _ _ HE) H) as (pre & -> & HD).
  exists (pre0 ++ pre). split; [rewrite app_assoc; reflexivity|exact HD].
Qed.

Lemma par_loop_sound ps b : sound ps (D_ser doc b) ->
  forall k left ts t r pre0, D_par doc b pre0 left -> par_loop ps k left ts = Some (t, r) ->
  exists pre, ts = pre ++ r /\ D_par doc b (pre0 ++ pre) t.
Proof.
  intros Hps. induction k as [|k IH]; intros left ts t r pre0 HD H; [discriminate|].
  cbn [par_loop] in H.
  destruct ts as [|[w| | |c| | |] ts'];
    try (inversion H; subst; exists []; split; [reflexivity|rewrite app_nil_r; assumption]).
  destruct (ps ts') as [[e r']|] eqn:E; [|discriminate].
  destruct (Hps _ _ _ E) as (ps_pre & -> & HE).
  destruct (IH _ _ _ _ (pre0 ++ COMMA :: ps_pre) (Dp_cons _ _ _ _ _ _ HD HE) H) as (pre & -> & HD').
  exists (COMMA :: ps_pre ++ pre). split.
  - cbn. rewrite <- app_assoc. reflexivity.
  - rewrite <- app_assoc in HD'. exact HD'.
Qed.

Lemma p_par_sound fuel : forall b, sound (p_par doc fuel b) (D_par doc b).
Proof.
  induction fuel as [|f IH]; intros b ts t r H; [discriminate|].
  cbn [p_par] in H. unfold p_par_body in H.
  destruct (p_ser doc (p_par doc f) b f ts) as [[s r0]|] eqn:E; [|discriminate].
  destruct (p_ser_sound _ _ IH b _ _ _ E) as (pre0 & -> & HS).
  destruct (par_loop_sound _ b (p_ser_sound _ _ IH b) _ _ _ _ _ pre0 (Dp_one _ _ _ _ HS) H) as (pre & -> & HD).
  exists (pre0 ++ pre). split; [rewrite app_assoc; reflexivity|exact HD].
Qed.

Lemma parse_toks_gen_sound ts t : parse_toks_gen doc ts = Some t -> D_par doc true ts t.
Proof.
  unfold parse_toks_gen. intros H.
  destruct (p_par doc (fuel_for ts) true ts) as [[t' r]|] eqn:E; [|discriminate].
  destruct r; [|discriminate]. inversion H; subst.
  destruct (p_par_sound _ _ _ _ _ E) as (pre & -> & HD). rewrite app_nil_r. exact HD.
Qed.

(* ---------- completeness, with an explicit fuel bound ---------- *)
Definition no_tc (r : list tok) : Prop := match r with TC _ :: _ => False | _ => True end.
Definition no_comma (r : list tok) : Prop := match r with COMMA :: _ => False | _ => True end.

Lemma ser_loop_mono pe k left ts x : ser_loop pe k left ts = Some x ->
  forall k', k <= k' -> ser_loop pe k' left ts = Some x.
Proof.
  revert left ts. induction k as [|k IH]; intros left ts H k' Hk; [discriminate|].
  destruct k' as [|k']; [lia|]. cbn [ser_loop] in *.
  destruct ts as [|[w| | |c| | |] ts']; try exact H.
  destruct (has_any left); [discriminate|].
  destruct (pe ts') as [[e r']|]; [|discriminate]. apply IH; [exact H|lia].
Qed.
Lemma par_loop_mono ps k left ts x : par_loop ps k left ts = Some x ->
  forall k', k <= k' -> par_loop ps k' left ts = Some x.
Proof.
  revert left ts. induction k as [|k IH]; intros left ts H k' Hk; [discriminate|].
  destruct k' as [|k']; [lia|]. cbn [par_loop] in *.
  destruct ts as [|[w| | |c| | |] ts']; try exact H.
  destruct (ps ts') as [[e r']|]; [|discriminate]. apply IH; [exact H|lia].
Qed.
Lemma ser_loop_stop pe k left r : no_tc r -> ser_loop pe (S k) left r = Some (left, r).
Proof. intros H. cbn [ser_loop]. destruct r as [|[w| | |c| | |] r']; try reflexivity. destruct H. Qed.
Lemma par_loop_stop ps k left r : no_comma r -> par_loop ps (S k) left r = Some (left, r).
Proof. intros H. cbn [par_loop]. destruct r as [|[w| | |c| | |] r']; try reflexivity. destruct H. Qed.

Definition C_elem (b : bool) (ts : list tok) (t : tree) : Prop :=
  forall b', le_flag b b' -> forall f, 2 * length ts <= f -> forall rest,
    p_elem doc (p_par doc f) b' (ts ++ rest) = Some (t, rest).
Definition C_ser (b : bool) (ts : list tok) (t : tree) : Prop :=
  forall b', le_flag b b' -> forall f, 2 * length ts <= f -> forall k rest x,
    ser_loop (p_elem doc (p_par doc f) b') k t rest = Some x ->
    p_ser doc (p_par doc f) b' (k + 2 * length ts) (ts ++ rest) = Some x.
Definition C_par (b : bool) (ts : list tok) (t : tree) : Prop :=
  forall b', le_flag b b' -> forall f, 2 * length ts + 1 <= f -> forall ks, 2 * length ts + 1 <= ks ->
    forall kp rest x, no_tc rest ->
    par_loop (p_ser doc (p_par doc f) b' ks) kp t rest = Some x ->
    p_par_body doc (p_par doc f) b' ks (kp + (2 * length ts + 1)) (ts ++ rest) = Some x.

Lemma complete_mut :
  (forall b ts t, D_elem doc b ts t -> C_elem b ts t) /\
  (forall b ts t, D_ser doc b ts t -> C_ser b ts t) /\
  (forall b ts t, D_par doc b ts t -> C_par b ts t).
Proof.
  apply D_mutind.
  - intros b w Hw b' _ f _ rest. cbn. rewrite Hw. reflexivity.
  - intros b w Hw b' _ f _ rest. cbn. rewrite Hw. reflexivity.
  - intros b w b' _ f _ rest. reflexivity.
  - intros b' Hb f _ rest. rewrite (Hb eq_refl). reflexivity.
  - (* brackets *)
    intros b ts t _ IH b' Hb f Hf rest.
    cbn [length] in Hf. rewrite app_length in Hf. cbn [length] in Hf.
    destruct f as [|f]; [lia|]. cbn [app p_elem]. rewrite <- app_assoc. cbn [app].
    cbn [p_par].
    assert (exists kp, f = S kp + (2 * length ts + 1)) as (kp & Ef) by (exists (f - (2 * length ts + 1) - 1); lia).
    assert (p_par_body doc (p_par doc f) (b' && doc) f (S kp + (2 * length ts + 1)) (ts ++ RBR :: rest)
            = Some (t, RBR :: rest)) as Hcall.
    { apply (IH (b' && doc) (le_flag_and _ _ _ Hb) f ltac:(lia) f ltac:(lia) (S kp) (RBR :: rest) (t, RBR :: rest) I).
      apply par_loop_stop. exact I. }
    rewrite <- Ef in Hcall. rewrite Hcall. reflexivity.
  - (* series: one element *)
    intros b ts t _ IH b' Hb f Hf k rest x Hx.
    unfold p_ser. rewrite (IH b' Hb f Hf). eapply ser_loop_mono; [exact Hx|lia].
  - (* series: left recursion *)
    intros b ts1 t1 c ts2 t2 HD1 IH1 _ IH2 b' Hb f Hf k rest x Hx.
    rewrite app_length in *. cbn [length] in *. rewrite <- app_assoc. cbn [app].
    replace (k + 2 * (length ts1 + S (length ts2))) with ((k + 2 * length ts2 + 2) + 2 * length ts1) by lia.
    apply (IH1 b' (le_flag_false _) f ltac:(lia)).
    apply ser_loop_mono with (k := S k); [|lia]. cbn [ser_loop].
    rewrite (proj1 (proj2 nostar_mut) _ _ _ HD1 eq_refl).
    rewrite (IH2 b' Hb f ltac:(lia)). exact Hx.
  - (* parallel: one series *)
    intros b ts t _ IH b' Hb f Hf ks Hks kp rest x Hr Hx.
    unfold p_par_body.
    assert (exists k0, ks = S k0 + 2 * length ts) as (k0 & Ek) by (exists (ks - 2 * length ts - 1); lia).
    assert (p_ser doc (p_par doc f) b' (S k0 + 2 * length ts) (ts ++ rest) = Some (t, rest)) as Hcall.
    { apply (IH b' Hb f ltac:(lia) (S k0) rest (t, rest)). apply ser_loop_stop. exact Hr. }
    rewrite <- Ek in Hcall. rewrite Hcall.
    eapply par_loop_mono; [exact Hx|lia].
  - (* parallel: left recursion *)
    intros b ts1 t1 ts2 t2 _ IH1 _ IH2 b' Hb f Hf ks Hks kp rest x Hr Hx.
    rewrite app_length in *. cbn [length] in *. rewrite <- app_assoc. cbn [app].
    replace (kp + (2 * (length ts1 + S (length ts2)) + 1))
      with ((kp + 2 * length ts2 + 2) + (2 * length ts1 + 1)) by lia.
    apply (IH1 b' Hb f ltac:(lia) ks ltac:(lia)); [exact I|].
    apply par_loop_mono with (k := S kp); [|lia]. cbn [par_loop].
    assert (exists k0, ks = S k0 + 2 * length ts2) as (k0 & Ek) by (exists (ks - 2 * length ts2 - 1); lia).
    assert (p_ser doc (p_par doc f) b' (S k0 + 2 * length ts2) (ts2 ++ rest) = Some (t2, rest)) as Hcall.
    { apply (IH2 b' Hb f ltac:(lia) (S k0) rest (t2, rest)). apply ser_loop_stop. exact Hr. }
    rewrite <- Ek in Hcall. rewrite Hcall. exact Hx.
Qed.

Lemma parse_toks_gen_complete ts t : D_par doc true ts t -> parse_toks_gen doc ts = Some t.
Proof.
  intros HD. unfold parse_toks_gen, fuel_for.
  replace (2 * length ts + 3) with (S (2 * length ts + 2)) by lia. cbn [p_par].
  assert (p_par_body doc (p_par doc (2 * length ts + 2)) true (2 * length ts + 2) (1 + (2 * length ts + 1)) (ts ++ [])
          = Some (t, [])) as Hcall.
  { apply (proj2 (proj2 complete_mut) _ _ _ HD true (le_flag_refl _) (2 * length ts + 2) ltac:(lia) (2 * length ts + 2) ltac:(lia) 1 [] (t, []) I).
    apply par_loop_stop. exact I. }
  rewrite app_nil_r in Hcall. replace (1 + (2 * length ts + 1)) with (2 * length ts + 2) in Hcall by lia.
  rewrite Hcall. reflexivity.
Qed.

Lemma parse_toks_gen_iff ts t : parse_toks_gen doc ts = Some t <-> D_par doc true ts t.
Proof. split; [apply parse_toks_gen_sound|apply parse_toks_gen_complete]. Qed.

(* the grammar is unambiguous: a token list has at most one derivation tree *)
Lemma derivation_unique ts t1 t2 : D_par doc true ts t1 -> D_par doc true ts t2 -> t1 = t2.
Proof.
  intros H1 H2. apply parse_toks_gen_complete in H1. apply parse_toks_gen_complete in H2.
  rewrite H1 in H2. now inversion H2.
Qed.

End Grammar.

(* ================================================================== Part 2: the two grammars *)
Lemma lark_subset_doc_mut :
  (forall b ts t, D_elem false b ts t -> D_elem true b ts t) /\
  (forall b ts t, D_ser false b ts t -> D_ser true b ts t) /\
  (forall b ts t, D_par false b ts t -> D_par true b ts t).
Proof.
  apply D_mutind; intros.
  - now apply De_items.
  - now apply De_trait.
  - apply De_meta.
  - apply De_any.
  - apply De_br. rewrite andb_false_r in H0.
    eapply (proj2 (proj2 (promote_mut true))); [exact H0|apply le_flag_false].
  - apply Ds_one; auto.
  - apply Ds_cons; auto.
  - apply Dp_one; auto.
  - apply Dp_cons; auto.
Qed.

Lemma lark_subset_doc ts t : D_start ts t -> Doc_start ts t.
Proof. apply lark_subset_doc_mut. Qed.

(* tokens of "[a.*, b.c]" *)
Definition f10_tokens : list tok :=
  [LBR; W [97%Z]; TC CDot; STAR; COMMA; W [98%Z]; TC CDot; W [99%Z]; RBR].
Definition f10_text : list chr :=
  [CLbr; CStart 97; CDotC; CStar; CCommaC; CWs; CStart 98; CDotC; CStart 99; CRbr].

Lemma f10_refuted :
  exists t, Doc_start f10_tokens t /\ parse_toks f10_tokens = None /\
            lex f10_text = Some f10_tokens /\ compile_str f10_text = Rejected.
Proof.
  exists (TPar (TSeries (TTrait [97%Z]) CDot TAny) (TSeries (TTrait [98%Z]) CDot (TTrait [99%Z]))).
  split; [|repeat split; vm_compute; reflexivity].
  apply parse_toks_gen_sound. vm_compute. reflexivity.
Qed.

(* ================================================================== Part 3: "*" only in terminal position *)
Open Scope Z_scope.
Definition bump (t : tok) : Z := match t with LBR => 1 | RBR => -1 | _ => 0 end.
Fixpoint depth (ts : list tok) : Z := match ts with [] => 0 | t :: r => bump t + depth r end.

Definition next_ok (r : list tok) : bool := match r with [] | COMMA :: _ => true | _ => false end.
Definition is_star (t : tok) : bool := match t with STAR => true | _ => false end.

(* every "*" token stands at bracket depth 0 and is followed by "," or by the end of the text *)
Fixpoint star_ok (d : Z) (ts : list tok) : bool :=
  match ts with
  | [] => true
  | t :: r => (if is_star t then (d =? 0) && next_ok r else true) && star_ok (d + bump t) r
  end.

Lemma depth_app a b : depth (a ++ b) = depth a + depth b.
Proof. induction a; cbn [app depth]; lia. Qed.

Definition no_star (ts : list tok) : Prop := forall t, In t ts -> is_star t = false.

Lemma no_star_app a b : no_star a -> no_star b -> no_star (a ++ b).
Proof. intros Ha Hb t Ht. apply in_app_or in Ht. destruct Ht; auto. Qed.
Lemma no_star_cons t r : is_star t = false -> no_star r -> no_star (t :: r).
Proof. intros Ht Hr x [<-|Hx]; auto. Qed.
Lemma no_star_nil : no_star [].
Proof. intros t []. Qed.

Lemma star_ok_no_star ts : no_star ts -> forall d, star_ok d ts = true.
Proof.
  induction ts as [|t r IH]; intros H d; [reflexivity|]. cbn [star_ok].
  rewrite (H t (or_introl eq_refl)). rewrite IH; [reflexivity|]. intros x Hx. apply H. now right.
Qed.

Lemma star_ok_app_nostar a b d : no_star a -> star_ok d (a ++ b) = star_ok (d + depth a) b.
Proof.
  revert d. induction a as [|t r IH]; intros d H; cbn [app depth star_ok].
  - f_equal. lia.
  - rewrite (H t (or_introl eq_refl)). cbn [andb]. rewrite IH.
    + f_equal. lia.
    + intros x Hx. apply H. now right.
Qed.

Lemma star_ok_app_comma a b d :
  star_ok d (a ++ COMMA :: b) = star_ok d a && star_ok (d + depth a) b.
Proof.
  revert d. induction a as [|t r IH]; intros d; cbn [app depth star_ok].
  - cbn. f_equal; lia.
  - rewrite IH. replace (d + (bump t + depth r)) with (d + bump t + depth r) by lia.
    destruct (is_star t); [|cbn [andb]; reflexivity].
    assert (next_ok (r ++ COMMA :: b) = next_ok r) as ->.
    { destruct r as [|x r']; [reflexivity|]. destruct x; reflexivity. }
    rewrite andb_assoc. reflexivity.
Qed.

Lemma star_terminal_mut :
  (forall b ts t, D_elem false b ts t -> depth ts = 0 /\ (b = false -> no_star ts) /\ star_ok 0 ts = true) /\
  (forall b ts t, D_ser false b ts t -> depth ts = 0 /\ (b = false -> no_star ts) /\ star_ok 0 ts = true) /\
  (forall b ts t, D_par false b ts t -> depth ts = 0 /\ (b = false -> no_star ts) /\ star_ok 0 ts = true).
Proof.
  apply D_mutind.
  - intros b w _. repeat split. intros _. apply no_star_cons; [reflexivity|apply no_star_nil].
  - intros b w _. repeat split. intros _. apply no_star_cons; [reflexivity|apply no_star_nil].
  - intros b w. repeat split. intros _. repeat (apply no_star_cons; [reflexivity|]). apply no_star_nil.
  - repeat split. discriminate.
  - intros b ts t _ (Hd & Hn & _). rewrite andb_false_r in Hn. specialize (Hn eq_refl).
    assert (no_star (LBR :: ts ++ [RBR])) as Hns.
    { apply no_star_cons; [reflexivity|]. apply no_star_app; [exact Hn|].
      apply no_star_cons; [reflexivity|apply no_star_nil]. }
    split; [|split].
    + cbn [depth]. rewrite depth_app. cbn [depth bump]. lia.
    + intros _. exact Hns.
    + now apply star_ok_no_star.
  - intros b ts t _ H. exact H.
  - intros b ts1 t1 c ts2 t2 _ (Hd1 & Hn1 & _) _ (Hd2 & Hn2 & Hs2). specialize (Hn1 eq_refl).
    split; [|split].
    + rewrite depth_app. cbn [depth bump]. lia.
    + intros Hb. apply no_star_app; [exact Hn1|]. apply no_star_cons; [reflexivity|auto].
    + rewrite star_ok_app_nostar by exact Hn1. rewrite Hd1. cbn [star_ok is_star bump]. cbn [andb].
      replace (0 + 0 + 0) with 0 by lia. exact Hs2.
  - intros b ts t _ H. exact H.
  - intros b ts1 t1 ts2 t2 _ (Hd1 & Hn1 & Hs1) _ (Hd2 & Hn2 & Hs2).
    split; [|split].
    + rewrite depth_app. cbn [depth bump]. lia.
    + intros Hb. apply no_star_app; [auto|]. apply no_star_cons; [reflexivity|auto].
    + rewrite star_ok_app_comma, Hs1, Hd1. cbn [andb]. exact Hs2.
Qed.

Lemma star_only_terminal_lemma ts t : D_start ts t -> star_ok 0 ts = true.
Proof. intros H. apply (proj2 (proj2 star_terminal_mut) _ _ _ H). Qed.

Lemma star_elsewhere_rejected s ts :
  lex s = Some ts -> star_ok 0 ts = false -> compile_str s = Rejected.
Proof.
  intros Hl Hs. unfold compile_str, parse. rewrite Hl.
  destruct (parse_toks ts) as [t|] eqn:E; [|reflexivity].
  apply parse_toks_gen_sound in E. apply star_only_terminal_lemma in E. congruence.
Qed.
Close Scope Z_scope.

(* ================================================================== Part 4: meaning *)
Section GraphInd.
  Variable P : graph -> Prop.
  Hypothesis H : forall n cs, Forall P cs -> P (G n cs).
  Fixpoint graph_ind' (g : graph) : P g :=
    match g with
    | G n cs => H n cs ((fix go (l : list graph) : Forall P l :=
                           match l with
                           | [] => Forall_nil P
                           | x :: r => Forall_cons x (graph_ind' x) (go r)
                           end) cs)
    end.
End GraphInd.

Definition prod (A B : list (list node)) : list (list node) := flat_map (fun p => map (app p) B) A.
Definition cat (A Q : list (list node)) : list (list node) := match Q with [] => A | _ => prod A Q end.

Lemma graph_paths_nonempty g : graph_paths g <> [].
Proof.
  induction g as [n cs IH] using graph_ind'. destruct cs as [|c cs]; cbn; [discriminate|].
  inversion IH; subst. destruct (graph_paths c) eqn:E; [contradiction|]. cbn. discriminate.
Qed.

Lemma flat_gp_nil br : flat_map graph_paths br = [] -> br = [].
Proof.
  destruct br as [|g r]; [reflexivity|]. cbn. intros H. apply app_eq_nil in H. destruct H as [H _].
  now apply graph_paths_nonempty in H.
Qed.

Lemma prod_nonempty A B : A <> [] -> B <> [] -> prod A B <> [].
Proof. destruct A as [|a A]; [contradiction|]. destruct B as [|b B]; [contradiction|]. intros _ _. cbn. discriminate. Qed.

Lemma paths_nonempty e : paths e <> [].
Proof.
  induction e; cbn.
  - discriminate.
  - now apply prod_nonempty.
  - intros H. apply app_eq_nil in H. destruct H. contradiction.
Qed.

Lemma prod_app A A' B : prod (A ++ A') B = prod A B ++ prod A' B.
Proof. unfold prod. apply flat_map_app. Qed.

Lemma prod_cons a A B : prod (a :: A) B = map (app a) B ++ prod A B.
Proof. reflexivity. Qed.

Lemma prod_map_app a B Q : prod (map (app a) B) Q = map (app a) (prod B Q).
Proof.
  induction B as [|b B IH]; [reflexivity|]. cbn [map]. rewrite !prod_cons.
  rewrite IH, map_app, map_map. f_equal. apply map_ext. intros q. now rewrite app_assoc.
Qed.

Lemma prod_assoc A B Q : prod (prod A B) Q = prod A (prod B Q).
Proof.
  induction A as [|a A IH]; [reflexivity|]. rewrite !prod_cons.
  rewrite prod_app, IH, prod_map_app. reflexivity.
Qed.

Lemma cat_assoc A B Q : B <> [] -> cat (prod A B) Q = cat A (cat B Q).
Proof.
  intros HB. destruct Q as [|q Q].
  - cbn [cat]. destruct B; [contradiction|reflexivity].
  - cbn [cat]. rewrite prod_assoc. destruct (prod B (q :: Q)) eqn:E; [|reflexivity].
    exfalso. revert E. apply prod_nonempty; [exact HB|discriminate].
Qed.

Lemma cat_app A A' Q : cat (A ++ A') Q = cat A Q ++ cat A' Q.
Proof. destruct Q; cbn [cat]; [reflexivity|apply prod_app]. Qed.

Lemma create_graphs_paths e : forall br gs,
  create_graphs e br = Some gs -> flat_map graph_paths gs = cat (paths e) (flat_map graph_paths br).
Proof.
  induction e as [n|a IHa b IHb|a IHa b IHb]; intros br gs H; cbn [create_graphs paths] in *.
  - destruct (distinctb br); [|discriminate]. inversion H; subst. cbn [flat_map]. rewrite app_nil_r.
    destruct br as [|c cs]; [reflexivity|].
    destruct (flat_map graph_paths (c :: cs)) as [|q Q] eqn:E.
    + apply flat_gp_nil in E. discriminate.
    + cbn [graph_paths]. rewrite E. cbn [cat prod flat_map]. rewrite app_nil_r. reflexivity.
  - destruct (create_graphs b br) as [bs|] eqn:Eb; [|discriminate].
    rewrite (IHa _ _ H), (IHb _ _ Eb). symmetry. apply cat_assoc. apply paths_nonempty.
  - destruct (create_graphs a br) as [l|] eqn:Ea; [|discriminate].
    destruct (create_graphs b br) as [r|] eqn:Eb; [|discriminate]. inversion H; subst.
    rewrite flat_map_app, (IHa _ _ Ea), (IHb _ _ Eb), cat_app. reflexivity.
Qed.

Lemma map_prod (f : matcher * link -> node) A B :
  map (map f) (flat_map (fun p => map (app p) B) A) = prod (map (map f) A) (map (map f) B).
Proof.
  induction A as [|a A IH]; [reflexivity|]. cbn [flat_map map]. rewrite prod_cons.
  rewrite map_app, IH. f_equal. rewrite !map_map. apply map_ext. intros q. apply map_app.
Qed.

Lemma handle_paths t : forall l, paths (handle_tree t (notify_of l)) = doc_paths_l t l.
Proof.
  induction t as [w| |w| |a IHa c b IHb|a IHa b IHb]; intros l; try reflexivity.
  - cbn [handle_tree paths]. unfold doc_paths_l. cbn [raw_paths]. rewrite map_prod.
    replace (conn_notifies c) with (notify_of (LConn c)) by (destruct c; reflexivity).
    rewrite IHa, IHb. reflexivity.
  - cbn [handle_tree paths]. unfold doc_paths_l. cbn [raw_paths]. rewrite map_app.
    rewrite IHa, IHb. reflexivity.
Qed.

(* what compile_str returns denotes exactly the documented paths, notify flags included *)
Lemma meaning_lemma t gs : compile_tree t = Graphs gs -> flat_map graph_paths gs = doc_paths t.
Proof.
  unfold compile_tree. destruct (create_graphs (handle_tree t true) []) as [g|] eqn:E; [|discriminate].
  intros H. inversion H; subst. rewrite (create_graphs_paths _ _ _ E). cbn [flat_map cat].
  apply (handle_paths t LEnd).
Qed.

(* every path has the shape  (m1, connector) ... (mk-1, connector) (mk, end): so notification is enabled on an
   element iff it is last or followed by "." *)
Lemma raw_paths_shape t : forall l p, In p (raw_paths t l) ->
  exists q m, p = q ++ [(m, l)] /\ Forall (fun ml => exists c, snd ml = LConn c) q.
Proof.
  induction t as [w| |w| |a IHa c b IHb|a IHa b IHb]; intros l p Hp; cbn [raw_paths] in Hp.
  - destruct Hp as [<-|[]]. exists [], (MTrait w). split; [reflexivity|constructor].
  - destruct Hp as [<-|[<-|[<-|[<-|[]]]]]; eexists [], _; (split; [reflexivity|constructor]).
  - destruct Hp as [<-|[]]. exists [], (MMeta w). split; [reflexivity|constructor].
  - destruct Hp as [<-|[]]. exists [], MAnyTrait. split; [reflexivity|constructor].
  - apply in_flat_map in Hp. destruct Hp as (pa & Ha & Hp). apply in_map_iff in Hp. destruct Hp as (pb & <- & Hb).
    destruct (IHa _ _ Ha) as (qa & ma & -> & Fa). destruct (IHb _ _ Hb) as (qb & mb & -> & Fb).
    exists ((qa ++ [(ma, LConn c)]) ++ qb), mb. split; [now rewrite app_assoc|].
    apply Forall_app. split; [|exact Fb]. apply Forall_app. split; [exact Fa|]. constructor; [|constructor].
    now exists c.
  - apply in_app_or in Hp. destruct Hp; eauto.
Qed.

Lemma notify_iff_last_or_dot_lemma t p : In p (raw_paths t LEnd) ->
  exists q m, p = q ++ [(m, LEnd)] /\
    notify_of LEnd = true /\
    Forall (fun ml => exists c, snd ml = LConn c /\ notify_of (snd ml) = conn_notifies c) q.
Proof.
  intros H. destruct (raw_paths_shape _ _ _ H) as (q & m & -> & F). exists q, m. repeat split.
  eapply Forall_impl; [|exact F]. intros ml (c & Hc). exists c. split; [exact Hc|]. rewrite Hc. now destruct c.
Qed.

Lemma items_four_way n :
  paths (handle_tree TItems n) = [[NNamed items_word n true]; [NDict n true]; [NList n true]; [NSet n true]]
  /\ raw_paths TItems LEnd = [[(MItemsTrait, LEnd)]; [(MDictItems, LEnd)]; [(MListItems, LEnd)]; [(MSetItems, LEnd)]].
Proof. split; reflexivity. Qed.

(* ================================================================== Part 5: equal patterns *)
Lemma word_eqb_refl w : word_eqb w w = true.
Proof. induction w as [|x w IH]; [reflexivity|]. cbn. now rewrite Z.eqb_refl. Qed.
Lemma node_eqb_refl n : node_eqb n n = true.
Proof.
  destruct n as [w a b|a f|a b|a b|a b]; cbn; rewrite ?word_eqb_refl, ?eqb_reflx; try reflexivity.
  destruct f; cbn; [reflexivity|apply word_eqb_refl].
Qed.

Lemma graph_eqb_refl g : graph_eqb g g = true.
Proof.
  induction g as [n cs IH] using graph_ind'. cbn [graph_eqb]. rewrite node_eqb_refl. cbn [andb].
  assert (forallb (fun x => existsb (fun y => graph_eqb x y) cs) cs = true) as ->.
  { apply forallb_forall. intros x Hx. apply existsb_exists. exists x. split; [exact Hx|].
    rewrite Forall_forall in IH. now apply IH. }
  apply forallb_forall. intros x Hx. apply existsb_exists. exists x. split; [exact Hx|].
  rewrite Forall_forall in IH. now apply IH.
Qed.

Lemma graphs_eqb_refl gs : list_eqb graph_eqb gs gs = true.
Proof. induction gs as [|g gs IH]; [reflexivity|]. cbn. now rewrite graph_eqb_refl. Qed.

Definition outcome_same (a b : outcome) : bool :=
  match a, b with
  | Rejected, Rejected | CompileError, CompileError | Crashed, Crashed => true
  | Graphs x, Graphs y => list_eqb graph_eqb x y
  | _, _ => false
  end.

(* the same text always compiles to equal patterns (ObserverGraph.__eq__), so removal by text matches registration *)
Lemma parse_deterministic_lemma s1 s2 : s1 = s2 -> outcome_same (compile_str s1) (compile_str s2) = true.
Proof. intros ->. destruct (compile_str s2); try reflexivity. apply graphs_eqb_refl. Qed.

(* then() and | are associative on the compiled graphs, literally *)
Lemma series_assoc a b c br :
  create_graphs (ESeries (ESeries a b) c) br = create_graphs (ESeries a (ESeries b c)) br.
Proof. cbn [create_graphs]. destruct (create_graphs c br); [|reflexivity]. reflexivity. Qed.

Lemma par_assoc a b c br :
  create_graphs (EPar (EPar a b) c) br = create_graphs (EPar a (EPar b c)) br.
Proof.
  cbn [create_graphs]. destruct (create_graphs a br); [|reflexivity].
  destruct (create_graphs b br); [|reflexivity]. destruct (create_graphs c br); [|reflexivity].
  now rewrite app_assoc.
Qed.

(* regrouping by brackets: "x.y.z" = "x.[y.z]", "x,y,z" = "x,[y,z]", whatever the connectors and the position *)
Lemma regroup_series x c1 y c2 z n br :
  create_graphs (handle_tree (TSeries (TSeries x c1 y) c2 z) n) br =
  create_graphs (handle_tree (TSeries x c1 (TSeries y c2 z)) n) br.
Proof. cbn [handle_tree]. apply series_assoc. Qed.

Lemma regroup_par x y z n br :
  create_graphs (handle_tree (TPar (TPar x y) z) n) br = create_graphs (handle_tree (TPar x (TPar y z)) n) br.
Proof. cbn [handle_tree]. apply par_assoc. Qed.

(* redundant brackets around a "*"-free expression leave no trace: same tree *)
Lemma brackets_same_tree ts t :
  parse_toks ts = Some t -> has_any t = false -> parse_toks (LBR :: ts ++ [RBR]) = Some t.
Proof.
  intros H Ha. apply parse_toks_gen_sound in H. apply parse_toks_gen_complete.
  apply Dp_one, Ds_one, De_br. cbn [andb]. now apply (proj2 (proj2 (demote_mut false)) _ _ _ H).
Qed.

(* ---------- whitespace ---------- *)
Definition is_symb (x : chr) : bool := match sym_of x with Some _ => true | None => false end.

Lemma flush_none_id (o : option (list tok)) : option_map (flush None) o = o.
Proof. destruct o; reflexivity. Qed.

Lemma lex_ws_ws cur r : lex_go cur (CWs :: CWs :: r) = lex_go cur (CWs :: r).
Proof. cbn [lex_go]. now rewrite flush_none_id. Qed.

Lemma lex_ws_sym cur x r : is_symb x = true -> lex_go cur (CWs :: x :: r) = lex_go cur (x :: r).
Proof.
  intros Hx. destruct x; try discriminate; cbn [lex_go sym_of];
    destruct (lex_go None r); cbn; destruct cur; reflexivity.
Qed.

Lemma lex_sym_ws cur x r : is_symb x = true -> lex_go cur (x :: CWs :: r) = lex_go cur (x :: r).
Proof.
  intros Hx. destruct x; try discriminate; cbn [lex_go sym_of]; now rewrite flush_none_id.
Qed.

Lemma lex_ws_end s : forall cur, lex_go cur (s ++ [CWs]) = lex_go cur s.
Proof.
  induction s as [|x s IH]; intros cur; [reflexivity|].
  destruct x; cbn [app lex_go sym_of]; rewrite ?IH; try reflexivity.
  destruct cur; [apply IH|reflexivity].
Qed.

Lemma lex_context a b : (forall cur, lex_go cur a = lex_go cur b) ->
  forall pre cur, lex_go cur (pre ++ a) = lex_go cur (pre ++ b).
Proof.
  intros H. induction pre as [|x pre IH]; intros cur; [apply H|].
  destruct x; cbn [app lex_go sym_of]; rewrite ?IH; try reflexivity.
  destruct cur; [apply IH|reflexivity].
Qed.

Lemma compile_lex s1 s2 : lex s1 = lex s2 -> compile_str s1 = compile_str s2.
Proof. unfold compile_str, parse. now intros ->. Qed.

Lemma whitespace_lemma :
  (forall pre x r, is_symb x = true -> compile_str (pre ++ CWs :: x :: r) = compile_str (pre ++ x :: r)) /\
  (forall pre x r, is_symb x = true -> compile_str (pre ++ x :: CWs :: r) = compile_str (pre ++ x :: r)) /\
  (forall pre r, compile_str (pre ++ CWs :: CWs :: r) = compile_str (pre ++ CWs :: r)) /\
  (forall s, compile_str (CWs :: s) = compile_str s) /\
  (forall s, compile_str (s ++ [CWs]) = compile_str s).
Proof.
  repeat split; intros; apply compile_lex; unfold lex.
  - apply lex_context. intros cur. now apply lex_ws_sym.
  - apply lex_context. intros cur. now apply lex_sym_ws.
  - apply lex_context. intros cur. apply lex_ws_ws.
  - cbn [lex_go]. apply flush_none_id.
  - apply lex_ws_end.
Qed.
