(* C15 — proofs.  Part 1: the recursive-descent parser decides the grammar (both readings of Law.v) *)
From Coq Require Import ZArith List Bool Arith Lia.
From TV Require Import Common.Harness C15.Model C15.Law.
Import ListNotations.
Open Scope nat_scope.

Scheme D_elem_min := Minimality for D_elem Sort Prop
  with D_ser_min := Minimality for D_ser Sort Prop
  with D_par_min := Minimality for D_par Sort Prop.
Combined Scheme D_mutind from D_elem_min, D_ser_min, D_par_min.

Definition le_flag (b b' : bool) : Prop := b = true -> b' = true.

Lemma le_flag_and b b' d : le_flag b b' -> le_flag (b && d) (b' && d).
Proof. unfold le_flag. destruct b, b', d; cbn; auto. Qed.
Lemma le_flag_false b : le_flag false b.
Proof. intro H; discriminate. Qed.
Lemma le_flag_refl b : le_flag b b.
Proof. intro H; exact H. Qed.

Section Grammar.
Variable doc : bool.

(* ---------- three facts about the position flag ---------- *)
Lemma promote_mut :
  (forall b ts t, D_elem doc b ts t -> forall b', le_flag b b' -> D_elem doc b' ts t) /\
  (forall b ts t, D_ser doc b ts t -> forall b', le_flag b b' -> D_ser doc b' ts t) /\
  (forall b ts t, D_par doc b ts t -> forall b', le_flag b b' -> D_par doc b' ts t).
Proof.
  apply D_mutind; intros.
  - now apply De_items.
  - now apply De_trait.
  - apply De_meta.
  - rewrite (H eq_refl). apply De_any.
  - apply De_br. apply H0. now apply le_flag_and.
  - apply Ds_one. auto.
  - apply Ds_cons; auto.
  - apply Dp_one. auto.
  - apply Dp_cons; auto.
Qed.

Lemma nostar_mut :
  (forall b ts t, D_elem doc b ts t -> b = false -> has_any t = false) /\
  (forall b ts t, D_ser doc b ts t -> b = false -> has_any t = false) /\
  (forall b ts t, D_par doc b ts t -> b = false -> has_any t = false).
Proof.
  apply D_mutind; intros; subst; cbn; auto; try discriminate.
  - rewrite (H0 eq_refl), (H2 eq_refl). reflexivity.
  - rewrite (H0 eq_refl), (H2 eq_refl). reflexivity.
Qed.

Lemma demote_mut :
  (forall b ts t, D_elem doc b ts t -> has_any t = false -> D_elem doc false ts t) /\
  (forall b ts t, D_ser doc b ts t -> has_any t = false -> D_ser doc false ts t) /\
  (forall b ts t, D_par doc b ts t -> has_any t = false -> D_par doc false ts t).
Proof.
  apply D_mutind; intros.
  - now apply De_items.
  - now apply De_trait.
  - apply De_meta.
  - discriminate.
  - apply De_br. cbn. auto.
  - apply Ds_one. auto.
  - cbn in H3. apply orb_false_elim in H3. destruct H3. apply Ds_cons; auto.
  - apply Dp_one. auto.
  - cbn in H3. apply orb_false_elim in H3. destruct H3. apply Dp_cons; auto.
Qed.

(* ---------- soundness ---------- *)
Definition sound (p : list tok -> res) (D : list tok -> tree -> Prop) : Prop :=
  forall ts t r, p ts = Some (t, r) -> exists pre, ts = pre ++ r /\ D pre t.

Lemma p_elem_sound rec : (forall b, sound (rec b) (D_par doc b)) -> forall b, sound (p_elem doc rec b) (D_elem doc b).
Proof.
  intros Hrec b ts t r H. unfold p_elem in H.
  destruct ts as [|[w| | |c| | |] ts']; try discriminate.
  - inversion H; subst. exists [W w]. split; [reflexivity|].
    destruct (is_items w) eqn:E; [now apply De_items|now apply De_trait].
  - destruct ts' as [|[w| | |c| | |] ts'']; try discriminate. inversion H; subst.
    exists [PLUS; W w]. split; [reflexivity|constructor].
  - destruct b; [|discriminate]. inversion H; subst. exists [STAR]. split; [reflexivity|constructor].
  - destruct (rec (b && doc) ts') as [[t' r']|] eqn:E; [|discriminate].
    destruct r' as [|[w| | |c| | |] r'']; try discriminate. inversion H; subst.
    destruct (Hrec _ _ _ _ E) as (pre & -> & HD).
    exists (LBR :: pre ++ [RBR]). split; [|constructor; exact HD].
    cbn. rewrite <- app_assoc. reflexivity.
Qed.

Lemma ser_loop_sound pe b : sound pe (D_elem doc b) ->
  forall k left ts t r pre0, D_ser doc b pre0 left -> ser_loop pe k left ts = Some (t, r) ->
  exists pre, ts = pre ++ r /\ D_ser doc b (pre0 ++ pre) t.
Proof.
  intros Hpe. induction k as [|k IH]; intros left ts t r pre0 HD H; [discriminate|].
  cbn [ser_loop] in H.
  destruct ts as [|[w| | |c| | |] ts'];
    try (inversion H; subst; exists []; split; [reflexivity|rewrite app_nil_r; assumption]).
  destruct (has_any left) eqn:Ha; [discriminate|].
  destruct (pe ts') as [[e r']|] eqn:E; [|discriminate].
  destruct (Hpe _ _ _ E) as (pe_pre & -> & HE).
  assert (HD0 : D_ser doc false pre0 left) by (eapply (proj1 (proj2 demote_mut)); eauto).
  destruct (IH _ _ _ _ (pre0 ++ TC c :: pe_pre) (Ds_cons _ _ _ _ c _ _ HD0 HE) H) as (pre & -> & HD').
  exists (TC c :: pe_pre ++ pre). split.
  - cbn. rewrite <- app_assoc. reflexivity.
  - rewrite <- app_assoc in HD'. exact HD'.
Qed.

Lemma p_ser_sound rec k : (forall b, sound (rec b) (D_par doc b)) -> forall b, sound (p_ser doc rec b k) (D_ser doc b).
Proof.
  intros Hrec b ts t r H. unfold p_ser in H.
  destruct (p_elem doc rec b ts) as [[e r0]|] eqn:E; [|discriminate].
  destruct (p_elem_sound rec Hrec b _ _ _ E) as (pre0 & -> & HE).
  destruct (ser_loop_sound _ b (p_elem_sound rec Hrec b) _ _ _ _ _ pre0 (Ds_one _ _ _ _ HE) H) as (pre & -> & HD).
  exists (pre0 ++ pre). split; [rewrite app_assoc; reflexivity|exact HD].
Qed.

Lemma par_loop_sound ps b : sound ps (D_ser doc b) ->
  forall k left ts t r pre0, D_par doc b pre0 left -> par_loop ps k left ts = Some (t, r) ->
  exists pre, ts = pre ++ r /\ D_par doc b (pre0 ++ pre) t.
Proof.
  intros Hps. induction k as [|k IH]; intros left ts t r pre0 HD H; [discriminate|].
  cbn [par_loop] in H.
  destruct ts as [|[w| | |c| | |] ts'];
    try (inversion H; subst; exists []; split; [reflexivity|rewrite app_nil_r; assumption]).
  destruct (ps ts') as [[e r']|] eqn:E; [|discriminate].
  destruct (Hps _ _ _ E) as (ps_pre & -> & HE).
  destruct (IH _ _ _ _ (pre0 ++ COMMA :: ps_pre) (Dp_cons _ _ _ _ _ _ HD HE) H) as (pre & -> & HD').
  exists (COMMA :: ps_pre ++ pre). split.
  - cbn. rewrite <- app_assoc. reflexivity.
  - rewrite <- app_assoc in HD'. exact HD'.
Qed.

Lemma p_par_sound fuel : forall b, sound (p_par doc fuel b) (D_par doc b).
Proof.
  induction fuel as [|f IH]; intros b ts t r H; [discriminate|].
  cbn [p_par] in H. unfold p_par_body in H.
  destruct (p_ser doc (p_par doc f) b f ts) as [[s r0]|] eqn:E; [|discriminate].
  destruct (p_ser_sound _ _ IH b _ _ _ E) as (pre0 & -> & HS).
  destruct (par_loop_sound _ b (p_ser_sound _ _ IH b) _ _ _ _ _ pre0 (Dp_one _ _ _ _ HS) H) as (pre & -> & HD).
  exists (pre0 ++ pre). split; [rewrite app_assoc; reflexivity|exact HD].
Qed.

Lemma parse_toks_gen_sound ts t : parse_toks_gen doc ts = Some t -> D_par doc true ts t.
Proof.
  unfold parse_toks_gen. intros H.
  destruct (p_par doc (fuel_for ts) true ts) as [[t' r]|] eqn:E; [|discriminate].
  destruct r; [|discriminate]. inversion H; subst.
  destruct (p_par_sound _ _ _ _ _ E) as (pre & -> & HD). rewrite app_nil_r. exact HD.
Qed.

(* ---------- completeness, with an explicit fuel bound ---------- *)
Definition no_tc (r : list tok) : Prop := match r with TC _ :: _ => False | _ => True end.
Definition no_comma (r : list tok) : Prop := match r with COMMA :: _ => False | _ => True end.

Lemma ser_loop_mono pe k left ts x : ser_loop pe k left ts = Some x ->
  forall k', k <= k' -> ser_loop pe k' left ts = Some x.
Proof.
  revert left ts. induction k as [|k IH]; intros left ts H k' Hk; [discriminate|].
  destruct k' as [|k']; [lia|]. cbn [ser_loop] in *.
  destruct ts as [|[w| | |c| | |] ts']; try exact H.
  destruct (has_any left); [discriminate|].
  destruct (pe ts') as [[e r']|]; [|discriminate]. apply IH; [exact H|lia].
Qed.
Lemma par_loop_mono ps k left ts x : par_loop ps k left ts = Some x ->
  forall k', k <= k' -> par_loop ps k' left ts = Some x.
Proof.
  revert left ts. induction k as [|k IH]; intros left ts H k' Hk; [discriminate|].
  destruct k' as [|k']; [lia|]. cbn [par_loop] in *.
  destruct ts as [|[w| | |c| | |] ts']; try exact H.
  destruct (ps ts') as [[e r']|]; [|discriminate]. apply IH; [exact H|lia].
Qed.
Lemma ser_loop_stop pe k left r : no_tc r -> ser_loop pe (S k) left r = Some (left, r).
Proof. intros H. cbn [ser_loop]. destruct r as [|[w| | |c| | |] r']; try reflexivity. destruct H. Qed.
Lemma par_loop_stop ps k left r : no_comma r -> par_loop ps (S k) left r = Some (left, r).
Proof. intros H. cbn [par_loop]. destruct r as [|[w| | |c| | |] r']; try reflexivity. destruct H. Qed.

Definition C_elem (b : bool) (ts : list tok) (t : tree) : Prop :=
  forall b', le_flag b b' -> forall f, 2 * length ts <= f -> forall rest,
    p_elem doc (p_par doc f) b' (ts ++ rest) = Some (t, rest).
Definition C_ser (b : bool) (ts : list tok) (t : tree) : Prop :=
  forall b', le_flag b b' -> forall f, 2 * length ts <= f -> forall k rest x,
    ser_loop (p_elem doc (p_par doc f) b') k t rest = Some x ->
    p_ser doc (p_par doc f) b' (k + 2 * length ts) (ts ++ rest) = Some x.
Definition C_par (b : bool) (ts : list tok) (t : tree) : Prop :=
  forall b', le_flag b b' -> forall f, 2 * length ts + 1 <= f -> forall ks, 2 * length ts + 1 <= ks ->
    forall kp rest x, no_tc rest ->
    par_loop (p_ser doc (p_par doc f) b' ks) kp t rest = Some x ->
    p_par_body doc (p_par doc f) b' ks (kp + (2 * length ts + 1)) (ts ++ rest) = Some x.

Lemma complete_mut :
  (forall b ts t, D_elem doc b ts t -> C_elem b ts t) /\
  (forall b ts t, D_ser doc b ts t -> C_ser b ts t) /\
  (forall b ts t, D_par doc b ts t -> C_par b ts t).
Proof.
  apply D_mutind.
  - intros b w Hw b' _ f _ rest. cbn. rewrite Hw. reflexivity.
  - intros b w Hw b' _ f _ rest. cbn. rewrite Hw. reflexivity.
  - intros b w b' _ f _ rest. reflexivity.
  - intros b' Hb f _ rest. rewrite (Hb eq_refl). reflexivity.
  - (* brackets *)
    intros b ts t _ IH b' Hb f Hf rest.
    cbn [length] in Hf. rewrite app_length in Hf. cbn [length] in Hf.
    destruct f as [|f]; [lia|]. cbn [app p_elem]. rewrite <- app_assoc. cbn [app].
    cbn [p_par].
    assert (exists kp, f = S kp + (2 * length ts + 1)) as (kp & Ef) by (exists (f - (2 * length ts + 1) - 1); lia).
    assert (p_par_body doc (p_par doc f) (b' && doc) f (S kp + (2 * length ts + 1)) (ts ++ RBR :: rest)
            = Some (t, RBR :: rest)) as Hcall.
    { apply (IH (b' && doc) (le_flag_and _ _ _ Hb) f ltac:(lia) f ltac:(lia) (S kp) (RBR :: rest) (t, RBR :: rest) I).
      apply par_loop_stop. exact I. }
    rewrite <- Ef in Hcall. rewrite Hcall. reflexivity.
  - (* series: one element *)
    intros b ts t _ IH b' Hb f Hf k rest x Hx.
    unfold p_ser. rewrite (IH b' Hb f Hf). eapply ser_loop_mono; [exact Hx|lia].
  - (* series: left recursion *)
    intros b ts1 t1 c ts2 t2 HD1 IH1 _ IH2 b' Hb f Hf k rest x Hx.
    rewrite app_length in *. cbn [length] in *. rewrite <- app_assoc. cbn [app].
    replace (k + 2 * (length ts1 + S (length ts2))) with ((k + 2 * length ts2 + 2) + 2 * length ts1) by lia.
    apply (IH1 b' (le_flag_false _) f ltac:(lia)).
    apply ser_loop_mono with (k := S k); [|lia]. cbn [ser_loop].
    rewrite (proj1 (proj2 nostar_mut) _ _ _ HD1 eq_refl).
    rewrite (IH2 b' Hb f ltac:(lia)). exact Hx.
  - (* parallel: one series *)
    intros b ts t _ IH b' Hb f Hf ks Hks kp rest x Hr Hx.
    unfold p_par_body.
    assert (exists k0, ks = S k0 + 2 * length ts) as (k0 & Ek) by (exists (ks - 2 * length ts - 1); lia).
    assert (p_ser doc (p_par doc f) b' (S k0 + 2 * length ts) (ts ++ rest) = Some (t, rest)) as Hcall.
    { apply (IH b' Hb f ltac:(lia) (S k0) rest (t, rest)). apply ser_loop_stop. exact Hr. }
    rewrite <- Ek in Hcall. rewrite Hcall.
    eapply par_loop_mono; [exact Hx|lia].
  - (* parallel: left recursion *)
    intros b ts1 t1 ts2 t2 _ IH1 _ IH2 b' Hb f Hf ks Hks kp rest x Hr Hx.
    rewrite app_length in *. cbn [length] in *. rewrite <- app_assoc. cbn [app].
    replace (kp + (2 * (length ts1 + S (length ts2)) + 1))
      with ((kp + 2 * length ts2 + 2) + (2 * length ts1 + 1)) by lia.
    apply (IH1 b' Hb f ltac:(lia) ks ltac:(lia)); [exact I|].
    apply par_loop_mono with (k := S kp); [|lia]. cbn [par_loop].
    assert (exists k0, ks = S k0 + 2 * length ts2) as (k0 & Ek) by (exists (ks - 2 * length ts2 - 1); lia).
    assert (p_ser doc (p_par doc f) b' (S k0 + 2 * length ts2) (ts2 ++ rest) = Some (t2, rest)) as Hcall.
    { apply (IH2 b' Hb f ltac:(lia) (S k0) rest (t2, rest)). apply ser_loop_stop. exact Hr. }
    rewrite <- Ek in Hcall. rewrite Hcall. exact Hx.
Qed.

Lemma parse_toks_gen_complete ts t : D_par doc true ts t -> parse_toks_gen doc ts = Some t.
Proof.
  intros HD. unfold parse_toks_gen, fuel_for.
  replace (2 * length ts + 3) with (S (2 * length ts + 2)) by lia. cbn [p_par].
  assert (p_par_body doc (p_par doc (2 * length ts + 2)) true (2 * length ts + 2) (1 + (2 * length ts + 1)) (ts ++ [])
          = Some (t, [])) as Hcall.
  { apply (proj2 (proj2 complete_mut) _ _ _ HD true (le_flag_refl _) (2 * length ts + 2) ltac:(lia) (2 * length ts + 2) ltac:(lia) 1 [] (t, []) I).
    apply par_loop_stop. exact I. }
  rewrite app_nil_r in Hcall. replace (1 + (2 * length ts + 1)) with (2 * length ts + 2) in Hcall by lia.
  rewrite Hcall. reflexivity.
Qed.

Lemma parse_toks_gen_iff ts t : parse_toks_gen doc ts = Some t <-> D_par doc true ts t.
Proof. split; [apply parse_toks_gen_sound|apply parse_toks_gen_complete]. Qed.

(* the grammar is unambiguous: a token list has at most one derivation tree *)
Lemma derivation_unique ts t1 t2 : D_par doc true ts t1 -> D_par doc true ts t2 -> t1 = t2.
Proof.
  intros H1 H2. apply parse_toks_gen_complete in H1. apply parse_toks_gen_complete in H2.
  rewrite H1 in H2. now inversion H2.
Qed.

End Grammar.

(* ================================================================== Part 2: the two grammars *)
Lemma lark_subset_doc_mut :
  (forall b ts t, D_elem false b ts t -> D_elem true b ts t) /\
  (forall b ts t, D_ser false b ts t -> D_ser true b ts t) /\
  (forall b ts t, D_par false b ts t -> D_par true b ts t).
Proof.
  apply D_mutind; intros.
  - now apply De_items.
  - now apply De_trait.
  - apply De_meta.
  - apply De_any.
  - apply De_br. rewrite andb_false_r in H0.
    eapply (proj2 (proj2 (promote_mut true))); [exact H0|apply le_flag_false].
  - apply Ds_one; auto.
  - apply Ds_cons; auto.
  - apply Dp_one; auto.
  - apply Dp_cons; auto.
Qed.

Lemma lark_subset_doc ts t : D_start ts t -> Doc_start ts t.
Proof. apply lark_subset_doc_mut. Qed.

(* tokens of "[a.*, b.c]" *)
Definition f10_tokens : list tok :=
  [LBR; W [97%Z]; TC CDot; STAR; COMMA; W [98%Z]; TC CDot; W [99%Z]; RBR].
Definition f10_text : list chr :=
  [CLbr; CStart 97; CDotC; CStar; CCommaC; CWs; CStart 98; CDotC; CStart 99; CRbr].

Lemma f10_refuted :
  exists t, Doc_start f10_tokens t /\ parse_toks f10_tokens = None /\
            lex f10_text = Some f10_tokens /\ compile_str f10_text = Rejected.
Proof.
  exists (TPar (TSeries (TTrait [97%Z]) CDot TAny) (TSeries (TTrait [98%Z]) CDot (TTrait [99%Z]))).
  split; [|repeat split; vm_compute; reflexivity].
  apply parse_toks_gen_sound. vm_compute. reflexivity.
Qed.

(* ================================================================== Part 3: "*" only in terminal position *)
Open Scope Z_scope.
Definition bump (t : tok) : Z := match t with LBR => 1 | RBR => -1 | _ => 0 end.
Fixpoint depth (ts : list tok) : Z := match ts with [] => 0 | t :: r => bump t + depth r end.

Definition next_ok (r : list tok) : bool := match r with [] | COMMA :: _ => true | _ => false end.
Definition is_star (t : tok) : bool := match t with STAR => true | _ => false end.

(* every "*" token stands at bracket depth 0 and is followed by "," or by the end of the text *)
Fixpoint star_ok (d : Z) (ts : list tok) : bool :=
  match ts with
  | [] => true
  | t :: r => (if is_star t then (d =? 0) && next_ok r else true) && star_ok (d + bump t) r
  end.

Lemma depth_app a b : depth (a ++ b) = depth a + depth b.
Proof. induction a; cbn [app depth]; lia. Qed.

Definition no_star (ts : list tok) : Prop := forall t, In t ts -> is_star t = false.

Lemma no_star_app a b : no_star a -> no_star b -> no_star (a ++ b).
Proof. intros Ha Hb t Ht. apply in_app_or in Ht. destruct Ht; auto. Qed.
Lemma no_star_cons t r : is_star t = false -> no_star r -> no_star (t :: r).
Proof. intros Ht Hr x [<-|Hx]; auto. Qed.
Lemma no_star_nil : no_star [].
Proof. intros t []. Qed.

Lemma star_ok_no_star ts : no_star ts -> forall d, star_ok d ts = true.
Proof.
  induction ts as [|t r IH]; intros H d; [reflexivity|]. cbn [star_ok].
  rewrite (H t (or_introl eq_refl)). rewrite IH; [reflexivity|]. intros x Hx. apply H. now right.
Qed.

Lemma star_ok_app_nostar a b d : no_star a -> star_ok d (a ++ b) = star_ok (d + depth a) b.
Proof.
  revert d. induction a as [|t r IH]; intros d H; cbn [app depth star_ok].
  - f_equal. lia.
  - rewrite (H t (or_introl eq_refl)). cbn [andb]. rewrite IH.
    + f_equal. lia.
    + intros x Hx. apply H. now right.
Qed.

Lemma star_ok_app_comma a b d :
  star_ok d (a ++ COMMA :: b) = star_ok d a && star_ok (d + depth a) b.
Proof.
  revert d. induction a as [|t r IH]; intros d; cbn [app depth star_ok].
  - cbn. f_equal; lia.
  - rewrite IH. replace (d + (bump t + depth r)) with (d + bump t + depth r) by lia.
    destruct (is_star t); [|cbn [andb]; reflexivity].
    assert (next_ok (r ++ COMMA :: b) = next_ok r) as ->.
    { destruct r as [|x r']; [reflexivity|]. destruct x; reflexivity. }
    rewrite andb_assoc. reflexivity.
Qed.

Lemma star_terminal_mut :
  (forall b ts t, D_elem false b ts t -> depth ts = 0 /\ (b = false -> no_star ts) /\ star_ok 0 ts = true) /\
  (forall b ts t, D_ser false b ts t -> depth ts = 0 /\ (b = false -> no_star ts) /\ star_ok 0 ts = true) /\
  (forall b ts t, D_par false b ts t -> depth ts = 0 /\ (b = false -> no_star ts) /\ star_ok 0 ts = true).
Proof.
  apply D_mutind.
  - intros b w _. repeat split. intros _. apply no_star_cons; [reflexivity|apply no_star_nil].
  - intros b w _. repeat split. intros _. apply no_star_cons; [reflexivity|apply no_star_nil].
  - intros b w. repeat split. intros _. repeat (apply no_star_cons; [reflexivity|]). apply no_star_nil.
  - repeat split. discriminate.
  - intros b ts t _ (Hd & Hn & _). rewrite andb_false_r in Hn. specialize (Hn eq_refl).
    assert (no_star (LBR :: ts ++ [RBR])) as Hns.
    { apply no_star_cons; [reflexivity|]. apply no_star_app; [exact Hn|].
      apply no_star_cons; [reflexivity|apply no_star_nil]. }
    split; [|split].
    + cbn [depth]. rewrite depth_app. cbn. lia.
    + intros _. exact Hns.
    + now apply star_ok_no_star.
  - intros b ts t _ H. exact H.
  - intros b ts1 t1 c ts2 t2 _ (Hd1 & Hn1 & _) _ (Hd2 & Hn2 & Hs2). specialize (Hn1 eq_refl).
    split; [|split].
    + rewrite depth_app. cbn [depth bump]. lia.
    + intros Hb. apply no_star_app; [exact Hn1|]. apply no_star_cons; [reflexivity|auto].
    + rewrite star_ok_app_nostar by exact Hn1. rewrite Hd1. cbn [star_ok is_star bump]. cbn [andb].
      replace (0 + 0 + 0) with 0 by lia. exact Hs2.
  - intros b ts t _ H. exact H.
  - intros b ts1 t1 ts2 t2 _ (Hd1 & Hn1 & Hs1) _ (Hd2 & Hn2 & Hs2).
    split; [|split].
    + rewrite depth_app. cbn [depth bump]. lia.
    + intros Hb. apply no_star_app; [auto|]. apply no_star_cons; [reflexivity|auto].
    + rewrite star_ok_app_comma, Hs1, Hd1. cbn [andb]. exact Hs2.
Qed.

Lemma star_only_terminal_lemma ts t : D_start ts t -> star_ok 0 ts = true.
Proof. intros H. apply (proj2 (proj2 star_terminal_mut) _ _ _ H). Qed.

Lemma star_elsewhere_rejected s ts :
  lex s = Some ts -> star_ok 0 ts = false -> compile_str s = Rejected.
Proof.
  intros Hl Hs. unfold compile_str, parse. rewrite Hl.
  destruct (parse_toks ts) as [t|] eqn:E; [|reflexivity].
  apply parse_toks_gen_sound in E. apply star_only_terminal_lemma in E. congruence.
Qed.
Close Scope Z_scope.
