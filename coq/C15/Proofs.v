From Coq Require Import ZArith List Bool.
From TV Require Import Common.Harness C15.Model C15.Law.
Import ListNotations.
Lemma stub : compile_str [CStart 97] = Graphs [G (NNamed [97%Z] true false) []].
Proof. reflexivity. Qed.
