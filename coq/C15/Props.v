(* C15 — property theorems only.  Each is closed by [exact] of a lemma of Proofs.v and followed by
   Print Assumptions. *)
From Coq Require Import ZArith List Bool Permutation.
From TV Require Import Common.Harness C15.Model C15.Law C15.Proofs C15.DupProofs.
Import ListNotations.

(* The model's parser accepts exactly the token lists the grammar of _dsl_grammar.lark derives, with that
   derivation's tree (all token lists, all trees; the fuel 2|ts|+3 is proved sufficient). *)
Theorem parse_sound : forall ts t, parse_toks ts = Some t -> D_start ts t.
Proof. exact (parse_toks_gen_sound false). Qed.
Print Assumptions parse_sound.

Theorem parse_complete : forall ts t, D_start ts t -> parse_toks ts = Some t.
Proof. exact (parse_toks_gen_complete false). Qed.
Print Assumptions parse_complete.

(* text level: a text is accepted iff it lexes to a derivable token list; everything else is rejected *)
Theorem accepted_iff_derivable : forall s t, parse s = Some t <-> in_language false s t.
Proof. exact parse_iff. Qed.
Print Assumptions accepted_iff_derivable.

(* the recogniser used by the law decides the documented language *)
Theorem law_recogniser_decides_documented_language :
  forall s ts t, doc_parse s = Some (ts, t) <-> lex s = Some ts /\ Doc_start ts t.
Proof. exact doc_parse_iff. Qed.
Print Assumptions law_recogniser_decides_documented_language.

(* the lexer meets its declarative specification: NAME = [a-zA-Z_]\w* with longest match, the seven symbols,
   whitespace ignored; every other text has no token list (lexer error -> ValueError) *)
Theorem lexer_correct : forall s ts, lex s = Some ts <-> Spell ts s.
Proof. exact lex_iff_spell. Qed.
Print Assumptions lexer_correct.

(* both grammars are unambiguous: one text, at most one tree *)
Theorem parse_deterministic_tree : forall doc ts t1 t2, D_par doc true ts t1 -> D_par doc true ts t2 -> t1 = t2.
Proof. exact derivation_unique. Qed.
Print Assumptions parse_deterministic_tree.

(* the parser's language lies inside the documented one ... *)
Theorem accepted_is_documented : forall ts t, D_start ts t -> Doc_start ts t.
Proof. exact lark_subset_doc. Qed.
Print Assumptions accepted_is_documented.

(* ... but not conversely (F10): "[a.*, b.c]" is documented and rejected *)
Theorem bracketed_star_refuted :
  exists t, Doc_start f10_tokens t /\ parse_toks f10_tokens = None /\
            lex f10_text = Some f10_tokens /\ compile_str f10_text = Rejected.
Proof. exact f10_refuted. Qed.
Print Assumptions bracketed_star_refuted.

(* in every accepted text each "*" stands outside all brackets and is followed by "," or the end *)
Theorem star_only_terminal : forall ts t, D_start ts t -> star_ok 0 ts = true.
Proof. exact star_only_terminal_lemma. Qed.
Print Assumptions star_only_terminal.

Theorem star_elsewhere_is_rejected : forall s ts, lex s = Some ts -> star_ok 0 ts = false -> compile_str s = Rejected.
Proof. exact star_elsewhere_rejected. Qed.
Print Assumptions star_elsewhere_is_rejected.

(* what compile_str returns denotes exactly the documented paths, notify flags included (all trees) *)
Theorem meaning : forall t gs, compile_tree t = Graphs gs -> flat_map graph_paths gs = doc_paths t.
Proof. exact meaning_lemma. Qed.
Print Assumptions meaning.

Theorem notify_iff_last_or_dot : forall t p, In p (raw_paths t LEnd) ->
  exists q m, p = q ++ [(m, LEnd)] /\ notify_of LEnd = true /\
    Forall (fun ml => exists c, snd ml = LConn c /\ notify_of (snd ml) = conn_notifies c) q.
Proof. exact notify_iff_last_or_dot_lemma. Qed.
Print Assumptions notify_iff_last_or_dot.

Theorem items_is_four_way : forall n,
  paths (handle_tree TItems n) = [[NNamed items_word n true]; [NDict n true]; [NList n true]; [NSet n true]]
  /\ raw_paths TItems LEnd = [[(MItemsTrait, LEnd)]; [(MDictItems, LEnd)]; [(MListItems, LEnd)]; [(MSetItems, LEnd)]].
Proof. exact items_four_way. Qed.
Print Assumptions items_is_four_way.

(* compile_str can still refuse a derivable text (F17): "a.[b,b]" *)
Theorem duplicate_branch_refuted :
  exists t, in_language false f17_text t /\ in_language true f17_text t /\ compile_str f17_text = CompileError
            /\ doc_paths t = [[NNamed [97%Z] true false; NNamed [98%Z] true false];
                              [NNamed [97%Z] true false; NNamed [98%Z] true false]].
Proof. exact f17_refuted. Qed.
Print Assumptions duplicate_branch_refuted.

(* equal patterns *)
Theorem graphs_assoc : forall a b c br,
  create_graphs (ESeries (ESeries a b) c) br = create_graphs (ESeries a (ESeries b c)) br
  /\ create_graphs (EPar (EPar a b) c) br = create_graphs (EPar a (EPar b c)) br.
Proof. intros. split; [apply series_assoc|apply par_assoc]. Qed.
Print Assumptions graphs_assoc.

Theorem brackets_irrelevant :
  (forall ts t, parse_toks ts = Some t -> has_any t = false -> parse_toks (LBR :: ts ++ [RBR]) = Some t)
  /\ (forall x c1 y c2 z n br, create_graphs (handle_tree (TSeries (TSeries x c1 y) c2 z) n) br =
                                create_graphs (handle_tree (TSeries x c1 (TSeries y c2 z)) n) br)
  /\ (forall x y z n br, create_graphs (handle_tree (TPar (TPar x y) z) n) br =
                         create_graphs (handle_tree (TPar x (TPar y z)) n) br).
Proof. split; [exact brackets_same_tree|split; [exact regroup_series|exact regroup_par]]. Qed.
Print Assumptions brackets_irrelevant.

Theorem whitespace_irrelevant :
  (forall pre x r, is_symb x = true -> compile_str (pre ++ CWs :: x :: r) = compile_str (pre ++ x :: r)) /\
  (forall pre x r, is_symb x = true -> compile_str (pre ++ x :: CWs :: r) = compile_str (pre ++ x :: r)) /\
  (forall pre r, compile_str (pre ++ CWs :: CWs :: r) = compile_str (pre ++ CWs :: r)) /\
  (forall s, compile_str (CWs :: s) = compile_str s) /\
  (forall s, compile_str (s ++ [CWs]) = compile_str s).
Proof. exact whitespace_lemma. Qed.
Print Assumptions whitespace_irrelevant.

Theorem parse_deterministic : forall s1 s2, s1 = s2 -> outcome_same (compile_str s1) (compile_str s2) = true.
Proof. exact parse_deterministic_lemma. Qed.
Print Assumptions parse_deterministic.

(* F10 is the only gap between the documented language and the parser's: a documented text without a "*"
   inside brackets is derivable in the parser's grammar (hence accepted, by parse_complete) *)
Theorem documented_minus_bracketed_star_is_accepted :
  forall ts t, Doc_start ts t -> star_in_brackets 0 ts = false -> D_start ts t.
Proof. exact doc_minus_f10. Qed.
Print Assumptions documented_minus_bracketed_star_is_accepted.

(* F17 is the only way compile_str refuses a parsed text: some path is denoted twice *)
Theorem compile_error_only_for_repeated_path : forall t, compile_tree t = CompileError -> has_dup (doc_paths t) = true.
Proof. exact compile_error_dup. Qed.
Print Assumptions compile_error_only_for_repeated_path.

(* F17 exactly: a parsed text (an expression) is refused only when the alternatives after some connector repeat a
   pattern.  Behind it: create_graphs e br = create_graphs e [] with br attached at every leaf, and attaching preserves
   and reflects ObserverGraph.__eq__ (attach_eqb, by a depth argument). *)
Theorem compile_error_only_after_a_connector :
  (forall t, compile_tree t = CompileError -> dup_right t = true) /\
  (forall e, create_graphs e [] = None -> dup_right_e e = true) /\
  (forall br a b, graph_eqb (attach br a) (attach br b) = graph_eqb a b).
Proof. split; [exact compile_error_dup_right|split; [exact expr_error_dup_right|exact attach_eqb]]. Qed.
Print Assumptions compile_error_only_after_a_connector.

(* The law (Law.law_single), evaluated on the model's own outcome for ANY text, can only raise code 1 (F10) or
   code 3 (F17: the repetition always sits among the alternatives after a connector, never codes 18 / 19): never
   "accepted outside the language", never a wrong path / notify flag, never another exception. *)
Theorem model_satisfies_law : forall s c, In c (law_single s (compile_str s)) -> c = 1%Z \/ c = 3%Z.
Proof. exact model_law_13. Qed.
Print Assumptions model_satisfies_law.

Theorem law_holds_outside_findings : forall s,
  (forall ts, lex s = Some ts -> star_in_brackets 0 ts = false) -> compile_str s <> CompileError ->
  law_single s (compile_str s) = [].
Proof. exact model_law_clean. Qed.
Print Assumptions law_holds_outside_findings.

(* results equal by ObserverGraph.__eq__ denote the same paths (pair law, code 12) *)
Theorem equal_patterns_same_paths : forall g1 g2, list_eqb graph_eqb g1 g2 = true ->
  path_subset (flat_map graph_paths g1) (flat_map graph_paths g2) = true.
Proof. exact equal_graphs_same_paths. Qed.
Print Assumptions equal_patterns_same_paths.

(* ObserverGraph.__eq__ (graph_eqb) is an equivalence relation that ignores the order of children; "a,b" and
   "b,a" compile to the same graphs in another order *)
Theorem pattern_equality_is_an_equivalence :
  (forall g, graph_eqb g g = true) /\ (forall a b, graph_eqb a b = graph_eqb b a) /\
  (forall a b c, graph_eqb a b = true -> graph_eqb b c = true -> graph_eqb a c = true) /\
  (forall n cs cs', Permutation cs cs' -> graph_eqb (G n cs) (G n cs') = true).
Proof. split; [exact graph_eqb_refl|split; [exact graph_eqb_sym|split; [exact graph_eqb_trans|exact graph_eqb_perm]]]. Qed.
Print Assumptions pattern_equality_is_an_equivalence.

Theorem parallel_commutes_up_to_order : forall a b br l, create_graphs (EPar a b) br = Some l ->
  exists l', create_graphs (EPar b a) br = Some l' /\ Permutation l l'.
Proof. exact par_comm. Qed.
Print Assumptions parallel_commutes_up_to_order.

(* the expression API (then, |, join, chaining methods): compile_expr's graphs denote exactly the paths of the
   expression; it refuses only an expression that denotes a path twice (F17 again); the law on the model's
   outcome of any expression can only raise code 3 *)
Theorem expression_meaning : forall e,
  (forall gs, create_graphs e [] = Some gs -> flat_map graph_paths gs = paths e) /\
  (create_graphs e [] = None -> has_dup (paths e) = true).
Proof. exact expr_meaning. Qed.
Print Assumptions expression_meaning.

Theorem model_satisfies_expression_law : forall e c,
  In c (law_expr e (match create_graphs e [] with Some gs => Graphs gs | None => CompileError end)) -> c = 3%Z.
Proof. exact expr_law_3. Qed.
Print Assumptions model_satisfies_expression_law.

(* the pair law on the model (Python's == being the model's ObserverGraph.__eq__): for ANY two texts code 12 never
   arises - results that compare equal denote the same set of paths - and codes 7-10 can only arise when two texts
   were wrongly claimed to be spellings of one expression *)
Theorem model_satisfies_pair_law : forall same s1 s2 c,
  let o1 := compile_str s1 in let o2 := compile_str s2 in
  In c (law_pair same o1 o2 (outcome_same o1 o2) (outcome_same o1 o2)) ->
  same = true /\ (c = 7%Z \/ c = 8%Z \/ c = 9%Z \/ c = 10%Z).
Proof. exact model_pair_law. Qed.
Print Assumptions model_satisfies_pair_law.

(* RUN-TIME MEANING.  On every heap of objects (traits with names, metadata values None / falsy / truthy, possibly
   holding another object), from every object: walking the compiled graphs as observe() does (hook_graph: handler on
   the observables of a notifying node, children on the objects they hold; a missing required trait is an error)
   attaches the handler to exactly the (object, trait) pairs - and raises exactly for the missing traits - that the
   documented meaning names (doc_hooks: a name = that trait, "+name" = every trait whose metadata value is not None,
   "*" = every trait, notify iff last or followed by "."). *)
Theorem hooks_meaning : forall t gs, compile_tree t = Graphs gs ->
  forall h o x, In x (flat_map (hook_graph h o) gs) <-> In x (doc_hooks h o t).
Proof. exact hooks_meaning_lemma. Qed.
Print Assumptions hooks_meaning.

Theorem metadata_pattern_hooks_iff_value_not_none : forall w ts x,
  In x (fst (m_obs (MMeta w) 0%nat (OTraits ts))) <->
  exists t, In t ts /\ meta_of (t_meta t) w <> MVNone /\ x = trait_item t.
Proof. exact metadata_hooks_iff_not_none. Qed.
Print Assumptions metadata_pattern_hooks_iff_value_not_none.

(* patterns that compare equal (ObserverGraph.__eq__) hook the same (object, trait) pairs on every heap, so removal by
   an equal pattern - another spelling of the text - addresses exactly what the registration hooked *)
Theorem equal_patterns_hook_the_same : forall g1 g2, list_eqb graph_eqb g1 g2 = true ->
  forall h o x, In x (flat_map (hook_graph h o) g1) <-> In x (flat_map (hook_graph h o) g2).
Proof. exact equal_patterns_hooks. Qed.
Print Assumptions equal_patterns_hook_the_same.

Theorem expression_hooks_meaning : forall e gs, create_graphs e [] = Some gs ->
  forall h o x, In x (flat_map (hook_graph h o) gs) <-> In x (flat_map (hook_path h o) (paths e)).
Proof. exact expr_hooks. Qed.
Print Assumptions expression_hooks_meaning.

(* "items" at run time, on every heap: on a list / dict / set it is the container itself (and the rest of the path
   applies to its items / values); on a HasTraits object the trait named items if there is one; never an error *)
Theorem items_is_four_way_at_run_time : forall h o l,
  let ob := nth_obj h o in
  flat_map (hook_mpath h o) (raw_paths TItems l) =
  match ob with
  | OTraits ts => match find_trait ts items_word with
                  | Some t => if notify_of l then [Hit o (t_name t)] else []
                  | None => [] end
  | _ => if notify_of l then [Hit o []] else []
  end.
Proof. exact items_runtime. Qed.
Print Assumptions items_is_four_way_at_run_time.

(* the end-to-end hook law (clauses 16, 17) evaluated on the model's own walk over the probe heap holds for every
   text the model compiles: what is checked on the implementation is proved of the model *)
Theorem model_satisfies_hook_law : forall s gs, compile_str s = Graphs gs ->
  let hits := flat_map (hook_graph probe_heap 0%nat) gs in
  law_hook s (negb (has_err hits)) (hit_codes hits) = [].
Proof. exact model_hook_law. Qed.
Print Assumptions model_satisfies_hook_law.

(* the spelling rewrites are statements about ALL texts, in both languages: brackets around any text of the documented
   language (around any "*"-free text of the parser's language) and whitespace at token boundaries change neither
   membership nor tree nor compiled graphs *)
Theorem brackets_irrelevant_for_texts :
  (forall s t, parse s = Some t -> has_any t = false -> compile_str (CLbr :: s ++ [CRbr]) = compile_str s) /\
  (forall s ts t, doc_parse s = Some (ts, t) -> doc_parse (CLbr :: s ++ [CRbr]) = Some (LBR :: ts ++ [RBR], t)).
Proof. split; [exact brackets_text|exact doc_brackets_text]. Qed.
Print Assumptions brackets_irrelevant_for_texts.

Theorem documented_language_closed_under_whitespace :
  (forall pre x r, is_symb x = true -> doc_parse (pre ++ CWs :: x :: r) = doc_parse (pre ++ x :: r)) /\
  (forall pre x r, is_symb x = true -> doc_parse (pre ++ x :: CWs :: r) = doc_parse (pre ++ x :: r)) /\
  (forall pre r, doc_parse (pre ++ CWs :: CWs :: r) = doc_parse (pre ++ CWs :: r)) /\
  (forall s, doc_parse (CWs :: s) = doc_parse s) /\
  (forall s, doc_parse (s ++ [CWs]) = doc_parse s).
Proof. exact whitespace_doc_lemma. Qed.
Print Assumptions documented_language_closed_under_whitespace.

(* Non-vacuity: "a:[b, items.c].*" is accepted; 5 paths; notify false on a, true elsewhere. *)
Example accepted_nontrivial :
  let s := [CStart 97; CColonC; CLbr; CStart 98; CCommaC; CWs; CStart 105; CStart 116; CStart 101; CStart 109;
            CStart 115; CDotC; CStart 99; CRbr; CDotC; CStar] in
  exists t gs, parse s = Some t /\ compile_str s = Graphs gs /\ length (doc_paths t) = 5%nat
               /\ flat_map graph_paths gs = doc_paths t
               /\ star_ok 0 [W [97%Z]; TC CColon; LBR; W [98%Z]; COMMA; W items_word; TC CDot; W [99%Z]; RBR; TC CDot; STAR] = true.
Proof. vm_compute. eexists _, _. repeat split. Qed.

(* Non-vacuity for the spelling theorems: " a . [ b , c ] " and "a.[b,c]" compile to the same graphs; the graph of
   "a.[c,b]" is equal to it by ObserverGraph.__eq__ although the children are in another order; "a.[b,c]" and
   "a.[b,d]" are not equal. *)
Example spellings_nontrivial :
  let a := CStart 97 in let b := CStart 98 in let c := CStart 99 in let d := CStart 100 in
  compile_str [CWs; a; CWs; CDotC; CWs; CLbr; CWs; b; CWs; CCommaC; CWs; c; CWs; CRbr; CWs]
    = compile_str [a; CDotC; CLbr; b; CCommaC; c; CRbr]
  /\ outcome_same (compile_str [a; CDotC; CLbr; c; CCommaC; b; CRbr]) (compile_str [a; CDotC; CLbr; b; CCommaC; c; CRbr]) = true
  /\ compile_str [a; CDotC; CLbr; c; CCommaC; b; CRbr] <> compile_str [a; CDotC; CLbr; b; CCommaC; c; CRbr]
  /\ outcome_same (compile_str [a; CDotC; CLbr; b; CCommaC; d; CRbr]) (compile_str [a; CDotC; CLbr; b; CCommaC; c; CRbr]) = false.
Proof. vm_compute. repeat split; try reflexivity. discriminate. Qed.

(* Non-vacuity for hooks_meaning, on the probe heap of the correspondence (root with child, kids = list of two Leafs,
   table = dict with one Leaf value, group = set of one Leaf; metadata tag = True, False, 0, "", (), None, absent):
   "+tag" hooks the five traits whose tag is not None on the root (codes 0..4); "child:+tag" the same five on the child
   without hooking child itself; "child.*" hooks child and every trait of the child (its eight numbers, trait_added, trait_modified, the later-added
   zz_new); "kids.items.t_zero" hooks kids (10), the list itself (32*2+9) and t_zero on both items (objects 3, 4);
   "table:items:+other" only t_other of the dict's value (object 6); "nope" and "kids.t_true" raise. *)
Open Scope Z_scope.
Example hooks_nontrivial :
  let txt l := map (fun c => of_code c false) l in
  let run s := match compile_str s with Graphs gs => flat_map (hook_graph probe_heap 0%nat) gs | _ => [] end in
  hit_codes (run (txt [43; 116; 97; 103])) = [0; 1; 2; 3; 4]
  /\ hit_codes (run (txt [99; 104; 105; 108; 100; 58; 43; 116; 97; 103])) = [32; 33; 34; 35; 36]
  /\ hit_codes (run (txt [99; 104; 105; 108; 100; 46; 42])) = [8; 32; 33; 34; 35; 36; 37; 38; 39; 45; 46; 48]
  /\ zset_eqb (hit_codes (run (txt [107; 105; 100; 115; 46; 105; 116; 101; 109; 115; 46; 116; 95; 122; 101; 114; 111])))
              [10; 73; 98; 130] = true
  /\ hit_codes (run (txt [116; 97; 98; 108; 101; 58; 105; 116; 101; 109; 115; 58; 43; 111; 116; 104; 101; 114])) = [199]
  /\ has_err (run (txt [110; 111; 112; 101])) = true
  /\ has_err (run (txt [107; 105; 100; 115; 46; 116; 95; 116; 114; 117; 101])) = true
  /\ has_err (run (txt [43; 116; 97; 103])) = false.
Proof. vm_compute. repeat split. Qed.
