From Coq Require Import ZArith List Bool.
From TV Require Import Common.Harness C15.Model C15.Law C15.Proofs.
Import ListNotations.
Theorem stub_thm : compile_str [CStart 97] = Graphs [G (NNamed [97%Z] true false) []].
Proof. exact stub. Qed.
Print Assumptions stub_thm.
