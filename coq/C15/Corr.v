(* C15 — correspondence.  Embedded cases (one text, or two spellings of one expression, with what
   parse / compile_str of the implementation did) and exhaustive grids generated inside Coq and compared by
   block digests. *)
From Coq Require Import ZArith List Bool Uint63.
From TV Require Import Common.Harness C15.Model C15.Law.
Import ListNotations.
Open Scope Z_scope.

(* a text is given as (code point, does Python's \w match it) pairs *)
Definition text := list (Z * bool).
Definition chars (s : text) : list chr := map (fun p => of_code (fst p) (snd p)) s.

Inductive case :=
| Single (s : text) (o : outcome) (stable agree : bool)
    (* o: what compile_str did; stable: same answer again, after use, after a cache drop;
       agree: parse and compile_str accept/reject alike and compile_expr (parse s) = compile_str s *)
| Hook (s : text) (registered : bool) (fired : list Z)   (* end to end on the probe objects: which changes fired *)
| ExprC (e : expr) (o : outcome)                    (* an expression built through the API, compile_expr *)
| Pair (same : bool) (s1 s2 : text) (o1 o2 : outcome) (pyeq hasheq removal : bool).
    (* removal: a handler registered on a probe object by text s1 could be removed by text s2 *)

Definition outcome_eqb (m i : outcome) : bool :=
  match m, i with
  | Rejected, Rejected => true
  | CompileError, CompileError => true
  | Graphs a, Graphs b => list_eqb graph_eqb a b
  | _, _ => false
  end.

(* codes: 1 outcome of text 1, 2 outcome of text 2 *)
Definition corr_codes (c : case) : list Z :=
  match c with
  | Single s o _ _ => chk 1 (outcome_eqb (compile_str (chars s)) o)
  | Hook s registered fired =>
      (* the model's own run-time meaning of the compiled graphs on the probe heap *)
      match compile_str (chars s) with
      | Graphs gs =>
          let hits := flat_map (hook_graph probe_heap 0) gs in
          if has_err hits then chk 3 (negb registered)
          else chk 3 registered ++ (if registered then chk 4 (zset_eqb (hit_codes hits) fired) else [])
      | _ => chk 3 (negb registered)
      end
  | ExprC e o => chk 1 (outcome_eqb (match create_graphs e [] with Some gs => Graphs gs | None => CompileError end) o)
  | Pair _ s1 s2 o1 o2 _ _ _ =>
      chk 1 (outcome_eqb (compile_str (chars s1)) o1) ++ chk 2 (outcome_eqb (compile_str (chars s2)) o2)
  end.

Definition law_codes (c : case) : list Z :=
  match c with
  | Single s o stable agree => law_single (chars s) o ++ chk 13 stable ++ chk 14 agree
  | Hook s r f => law_hook (chars s) r f
  | ExprC e o => law_expr e o
  | Pair same s1 s2 o1 o2 pyeq hasheq removal =>
      law_single (chars s1) o1 ++ map (fun c => 20 + c) (law_single (chars s2) o2) ++ law_pair same o1 o2 pyeq hasheq
      ++ chk 15 (negb same || removal)
  end.

(* the parser must never run out of fuel on an input it rejects for that reason: fuel_for is proved sufficient
   (Proofs.v), and this is the run-time cross-check asked for in DESIGN App. A: parsing with twice the fuel
   gives the same answer *)
Definition fuel_codes (c : case) : list Z :=
  let one s := match lex (chars s) with
               | None => []
               | Some ts => chk 1 (match p_par false (fuel_for ts) true ts, p_par false (2 * fuel_for ts) true ts with
                                   | Some (t, r), Some (t', r') => Nat.eqb (length r) (length r')
                                   | None, None => true
                                   | _, _ => false end)
               end in
  match c with Single s _ _ _ => one s | ExprC _ _ => [] | Hook _ _ _ => [] | Pair _ s1 s2 _ _ _ _ _ => one s1 ++ one s2 end.

(* ------------------------------------------------------------------ exhaustive grids *)
(* 13 symbols: a b items + * . : , [ ] space e-acute (a non-ASCII word character) and the digit 1 *)
Definition sym (d : Z) : list chr :=
  match d with
  | 0 => [CStart 97] | 1 => [CStart 98]
  | 2 => [CStart 105; CStart 116; CStart 101; CStart 109; CStart 115]
  | 3 => [CPlus] | 4 => [CStar] | 5 => [CDotC] | 6 => [CColonC] | 7 => [CCommaC]
  | 8 => [CLbr] | 9 => [CRbr] | 10 => [CWs] | 11 => [CCont 233] | _ => [CCont 49]
  end.

(* the i-th string of length L in itertools.product order (most significant symbol first) *)
Fixpoint str_of (L : nat) (i : Z) (acc : list chr) : list chr :=
  match L with O => acc | S L' => str_of L' (i / 13) (sym (i mod 13) ++ acc) end.

(* canonical integer encoding of an outcome (the same function is in tools/props/c15.py) *)
Definition b2z (b : bool) : Z := if b then 1 else 0.
Definition enc_word (w : word) : list Z := Z.of_nat (length w) :: w.
Definition enc_node (n : node) : list Z :=
  match n with
  | NNamed w n o => 1 :: b2z n :: b2z o :: enc_word w
  | NFilt n FAny => [2; b2z n]
  | NFilt n (FMeta w) => 3 :: b2z n :: enc_word w
  | NDict n o => [4; b2z n; b2z o]
  | NList n o => [5; b2z n; b2z o]
  | NSet n o => [6; b2z n; b2z o]
  end.
Fixpoint enc_graph (g : graph) : list Z :=
  match g with G n cs => enc_node n ++ Z.of_nat (length cs) :: flat_map enc_graph cs end.
Definition enc_outcome (o : outcome) : list Z :=
  match o with
  | Rejected => [0]
  | CompileError => [1]
  | Graphs gs => 2 :: Z.of_nat (length gs) :: flat_map enc_graph gs
  | Crashed => [98]
  end.

(* 63-bit rolling digest on primitive machine integers (arithmetic modulo 2^63; Harness.digest on Z costs
   0.3 ms per step under vm_compute, this one next to nothing).  Same function in tools/props/c15.py. *)
Definition dstep (h : int) (c : Z) : int := (h * 1000003 + of_Z c + 7)%uint63.

(* digest of the model's outcomes on the [n] strings of length L from index i on *)
Fixpoint block_digest_i (L : nat) (i : Z) (n : nat) (h : int) : int :=
  match n with
  | O => h
  | S n' => block_digest_i L (i + 1) n' (fold_left dstep (enc_outcome (compile_str (str_of L i []))) h)
  end.
Definition block_digest (L : nat) (i : Z) (n : nat) : Z := to_Z (block_digest_i L i n 0%uint63).

(* digests of [nb] consecutive blocks of [bs] strings, starting at index i *)
Fixpoint grid_digests (L : nat) (i : Z) (bs : nat) (nb : nat) : list Z :=
  match nb with
  | O => []
  | S nb' => block_digest L i bs :: grid_digests L (i + Z.of_nat bs) bs nb'
  end.

(* indices of the blocks whose digest differs from the implementation's *)
Fixpoint diff_blocks (k : Z) (m i : list Z) : list (Z * Z) :=
  match m, i with
  | x :: m', y :: i' => (if x =? y then [] else [(k, 1)]) ++ diff_blocks (k + 1) m' i'
  | [], [] => []
  | _, _ => [(k, 2)]
  end.

(* law failures of the model's own outcome over a range (equal digests: these are the implementation's) *)
Fixpoint grid_law (L : nat) (i : Z) (n : nat) : list (Z * Z) :=
  match n with
  | O => []
  | S n' => let s := str_of L i [] in
            map (fun c => (i, c)) (law_single s (compile_str s)) ++ grid_law L (i + 1) n'
  end.
