(* C15 — executable model of the observe mini-language.
   traits/observation/_dsl_grammar.lark   (lexer terminals + LALR grammar; the generated tables of
                                           _generated_parser.py are a black box tied by correspondence)
   traits/observation/parsing.py          (_handle_tree and its handlers, parse, compile_str)
   traits/observation/expression.py       (ObserverExpression, _create_graphs, compile_expr)
   traits/observation/_observer_graph.py  (ObserverGraph.__init__ uniqueness check, __eq__)
   Definitions only; the proofs are in Proofs.v. *)
From Coq Require Import ZArith List Bool.
Import ListNotations.
Open Scope Z_scope.

(* ------------------------------------------------------------------ characters *)
Definition word := list Z.                     (* a NAME as its code points *)

(* Character classes of the lexer (_dsl_grammar.lark: NAME: /[a-zA-Z_]\w*/, %ignore common.WS = /[ \t\f\r\n]/+,
   the anonymous terminals "+" "*" "." ":" "," "[" "]").  *)
Inductive chr :=
| CStart (c : Z)        (* [a-zA-Z_] *)
| CCont (c : Z)         (* \w but not a start character: digits, non-ASCII word characters *)
| CWs                   (* space \t \f \r \n *)
| CPlus | CStar | CDotC | CColonC | CCommaC | CLbr | CRbr
| COther.               (* any other character: no terminal matches *)

Definition in_range (a b c : Z) : bool := (a <=? c) && (c <=? b).

(* ASCII classification is part of the model; for code points >= 128 the harness supplies whether
   Python's [\w] matches (that part of [re] is sampled, not modelled). *)
Definition of_code (c : Z) (uniword : bool) : chr :=
  if in_range 97 122 c || in_range 65 90 c || (c =? 95) then CStart c
  else if in_range 48 57 c then CCont c
  else if (c =? 32) || (c =? 9) || (c =? 12) || (c =? 13) || (c =? 10) then CWs
  else if c =? 43 then CPlus else if c =? 42 then CStar else if c =? 46 then CDotC
  else if c =? 58 then CColonC else if c =? 44 then CCommaC else if c =? 91 then CLbr
  else if c =? 93 then CRbr
  else if (128 <=? c) && uniword then CCont c
  else COther.

(* ------------------------------------------------------------------ tokens, trees *)
Inductive conn := CDot | CColon.
Inductive tok := W (w : word) | PLUS | STAR | TC (c : conn) | COMMA | LBR | RBR.

Definition items_word : word := [105; 116; 101; 109; 115].   (* "items" *)

Fixpoint word_eqb (a b : word) : bool :=
  match a, b with
  | [], [] => true
  | x :: a', y :: b' => (x =? y) && word_eqb a' b'
  | _, _ => false
  end.
Definition is_items (w : word) : bool := word_eqb w items_word.

(* Lark tree after the ?-rules are inlined and anonymous tokens filtered: brackets leave no node;
   "series"/"series_terminal" have children [left, notify|quiet, right]; "parallel"/"parallel_terminal" [left, right] *)
Inductive tree :=
| TTrait (w : word) | TItems | TMeta (w : word) | TAny
| TSeries (l : tree) (c : conn) (r : tree) | TPar (l r : tree).

(* ------------------------------------------------------------------ lexer *)
(* Maximal munch for NAME, whitespace dropped.  [cur] is the word being read. *)
Definition flush (cur : option word) (ts : list tok) : list tok :=
  match cur with None => ts | Some w => W w :: ts end.

Definition sym_of (ch : chr) : option tok :=
  match ch with
  | CPlus => Some PLUS | CStar => Some STAR | CDotC => Some (TC CDot) | CColonC => Some (TC CColon)
  | CCommaC => Some COMMA | CLbr => Some LBR | CRbr => Some RBR
  | _ => None
  end.

Fixpoint lex_go (cur : option word) (s : list chr) : option (list tok) :=
  match s with
  | [] => Some (flush cur [])
  | ch :: r =>
      match ch with
      | CStart c => lex_go (Some (match cur with None => [c] | Some w => w ++ [c] end)) r
      | CCont c => match cur with
                   | None => None                     (* a digit / é cannot start a NAME *)
                   | Some w => lex_go (Some (w ++ [c])) r
                   end
      | CWs => option_map (flush cur) (lex_go None r)
      | COther => None
      | _ => match sym_of ch, lex_go None r with
             | Some t, Some ts => Some (flush cur (t :: ts))
             | _, _ => None
             end
      end
  end.
Definition lex (s : list chr) : option (list tok) := lex_go None s.

(* ------------------------------------------------------------------ parser *)
(* Recursive descent with open recursion and fuel.  One parser for two grammars (Law.v: D_elem/D_ser/D_par):
     doc = false : the grammar of _dsl_grammar.lark (what the generated LALR parser implements): inside
                   brackets the rule is [parallel], never [parallel_terminal], so "*" cannot occur there;
     doc = true  : the documented language (user manual + the grammar's own comment): "*" wherever it is not
                   followed, directly or indirectly, by a connector - brackets inherit the terminal position.
   The flag [b] says "this position is terminal".  Every element is parsed with the flag of its series and a
   series is cut when something containing "*" is followed by a connector ([has_any]).
   The keyword "items" is contextual (Lark's contextual lexer): where an element may start, the word "items"
   is the keyword; after "+" only NAME is expected and "items" is an ordinary name. *)
Definition res := option (tree * list tok).

Fixpoint has_any (t : tree) : bool :=
  match t with
  | TAny => true
  | TSeries l _ r => has_any l || has_any r
  | TPar l r => has_any l || has_any r
  | _ => false
  end.

Definition p_elem (doc : bool) (rec : bool -> list tok -> res) (b : bool) (ts : list tok) : res :=
  match ts with
  | W w :: r => Some (if is_items w then TItems else TTrait w, r)
  | PLUS :: W w :: r => Some (TMeta w, r)
  | STAR :: r => if b then Some (TAny, r) else None
  | LBR :: r => match rec (b && doc) r with
                | Some (t, RBR :: r') => Some (t, r')
                | _ => None end
  | _ => None
  end.

Fixpoint ser_loop (pe : list tok -> res) (k : nat) (left : tree) (ts : list tok) : res :=
  match k with O => None | S k' =>
    match ts with
    | TC c :: r => if has_any left then None
                   else match pe r with
                        | Some (e, r') => ser_loop pe k' (TSeries left c e) r'
                        | None => None end
    | _ => Some (left, ts)
    end
  end.

Definition p_ser (doc : bool) (rec : bool -> list tok -> res) (b : bool) (k : nat) (ts : list tok) : res :=
  match p_elem doc rec b ts with
  | None => None
  | Some (t, r) => ser_loop (p_elem doc rec b) k t r
  end.

Fixpoint par_loop (ps : list tok -> res) (k : nat) (left : tree) (ts : list tok) : res :=
  match k with O => None | S k' =>
    match ts with
    | COMMA :: r => match ps r with
                    | Some (s, r') => par_loop ps k' (TPar left s) r'
                    | None => None end
    | _ => Some (left, ts)
    end
  end.

Definition p_par_body (doc : bool) (rec : bool -> list tok -> res) (b : bool) (ks kp : nat) (ts : list tok) : res :=
  match p_ser doc rec b ks ts with
  | None => None
  | Some (t, r) => par_loop (p_ser doc rec b ks) kp t r
  end.

Fixpoint p_par (doc : bool) (fuel : nat) (b : bool) (ts : list tok) : res :=
  match fuel with O => None | S f => p_par_body doc (p_par doc f) b f f ts end.

Definition fuel_for (ts : list tok) : nat := 2 * length ts + 3.

(* ?start: parallel_terminal, and the whole input must be consumed *)
Definition parse_toks_gen (doc : bool) (ts : list tok) : option tree :=
  match p_par doc (fuel_for ts) true ts with
  | Some (t, []) => Some t
  | _ => None
  end.

Definition parse_toks : list tok -> option tree := parse_toks_gen false.

(* ------------------------------------------------------------------ expressions (expression.py) *)
Inductive filt := FAny (* anytrait_filter *) | FMeta (w : word) (* MetadataFilter(metadata_name) *).
Inductive node :=
| NNamed (w : word) (notify optional : bool)     (* NamedTraitObserver *)
| NFilt (notify : bool) (f : filt)               (* FilteredTraitObserver *)
| NDict (notify optional : bool)                 (* DictItemObserver *)
| NList (notify optional : bool)                 (* ListItemObserver *)
| NSet (notify optional : bool).                 (* SetItemObserver *)

Inductive expr :=
| ESingle (n : node)                             (* SingleObserverExpression *)
| ESeries (a b : expr)                           (* SeriesObserverExpression: a.then(b) *)
| EPar (a b : expr).                             (* ParallelObserverExpression: a | b *)

Inductive graph := G (n : node) (cs : list graph).      (* ObserverGraph(node, children) *)

Definition conn_notifies (c : conn) : bool := match c with CDot => true | CColon => false end.

(* parsing.py:168-190 _handle_tree with the handlers of lines 20-165 *)
Fixpoint handle_tree (t : tree) (notify : bool) : expr :=
  match t with
  | TTrait w => ESingle (NNamed w notify false)                               (* _handle_trait *)
  | TItems =>                                                                  (* _handle_items *)
      EPar (EPar (EPar (ESingle (NNamed items_word notify true)) (ESingle (NDict notify true)))
                 (ESingle (NList notify true)))
           (ESingle (NSet notify true))
  | TMeta w => ESingle (NFilt notify (FMeta w))                               (* _handle_metadata *)
  | TAny => ESingle (NFilt notify FAny)                                       (* _handle_anytrait *)
  | TSeries l c r => ESeries (handle_tree l (conn_notifies c)) (handle_tree r notify)   (* _handle_series *)
  | TPar l r => EPar (handle_tree l notify) (handle_tree r notify)            (* _handle_parallel *)
  end.

(* equality of observers: __eq__ of the five observer classes and of MetadataFilter *)
Definition filt_eqb (a b : filt) : bool :=
  match a, b with
  | FAny, FAny => true
  | FMeta x, FMeta y => word_eqb x y
  | _, _ => false
  end.
Definition node_eqb (a b : node) : bool :=
  match a, b with
  | NNamed w n o, NNamed w' n' o' => word_eqb w w' && Bool.eqb n n' && Bool.eqb o o'
  | NFilt n f, NFilt n' f' => Bool.eqb n n' && filt_eqb f f'
  | NDict n o, NDict n' o' => Bool.eqb n n' && Bool.eqb o o'
  | NList n o, NList n' o' => Bool.eqb n n' && Bool.eqb o o'
  | NSet n o, NSet n' o' => Bool.eqb n n' && Bool.eqb o o'
  | _, _ => false
  end.

(* _observer_graph.py:75-84  ObserverGraph.__eq__: same node and set(children) == set(other.children) *)
Fixpoint graph_eqb (a b : graph) : bool :=
  match a, b with
  | G n1 c1, G n2 c2 =>
      node_eqb n1 n2
      && forallb (fun x => existsb (fun y => graph_eqb x y) c2) c1
      && forallb (fun y => existsb (fun x => graph_eqb x y) c1) c2
  end.

(* _observer_graph.py:63-64: len(set(children)) != len(children) -> ValueError *)
Fixpoint distinctb (l : list graph) : bool :=
  match l with
  | [] => true
  | x :: r => negb (existsb (graph_eqb x) r) && distinctb r
  end.

(* expression.py:282-285, 310-312, 343-346: _create_graphs; None = ValueError("Not all children are unique.") *)
Fixpoint create_graphs (e : expr) (branches : list graph) : option (list graph) :=
  match e with
  | ESingle n => if distinctb branches then Some [G n branches] else None
  | ESeries a b => match create_graphs b branches with
                   | Some bs => create_graphs a bs
                   | None => None end
  | EPar a b => match create_graphs a branches with
                | None => None
                | Some l => match create_graphs b branches with
                            | None => None
                            | Some r => Some (l ++ r) end
                end
  end.

(* ------------------------------------------------------------------ parse / compile_str *)
Inductive outcome :=
| Rejected                          (* parse raises ValueError *)
| CompileError                      (* parse succeeds, compile_str raises ValueError (duplicate children) *)
| Graphs (gs : list graph)          (* compile_str result *)
| Crashed.                          (* any other exception; never produced by the model *)

Definition parse (s : list chr) : option tree :=
  match lex s with Some ts => parse_toks ts | None => None end.

Definition compile_tree (t : tree) : outcome :=
  match create_graphs (handle_tree t true) [] with
  | Some gs => Graphs gs
  | None => CompileError
  end.

Definition compile_str (s : list chr) : outcome :=
  match parse s with
  | None => Rejected
  | Some t => compile_tree t
  end.

(* ------------------------------------------------------------------ denotation *)
(* one observed path = the observers from the root to a leaf, each with its notify flag (inside the node) *)
Fixpoint graph_paths (g : graph) : list (list node) :=
  match g with
  | G n [] => [[n]]
  | G n cs => map (cons n) (flat_map graph_paths cs)
  end.

(* ------------------------------------------------------------------ which traits a compiled pattern hooks *)
(* observation/_observe.py:80-185 (_AddOrRemoveNotifier: notifiers on the observables of the node when it notifies,
   then the children graphs on every next object) with iter_observables / iter_objects of
   _named_trait_observer.py:76-135, _filtered_trait_observer.py:63-115, _metadata_filter.py:35-37, _anytrait_filter.py,
   _list_item_observer.py:59-115, _dict_item_observer.py, _set_item_observer.py, _has_traits_helpers.py:31-72.
   A heap is a list of objects: a HasTraits object is the list of its traits (name, metadata, possibly holding another
   object of the heap: a value present in __dict__ that is not None/Undefined); a TraitList / TraitDict / TraitSet is
   the list of its items (values for a dict). *)
Inductive mval := MVNone | MVFalsy | MVTruthy.   (* metadata value: None (or absent) / not None but falsy / truthy *)
Record tdesc := mkT { t_name : word; t_meta : list (word * mval); t_val : option nat }.
Inductive object := OTraits (ts : list tdesc) | OList (items : list nat) | ODict (vals : list nat) | OSet (items : list nat).
Definition heap := list object.
Inductive hit := Hit (o : nat) (w : word)         (* the handler is attached to trait w of object o; w = [] : to the container o itself *)
               | Err (o : nat) (w : word).        (* observe raises: required trait w missing on o / o is not that container / has no traits *)

(* an observable: its label and the objects it hands to the next observers *)
Definition oitem := (word * list nat)%type.

Fixpoint meta_of (l : list (word * mval)) (w : word) : mval :=
  match l with [] => MVNone | (k, v) :: r => if word_eqb k w then v else meta_of r w end.
Definition not_none (v : mval) : bool := match v with MVNone => false | _ => true end.
Fixpoint find_trait (ts : list tdesc) (w : word) : option tdesc :=
  match ts with [] => None | t :: r => if word_eqb (t_name t) w then Some t else find_trait r w end.
Definition trait_item (t : tdesc) : oitem := (t_name t, match t_val t with Some o' => [o'] | None => [] end).

Definition filter_ok (f : filt) (t : tdesc) : bool :=
  match f with
  | FAny => true                                           (* anytrait_filter *)
  | FMeta w => not_none (meta_of (t_meta t) w)             (* getattr(trait, name) is not None *)
  end.

Definition node_notify (n : node) : bool :=
  match n with NNamed _ b _ | NFilt b _ | NDict b _ | NList b _ | NSet b _ => b end.

Definition unless (opt : bool) (e : hit) : list hit := if opt then [] else [e].

(* iter_observables / iter_objects: the observables of the node on the object, and the error it raises *)
Definition observables (n : node) (o : nat) (ob : object) : list oitem * list hit :=
  match ob, n with
  | OTraits ts, NNamed w _ opt => match find_trait ts w with
                                  | Some t => ([trait_item t], [])
                                  | None => ([], unless opt (Err o w)) end
  | OTraits ts, NFilt _ f => (map trait_item (filter (filter_ok f) ts), [])
  | OList items, NList _ _ => ([([], items)], [])
  | ODict vals, NDict _ _ => ([([], vals)], [])
  | OSet items, NSet _ _ => ([([], items)], [])
  | _, NNamed w _ opt => ([], unless opt (Err o w))        (* object_has_named_trait: not a CHasTraits *)
  | _, NFilt _ _ => ([], [Err o []])                        (* object.traits(): AttributeError *)
  | _, (NDict _ opt | NList _ opt | NSet _ opt) => ([], unless opt (Err o []))
  end.

Definition nth_obj (h : heap) (o : nat) : object := nth o h (OTraits []).

Fixpoint hook_graph (h : heap) (o : nat) (g : graph) : list hit :=
  match g with
  | G n cs =>
      let '(obs, errs) := observables n o (nth_obj h o) in
      errs ++ (if node_notify n then map (fun x => Hit o (fst x)) obs else [])
      ++ flat_map (fun c => flat_map (fun x => flat_map (fun o' => hook_graph h o' c) (snd x)) obs) cs
  end.

(* the same walk along one path of observers *)
Fixpoint hook_path (h : heap) (o : nat) (p : list node) : list hit :=
  match p with
  | [] => []
  | n :: r =>
      let '(obs, errs) := observables n o (nth_obj h o) in
      errs ++ (if node_notify n then map (fun x => Hit o (fst x)) obs else [])
      ++ flat_map (fun x => flat_map (fun o' => hook_path h o' r) (snd x)) obs
  end.
