(* C15 — a refusal of compile_str always has its repeated pattern among the alternatives after a connector
   (excludes clause 19 on the model).  The argument: the graphs create_graphs e br returns are those of
   create_graphs e [] with br attached at every leaf; attaching preserves and reflects ObserverGraph.__eq__ (depth
   argument), so equal graphs among them are equal graphs of create_graphs e [], whose paths are paths e. *)
From Coq Require Import ZArith List Bool Arith Lia.
From TV Require Import Common.Harness C15.Model C15.Law C15.Proofs.
Import ListNotations.
Open Scope nat_scope.

Definition attach (br : list graph) : graph -> graph :=
  fix att (g : graph) : graph :=
    match g with G n cs => match cs with [] => G n br | _ => G n (map att cs) end end.

Definition lmax (l : list nat) : nat := fold_right Nat.max 0 l.
Fixpoint gdepth (g : graph) : nat := match g with G _ cs => S (lmax (map gdepth cs)) end.

Lemma lmax_le l m : (forall x, In x l -> x <= m) -> lmax l <= m.
Proof.
  unfold lmax. induction l as [|x l IH]; intros H; cbn [fold_right]; [apply Nat.le_0_l|].
  apply Nat.max_lub; [apply H; now left|apply IH; intros; apply H; now right].
Qed.
Lemma lmax_ge l x : In x l -> x <= lmax l.
Proof.
  unfold lmax. induction l as [|y l IH]; intros Hin; [destruct Hin|]. cbn [fold_right]. destruct Hin as [->|Hin].
  - apply Nat.le_max_l.
  - specialize (IH Hin). etransitivity; [exact IH|apply Nat.le_max_r].
Qed.

Lemma depth_eq a : forall b, graph_eqb a b = true -> gdepth a = gdepth b.
Proof.
  induction a as [n1 c1 IH] using graph_ind'. intros [n2 c2] H. rewrite Forall_forall in IH.
  cbn [graph_eqb] in H. apply andb_prop in H. destruct H as [H H2]. apply andb_prop in H. destruct H as [_ H1].
  rewrite forallb_forall in H1, H2. cbn [gdepth]. f_equal. apply Nat.le_antisymm.
  - apply lmax_le. intros d Hd. apply in_map_iff in Hd. destruct Hd as (x & <- & Hx).
    specialize (H1 x Hx). apply existsb_exists in H1. destruct H1 as (y & Hy & Hxy).
    rewrite (IH x Hx y Hxy). apply lmax_ge. now apply in_map.
  - apply lmax_le. intros d Hd. apply in_map_iff in Hd. destruct Hd as (y & <- & Hy).
    specialize (H2 y Hy). apply existsb_exists in H2. destruct H2 as (x & Hx & Hxy).
    rewrite <- (IH x Hx y Hxy). apply lmax_ge. now apply in_map.
Qed.

Lemma gdepth_pos g : 1 <= gdepth g.
Proof. destruct g; cbn; lia. Qed.

Lemma lmax_map_add (l : list nat) d : l <> [] -> lmax (map (fun x => x + d) l) = lmax l + d.
Proof.
  induction l as [|x l IH]; [contradiction|]. intros _. destruct l as [|y l].
  - cbn. lia.
  - cbn [map lmax fold_right] in *. rewrite IH by discriminate. lia.
Qed.

Lemma depth_attach br g : gdepth (attach br g) = gdepth g + lmax (map gdepth br).
Proof.
  induction g as [n cs IH] using graph_ind'. destruct cs as [|c cs].
  - cbn. reflexivity.
  - change (attach br (G n (c :: cs))) with (G n (map (attach br) (c :: cs))).
    cbn [gdepth]. rewrite map_map. rewrite Forall_forall in IH.
    rewrite (map_ext_in _ (fun x => gdepth x + lmax (map gdepth br))) by (intros x Hx; now apply IH).
    rewrite <- (map_map gdepth (fun d => d + lmax (map gdepth br))). rewrite lmax_map_add; [lia|discriminate].
Qed.

Lemma forallb_map {A B} (f : B -> bool) (g : A -> B) l : forallb f (map g l) = forallb (fun x => f (g x)) l.
Proof. induction l as [|x l IH]; [reflexivity|]. cbn. now rewrite IH. Qed.
Lemma existsb_map {A B} (f : B -> bool) (g : A -> B) l : existsb f (map g l) = existsb (fun x => f (g x)) l.
Proof. induction l as [|x l IH]; [reflexivity|]. cbn. now rewrite IH. Qed.

Lemma attach_cons br n c cs : attach br (G n (c :: cs)) = G n (map (attach br) (c :: cs)).
Proof. reflexivity. Qed.
Lemma attach_leaf br n : attach br (G n []) = G n br.
Proof. reflexivity. Qed.

(* attaching the same branches preserves and reflects ObserverGraph.__eq__ *)
Lemma attach_eqb br a : forall b, graph_eqb (attach br a) (attach br b) = graph_eqb a b.
Proof.
  induction a as [n1 c1 IH] using graph_ind'. intros [n2 c2]. rewrite Forall_forall in IH.
  destruct c1 as [|x1 c1], c2 as [|x2 c2].
  - rewrite !attach_leaf. cbn [graph_eqb forallb]. rewrite !andb_true_r.
    assert (forallb (fun x => existsb (fun y => graph_eqb x y) br) br = true) as E1.
    { apply forallb_forall. intros x Hx. apply existsb_exists. exists x. split; [exact Hx|apply graph_eqb_refl]. }
    assert (forallb (fun y => existsb (fun x => graph_eqb x y) br) br = true) as E2.
    { apply forallb_forall. intros x Hx. apply existsb_exists. exists x. split; [exact Hx|apply graph_eqb_refl]. }
    rewrite E1, E2. now rewrite !andb_true_r.
  - (* leaf against inner node: different depths *)
    assert (graph_eqb (G n1 []) (G n2 (x2 :: c2)) = false) as ->.
    { cbn [graph_eqb forallb existsb]. rewrite andb_false_r. reflexivity. }
    destruct (graph_eqb (attach br (G n1 [])) (attach br (G n2 (x2 :: c2)))) eqn:E; [|reflexivity].
    apply depth_eq in E. rewrite !depth_attach in E. cbn [gdepth map lmax fold_right] in E.
    pose proof (gdepth_pos x2). lia.
  - assert (graph_eqb (G n1 (x1 :: c1)) (G n2 []) = false) as ->.
    { cbn [graph_eqb forallb existsb]. rewrite andb_false_r. reflexivity. }
    destruct (graph_eqb (attach br (G n1 (x1 :: c1))) (attach br (G n2 []))) eqn:E; [|reflexivity].
    apply depth_eq in E. rewrite !depth_attach in E. cbn [gdepth map lmax fold_right] in E.
    pose proof (gdepth_pos x1). lia.
  - rewrite !attach_cons. cbn [graph_eqb]. rewrite !forallb_map. f_equal; [f_equal|].
    + apply forallb_ext_in. intros x Hx. rewrite existsb_map. apply existsb_ext_in. intros y _. now apply IH.
    + apply forallb_ext_in. intros y _. rewrite existsb_map. apply existsb_ext_in. intros x Hx. now apply IH.
Qed.

Lemma distinctb_attach br l : distinctb (map (attach br) l) = distinctb l.
Proof.
  induction l as [|x l IH]; [reflexivity|]. cbn [map distinctb]. rewrite IH, existsb_map. f_equal. f_equal.
  apply existsb_ext_in. intros y _. apply attach_eqb.
Qed.

(* the children an attached node gets *)
Definition attached (br cs : list graph) : list graph := match cs with [] => br | _ => map (attach br) cs end.

Lemma create_nonempty e : forall cs gs, create_graphs e cs = Some gs -> gs <> [].
Proof.
  induction e as [n|a IHa b IHb|a IHa b IHb]; intros cs gs H; cbn [create_graphs] in H.
  - destruct (distinctb cs); [|discriminate]. inversion H. discriminate.
  - destruct (create_graphs b cs) as [bs|] eqn:E; [|discriminate]. exact (IHa _ _ H).
  - destruct (create_graphs a cs) as [l|] eqn:Ea; [|discriminate].
    destruct (create_graphs b cs) as [r|] eqn:Eb; [|discriminate]. inversion H; subst.
    intros E. apply app_eq_nil in E. destruct E as [E _]. exact (IHa _ _ Ea E).
Qed.

Lemma create_attach br : distinctb br = true -> forall e cs,
  create_graphs e (attached br cs) = option_map (map (attach br)) (create_graphs e cs).
Proof.
  intros Hbr. induction e as [n|a IHa b IHb|a IHa b IHb]; intros cs; cbn [create_graphs].
  - assert (distinctb (attached br cs) = distinctb cs) as ->.
    { destruct cs as [|c cs]; [exact Hbr|]. apply distinctb_attach. }
    destruct (distinctb cs); [|reflexivity]. cbn. destruct cs; reflexivity.
  - rewrite IHb. destruct (create_graphs b cs) as [bs|] eqn:E; [|reflexivity]. cbn [option_map].
    pose proof (create_nonempty _ _ _ E) as Hne.
    assert (map (attach br) bs = attached br bs) as -> by (destruct bs; [contradiction|reflexivity]).
    apply IHa.
  - rewrite IHa, IHb. destruct (create_graphs a cs); [|reflexivity]. destruct (create_graphs b cs); [|reflexivity].
    cbn. now rewrite map_app.
Qed.

Lemma create_needs_distinct e : forall br, distinctb br = false -> create_graphs e br = None.
Proof.
  induction e as [n|a IHa b IHb|a IHa b IHb]; intros br H; cbn [create_graphs].
  - now rewrite H.
  - now rewrite (IHb _ H).
  - now rewrite (IHa _ H).
Qed.

(* equal graphs among the results: some path of the expression is denoted twice *)
Lemma create_dup_paths e br bs : create_graphs e br = Some bs -> distinctb bs = false -> has_dup (paths e) = true.
Proof.
  intros Hc Hd.
  assert (distinctb br = true) as Hbr.
  { destruct (distinctb br) eqn:E; [reflexivity|]. rewrite (create_needs_distinct _ _ E) in Hc. discriminate. }
  pose proof (create_attach br Hbr e []) as HA. cbn [attached] in HA. rewrite Hc in HA.
  destruct (create_graphs e []) as [bs0|] eqn:E0; [|discriminate]. cbn in HA. inversion HA; subst.
  rewrite distinctb_attach in Hd. apply distinctb_dup in Hd.
  rewrite (create_graphs_paths _ _ _ E0) in Hd. exact Hd.
Qed.

Lemma create_none_dup_right e : forall br, create_graphs e br = None -> distinctb br = false \/ dup_right_e e = true.
Proof.
  induction e as [n|a IHa b IHb|a IHa b IHb]; intros br H; cbn [create_graphs dup_right_e] in *.
  - destruct (distinctb br); [discriminate|now left].
  - destruct (create_graphs b br) as [bs|] eqn:Eb.
    + destruct (IHa _ H) as [Hd|Hd].
      * right. rewrite (create_dup_paths _ _ _ Eb Hd). reflexivity.
      * right. rewrite Hd. now rewrite orb_true_r.
    + destruct (IHb _ Eb) as [Hd|Hd]; [now left|]. right. rewrite Hd. now rewrite !orb_true_r.
  - destruct (create_graphs a br) as [l|] eqn:Ea.
    + destruct (create_graphs b br) as [r|] eqn:Eb; [discriminate|].
      destruct (IHb _ Eb) as [Hd|Hd]; [now left|]. right. rewrite Hd. now rewrite orb_true_r.
    + destruct (IHa _ Ea) as [Hd|Hd]; [now left|]. right. now rewrite Hd.
Qed.

Lemma dup_right_handle t : forall l, dup_right_e (handle_tree t (notify_of l)) = dup_right_l t l.
Proof.
  induction t as [w| |w| |a IHa c b IHb|a IHa b IHb]; intros l; try reflexivity.
  - cbn [handle_tree dup_right_e dup_right_l].
    replace (conn_notifies c) with (notify_of (LConn c)) by (destruct c; reflexivity).
    now rewrite IHa, IHb, handle_paths.
  - cbn [handle_tree dup_right_e dup_right_l]. now rewrite IHa, IHb.
Qed.

(* F17 exactly: compile_str refuses a parsed text only when the alternatives after some connector repeat a pattern *)
Lemma compile_error_dup_right t : compile_tree t = CompileError -> dup_right t = true.
Proof.
  unfold compile_tree. destruct (create_graphs (handle_tree t true) []) eqn:E; [discriminate|]. intros _.
  destruct (create_none_dup_right _ _ E) as [H|H]; [discriminate|].
  unfold dup_right. now rewrite <- (dup_right_handle t LEnd).
Qed.

Lemma expr_error_dup_right e : create_graphs e [] = None -> dup_right_e e = true.
Proof. intros E. destruct (create_none_dup_right _ _ E) as [H|H]; [discriminate|exact H]. Qed.

(* hence the law on the model raises codes 1 and 3 only *)
Lemma model_law_13 s c : In c (law_single s (compile_str s)) -> c = 1%Z \/ c = 3%Z.
Proof.
  intros H. destruct (model_law _ _ H) as [-> | [-> | ->]]; auto. exfalso.
  unfold law_single in H. destruct (doc_parse s) as [[ts t]|] eqn:Ed.
  - apply doc_parse_iff in Ed. destruct Ed as [Hl HD]. unfold compile_str, parse in H. rewrite Hl in H.
    destruct (parse_toks ts) as [t'|] eqn:Ep.
    + assert (t' = t) as ->.
      { apply parse_toks_gen_sound in Ep. apply lark_subset_doc in Ep. eapply derivation_unique; eauto. }
      destruct (compile_tree t) as [| |gs|] eqn:Ec.
      * destruct (star_in_brackets 0 ts); destruct H as [E|[]]; discriminate.
      * rewrite (compile_error_dup_right _ Ec) in H. destruct (has_dup (doc_paths t)); [destruct (has_series t)|];
          destruct H as [E|[]]; discriminate.
      * destruct (path_set_eqb _ _); [destruct H|destruct H as [E|[]]; discriminate].
      * destruct H as [E|[]]; discriminate.
    + destruct (star_in_brackets 0 ts); destruct H as [E|[]]; discriminate.
  - destruct (compile_str s); cbn in H; try destruct H as [E|[]]; try discriminate; try destruct H.
Qed.

Lemma expr_law_3 e c :
  In c (law_expr e (match create_graphs e [] with Some gs => Graphs gs | None => CompileError end)) -> c = 3%Z.
Proof.
  intros H. destruct (expr_law _ _ H) as [-> | ->]; [reflexivity|]. exfalso.
  unfold law_expr in H. destruct (create_graphs e []) as [gs|] eqn:E.
  - destruct (path_set_eqb _ _); [destruct H|destruct H as [E'|[]]; discriminate].
  - rewrite (expr_error_dup_right _ E) in H. destruct (has_dup (paths e)); destruct H as [E'|[]]; discriminate.
Qed.
