from traits.api import *
class Child(HasTraits):
    value = Int()
class Bad(HasTraits):
    other = Int()
class P(HasTraits):
    children = List(Instance(HasTraits))
calls=[]
def h(ev): calls.append(ev)
c1, c2, b = Child(), Child(), Bad()
p = P(children=[c1, c2, b])
def count(o, name):
    t = o._trait(name, 0)
    n = t._notifiers(False)
    return 0 if n is None else len(n)
print("before", count(c1,'value'), count(p,'children'), len(p.children._notifiers(True)))
try:
    p.observe(h, "children.items.value")
except Exception as e:
    print("raised", type(e).__name__, e)
print("after", count(c1,'value'), count(c2,'value'), count(p,'children'), len(p.children._notifiers(True)))
c1.value = 3
print("calls", calls)
# parallel: second fails
calls.clear()
c = Child()
try:
    c.observe(h, "value, nonexist")
except Exception as e:
    print("raised", type(e).__name__, e)
c.value = 5
print("calls", calls)
