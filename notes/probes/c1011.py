import random, logging
logging.disable(logging.CRITICAL)
from traits.api import *
rnd=random.Random(9)
# ---------- C10
cnt={'m':0,'fac':0}
def fac(): cnt['fac']+=1; return [9]
class B(HasTraits):
    c = Int(5)
    al = Any([1,2])        # list_copy (deprecated path)
    ad = Any({'a':1})
    l = List(Int,[1,2])
    d = Dict(Str,Int,{'a':1})
    s = Set(Int,{1})
    f = Any(factory=fac)
    m = List(Int)
    t = Tuple(List(Int),Int)
    u = Union(List(Int),Int)
    log = Any()
    def _m_default(self): cnt['m']+=1; return [7]
    def _c_changed(self,o,n):
        if self.log is not None: self.log.append(('c',o,n))
    def _l_changed(self,o,n):
        if self.log is not None: self.log.append(('l',o,n))
    def _anytrait_changed(self,name,o,n):
        if name!='log' and self.log is not None: self.log.append(('any',name))
class C(B):
    c = 6
    l = [3]
import warnings; warnings.simplefilter('ignore')
bad=0;n=0
EXP_B={'c':5,'al':[1,2],'ad':{'a':1},'l':[1,2],'d':{'a':1},'s':{1},'f':[9],'m':[7],'t':([],0),'u':[]}
EXP_C=dict(EXP_B,c=6,l=[3])
names=list(EXP_B)
def fresh_ok(cls,exp,label,hist):
    global bad
    o=cls(); o.log=[]
    for nm in names:
        m0=cnt['m'];f0=cnt['fac']
        v=getattr(o,nm)
        if v!=exp[nm]: bad+=1; print("FAIL C10",label,nm,"default",v,"expected",exp[nm],hist); return
        if o.log: bad+=1; print("FAIL C10 default read notified",o.log); return
        v2=getattr(o,nm)
        if v2 is not v: bad+=1; print("FAIL C10 second read different object",nm); return
        if nm=='m' and cnt['m']-m0!=1: bad+=1; print("FAIL C10 _m_default calls",cnt['m']-m0)
        if nm=='f' and cnt['fac']-f0!=1: bad+=1; print("FAIL C10 factory calls",cnt['fac']-f0)
    # trait definitions
    if sorted(o.trait_names())!=sorted(cls().trait_names()): bad+=1; print("FAIL trait names differ")
for trial in range(400):
    insts=[B(),C(),B()]
    for i in insts: i.log=None
    hist=[]
    for step in range(rnd.randint(1,10)):
        o=rnd.choice(insts[:2]); nm=rnd.choice(names); k=rnd.random()
        try:
            if k<0.4:
                v=getattr(o,nm)
                if isinstance(v,list): v.append(4)
                elif isinstance(v,dict): v['z']=3
                elif isinstance(v,set): v.add(8)
                elif isinstance(v,tuple) and isinstance(v[0],list): v[0].append(4)
                hist.append(('mutate',nm))
            elif k<0.6: o.on_trait_change(lambda: None, nm); hist.append(('otc',nm))
            elif k<0.7: o.observe(lambda e: None, nm); hist.append(('observe',nm))
            elif k<0.8: o.add_trait('extra%d'%rnd.randint(0,2), Int(3)); hist.append(('add_trait',))
            elif k<0.9: o.add_trait(nm, Str('zz')); hist.append(('add_trait shadow',nm))
            else: setattr(o,nm,{'c':1,'al':[0],'ad':{},'l':[0],'d':{},'s':set(),'f':1,'m':[0],'t':([1],1),'u':3}[nm]); hist.append(('assign',nm))
        except Exception as e: hist.append(('exc',type(e).__name__))
        n+=1
    # untouched sibling insts[2], and fresh instances, and class
    third=insts[2]; third.log=[]
    for nm in names:
        if getattr(third,nm)!=EXP_B[nm]: bad+=1; print("FAIL C10 sibling",nm,getattr(third,nm),hist); break
    fresh_ok(B,EXP_B,'B',hist); fresh_ok(C,EXP_C,'C',hist)
print("C10 steps",n,"bad",bad)
# ---------- C11
bad=0;n=0
class Par(HasTraits):
    x = Int(1); y = Int(2); p_x = Int(3); pre_z = Int(4)
class Ch(HasTraits):
    __prefix__ = 'pre_'
    parent = Instance(Par)
    x = DelegatesTo('parent')
    yy = DelegatesTo('parent','y')
    px = PrototypedFrom('parent','p_x')
    x2 = PrototypedFrom('parent','x')
    z = PrototypedFrom('parent','*')
    y = PrototypedFrom('parent')
MAP={'x':('x',True),'yy':('y',True),'px':('p_x',False),'x2':('x',False),'z':('pre_z',False),'y':('y',False)}
for trial in range(1500):
    pars=[Par(),Par()]; c=Ch(parent=pars[0])
    local={}  # name -> local value for prototyped
    evs=[]
    for nm in MAP: c.on_trait_change(lambda obj,name,old,new: evs.append((name,new)), nm)
    hist=[]
    for step in range(rnd.randint(1,10)):
        k=rnd.random(); nm=rnd.choice(list(MAP)); tgt,modify=MAP[nm]; del evs[:]
        cur=c.parent
        if k<0.3:
            v=rnd.randint(10,99); setattr(c,nm,v); hist.append(('set',nm,v))
            if modify:
                if getattr(cur,tgt)!=v: bad+=1; print("FAIL C11 DelegatesTo write not on delegate",hist); break
                if nm in c.__dict__: bad+=1; print("FAIL C11 DelegatesTo stored locally",hist); break
            else: local[nm]=v
        elif k<0.4:
            try: setattr(c,nm,'bad'); bad+=1; print("FAIL C11 invalid accepted",nm,hist); break
            except TraitError: hist.append(('bad',nm))
        elif k<0.6:
            p=rnd.choice(pars); t2=rnd.choice(['x','y','p_x','pre_z']); v=rnd.randint(100,999); 
            setattr(p,t2,v); hist.append(('parset',pars.index(p),t2,v))
            # expected forwards: names linked to (cur, t2)
            if p is cur:
                want=sorted(n_ for n_,(t_,m_) in MAP.items() if t_==t2 and (m_ or n_ not in local))
            else: want=[]
            got=sorted(n_ for n_,_ in evs)
            if got!=want: bad+=1; print("FAIL C11 forward events want",want,"got",got,hist); break
        elif k<0.7:
            c.parent=pars[1] if c.parent is pars[0] else pars[0]; hist.append(('swap',))
        elif k<0.85 and not modify and nm in local:
            delattr(c,nm); del local[nm]; hist.append(('del',nm))
        n+=1
        cur=c.parent
        for n_,(t_,m_) in MAP.items():
            want = local[n_] if (not m_ and n_ in local) else getattr(cur,t_)
            if getattr(c,n_)!=want: bad+=1; print("FAIL C11 read",n_,getattr(c,n_),"want",want,hist); break
        else: continue
        break
print("C11 steps",n,"bad",bad)
