import random, itertools, logging
logging.disable(logging.CRITICAL)
from traits.api import *
rnd=random.Random(5)
KINDS={'int':lambda:Int(7),'ro':lambda:ReadOnly(),'const':lambda:Constant(3),'event':lambda:Event(),'dis':lambda:Disallow(),'py':lambda:Python(),'any':lambda:Any(5)}
names=[''.join(p) for L in range(1,4) for p in itertools.product('ab_',repeat=L)]
names=[n for n in names if not (n.startswith('__') and n.endswith('__'))]
def policy_outcomes(kind):
    # expected (get, set_valid_int, set 'str') outcome classes for fresh object
    return kind
bad=0;n=0
def classify(f):
    try: return ('ok', f())
    except AttributeError: return ('AttributeError',None)
    except TraitError: return ('TraitError',None)
    except Exception as e: return (type(e).__name__,None)
def expected_kind(n, inst, layers, default):
    # layers: list of dicts (own first then bases mro order) each {'explicit':{name:kind}, 'prefix':{prefix:kind}}
    if n in inst: return inst[n]
    for lay in layers:
        if n in lay['explicit']: return lay['explicit'][n]
    # wildcard: longest matching prefix among all layers (nearest layer wins for equal prefix)
    best=None
    for lay in layers:
        for p,k in lay['prefix'].items():
            if n.startswith(p) and (best is None or len(p)>len(best[0])):
                best=(p,k)
    if best: return best[1]
    return default
for trial in range(1500):
    base=rnd.choice([HasTraits,HasStrictTraits,HasPrivateTraits])
    default={'HasTraits':'py','HasStrictTraits':'dis','HasPrivateTraits':'private'}[base.__name__]
    depth=rnd.randint(1,3); layers=[]; cls=base
    for d in range(depth):
        ns={}; lay={'explicit':{},'prefix':{}}
        for _ in range(rnd.randint(0,3)):
            nm=rnd.choice(names)
            if nm.endswith('_'): 
                k=rnd.choice(['int','dis','any','event','ro']); lay['prefix'][nm[:-1]]=k
            else:
                k=rnd.choice(list(KINDS)); lay['explicit'][nm]=k
            ns[nm]=KINDS[k]()
        try: cls=type("C%d"%d,(cls,),ns)
        except Exception as e: break
        layers.insert(0,lay)
    layers.append({'explicit':{}, 'prefix': {'HasTraits':{'':'py'},'HasStrictTraits':{'':'dis'},'HasPrivateTraits':{'_':'any_none','':'dis'}}[base.__name__]})
    obj=cls()
    inst={}
    for nm in rnd.sample(names,12):
        if nm.endswith('_') : continue
        if rnd.random()<0.15:
            k=rnd.choice(['int','ro','event','any']); 
            try: obj.add_trait(nm, KINDS[k]()); inst[nm]=k
            except Exception: pass
        if rnd.random()<0.1 and nm in inst:
            obj.remove_trait(nm); del inst[nm]
        k=expected_kind(nm,inst,layers,default)
        g=classify(lambda: getattr(obj,nm))
        n+=1; why=None
        exp_get={'int':('ok',7),'ro':('ok',Undefined),'const':('ok',3),'event':('AttributeError',None),'dis':('AttributeError',None),'py':('AttributeError',None),'any':('ok',5),'any_none':('ok',None)}[k]
        if g[0]!=exp_get[0] or (g[0]=='ok' and g[1]!=exp_get[1] and not (g[1] is exp_get[1])): why="get %r expected %r"%(g,exp_get)
        s=classify(lambda: setattr(obj,nm,'str'))
        exp_set={'int':'TraitError','ro':'ok','const':'TraitError','event':'ok','dis':'TraitError','py':'ok','any':'ok','any_none':'ok'}[k]
        if s[0]!=exp_set: why=(why or "")+" set %r expected %r"%(s,exp_set)
        if k=='ro':
            s2=classify(lambda: setattr(obj,nm,'again'))
            if s2[0]!='TraitError' or getattr(obj,nm)!='str': why=(why or "")+" readonly second set %r"%(s2,)
        if k=='const' and getattr(obj,nm)!=3: why="const changed"
        if why:
            bad+=1
            if bad<25: print("FAIL",base.__name__,nm,"kind",k,why,"layers",layers,"inst",inst)
        # cleanup for py/any sets so later probes of other names unaffected (different names anyway)
print("probes",n,"bad",bad)
