import random, logging, pickle, copy
logging.disable(logging.CRITICAL)
from traits.api import *
rnd=random.Random(8)
class Item(HasTraits):
    v = Int()
    sub = Instance(HasTraits)
class P(HasTraits):
    a = Int()
    inst = Instance(Item)
    items = List(Instance(Item))
    d = Dict(Str, Instance(Item))
    s = Set(Instance(Item))
    ncalls = Int(0, transient=True)
    total = Property(Int, observe=['a','inst.v','inst.sub.v','items.items.v','d.items.v','s.items.v'])
    @cached_property
    def _get_total(self):
        self.ncalls += 1
        return self.compute()
    def compute(self):
        t=self.a
        if self.inst is not None:
            t+=self.inst.v
            if self.inst.sub is not None: t+=10*self.inst.sub.v
        t+=sum(100*i.v for i in self.items)+sum(1000*i.v for i in self.d.values())+sum(10000*i.v for i in self.s)
        return t
    unc = Property(Int, observe='items.items.v')
    def _get_unc(self): return sum(i.v for i in self.items)
bad=0;n=0
def trial(kind):
    global bad,n
    pool=[Item(v=i+1) for i in range(4)]
    for it in pool: it.sub=None
    p=P(a=1, inst=pool[0], items=[pool[1],pool[1]], d={'k':pool[2]}, s={pool[3]})
    if kind=='pickle':
        p=pickle.loads(pickle.dumps(p)); pool=[p.inst]+list(p.items)+list(p.d.values())+list(p.s)
    elif kind=='deepcopy':
        p=copy.deepcopy(p); pool=[p.inst]+list(p.items)+list(p.d.values())+list(p.s)
    elif kind=='clone':
        p=p.clone_traits(copy='deep'); pool=[p.inst]+list(p.items)+list(p.d.values())+list(p.s)
    evs=[]
    p.observe(lambda e: evs.append((e.old,e.new)),'total')
    hist=[]
    for step in range(rnd.randint(1,12)):
        k=rnd.random(); it=rnd.choice(pool)
        before=p.compute(); del evs[:]
        if k<0.25: it.v=rnd.randint(0,9); hist.append(('v',pool.index(it),it.v))
        elif k<0.35: p.inst=rnd.choice(pool+[None]); hist.append(('inst',))
        elif k<0.5:
            op=rnd.choice(['append','pop','setitem','remove','clear','ext'])
            try:
                if op=='append': p.items.append(it)
                elif op=='pop': p.items.pop()
                elif op=='setitem': p.items[0]=it
                elif op=='remove': p.items.remove(it)
                elif op=='clear': p.items.clear()
                elif op=='ext': p.items[::2]=[it]*len(p.items[::2])
            except (IndexError,ValueError): pass
            hist.append(('items',op,pool.index(it)))
        elif k<0.6:
            if rnd.random()<0.5: p.d[rnd.choice('kj')]=it
            else: p.d.pop('k',None)
            hist.append(('d',))
        elif k<0.7:
            (p.s.discard if it in p.s else p.s.add)(it); hist.append(('s',))
        elif k<0.8:
            tgt=rnd.choice([x for x in pool if x is not it]+[None]); it.sub=tgt; hist.append(('sub',pool.index(it)))
        elif k<0.9: p.a=rnd.randint(0,5); hist.append(('a',))
        else: hist.append(('read',))
        after=p.compute()
        n+=1
        if after!=before and not evs:
            bad+=1; 
            if bad<15: print("FAIL",kind,"value changed, no event",hist)
            return
        c0=p.ncalls
        r1=p.total; r2=p.total; r3=p.total
        if r1!=after or r2!=after:
            bad+=1
            if bad<15: print("FAIL",kind,"STALE read",r1,"vs",after,hist)
            return
        if p.ncalls-c0>1:
            bad+=1; print("FAIL",kind,"getter ran",p.ncalls-c0,"times",hist); return
        if p.unc!=sum(i.v for i in p.items): bad+=1; print("FAIL uncached stale"); return
for kind in ('orig','pickle','deepcopy','clone'):
    for t in range(1500): trial(kind)
print("steps",n,"bad",bad)
