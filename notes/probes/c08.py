import random, logging, sys
logging.disable(logging.CRITICAL)
from traits.api import *
from traits.observation.api import compile_str
from traits.observation._named_trait_observer import NamedTraitObserver
from traits.observation._list_item_observer import ListItemObserver
from traits.observation._dict_item_observer import DictItemObserver
from traits.observation._set_item_observer import SetItemObserver
from traits.observation._filtered_trait_observer import FilteredTraitObserver
from traits.trait_list_object import TraitList
from traits.trait_dict_object import TraitDict
from traits.trait_set_object import TraitSet
seed=int(sys.argv[1]) if len(sys.argv)>1 else 7
allow_cycles = (sys.argv[2]=='cyc') if len(sys.argv)>2 else True
rnd=random.Random(seed)
class N(HasTraits):
    value = Int()
    f = Instance(HasTraits)
    g = Instance(HasTraits)
    kids = List(Instance(HasTraits))
    m = Dict(Str, Instance(HasTraits))
    s = Set(Instance(HasTraits))
    def __repr__(self): return "N%d"%self.idx
def matched(graph, obj, acc):
    node=graph.node
    if isinstance(node, NamedTraitObserver):
        if isinstance(obj, HasTraits) and obj._trait(node.name,0) is not None:
            if node.notify: acc.add((id(obj),node.name))
            v=obj.__dict__.get(node.name)
            if v is not None:
                for ch in graph.children: matched(ch,v,acc)
    elif isinstance(node,(ListItemObserver,DictItemObserver,SetItemObserver)):
        ty={ListItemObserver:TraitList,DictItemObserver:TraitDict,SetItemObserver:TraitSet}[type(node)]
        if isinstance(obj,ty):
            if node.notify: acc.add((id(obj),'<items>'))
            its = obj.values() if ty is TraitDict else obj
            for it in list(its):
                for ch in graph.children: matched(ch,it,acc)
    elif isinstance(node,FilteredTraitObserver):
        for name,ct in obj.traits().items():
            if node.filter(name,ct):
                if node.notify: acc.add((id(obj),name))
                v=obj.__dict__.get(name)
                if v is not None:
                    for ch in graph.children: matched(ch,v,acc)
    else: raise RuntimeError(node)
EXPRS=["value","f.value","f:value","f.f.value","f.g.value","kids.items.value","kids:items:value","kids.items","f.kids.items.value",
       "m.items.value","s.items.value","[f,g].value","kids.items.f.value","f.f.f.value","[f.value,g:value]","kids.items.kids.items.value","f.*"]
bad=0;nprobe=0
counter=[1000]
def run_trial(trial):
    global bad,nprobe
    pool=[N() for _ in range(4)]
    for i,o in enumerate(pool): o.idx=i
    # initial random links (explicit values so nothing is a lazy default)
    def rnode(owner=None):
        return rnd.choice(pool+[None])
    for o in pool:
        o.f=None;o.g=None;o.kids=[];o.m={};o.s=set();o.value=0
    hist=[]
    expr=rnd.choice(EXPRS); root=pool[0]
    events=[]
    handler=lambda ev: events.append(ev)
    graphs=compile_str(expr)
    def expected():
        acc=set()
        for g in graphs: matched(g,root,acc)
        return acc
    def reach_ok(owner,target):
        return True
    # pre-registration mutations
    def succ(x):
        out=[]
        for nm in ('f','g'):
            v=x.__dict__.get(nm)
            if v is not None: out.append(v)
        out+=list(x.kids)+list(x.m.values())+list(x.s)
        return out
    def reaches(a,b):
        seen=set();st=[a]
        while st:
            x=st.pop()
            if x is b: return True
            if id(x) in seen: continue
            seen.add(id(x)); st+=succ(x)
        return False
    def mutate(record=True):
        if allow_cycles: return mutate0()
        for _ in range(20):
            mm=mutate0()
            if mm is None: return None
            tg=mm[4]
            if all(t is None or not reaches(t,mm[5]) for t in tg): return mm[:4]
        return None
    def mutate0(record=True):
        o=rnd.choice(pool); k=rnd.random()
        if k<0.3:
            nm=rnd.choice(['f','g']); v=rnode()
            desc=(repr(o),nm,'=',repr(v)); act=lambda: setattr(o,nm,v); key=(id(o),nm); changes = v is not getattr(o,nm)
        elif k<0.6:
            op=rnd.choice(['append','pop','assign','insert','clear','setitem','remove_dup'])
            v=rnd.choice(pool)
            if op=='append': act=lambda: o.kids.append(v); changes=True
            elif op=='insert': act=lambda: o.kids.insert(0,v); changes=True
            elif op=='pop':
                if not o.kids: return None
                act=lambda: o.kids.pop(); changes=True
            elif op=='clear':
                if not o.kids: return None
                act=lambda: o.kids.clear(); changes=True
            elif op=='setitem':
                if not o.kids: return None
                act=lambda: o.kids.__setitem__(0,v); changes=True
            elif op=='remove_dup':
                if not o.kids: return None
                x=o.kids[0]; act=lambda: o.kids.remove(x); changes=True
            else:
                nv=[rnd.choice(pool) for _ in range(rnd.randint(0,3))]
                act=lambda: setattr(o,'kids',nv); changes=(list(o.kids)!=nv)
                desc=(repr(o),'kids','=',repr(nv)); key=(id(o),'kids')
                return desc,act,key,changes,nv,o
            desc=(repr(o),'kids',op,repr(v)); key=(id(o.kids),'<items>')
        elif k<0.8:
            kk=rnd.choice(['a','b']); v=rnd.choice(pool)
            if rnd.random()<0.7: act=lambda: o.m.__setitem__(kk,v); changes=True
            else:
                if kk not in o.m: return None
                act=lambda: o.m.pop(kk); changes=True
            desc=(repr(o),'m',kk,repr(v)); key=(id(o.m),'<items>')
        else:
            v=rnd.choice(pool)
            if v in o.s: act=lambda: o.s.discard(v)
            else: act=lambda: o.s.add(v)
            changes=True
            desc=(repr(o),'s toggle',repr(v)); key=(id(o.s),'<items>')
        return desc,act,key,changes,[v],o
    for _ in range(rnd.randint(0,4)):
        mm=mutate()
        if mm: mm=mm[:4]; mm[1](); hist.append(mm[0])
    try:
        root.observe(handler, expr)
    except Exception as e:
        return
    hist.append(('observe',expr))
    for step in range(rnd.randint(1,8)):
        mm=mutate()
        if mm is None: continue
        desc,act,key,changes=mm[:4]
        exp=expected()
        del events[:]
        try: act()
        except Exception as e:
            bad+=1; print("FAIL trial",trial,"mutation raised",type(e).__name__,e,hist,desc); return
        hist.append(desc)
        nprobe+=1
        want = 1 if (key in exp and changes) else 0
        if len(events)!=want:
            bad+=1
            if bad<40: print("FAIL trial",trial,"expr",expr,"mutation",desc,"expected",want,"calls got",len(events),"hist",hist)
            return
        # probe all values
        exp=expected()
        for o in pool:
            del events[:]
            counter[0]+=1
            o.value=counter[0]
            nprobe+=1
            want=1 if (id(o),'value') in exp else 0
            if len(events)!=want or (want and (events[0].object is not o or events[0].name!='value')):
                bad+=1
                if bad<40: print("FAIL trial",trial,"expr",expr,"probe",repr(o),"expected",want,"got",len(events),"hist",hist)
                return
for t in range(int(sys.argv[3]) if len(sys.argv)>3 else 3000): run_trial(t)
print("probes",nprobe,"bad",bad)
