from traits.api import *
class Par(HasTraits):
    p_x = Int(3); pre_z = Int(4); x = Int(1)
class Ch(HasTraits):
    __prefix__ = 'pre_'
    parent = Instance(Par)
    x = PrototypedFrom('parent','p_*')     # -> p_x
    z = PrototypedFrom('parent','*')       # -> pre_z
    w = DelegatesTo('parent','p_*')        # -> p_w (nonexistent), skip
c=Ch(parent=Par())
ev=[]
c.on_trait_change(lambda o,n,old,new: ev.append((n,new)),'x,z')
print("reads", c.x, c.z, Ch.__listener_traits__)
c.parent.p_x=30; c.parent.pre_z=40; c.parent.x=10
print("events", ev, "reads", c.x, c.z)
