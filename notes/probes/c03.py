import logging, warnings, types, math, itertools
logging.disable(logging.CRITICAL); warnings.simplefilter('ignore')
import numpy as np
from collections import namedtuple
from traits.api import *
class IntSub(int): pass
class FloatSub(float): pass
class StrSub(str): pass
class TupSub(tuple): pass
class Idx:
    def __init__(s,r): s.r=r
    def __index__(s):
        if isinstance(s.r,Exception): raise s.r
        return s.r
class Flt:
    def __init__(s,r): s.r=r
    def __float__(s):
        if isinstance(s.r,Exception): raise s.r
        return s.r
class Cpx:
    def __complex__(s): return 1+2j
class Foo(HasTraits): pass
class Bar(Foo): pass
NT=namedtuple('NT','a b')
VALUES=[None,True,False,0,1,-1,5,2**70,IntSub(3),0.0,-0.0,0.5,1.0,1.5,float('nan'),float('inf'),-float('inf'),FloatSub(0.5),1e400,
 1+0j,'', 'a','abc','1','12',StrSub('a'),b'',b'a',(),(1,),(1,2),(1,'a'),('a',1),TupSub((1,2)),NT(1,2),[1,2],[],{},{1},np.int32(3),np.int64(1),np.uint8(1),np.float32(0.5),np.float64(0.5),np.float64('nan'),np.bool_(True),np.array([1,2]),np.array(1),
 Idx(1),Idx(2**70),Idx(TypeError('t')),Idx(ValueError('v')),Flt(0.5),Flt(TypeError('t')),Flt(ValueError('v')),Flt(float('nan')),Cpx(),Foo(),Bar(),Foo,Bar,int,len,lambda: 1,math,types,object()]
def cfgs():
    yield 'Int',Int(); yield 'Float',Float(); yield 'Complex',Complex(); yield 'Str',Str(); yield 'Bytes',Bytes(); yield 'Bool',Bool()
    yield 'CInt',CInt(); yield 'CFloat',CFloat(); yield 'CComplex',CComplex(); yield 'CStr',CStr(); yield 'CBytes',CBytes(); yield 'CBool',CBool()
    for lo,hi in [(0.0,1.0),(None,1.0),(0.0,None),(-1.0,1.0)]:
        for el in (False,True):
            for eh in (False,True):
                yield 'Range(%r,%r,%r,%r)'%(lo,hi,el,eh),Range(lo,hi,exclude_low=el,exclude_high=eh)
    yield 'RangeI(0,5)',Range(0,5); yield 'RangeI(0,5,xl)',Range(0,5,exclude_low=True)
    yield 'Enum(1,2,a)',Enum(1,2,'a'); yield 'Enum([0.5,None])',Enum([0.5,None]); yield 'Enum(nan)',Enum(float('nan'),1)
    yield 'Map',Map({'a':1,1:2}); yield 'Tuple(Int,Int)',Tuple(Int,Int); yield 'Tuple(Int,Str)',Tuple(Int,Str); yield 'Tuple(Float,Range)',Tuple(Float,Range(0.0,1.0))
    yield 'Tuple(Tuple(Int,Int),)',Tuple(Tuple(Int,Int))
    for an in (True,False):
        yield 'Instance(Foo,an=%r)'%an,Instance(Foo,allow_none=an); yield 'Type(Foo,an=%r)'%an,Type(Foo,allow_none=an)
        yield 'Callable(an=%r)'%an,Callable(allow_none=an); yield 'This(an=%r)'%an,This(allow_none=an)
        yield 'Instance(Foo,adapt=yes,an=%r)'%an,Instance(Foo,adapt='yes',allow_none=an)
    yield 'Module',Module()
    yield 'Either(Int,Str)',Either(Int,Str); yield 'Either(Range,Str)',Either(Range(0.0,1.0),Str); yield 'Either(Float,Int)',Either(Float,Int); yield 'Either(Int,Float)',Either(Int,Float)
    yield 'Either(None,Int)',Either(None,Int); yield 'Either(Tuple(Int,Int),Enum)',Either(Tuple(Int,Int),Enum('a','b')); yield 'Either(CInt,Str)',Either(CInt,Str); yield 'Either(Str,CInt)',Either(Str,CInt)
    yield 'Either(Instance(Foo),Callable)',Either(Instance(Foo),Callable); yield 'Trait(1,2,a)',Trait(1,2,'a'); yield 'Trait(None,Foo)',Trait(None,Foo); yield 'Either(Bool,Int)',Either(Bool,Int); yield 'Either(Int,Bool)',Either(Int,Bool)
    yield 'Either(Map,Int)',Either(Map({'a':1}),Int); yield 'Either(Complex,Str)',Either(Complex,Str)
def run(f):
    try: return ('ok',f())
    except TraitError: return ('TraitError',None)
    except Exception as e: return (type(e).__name__,None)
def same(a,b):
    if a[0]!=b[0]: return (a[0]!='ok' and b[0]!='ok' and a[0]!='TraitError' and True) and False
    if a[0]!='ok': return True
    x,y=a[1],b[1]
    if type(x) is not type(y): return False
    try:
        if isinstance(x,float) and x!=x: return y!=y
        if isinstance(x,np.ndarray): return True
        return bool(x==y) or x is y
    except Exception: return x is y
diffs={}
total=0
for label,tt in cfgs():
    class A(HasTraits): x=tt
    a=A(); ct=a.trait('x'); h=ct.handler
    if ct.handler is None or getattr(h,'fast_validate',None) is None: 
        print("no fast validate:",label); continue
    for v in VALUES:
        total+=1
        c=run(lambda: ct.validate(a,'x',v)); p=run(lambda: h.validate(a,'x',v))
        # property: accept sets equal; equal value same exact type; py TraitError -> c TraitError
        ok = (c[0]=='ok')==(p[0]=='ok') and (p[0]!='TraitError' or c[0]=='TraitError') and (c[0]!='ok' or same(c,p))
        if not ok: diffs.setdefault(label,[]).append((repr(v)[:30],c[0] if c[0]!='ok' else ('ok',type(c[1]).__name__,repr(c[1])[:20]),p[0] if p[0]!='ok' else ('ok',type(p[1]).__name__,repr(p[1])[:20])))
for k,v in diffs.items(): print(k, v[:8], "... (%d)"%len(v))
print("pairs",total,"configs with drift",len(diffs))
