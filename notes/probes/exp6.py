import logging, gc
logging.disable(logging.CRITICAL)
from traits.api import *
class A(HasTraits):
    l = List(Int)
a, b = A(l=[1,2,3,4,5,6]), A()
a.sync_trait('l', b)
print(a.l, b.l)
a.l[::2] = [10, 30, 50]
print("ext slice set:", a.l, b.l, a.l == b.l)
a.l = [1,2,3,4,5,6]
del a.l[::2]
print("ext slice del:", a.l, b.l, a.l == b.l)
a.l = [3,1,2]; a.l.sort(); print("sort", a.l, b.l)
b.l.append(9); print("b append", a.l, b.l)
# gc partner
push_exception_handler(reraise_exceptions=True)
del b; gc.collect()
try:
    a.l.append(7); print("after gc append ok", a.l)
    a.l = [1]; print("after gc assign ok")
except Exception as e: print("RAISED", type(e), e)
