import itertools, sys
from traits.observation.api import parse, compile_str
from traits.observation import expression as E
# reference: lexer to words/symbols; recursive descent per the grammar
def lex(s):
    toks=[];i=0
    while i<len(s):
        ch=s[i]
        if ch in ' \t\f\r\n': i+=1; continue
        if ch in '+*.:,[]': toks.append(ch); i+=1; continue
        if ch.isascii() and (ch.isalpha() or ch=='_'):
            j=i+1
            while j<len(s) and (s[j].isalnum() or s[j]=='_') : j+=1   # \w (unicode)
            toks.append(('W',s[i:j])); i=j; continue
        return None
    return toks
class P:
    def __init__(s,t): s.t=t; s.i=0
    def peek(s): return s.t[s.i] if s.i<len(s.t) else None
    def eat(s): x=s.t[s.i]; s.i+=1; return x
    def element(s, allow_any):
        x=s.peek()
        if x is None: raise ValueError
        if isinstance(x,tuple):
            s.eat(); return ('items',) if x[1]=='items' else ('trait',x[1])
        if x=='+':
            s.eat(); y=s.peek()
            if not isinstance(y,tuple): raise ValueError
            s.eat(); return ('meta',y[1])
        if x=='[':
            s.eat(); r=s.parallel(False)
            if s.peek()!=']': raise ValueError
            s.eat(); return r
        if x=='*' and allow_any:
            s.eat(); return ('any',)
        raise ValueError
    def series(s, terminal):
        left=s.element(terminal)
        while s.peek() in ('.',':'):
            if left==('any',) or s.has_any_tail(left): raise ValueError
            c=s.eat(); right=s.element(terminal)
            left=('series',left,c,right)
        return left
    def has_any_tail(s,t):
        # '*' may only be the last element of a terminal series
        return t[0]=='series' and t[3]==('any',)
    def parallel(s, terminal):
        left=s.series(terminal)
        while s.peek()==',':
            s.eat(); right=s.series(terminal); left=('par',left,right)
        return left
def ref_parse(text):
    t=lex(text)
    if t is None: raise ValueError
    p=P(t); r=p.parallel(True)
    if p.i!=len(t): raise ValueError
    return r
def ref_expr(t,notify=True):
    k=t[0]
    if k=='trait': return E.trait(t[1],notify=notify)
    if k=='items': return (E.trait("items",notify=notify,optional=True)|E.dict_items(notify=notify,optional=True)|E.list_items(notify=notify,optional=True)|E.set_items(notify=notify,optional=True))
    if k=='meta': return E.metadata(t[1],notify=notify)
    if k=='any': return E.anytrait(notify=notify)
    if k=='series': return ref_expr(t[1],t[2]=='.').then(ref_expr(t[3],notify))
    if k=='par': return ref_expr(t[1],notify)|ref_expr(t[2],notify)
alphabet=['a','b','items','+','*','.',':',',','[',']',' ','é','1']
maxlen=int(sys.argv[1]) if len(sys.argv)>1 else 5
n=acc=bad=0
for L in range(0,maxlen+1):
    for combo in itertools.product(alphabet,repeat=L):
        s=''.join(combo); n+=1
        try: r=ref_parse(s); ok1=True
        except ValueError: ok1=False
        try: e=parse(s); ok2=True
        except ValueError: ok2=False
        if ok1!=ok2:
            bad+=1
            if bad<20: print("ACCEPT MISMATCH",repr(s),"ref",ok1,"impl",ok2)
        elif ok1:
            acc+=1
            g1=E.compile_expr(ref_expr(r)); g2=compile_str(s)
            if set(g1)!=set(g2) or len(g1)!=len(g2):
                bad+=1
                if bad<20: print("MEANING MISMATCH",repr(s))
print("strings",n,"accepted",acc,"bad",bad)
