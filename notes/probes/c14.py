import random, pickle, copy, logging
logging.disable(logging.CRITICAL)
from traits.api import *
rnd=random.Random(6)
class Inner(HasTraits):
    v = Int()
    tags = List(Str)
class A(HasTraits):
    i = Int()
    l = List(Int, maxlen=5)
    n = List(List(Int))
    d = Dict(Str, List(Int))
    s = Set(Int)
    inner = Instance(Inner)
    kids = List(Instance(Inner))
    t = Int(transient=True)
    ro = ReadOnly()
    ref = List(Int, copy='ref')
    total = Property(Int, observe='l.items')
    calls = Any(transient=True)
    @cached_property
    def _get_total(self): return sum(self.l)
    @observe('kids.items.v')
    def _kid(self, ev):
        if self.calls is not None: self.calls.append(('kid', ev.new))
def mk():
    a=A(i=rnd.randint(0,9), l=[rnd.randint(0,9) for _ in range(rnd.randint(0,4))], n=[[1],[2,3]], d={'a':[1],'b':[]}, s={1,2},
        inner=Inner(v=3,tags=['x']), kids=[Inner(v=1),Inner(v=2)], t=42, ref=[7])
    a.ro='written'
    return a
bad=0;n=0
def fail(msg, mode):
    global bad
    bad+=1
    if bad<30: print("FAIL",mode,msg)
modes={}
for p in range(0,6): modes['pickle%d'%p]=(lambda a,p=p: pickle.loads(pickle.dumps(a,protocol=p)))
modes['deepcopy']=copy.deepcopy
modes['clone']=lambda a: a.clone_traits()
modes['clone_deep']=lambda a: a.clone_traits(copy='deep')
modes['copy']=copy.copy
for mode,f in modes.items():
  for trial in range(40):
    a=mk(); n+=1
    try: b=f(a)
    except Exception as e: fail("copy raised %r"%e,mode); continue
    if type(b) is not A: fail("class",mode)
    for nm in ['i','l','n','d','s','ro']:
        if getattr(a,nm)!=getattr(b,nm): fail("value %s %r vs %r"%(nm,getattr(a,nm),getattr(b,nm)),mode)
    if b.inner is None or b.inner.v!=3 or b.inner.tags!=['x']: fail("inner",mode)
    if [k.v for k in b.kids]!=[1,2]: fail("kids",mode)
    if b.t!=0: fail("transient not default: %r"%b.t,mode)
    # sharing
    if mode!='copy':
        for nm in ['l','n','d','s','kids']:
            if getattr(a,nm) is getattr(b,nm): fail("shared container "+nm,mode)
        if a.n[0] is b.n[0] or a.d['a'] is b.d['a']: fail("shared nested container",mode)
        if mode not in('clone',) and (a.inner is b.inner or a.kids[0] is b.kids[0]): fail("shared instance",mode)
    # liveness: validation
    for desc,op in [('l.append str',lambda: b.l.append('x')),('l too long',lambda: b.l.extend([1]*6)),('n[0].append str',lambda: b.n[0].append('x')),
                    ('d[a].append str',lambda: b.d['a'].append('x')),('d set bad',lambda: b.d.__setitem__(1,[1])),('s.add str',lambda: b.s.add('x')),
                    ('i str',lambda: setattr(b,'i','x')),('kids.append int',lambda: b.kids.append(3)),('inner.tags.append int',lambda: b.inner.tags.append(3)),
                    ('ro rewrite',lambda: setattr(b,'ro','again'))]:
        try: op(); fail("accepted invalid: "+desc,mode)
        except TraitError: pass
        except Exception as e: fail("%s raised %r"%(desc,e),mode)
    # liveness: notification on copy not original
    la=[];lb=[]
    a.on_trait_change(lambda: la.append(1),'l_items'); b.on_trait_change(lambda: lb.append(1),'l_items')
    b.l.append(1) if len(b.l)<5 else b.l.pop()
    if lb!=[1] or la: fail("items notify copy=%r orig=%r"%(lb,la),mode)
    oa=[];ob=[]
    a.observe(lambda e: oa.append(e),'d.items'); b.observe(lambda e: ob.append(e),'d.items')
    b.d['z']=[5]
    if len(ob)!=1 or oa: fail("observe d.items copy=%d orig=%d"%(len(ob),len(oa)),mode)
    # property dependency
    t0=b.total
    if t0!=sum(b.l): fail("property stale at start",mode)
    if len(b.l)<5: b.l.append(2)
    else: b.l[0]=b.l[0]+1
    if b.total!=sum(b.l): fail("property stale after mutation %r vs %r"%(b.total,sum(b.l)),mode)
    # declared observer
    b.calls=[]; a.calls=[]
    b.kids[0].v=77
    if b.calls!=[('kid',77)] or a.calls: fail("declared observer copy=%r orig=%r"%(b.calls,a.calls),mode)
print("copies",n,"bad",bad)
