import logging; logging.disable(logging.CRITICAL)
from traits.api import *
class N(HasTraits):
    value = Int(); f = Instance(HasTraits); kids = List(Instance(HasTraits))
for nargs,h in [(0,lambda: L.append(('h0',))),(1,lambda new: L.append(('h1',new))),(2,lambda name,new: L.append(('h2',name))),(3,lambda o,name,new: L.append(('h3',name))),(4,lambda o,name,old,new: L.append(('h4',name)))]:
    for nm in ['kids.value','kids:value','f.value','f:value','kids']:
        L=[]
        r=N(kids=[N()], f=N())
        r.on_trait_change(h,nm)
        res={}
        L.clear(); r.kids.append(N()); res['append']=list(L)
        L.clear(); r.kids=[N()]; res['assign kids']=list(L)
        L.clear(); r.f=N(); res['assign f']=list(L)
        L.clear(); r.kids[0].value=5; r.f.value=6; res['value']=list(L)
        print(nargs,nm,res)
