import itertools, random
from traits.adaptation.api import AdaptationManager, AdaptationOffer, AdaptationError
rnd=random.Random(4)
def make_types(n, rnd):
    # types T0..Tn-1, each with bases among earlier types
    ts=[]
    for i in range(n):
        k=rnd.choice([0,0,1,1,2]) if i>0 else 0
        bases=tuple(rnd.sample(ts, min(k,len(ts))))
        try: t=type("T%d"%i, bases or (object,), {})
        except TypeError: t=type("T%d"%i,(object,),{})
        ts.append(t)
    return ts
bad=0;n=0;found=0
for trial in range(4000):
    nt=rnd.randint(2,5); ts=make_types(nt,rnd)
    no=rnd.randint(0,5); offers=[]; log=[]
    m=AdaptationManager()
    for j in range(no):
        f=rnd.choice(ts); t=rnd.choice(ts)
        kind=rnd.choice(['ok','ok','ok','none'])
        def fac(adaptee, j=j, t=t, kind=kind):
            log.append(j)
            if kind=='none': return None
            return ('adapter', j, adaptee)
        o=AdaptationOffer(factory=fac, from_protocol=f, to_protocol=t)
        offers.append((o,f,t,kind)); m.register_offer(o)
    src=rnd.choice(ts); tgt=rnd.choice(ts); obj=src()
    # brute force: all sequences of distinct offers
    best=None; exists=False
    if issubclass(src,tgt): expect_self=True
    else:
        expect_self=False
        for L in range(1,no+1):
            for seq in itertools.permutations(range(no),L):
                cur=src; ok=True
                for idx in seq:
                    o,f,t,kind=offers[idx]
                    if not issubclass(cur,f) or kind=='none': ok=False;break
                    cur=t
                # intermediate targets must not already provide? (the search stops at first providing)
                if ok and issubclass(cur,tgt):
                    exists=True; best=L; break
            if exists: break
    del log[:]
    r=m.adapt(obj,tgt,None)
    n+=1; why=None
    if expect_self:
        if r is not obj: why="should return self"
    else:
        if exists and r is None: why="chain exists (len %d) but none found"%best
        if not exists and r is not None: why="found but brute force says none"
        if r is not None and exists:
            found+=1
            # measure chain length of result
            L=0; x=r
            while isinstance(x,tuple) and x[0]=='adapter': L+=1; x=x[2]
            if x is not obj: why="chain does not start at obj"
            if L!=best: why="length %d vs minimal %d"%(L,best)
    if why:
        bad+=1
        if bad<15: print("FAIL",why,[(f.__name__,t.__name__,k) for o,f,t,k in offers],[ (t.__name__,[b.__name__ for b in t.__bases__]) for t in ts],src.__name__,tgt.__name__)
print("cases",n,"found",found,"bad",bad)
