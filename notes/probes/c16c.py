from traits.api import *
push_exception_handler(reraise_exceptions=True)
class N(HasTraits):
    value = Int(); f = Instance(HasTraits); kids = List(Instance(HasTraits))
L=[]
r=N(kids=[N()], f=N())
try:
    r.on_trait_change(lambda new: L.append(new),'kids.value')
    print("registered")
    r.kids[0].value=5; print("value change ->",L)
    r.kids.append(N()); print("append ->",L)
except Exception as e:
    import traceback; traceback.print_exc()
