import random, logging, sys, gc, weakref
logging.disable(logging.CRITICAL)
from traits.api import *
from traits.observation.exceptions import NotifierNotFound
rnd=random.Random(int(sys.argv[1]) if len(sys.argv)>1 else 11)
class N(HasTraits):
    value = Int(); f = Instance(HasTraits); g = Instance(HasTraits)
    kids = List(Instance(HasTraits)); m = Dict(Str, Instance(HasTraits)); s = Set(Instance(HasTraits))
EXPRS=["value","f.value","f:value","f.g.value","kids.items.value","kids:items:value","f.kids.items.value","m.items.value","s.items.value","[f,g].value","kids.items.f.value","*","f.*"]
def sizes(pool):
    out=[]
    for o in pool:
        for nm in ['value','f','g','kids','m','s','trait_added']:
            t=o._trait(nm,0); x=t._notifiers(False) if t is not None else None
            out.append(0 if x is None else len(x))
        out.append(len(o.kids.notifiers)); out.append(len(o.m.notifiers)); out.append(len(o.s.notifiers))
        x=o._notifiers(False); out.append(0 if x is None else len(x))
    return out
class H:
    def __init__(s): s.calls=0
    def meth(s,ev): s.calls+=1
bad=0;n=0;cnt=[1000]
for trial in range(3000):
    pool=[N() for _ in range(4)]
    for o in pool: o.value=0;o.f=None;o.g=None;o.kids=[];o.m={};o.s=set()
    # DAG links: only to higher index
    for i,o in enumerate(pool):
        hi=pool[i+1:]
        if hi:
            if rnd.random()<0.6: o.f=rnd.choice(hi)
            if rnd.random()<0.4: o.g=rnd.choice(hi)
            o.kids=[rnd.choice(hi) for _ in range(rnd.randint(0,3))]
            if rnd.random()<0.3: o.m={'a':rnd.choice(hi)}
            if rnd.random()<0.3: o.s={rnd.choice(hi)}
    root=pool[0]
    # touch all notifier lists so that sizes baseline is stable (instance traits created lazily)
    base=sizes(pool)
    hs=[H(),H()]; fcalls=[0]
    def fh(ev): fcalls[0]+=1
    handlers=[hs[0].meth,hs[1].meth,fh]
    regs={}  # (hidx,expr) -> count
    hist=[]
    for step in range(rnd.randint(2,14)):
        k=rnd.random()
        if k<0.35:
            hi=rnd.randrange(3); e=rnd.choice(EXPRS)
            root.observe(handlers[hi],e); regs[(hi,e)]=regs.get((hi,e),0)+1; hist.append(('reg',hi,e))
        elif k<0.65:
            hi=rnd.randrange(3); e=rnd.choice(EXPRS) if not regs or rnd.random()<0.2 else rnd.choice(list(regs))[1]
            have=regs.get((hi,e),0)
            before=sizes(pool)
            try:
                root.observe(handlers[hi],e,remove=True)
                if have==0:
                    # may legitimately succeed if an equal notifier set is present via another expression; skip strictness
                    hist.append(('unreg-extra-ok',hi,e))
                else:
                    regs[(hi,e)]=have-1
                    if regs[(hi,e)]==0: del regs[(hi,e)]
                    hist.append(('unreg',hi,e))
            except NotifierNotFound:
                hist.append(('unreg-nnf',hi,e))
                if have>0: bad+=1; print("FAIL NotifierNotFound though registered",hist); break
                if sizes(pool)!=before: bad+=1; print("FAIL failed unregister changed state",hist); break
        else:
            # DAG-preserving mutation
            i=rnd.randrange(3); o=pool[i]; hi=pool[i+1:]
            op=rnd.choice(['f','g','append','pop','assign','m','s'])
            if op=='f': o.f=rnd.choice(hi+[None])
            elif op=='g': o.g=rnd.choice(hi+[None])
            elif op=='append': o.kids.append(rnd.choice(hi))
            elif op=='pop' and o.kids: o.kids.pop(rnd.randrange(len(o.kids)))
            elif op=='assign': o.kids=[rnd.choice(hi) for _ in range(rnd.randint(0,3))]
            elif op=='m': o.m['a']=rnd.choice(hi)
            elif op=='s':
                v=rnd.choice(hi); (o.s.discard if v in o.s else o.s.add)(v)
            hist.append(('mut',i,op))
        n+=1
    else:
        # unregister everything that remains, then sizes must equal baseline & no calls
        ok=True
        for (hi,e),c in list(regs.items()):
            for _ in range(c):
                try: root.observe(handlers[hi],e,remove=True)
                except Exception as ex: bad+=1; ok=False; print("FAIL final unregister raised",type(ex).__name__,hist); break
            if not ok: break
        if ok:
            after=sizes(pool)
            # baseline may differ by lazily created empty lists -> compare as counts
            if after!=base:
                bad+=1
                if bad<20: print("FAIL sizes not restored",[ (i,a,b) for i,(a,b) in enumerate(zip(base,after)) if a!=b],hist)
            c0=(hs[0].calls,hs[1].calls,fcalls[0])
            for o in pool:
                cnt[0]+=1; o.value=cnt[0]; o.f=None
            if (hs[0].calls,hs[1].calls,fcalls[0])!=c0: bad+=1; print("FAIL calls after full unregistration",hist)
print("steps",n,"bad",bad)
# weakness
class Owner:
    def __init__(s): s.n=0
    def h(s,ev): s.n+=1
o=N(); ow=Owner(); o.observe(ow.h,'value'); r=weakref.ref(ow); del ow; gc.collect()
print("handler owner collected:", r() is None); o.value=5; print("no raise after owner gc")
o2=N(); r2=weakref.ref(o2); o2.observe(lambda e: None,'value'); o2.f=N(); o2.observe(lambda e:None,'f.value'); del o2; gc.collect(); print("observed object collected:", r2() is None)
