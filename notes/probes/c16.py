import random, logging, sys
logging.disable(logging.CRITICAL)
from traits.api import *
rnd=random.Random(int(sys.argv[1]) if len(sys.argv)>1 else 10)
class N(HasTraits):
    value = Int()
    f = Instance(HasTraits)
    g = Instance(HasTraits)
    kids = List(Instance(HasTraits))
    m = Dict(Str, Instance(HasTraits))
    s = Set(Instance(HasTraits))
# (legacy name, observe expr)
PAIRS=[("value","value"),("f.value","f.value"),("f:value","f:value"),("f.g.value","f.g.value"),("f:g:value","f:g:value"),
       ("kids.value","kids.items.value"),("kids:value","kids:items:value"),("f.kids.value","f.kids.items.value"),
       ("m.value","m.items.value"),("s.value","s.items.value"),("[f,g].value","[f,g].value"),("kids.f.value","kids.items.f.value"),
       ("f.f.f.value","f.f.f.value")]
bad=0;n=0;cnt=[1000]
def fresh(depth=0):
    o=N(); o.value=0; o.f=None;o.g=None;o.kids=[];o.m={};o.s=set()
    if depth<2 and rnd.random()<0.5: o.f=fresh(depth+1)
    if depth<2 and rnd.random()<0.3: o.g=fresh(depth+1)
    if depth<2 and rnd.random()<0.4: o.kids=[fresh(depth+1) for _ in range(rnd.randint(0,2))]
    if depth<2 and rnd.random()<0.2: o.m={'a':fresh(depth+1)}
    if depth<2 and rnd.random()<0.2: o.s={fresh(depth+1)}
    return o
def allobjs(o,acc):
    acc.append(o)
    for c in [o.f,o.g]+list(o.kids)+list(o.m.values())+list(o.s):
        if c is not None: allobjs(c,acc)
    return acc
for trial in range(4000):
    root=fresh(); leg,obs=rnd.choice(PAIRS)
    L=[];O=[]
    hl=lambda obj,name,old,new: L.append((id(obj),name))
    ho=lambda ev: O.append((id(ev.object),getattr(ev,'name','<items>')))
    try:
        root.on_trait_change(hl,leg); root.observe(ho,obs)
    except Exception as e:
        continue
    hist=[(leg,obs)]; removed=False
    for step in range(rnd.randint(1,8)):
        objs=allobjs(root,[]); o=rnd.choice(objs); k=rnd.random(); del L[:]; del O[:]
        if k<0.3: nm=rnd.choice(['f','g']); setattr(o,nm,rnd.choice([fresh(1),None])); hist.append(('set',nm))
        elif k<0.5:
            op=rnd.choice(['append','pop','assign','setitem'])
            if op=='append': o.kids.append(fresh(1))
            elif op=='pop' and o.kids: o.kids.pop()
            elif op=='assign': o.kids=[fresh(1) for _ in range(rnd.randint(0,2))]
            elif op=='setitem' and o.kids: o.kids[0]=fresh(1)
            hist.append(('kids',op))
        elif k<0.6: o.m['a']=fresh(1); hist.append(('m set',))
        elif k<0.7: o.s.add(fresh(1)); hist.append(('s add',))
        elif k<0.75 and not removed:
            root.on_trait_change(hl,leg,remove=True); root.observe(ho,obs,remove=True); removed=True; hist.append(('remove',))
        else: hist.append(('noop',))
        n+=1
        # compare only final-attribute ('value') reports here + intermediate reports as sets of (name) counts
        # legacy reports container changes under name 'kids' / 'kids_items'; normalise: count of intermediate notifications
        Li=len([1 for x in L]); Oi=len([1 for x in O])
        if removed and (L or O): bad+=1; print("FAIL after remove",L,O,hist); break
        is_reassign = hist[-1][0]=='set' or (hist[-1][0]=='kids' and hist[-1][1]=='assign')
        if is_reassign and (Li>0)!=(Oi>0):
            bad+=1
            if bad<25: print("FAIL intermediate mismatch legacy",[(nm) for _,nm in L],"observe",[(nm) for _,nm in O],hist)
            break
        # probe values
        ok=True
        for ob in allobjs(root,[]):
            del L[:]; del O[:]; cnt[0]+=1; ob.value=cnt[0]
            if len(L)!=len(O) or len(L)>1:
                bad+=1; ok=False
                if bad<25: print("FAIL value probe legacy",len(L),"observe",len(O),hist)
                break
        if not ok: break
print("steps",n,"bad",bad)
