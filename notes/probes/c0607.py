import random, copy, pickle
from traits.api import TraitError
from traits.trait_set_object import TraitSet
from traits.trait_dict_object import TraitDict
rnd = random.Random(1)
def vid(x):
    if isinstance(x,int) and not isinstance(x,bool): return x
    raise TraitError("bad")
def vco(x):
    try: return int(x)
    except Exception: raise TraitError("bad")
# ---- sets
bad=0;n=0
def rset(): return {rnd.choice([0,1,2,3,4,5,'x','2']) for _ in range(rnd.randint(0,4))}
setops = ['add','discard','remove','pop','clear','update','ior','iand','isub','ixor','difference_update','intersection_update','symmetric_difference_update']
for trial in range(30000):
    v = rnd.choice([vid,vco])
    ev=[]
    init={rnd.randint(0,5) for _ in range(rnd.randint(0,4))}
    ts = TraitSet(init, item_validator=v, notifiers=[lambda s,r,a: ev.append((set(r),set(a)))])
    for step in range(rnd.randint(1,6)):
        before=set(ts); ev.clear()
        op=rnd.choice(setops); 
        arg = rnd.choice([0,1,2,3,4,5,'x','2']) if op in('add','discard','remove') else rset()
        args2 = [rset() for _ in range(rnd.randint(0,2))]
        try:
            if op=='add': ts.add(arg)
            elif op=='discard': ts.discard(arg)
            elif op=='remove': ts.remove(arg)
            elif op=='pop': ts.pop()
            elif op=='clear': ts.clear()
            elif op=='update': ts.update(arg,*args2)
            elif op=='ior': ts |= arg
            elif op=='iand': ts &= arg
            elif op=='isub': ts -= arg
            elif op=='ixor': ts ^= arg
            elif op=='difference_update': ts.difference_update(arg,*args2)
            elif op=='intersection_update': ts.intersection_update(arg,*args2)
            elif op=='symmetric_difference_update': ts.symmetric_difference_update(arg)
            exc=None
        except Exception as e: exc=type(e)
        n+=1
        after=set(ts); why=None
        if exc is not None:
            if after!=before or ev: why="failing op changed/notified"
            if exc not in (TraitError, KeyError): why="exc %s"%exc
        else:
            if after!=before and len(ev)!=1: why="changed, %d events"%len(ev)
            if after==before and ev: why="unchanged but event %r"%ev
            for r,a in ev:
                if not (r<=before and not (a&before) and (before-r)|a==after): why="delta law %r"%((r,a),)
            if any(not isinstance(x,int) for x in after): why="invalid member"
        if why:
            bad+=1
            if bad<15: print("SET FAIL", v.__name__, before, op, arg, args2, "->", after, why)
print("set steps",n,"bad",bad)
# ---- dicts
bad=0;n=0
keys=[0,1,2,'1','2','x']; vals=[10,11,'11','y']
def rd(): return {rnd.choice(keys): rnd.choice(vals) for _ in range(rnd.randint(0,3))}
def rpairs(): return [(rnd.choice(keys), rnd.choice(vals)) for _ in range(rnd.randint(0,4))]
dops=['set','del','update_m','update_p','ior','setdefault','setdefault1','pop','popd','popitem','clear']
for trial in range(30000):
    kv=rnd.choice([vid,vco]); vv=rnd.choice([vid,vco])
    ev=[]
    init={rnd.randint(0,3): rnd.randint(10,12) for _ in range(rnd.randint(0,3))}
    td=TraitDict(init,key_validator=kv,value_validator=vv,notifiers=[lambda d,r,a,c: ev.append((dict(r),dict(a),dict(c)))])
    ref=dict(init)
    def val(f,x):
        return f(x)
    for step in range(rnd.randint(1,6)):
        before=dict(td); ev.clear(); op=rnd.choice(dops); k=rnd.choice(keys); v=rnd.choice(vals)
        rexc=None; rret=None
        # reference on validated items
        ref=dict(before)
        try:
            if op=='set': 
                kk,vvv=kv(k),vv(v); ref[kk]=vvv; args=(k,v)
            elif op=='del': args=(k,); del ref[k]
            elif op in('update_m','ior'): m=rd(); args=(m,); val_m={kv(a):vv(b) for a,b in m.items()}; ref.update(val_m)
            elif op=='update_p': p=rpairs(); args=(p,); vp=[(kv(a),vv(b)) for a,b in p]; ref.update(vp)
            elif op=='setdefault': args=(k,v); rret=ref.setdefault(kv(k),vv(v)) if k not in ref else ref[k]
            elif op=='setdefault1': args=(k,); rret=ref.setdefault(kv(k),vv(None)) if k not in ref else ref[k]
            elif op=='pop': args=(k,); rret=ref.pop(k)
            elif op=='popd': args=(k,v); rret=ref.pop(k,v)
            elif op=='popitem': args=(); rret=ref.popitem()
            elif op=='clear': args=(); ref.clear()
        except Exception as e: rexc=type(e); ref=dict(before)
        try:
            if op=='set': td[k]=v; ret=None
            elif op=='del': del td[k]; ret=None
            elif op=='update_m': ret=td.update(m)
            elif op=='ior': td|=m; ret=None
            elif op=='update_p': ret=td.update(p)
            elif op=='setdefault': ret=td.setdefault(k,v)
            elif op=='setdefault1': ret=td.setdefault(k)
            elif op=='pop': ret=td.pop(k)
            elif op=='popd': ret=td.pop(k,v)
            elif op=='popitem': ret=td.popitem()
            elif op=='clear': ret=td.clear()
            exc=None
        except Exception as e: exc=type(e); ret=None
        n+=1; after=dict(td); why=None
        if exc is not rexc: why="exc %s vs ref %s"%(exc,rexc)
        elif after!=ref: why="contents vs ref %r"%(ref,)
        elif exc is None and op in('setdefault','setdefault1','pop','popd','popitem') and ret!=rret: why="ret %r vs %r"%(ret,rret)
        elif exc is not None and (after!=before or ev): why="failing op changed/notified"
        else:
            if after!=before and len(ev)!=1: why="changed but %d events"%len(ev)
            for r,a,c in ev:
                if not r and not a and not c: why="all-empty event"
                # reconstruct before
                rec=dict(after)
                okk=True
                for kk,vv_ in a.items():
                    if kk in before or after.get(kk,object())!=vv_: okk=False
                    rec.pop(kk,None)
                for kk,old in c.items():
                    if kk not in before or before[kk]!=old or kk not in after: okk=False
                    rec[kk]=old
                for kk,old in r.items():
                    if kk in after or before.get(kk,object())!=old: okk=False
                    rec[kk]=old
                if not okk or rec!=before: why="reconstruction %r"%((r,a,c),)
        if why:
            bad+=1
            if bad<15: print("DICT FAIL", kv.__name__, vv.__name__, before, op, args, "->", after, why, ev)
print("dict steps",n,"bad",bad)
