import copy, pickle, math
from traits.api import *
from traits.trait_set_object import TraitSet
from traits.trait_dict_object import TraitDict
from traits.trait_list_object import TraitList
def v(x):
    if isinstance(x,int): return x
    raise TraitError("bad")
s = TraitSet({1,2,3}, item_validator=v)
for f in (copy.copy, copy.deepcopy, lambda x: pickle.loads(pickle.dumps(x))):
    try:
        t = f(s); print("ok", type(t), t, t.item_validator)
        try: t.add('x'); print("  added invalid!", t)
        except TraitError: print("  still validates")
    except Exception as e: print("ERR", type(e), e)
# NaN in float range
class A(HasTraits):
    r = Range(0.0, 1.0)
    e = Either(Range(0.0,1.0), Str)
a = A()
try:
    a.r = float('nan'); print("Range accepted nan", a.r)
except TraitError as e: print("rejected nan")
try:
    a.e = float('nan'); print("Either Range accepted nan", a.e)
except TraitError as e: print("rejected nan")
print(A.class_traits()['r'].handler.validate)
# dict setdefault with coercing key
class B(HasTraits):
    d = Dict(CInt, Str)
b = B(d={1:'a'})
print(b.d.setdefault('1','b'), b.d)
