import pickle, copy, sys, faulthandler
faulthandler.enable()
from traits.api import *
class A(HasTraits):
    _x = Int
    p = Property(Int)
    def _get_p(self): return self._x
    def _set_p(self, v): self._x = v
    q = Property()
    def _get_q(self): return 1
    def _set_q(self, v): pass
    def _validate_q(self, v): return v
a = A()
for n in sys.argv[1:]:
    t = a.trait(n)
    print(n, t.property_fields, flush=True)
    st = t.__getstate__()
    print(n, st[:3], st[4], flush=True)
    t2 = pickle.loads(pickle.dumps(t))
    print("  roundtrip ok", t2.__getstate__()[:5], flush=True)
