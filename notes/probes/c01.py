import re, warnings, logging
warnings.simplefilter('ignore'); logging.disable(logging.CRITICAL)
import numpy as np
from traits.api import *
bad=0;n=0
def chk(label, tt, values, oracle, conv=lambda v:v):
    """oracle(v) -> (accept:bool, expected stored value or None if any)"""
    global bad,n
    class A(HasTraits):
        x = tt
        other = Int(7)
    for v in values:
        a=A(); 
        try: before=a.x
        except Exception: before='<unreadable>'
        n+=1
        try: a.x=v; exc=None
        except TraitError as e: exc='TraitError'; msg=str(e)
        except Exception as e: exc=type(e).__name__
        acc,exp=oracle(v)
        if acc:
            if exc is not None: bad+=1; print("FAIL",label,repr(v)[:40],"should accept, got",exc); continue
            got=a.x
            try: eq = (got==exp) if not isinstance(got,np.ndarray) else np.array_equal(got,exp)
            except Exception: eq = got is exp
            if exp is not None and not (eq and type(got) is type(exp)): bad+=1; print("FAIL",label,repr(v)[:40],"stored",repr(got)[:40],"expected",repr(exp)[:40])
        else:
            if exc is None: bad+=1; print("FAIL",label,repr(v)[:40],"should reject, stored",repr(a.x)[:40]); continue
            if exc!='TraitError': print("note",label,repr(v)[:40],"raised",exc)
            elif "'x'" not in msg and " x " not in msg: bad+=1; print("FAIL error does not name attribute",label,msg[:80])
            try:
                same = a.x is before or a.x==before
                if isinstance(same,np.ndarray): same=same.all()
            except Exception: same=True
            if not same or a.other!=7: bad+=1; print("FAIL rejected but changed",label,repr(v)[:40])
class S(str): pass
strs=['','a','ab','abc','abcd','abcde','abcdef','a1','1a',S('abc'),None,5,5.5,b'ab',['a'],object]
def strx_ok(v): return isinstance(v,(str,int,float,complex)) and not isinstance(v,bool) or isinstance(v,bool)
def string_oracle(minlen,maxlen,regex):
    def o(v):
        if not isinstance(v,(str,int,float,complex,bool)): return (False,None)
        s=str(v) if not isinstance(v,str) else v
        if type(v) is S: s=v
        ok = minlen<=len(s)<=maxlen and (regex=='' or re.match(regex,s) is not None)
        return (ok, None)
    return o
for mn,mx,rg in [(0,10**9,''),(2,4,''),(0,3,''),(2,10**9,''),(0,10**9,'^a'),(1,3,r'^[a-z]+$'),(0,10**9,r'\d')]:
    kw=dict(minlen=mn); 
    if mx<10**9: kw['maxlen']=mx
    if rg: kw['regex']=rg
    chk('String%r'%((mn,mx,rg),),String(**kw),strs,string_oracle(mn,mx,rg))
vals=['yes','no','yesterday','nope']
def pl_oracle(v):
    if not isinstance(v,str): return (False,None)
    if v in vals: return (True,v)
    m=[k for k in vals if k.startswith(v)]
    return (len(m)==1, m[0] if len(m)==1 else None)
chk('PrefixList',PrefixList(vals),['yes','y','ye','yest','n','no','nop','nope','','x',None,1,b'y',S('no'),'YES'],pl_oracle)
pm={'yes':1,'no':0,'yesterday':2}
def pm_oracle(v):
    if not isinstance(v,str): return (False,None)
    if v in pm: return (True,v)
    m=[k for k in pm if k.startswith(v)]
    return (len(m)==1, m[0] if len(m)==1 else None)
chk('PrefixMap',PrefixMap(pm),['yes','y','ye','yest','n','no','','x',None,1],pm_oracle)
# Map shadow
class M(HasTraits):
    m = Map({'a':1,'b':2,3:'c'})
for v,ok in [('a',True),('b',True),(3,True),(3.0,True),('c',False),(None,False),([],False)]:
    o=M(); n+=1
    try: o.m=v; acc=True
    except TraitError: acc=False
    if acc!=ok: bad+=1; print("FAIL Map",v,acc)
    if acc and o.m_!={'a':1,'b':2,3:'c'}[v]: bad+=1; print("FAIL Map shadow",v,o.m_)
    if not acc and (o.m!='a' or o.m_!=1): bad+=1; print("FAIL Map rejected changed",o.m,o.m_)
# Array
def arr_oracle(dtype,shape,casting='unsafe'):
    def o(v):
        try:
            if isinstance(v,np.ndarray): arr=v
            elif isinstance(v,(list,tuple)): arr=np.asarray(v,dtype) if dtype is not None else np.asarray(v)
            else: return (False,None)
            if dtype is not None and arr.dtype!=np.dtype(dtype):
                if not np.can_cast(arr.dtype,np.dtype(dtype),casting=casting): return (False,None)
                arr=arr.astype(dtype)
        except Exception: return (False,None)
        if shape is not None:
            if len(shape)!=arr.ndim: return (False,None)
            for dim,item in zip(arr.shape,shape):
                if item is None: continue
                if isinstance(item,int):
                    if dim!=item: return (False,None)
                else:
                    lo,hi=item
                    if dim<lo or (hi is not None and dim>hi): return (False,None)
        return (True,arr)
    return o
avals=[np.zeros(3),np.zeros((2,3)),np.zeros((3,2),dtype=np.int32),np.array([1.5,2.5]),np.array([1,2,3],dtype=np.int8),[1,2,3],(1.5,2),[[1,2],[3,4]],[[1,2,3],[4,5,6]],[],'abc',5,None,np.zeros((4,3)),np.zeros((1,3)),np.array(['a','b']),[1,'a'],np.zeros((2,3,1))]
for dt,sh,cast in [(None,None,'unsafe'),(np.float64,None,'unsafe'),(np.int32,(3,),'unsafe'),(np.float64,(None,3),'unsafe'),(np.float64,((2,3),3),'unsafe'),(np.float64,((2,None),None),'unsafe'),(np.int32,None,'safe'),(np.float32,None,'same_kind'),(np.float64,None,'no')]:
    chk('Array%r'%((getattr(dt,'__name__',None),sh,cast),),Array(dtype=dt,shape=sh,casting=cast),avals,arr_oracle(dt,sh,cast))
print("assignments",n,"bad",bad)
