import itertools, sys
from traits.trait_list_object import TraitList
def replay(before, index, removed, added):
    l = list(before)
    if isinstance(index, slice):
        assert l[index] == removed, ("removed mismatch", l[index], removed)
        assert len(removed)==len(added) or not added, "ext slice len"
        if added: l[index] = added
        else: del l[index]
    else:
        assert l[index:index+len(removed)] == removed, ("removed mismatch int", l[index:index+len(removed)], removed)
        l[index:index+len(removed)] = added
    return l
bad = 0; n=0
def check(before, op, desc):
    global bad, n
    n+=1
    ev=[]
    tl = TraitList(before, notifiers=[lambda t,i,r,a: ev.append((i,list(r),list(a)))])
    ref = list(before)
    try: r1 = op(ref); e1=None
    except Exception as e: e1=type(e)
    try: r2 = op(tl); e2=None
    except Exception as e: e2=type(e)
    ok = True; why=""
    if e1 is not e2: ok=False; why="exc %s vs %s"%(e1,e2)
    elif list(tl)!=ref: ok=False; why="contents %s vs %s"%(list(tl),ref)
    elif e1 is not None and (list(tl)!=list(before) or ev): ok=False; why="failing op changed/notified"
    else:
        if list(tl)!=list(before) and len(ev)!=1: ok=False; why="changed but %d events"%len(ev)
        if len(ev)>1: ok=False; why=">1 events"
        for (i,r,a) in ev:
            try:
                L=len(before)
                if isinstance(i,slice):
                    if not (i.start is not None and i.stop is not None and i.step is not None and 0<=i.start<i.stop<=L and i.step>=2): ok=False; why="slice not normal %r"%(i,)
                else:
                    if not (type(i) is int and i>=0): ok=False; why="index not normal %r"%(i,)
                if replay(before,i,r,a)!=list(tl): ok=False; why="replay mismatch ev=%r"%((i,r,a),)
            except AssertionError as ex:
                ok=False; why=str(ex.args)
    if not ok:
        bad+=1
        if bad<=25: print("FAIL", before, desc, why, ev)
vals=[None]+list(range(-7,8))
steps=[None,1,2,3,4,-1,-2,-3,-4]
for L in range(0,6):
    before=list(range(10,10+L))
    for i in range(-8,9):
        check(before, lambda l,i=i: l.__delitem__(i), "del[%d]"%i)
        check(before, lambda l,i=i: l.__setitem__(i,99), "set[%d]"%i)
        check(before, lambda l,i=i: l.insert(i,99), "insert %d"%i)
        check(before, lambda l,i=i: l.pop(i), "pop %d"%i)
        check(before, lambda l,i=i: l.__imul__(i), "imul %d"%i)
    check(before, lambda l: l.pop(), "pop()")
    check(before, lambda l: l.append(5), "append")
    check(before, lambda l: l.extend([5,6]), "extend")
    check(before, lambda l: l.extend([]), "extend[]")
    check(before, lambda l: l.__iadd__([5,6]), "iadd")
    check(before, lambda l: l.clear(), "clear")
    check(before, lambda l: l.reverse(), "reverse")
    check(before, lambda l: l.sort(), "sort")
    check(before, lambda l: l.sort(reverse=True), "sort rev")
    for v in (10,11,99): check(before, lambda l,v=v: l.remove(v), "remove %d"%v)
    for a,b,c in itertools.product(vals,vals,steps):
        s=slice(a,b,c)
        check(before, lambda l,s=s: l.__delitem__(s), "del[%r]"%(s,))
        for k in range(0,4):
            check(before, lambda l,s=s,k=k: l.__setitem__(s,list(range(90,90+k))), "set[%r]=%d items"%(s,k))
print("cases",n,"bad",bad)
