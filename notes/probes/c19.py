import random, logging, copy
logging.disable(logging.CRITICAL)
from traits.api import *
rnd=random.Random(12)
EXC=[TraitError,ValueError,AttributeError,RuntimeError]
class Inject(Exception): pass
state={'k':None,'n':0,'exc':None}
def tick():
    state['n']+=1
    if state['k'] is not None and state['n']==state['k']: raise state['exc']("injected")
class V(TraitType):
    def validate(self,obj,name,value):
        tick()
        if isinstance(value,int): return value
        self.error(obj,name,value)
def fac(): tick(); return [1]
class A(HasTraits):
    x = V()
    l = List(V())
    d = Dict(V(),V())
    s = Set(V())
    t = Tuple(V(),V())
    u = Union(V(),Str)
    f = Any(factory=fac)
    m = List(Int)
    p = Property(Int)
    _p = Int(3)
    c = Property(Int, observe='x')
    log = Any()
    def _m_default(self): tick(); return [2]
    def _get_p(self): tick(); return self._p
    def _set_p(self,v): tick(); self._p=v
    @cached_property
    def _get_c(self): tick(); return self.x or 0
    def _x_changed(self,o,n): 
        tick(); self.log.append(('x',o,n))
    @observe('x')
    def _ox(self,ev): tick(); self.log.append(('ox',ev.new))
def snap(a, materialize=False):
    d=a.__dict__
    return {k:(copy.deepcopy(list(v)) if isinstance(v,list) else dict(v) if isinstance(v,dict) else set(v) if isinstance(v,set) else v) for k,v in d.items() if k!='log'}
OPS=[('set x',lambda a: setattr(a,'x',5)),('set l',lambda a: setattr(a,'l',[1,2,3])),('l.extend',lambda a: a.l.extend([4,5,6])),('l[::2]=',lambda a: a.l.__setitem__(slice(None,None,2),[7]*len(a.l[::2]))),
     ('l.insert',lambda a: a.l.insert(0,9)),('l+=',lambda a: a.l.__iadd__([1,2])),('d.update',lambda a: a.d.update({1:2,3:4})),('d[..]=',lambda a: a.d.__setitem__(5,6)),('d.setdefault',lambda a: a.d.setdefault(7,8)),
     ('s.update',lambda a: a.s.update({1,2,3})),('s^=',lambda a: a.s.__ixor__({1,9})),('s.add',lambda a: a.s.add(4)),('set t',lambda a: setattr(a,'t',(1,2))),('set u',lambda a: setattr(a,'u',3)),
     ('read f',lambda a: a.f),('read m',lambda a: a.m),('read p',lambda a: a.p),('set p',lambda a: setattr(a,'p',4)),('read c',lambda a: a.c),('set d',lambda a: setattr(a,'d',{1:1,2:2})),('set s',lambda a: setattr(a,'s',{1,2}))]
bad=0;n=0
def setup():
    a=A(log=[]); a.l=[1,2]; a.d={1:1}; a.s={1}; a.x=1; a.log.clear(); return a
for name,op in OPS:
    # dry run to count callbacks
    a=setup(); state.update(k=None,n=0); 
    try: op(a)
    except Exception as e: print("dry run failed",name,e); continue
    total=state['n']
    for k in range(1,total+1):
        for exc in EXC:
            a=setup(); twin=setup()
            before=snap(a)
            state.update(k=k,n=0,exc=exc)
            raised=None
            try: op(a)
            except Exception as e: raised=e
            state.update(k=None)
            n+=1
            after=snap(a)
            is_handler = name=='set x' and k>1  # validate is callback 1; handlers after
            if is_handler:
                # operation complete, other handler still ran, nothing raised
                if raised is not None: bad+=1; print("FAIL handler exception propagated",name,k,exc.__name__,type(raised).__name__)
                if a.x!=5: bad+=1; print("FAIL handler exc undid assignment")
                other=[e for e in a.log]
                if len(other)!=1: bad+=1; print("FAIL other handler not run / both ran",name,k,exc.__name__,a.log)
            else:
                if raised is None:
                    # e.g. Union alternative failing falls through to next: acceptable only if result state equals fault-free? skip strictness
                    if not (name=='set u'): 
                        bad+=1; print("FAIL deciding callback raised but op succeeded",name,k,exc.__name__)
                    continue
                if not (isinstance(raised,exc) or isinstance(raised,TraitError)):
                    bad+=1; print("FAIL exception class changed",name,k,exc.__name__,"->",type(raised).__name__)
                if after!=before:
                    bad+=1; print("FAIL state changed",name,k,exc.__name__,{kk:(before.get(kk),after.get(kk)) for kk in set(before)|set(after) if before.get(kk)!=after.get(kk)})
                if a.log: bad+=1; print("FAIL notified despite failure",name,k,a.log)
                # follow-up behaves as twin
                try: r1=op(a); 
                except Exception as e: r1=('exc',type(e))
                try: r2=op(twin)
                except Exception as e: r2=('exc',type(e))
                if snap(a)!=snap(twin): bad+=1; print("FAIL follow-up differs from twin",name,k,exc.__name__,snap(a),snap(twin))
print("injections",n,"bad",bad)
