import random, logging
logging.disable(logging.CRITICAL)
from traits.api import *
from traits.trait_base import Undefined
rnd=random.Random(3)
class EqRaises:
    def __eq__(self,o): raise RuntimeError("eq")
    def __ne__(self,o): raise RuntimeError("ne")
    __hash__=object.__hash__
class Eq1:
    def __init__(s,k): s.k=k
    def __eq__(s,o): return isinstance(o,Eq1) and s.k==o.k
    def __hash__(s): return hash(s.k)
nan=float('nan')
pool=[Eq1(1),Eq1(1),Eq1(2),nan,float('nan'),EqRaises(),EqRaises(),None,[1],[1],0,0.0,False]
bad=0;n=0
for mode in (ComparisonMode.none, ComparisonMode.identity, ComparisonMode.equality):
  for raising in (None,'static','otc','obs','any'):
    class A(HasTraits):
        x = Any(comparison_mode=mode)
        e = Event()
        i = Int()
        log = Any()
        def _x_changed(self, old, new):
            self.log.append(('static','x',old,new))
            if raising=='static': raise ValueError
        def _e_fired(self, old, new):
            self.log.append(('static','e',old,new))
        def _i_changed(self, old, new):
            self.log.append(('static','i',old,new))
        def _anytrait_changed(self, name, old, new):
            if name in ('x','e','i'):
                self.log.append(('any',name,old,new))
                if raising=='any': raise ValueError
    for trial in range(400):
        a=A(log=[])
        def otc(obj,name,old,new):
            a.log.append(('otc',name,old,new))
            if raising=='otc': raise ValueError
        def obs(ev):
            a.log.append(('obs',ev.name,ev.old,ev.new))
            if raising=='obs': raise ValueError
        a.on_trait_change(otc,'x'); a.on_trait_change(otc,'e'); a.on_trait_change(otc,'i')
        a.observe(obs,'x'); a.observe(obs,'e'); a.observe(obs,'i')
        for step in range(rnd.randint(1,8)):
            del a.log[:]
            k=rnd.random()
            if k<0.6:
                name='x'; v=rnd.choice(pool)
                was_set='x' in a.__dict__
                old=a.x  # read (materialises default None)
                if a.log: 
                    bad+=1; print("default read notified", a.log)
                del a.log[:]
                a.x=v; new=a.x
                if mode==ComparisonMode.none: ch=True
                elif mode==ComparisonMode.identity: ch= new is not old
                else:
                    if new is old: ch=False
                    else:
                        try: ch=bool(old!=new)
                        except Exception: ch=True
                expect={(m,'x') : ([(old,new)] if ch else []) for m in ('static','any','otc','obs')}
            elif k<0.8:
                name='e'; v=rnd.choice(pool); a.e=v
                expect={(m,'e') : [(Undefined,v)] for m in ('static','any','otc','obs')}
            else:
                name='i'; old=a.i
                try: a.i='bad'; 
                except TraitError: pass
                expect={(m,'i') : [] for m in ('static','any','otc','obs')}
                if a.i is not old: bad+=1; print("rejected changed value")
            n+=1
            for (m,nm),exp in expect.items():
                got=[(o,nw) for (mm,nn,o,nw) in a.log if mm==m and nn==nm]
                same = len(got)==len(exp) and all(g[0] is e_[0] and g[1] is e_[1] for g,e_ in zip(got,exp))
                if not same:
                    bad+=1
                    if bad<20: print("FAIL mode",mode,"raising",raising,m,nm,"expected",exp,"got",got)
print("steps",n,"bad",bad)
