import logging; logging.disable(logging.CRITICAL)
from collections import namedtuple
from traits.api import *
P = namedtuple("P", "x y")
class A(HasTraits):
    t = Tuple(Int, Int)
    e = Either(String(maxlen=5), CInt)
    u = Union(String(maxlen=5), CInt)
a = A()
ct = a.trait('t'); h = ct.handler
v = P(1,2)
print("F4 tuple: C ->", type(ct.validate(a,'t',v)).__name__, " py ->", type(h.validate(a,'t',v)).__name__)
a.e = "12"; print("F5 Either(String,CInt) '12' ->", repr(a.e))
a.u = "12"; print("   Union(String,CInt) '12' ->", repr(a.u))
# F14 cycle through root
class N(HasTraits):
    f = Instance(HasTraits)
    value = Int()
calls=[]
o = N(); o.f = o
o.observe(lambda ev: calls.append((ev.object is o, ev.name, ev.new if ev.name=='value' else None)), "f.f.value")
p = N()
try:
    o.f = p
    print("reassign ok, calls", calls)
except Exception as ex:
    print("RAISED", type(ex).__name__, ex)
calls.clear()
o.value = 5   # o no longer reachable via f.f (o.f=p, p.f=None)
print("o.value change calls (expect none):", calls)
p.f = o; calls.clear()
o.value = 6   # now o reachable: o.f=p, p.f=o -> f.f = o
print("o.value change calls (expect 1):", calls)
def cnt(obj,n):
    t=obj._trait(n,0); x=t._notifiers(False); return 0 if x is None else len(x)
print("notifier counts o.f, o.value, p.f, p.value:", cnt(o,'f'),cnt(o,'value'),cnt(p,'f'),cnt(p,'value'))
calls.clear(); p.value = 9
print("p.value change calls (expect none since f.f.value is o.value):", calls)
