from traits.observation.api import parse, compile_str
for s in ["[a:*,b]", "b.*", "*", "*.b", "[*,a].b", "[*]", "[a,*]", "a.[b,*]", "a . items : + meta", "items", "itemsx", "a.items", "+items", "a,", "[a", "a..b", "é", "aé", "a .b", "[[a]]", "[a].b", "a:[b,c].d", ""]:
    try:
        e = parse(s); print(repr(s), "OK", len(compile_str(s)))
    except ValueError as ex:
        print(repr(s), "ValueError")
    except Exception as ex:
        print(repr(s), "OTHER", type(ex))
import traits.observation._generated_parser as g
import re
src=open(g.__file__).read()
i=src.find("DATA = ("); print(src[i:i+200])
print(re.findall(r"__version__ = .*", src))
