from traits.api import *
class A(HasTraits):
    r = Range(0.0, 1.0)
    c = Callable(allow_none=False)
a = A()
h = A.class_traits()['r'].handler
try: print("py path:", h.validate(a,'r',float('nan')))
except TraitError as e: print("py path rejects nan")
ct = A.class_traits()['r']
try: print("c path:", ct.validate(a,'r',float('nan')))
except TraitError as e: print("c path rejects nan")
h = A.class_traits()['c'].handler
try: print("py path:", h.validate(a,'c',None))
except TraitError as e: print("py path rejects None")
ct = A.class_traits()['c']
try: print("c path:", ct.validate(a,'c',None))
except TraitError as e: print("c path rejects None")
