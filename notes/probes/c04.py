import random, logging
logging.disable(logging.CRITICAL)
from traits.api import *
rnd=random.Random(2)
class A(HasTraits):
    l = List(Int, minlen=1, maxlen=4)
    c = List(CInt, maxlen=3)
    n = List(List(Int, maxlen=2), maxlen=3)
    d = Dict(Int, List(Int, maxlen=2))
    s = Set(Int)
def valid_int_list(x, mn, mx): return mn<=len(x)<=mx and all(type(i) is int for i in x)
def inv(a):
    ok = valid_int_list(a.l,1,4) and valid_int_list(a.c,0,3)
    ok = ok and len(a.n)<=3 and all(valid_int_list(x,0,2) for x in a.n)
    ok = ok and all(type(k) is int and valid_int_list(v,0,2) for k,v in a.d.items())
    ok = ok and all(type(x) is int for x in a.s)
    return ok
def snap(a): return (list(a.l), list(a.c), [list(x) for x in a.n], {k:list(v) for k,v in a.d.items()}, set(a.s))
items=[0,1,2,'x',None,2.5,'3',True]
def ritem(): return rnd.choice(items)
def rlist(k=4): return [ritem() for _ in range(rnd.randint(0,k))]
def ridx(): return rnd.randint(-6,6)
def rslice():
    f=lambda: rnd.choice([None]+list(range(-6,7)))
    return slice(f(),f(),rnd.choice([None,1,2,3,-1,-2]))
bad=0;n=0;errs={}
events=[]
for trial in range(6000):
    a=A(l=[1]); 
    a.on_trait_change(lambda *args: events.append(args), 'l_items,c_items,n_items,d_items,s_items')
    for step in range(rnd.randint(1,10)):
        which=rnd.choice(['l','c','n','ninner','d','dinner','s','assign'])
        before=snap(a); events.clear()
        try:
            if which in('l','c','ninner','dinner') or (which=='n'):
                if which=='l': t=a.l; mk=rlist; one=ritem
                elif which=='c': t=a.c; mk=rlist; one=ritem
                elif which=='n': t=a.n; mk=lambda: [rlist(3) for _ in range(rnd.randint(0,3))]; one=lambda: rnd.choice([rlist(3), 5, None])
                elif which=='ninner':
                    if not a.n: continue
                    t=rnd.choice(a.n); mk=rlist; one=ritem
                else:
                    if not a.d: continue
                    t=rnd.choice(list(a.d.values())); mk=rlist; one=ritem
                op=rnd.choice(['set','setsl','del','delsl','append','extend','insert','iadd','imul','pop','remove','sort','reverse','clear'])
                if op=='set': t[ridx()]=one()
                elif op=='setsl': t[rslice()]=mk()
                elif op=='del': del t[ridx()]
                elif op=='delsl': del t[rslice()]
                elif op=='append': t.append(one())
                elif op=='extend': t.extend(mk())
                elif op=='insert': t.insert(ridx(), one())
                elif op=='iadd': t+=mk()
                elif op=='imul': t*=rnd.randint(-1,3)
                elif op=='pop': t.pop(ridx())
                elif op=='remove': t.remove(one())
                elif op=='sort': t.sort()
                elif op=='reverse': t.reverse()
                elif op=='clear': t.clear()
            elif which=='d':
                op=rnd.choice(['set','del','update','setdefault','pop','popitem','clear','ior'])
                k=rnd.choice([0,1,'k',None]); v=rnd.choice([rlist(3), 5, None])
                if op=='set': a.d[k]=v
                elif op=='del': del a.d[k]
                elif op=='update': a.d.update({k:v, 7:rlist(3)})
                elif op=='ior': a.d |= {k:v}
                elif op=='setdefault': a.d.setdefault(k,v)
                elif op=='pop': a.d.pop(k)
                elif op=='popitem': a.d.popitem()
                elif op=='clear': a.d.clear()
            elif which=='s':
                op=rnd.choice(['add','update','ior','ixor','sdu','discard','clear','iand'])
                x=ritem(); xs=set(i for i in rlist() if i is not None or True)
                if op=='add': a.s.add(x)
                elif op=='update': a.s.update(xs)
                elif op=='ior': a.s |= xs
                elif op=='ixor': a.s ^= xs
                elif op=='sdu': a.s.symmetric_difference_update(xs)
                elif op=='discard': a.s.discard(x)
                elif op=='clear': a.s.clear()
                elif op=='iand': a.s &= xs
            else:
                name=rnd.choice(['l','c','n','d','s'])
                val={'l':rlist,'c':rlist,'n':lambda:[rlist(3) for _ in range(rnd.randint(0,4))],'d':lambda:{ritem() if ritem() is not None else 0:rlist(3)},'s':lambda:set(rlist())}[name]()
                op='assign '+name
                setattr(a,name,val)
            exc=None
        except Exception as e: exc=type(e)
        n+=1
        errs[exc]=errs.get(exc,0)+1
        after=snap(a); why=None
        if not inv(a): why="INVARIANT broken"
        elif exc is TraitError and (after!=before or events): why="TraitError but changed/notified"
        elif exc is not None and after!=before: why="exception %s but changed"%exc
        if why:
            bad+=1
            if bad<20: print("FAIL",which,op,why,before,"->",after, exc)
print("steps",n,"bad",bad,{(k.__name__ if k else None):v for k,v in errs.items()})
