From Coq Require Import List Arith Lia Bool PeanoNat Permutation.
Import ListNotations.

Definition oid := nat.
Definition fname := nat.
Inductive graph := G (f : fname) (notify : bool) (children : list graph).
Definition heap := oid -> fname -> option oid.
Definition slot_eqb (x : oid) (f : fname) (o : oid) (fo : fname) := (Nat.eqb x o && Nat.eqb f fo)%bool.
Definition upd (h : heap) (o : oid) (f : fname) (v : option oid) : heap :=
  fun o' f' => if slot_eqb o' f' o f then v else h o' f'.
Inductive kind := KUser | KMaint (c : graph).
Definition hook := (oid * fname * kind)%type.

Definition opt_flat {A} (y : option oid) (k : oid -> list A) : list A :=
  match y with None => [] | Some y => k y end.

Fixpoint expected (h : heap) (g : graph) (x : oid) {struct g} : list hook :=
  match g with
  | G f notify cs =>
      (if notify then [(x, f, KUser)] else []) ++
      map (fun c => (x, f, KMaint c)) cs ++
      opt_flat (h x f) (fun y => flat_map (fun c => expected h c y) cs)
  end.

Fixpoint visits (h : heap) (g : graph) (x o : oid) (fo : fname) {struct g} : bool :=
  match g with
  | G f _ cs =>
      slot_eqb x f o fo ||
      match h x f with None => false | Some y => existsb (fun c => visits h c y o fo) cs end
  end.

(* child graphs attached (as maintainers) at each visit of the slot *)
Fixpoint occ (h : heap) (g : graph) (x o : oid) (fo : fname) {struct g} : list graph :=
  match g with
  | G f _ cs =>
      (if slot_eqb x f o fo then cs else []) ++
      opt_flat (h x f) (fun y => flat_map (fun c => occ h c y o fo) cs)
  end.

Lemma graph_ind' (P : graph -> Prop) :
  (forall f n cs, Forall P cs -> P (G f n cs)) -> forall g, P g.
Proof.
  intros H. fix IH 1. intros [f n cs]. apply H.
  induction cs as [|c cs IHcs]; constructor; [apply IH|apply IHcs].
Qed.

Lemma flat_map_ext_Forall {A B} (f g : A -> list B) l :
  Forall (fun a => f a = g a) l -> flat_map f l = flat_map g l.
Proof. induction 1; simpl; congruence. Qed.

Lemma expected_frame h g : forall x o fo v,
  visits h g x o fo = false -> expected (upd h o fo v) g x = expected h g x.
Proof.
  induction g as [f n cs IH] using graph_ind'. intros x o fo v Hv.
  cbn [expected visits] in *.
  apply orb_false_iff in Hv. destruct Hv as [Hslot Hrest].
  do 2 f_equal. unfold upd at 1. rewrite Hslot.
  destruct (h x f) as [y|]; [|reflexivity]. cbn [opt_flat].
  apply flat_map_ext_Forall.
  rewrite Forall_forall in *. intros c Hc. apply IH; [exact Hc|].
  rewrite <- not_true_iff_false in *. intros E. apply Hrest.
  apply existsb_exists. eauto.
Qed.

(* ---- the substitution theorem ---- *)
Definition sumexp (h : heap) (cs : list graph) (y : option oid) : list hook :=
  opt_flat y (fun y => flat_map (fun c => expected h c y) cs).



Lemma flat_map_nil_Forall {A B} (f : A -> list B) l : Forall (fun a => f a = []) l -> flat_map f l = [].
Proof. induction 1; simpl; [reflexivity|]. rewrite H, IHForall. reflexivity. Qed.

Lemma sumexp_singletons h cs y :
  flat_map (fun c => sumexp h [c] y) cs = sumexp h cs y.
Proof.
  unfold sumexp. destruct y as [y|]; cbn [opt_flat].
  - apply flat_map_ext_Forall. apply Forall_forall. intros c _. cbn [flat_map]. apply app_nil_r.
  - apply flat_map_nil_Forall. apply Forall_forall. reflexivity.
Qed.

Lemma interleave {A B C} (P : A -> list B) (O : A -> list C) (F : C -> list B) cs :
  Permutation (flat_map P cs ++ flat_map F (flat_map O cs))
              (flat_map (fun c => P c ++ flat_map F (O c)) cs).
Proof.
  induction cs as [|c cs IH]; [reflexivity|]. cbn [flat_map].
  rewrite flat_map_app. rewrite <- !app_assoc. apply Permutation_app_head.
  rewrite app_assoc. rewrite (Permutation_app_comm (flat_map P cs)).
  rewrite <- app_assoc. apply Permutation_app_head. exact IH.
Qed.

Lemma Permutation_flat_map_Forall {A B} (P Q : A -> list B) cs :
  (forall c, In c cs -> Permutation (P c) (Q c)) -> Permutation (flat_map P cs) (flat_map Q cs).
Proof.
  induction cs as [|c cs IH]; intros H; [reflexivity|]. cbn [flat_map].
  apply Permutation_app; [apply H; left; reflexivity|apply IH; intros; apply H; right; assumption].
Qed.

Section Subst.
  Variables (h : heap) (o : oid) (fo : fname) (new : option oid).
  Let old := h o fo.
  Let h' := upd h o fo new.
  (* acyclicity: the slot is not visited again from its old or new value, along any graph *)
  Hypothesis acyc : forall c y, (old = Some y \/ new = Some y) -> visits h c y o fo = false.

  (* simpler: generic lemma  visits = false -> occ = [] *)
  Lemma occ_nil_of_not_visits g : forall x, visits h g x o fo = false -> occ h g x o fo = [].
  Proof.
    induction g as [f n cs IH] using graph_ind'. intros x V. cbn [visits occ] in *.
    apply orb_false_iff in V. destruct V as [V1 V2]. rewrite V1. cbn [app].
    destruct (h x f) as [z|]; [|reflexivity]. cbn [opt_flat].
    rewrite Forall_forall in IH.
    induction cs as [|c cs IHcs]; [reflexivity|]. cbn [flat_map existsb] in *.
    apply orb_false_iff in V2. destruct V2 as [Vc Vcs].
    rewrite IH by (try (left; reflexivity); assumption). cbn [app].
    apply IHcs; [intros; apply IH; [right; assumption|assumption]|assumption].
  Qed.

  Theorem expected_subst g : forall x,
    Permutation
      (expected h' g x ++ flat_map (fun c => sumexp h [c] old) (occ h g x o fo))
      (expected h  g x ++ flat_map (fun c => sumexp h [c] new) (occ h g x o fo)).
  Proof.
    induction g as [f n cs IH] using graph_ind'. intros x.
    cbn [expected occ]. rewrite Forall_forall in IH.
    destruct (slot_eqb x f o fo) eqn:Hs.
    - (* the slot itself *)
      unfold slot_eqb in Hs. apply andb_true_iff in Hs. destruct Hs as [Hx Hf].
      apply Nat.eqb_eq in Hx, Hf. subst x f.
      assert (h' o fo = new) as Hn.
      { unfold h', upd, slot_eqb. rewrite !Nat.eqb_refl. reflexivity. }
      rewrite Hn. fold old.
      (* nothing below old visits the slot again *)
      assert (opt_flat old (fun y => flat_map (fun c => occ h c y o fo) cs) = []) as Hbelow.
      { destruct old as [y|] eqn:Eo; [|reflexivity]. cbn [opt_flat].
        apply flat_map_nil_Forall. apply Forall_forall. intros c _.
        apply occ_nil_of_not_visits. apply acyc. left. reflexivity. }
      rewrite Hbelow, app_nil_r.
      assert (opt_flat new (fun y => flat_map (fun c => expected h' c y) cs) = sumexp h cs new) as Hfr.
      { unfold sumexp. destruct new as [y|] eqn:En; [|reflexivity]. cbn [opt_flat].
        apply flat_map_ext_Forall. apply Forall_forall. intros c _.
        apply expected_frame. apply acyc. right. reflexivity. }
      rewrite Hfr. rewrite !sumexp_singletons.
      change (opt_flat old (fun y => flat_map (fun c => expected h c y) cs)) with (sumexp h cs old).
      rewrite <- !app_assoc. do 2 apply Permutation_app_head.
      apply Permutation_app_comm.
    - (* some other slot: heap unchanged here, recurse *)
      assert (h' x f = h x f) as Hsame.
      { unfold h', upd. rewrite Hs. reflexivity. }
      rewrite Hsame. cbn [app].
      destruct (h x f) as [y|]; cbn [opt_flat]; [|reflexivity].
      rewrite <- !app_assoc. do 2 apply Permutation_app_head.
      rewrite !interleave.
      apply Permutation_flat_map_Forall. intros c Hc. apply IH. exact Hc.
  Qed.
End Subst.
Print Assumptions expected_subst.
