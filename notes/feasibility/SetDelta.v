From stdpp Require Import gmap sets.
From Coq Require Import ZArith.

(* Spike for C07 with std++: TraitSet.symmetric_difference_update and update over gset Z,
   validator vld : Z -> option Z (accept+convert or reject). *)
Section S.
  Variable vld : Z -> option Z.

  (* validate every element of a finite set; None if some element is rejected *)
  Definition vld_all (xs : gset Z) : option (gset Z) :=
    set_fold (fun x acc => match acc, vld x with Some s, Some y => Some ({[ y ]} ∪ s) | _, _ => None end)
             (Some ∅) xs.

  Record outcome := { new : gset Z; removed : gset Z; added : gset Z }.

  (* symmetric_difference_update(value):  removed = self ∩ values; added = vld[values ∖ removed] ∖ self *)
  Definition sdu (self values : gset Z) : option outcome :=
    let rem := self ∩ values in
    match vld_all (values ∖ rem) with
    | None => None
    | Some va => let add := va ∖ self in
                 Some {| new := (self ∖ rem) ∪ add; removed := rem; added := add |}
    end.

  Definition delta_law (old : gset Z) (o : outcome) : Prop :=
    removed o ⊆ old /\ added o ## old /\ (old ∖ removed o) ∪ added o = new o.

  Theorem sdu_delta self values o : sdu self values = Some o -> delta_law self o.
  Proof.
    unfold sdu. destruct (vld_all _) as [va|]; [|discriminate].
    intros [= <-]. unfold delta_law. cbn. repeat split; set_solver.
  Qed.

  (* for an accept-or-reject validator the result is the built-in symmetric difference *)
  Hypothesis noncoercing : forall x y, vld x = Some y -> y = x.
  Lemma vld_all_id xs va : vld_all xs = Some va -> va = xs.
  Proof.
    unfold vld_all. revert va. apply (set_fold_ind_L (fun acc X => forall va, acc = Some va -> va = X)).
    - intros va [= <-]. reflexivity.
    - intros x X acc Hx IH va. destruct acc as [s|]; [|discriminate].
      destruct (vld x) as [y|] eqn:E; [|discriminate]. intros [= <-].
      rewrite (noncoercing _ _ E), (IH s eq_refl). reflexivity.
  Qed.
  Theorem sdu_refines_builtin self values o : sdu self values = Some o ->
    new o = (self ∖ values) ∪ (values ∖ self).
  Proof.
    unfold sdu. destruct (vld_all _) as [va|] eqn:E; [|discriminate].
    intros [= <-]. cbn. apply vld_all_id in E. subst va. set_solver.
  Qed.
End S.
Print Assumptions sdu_delta.
Print Assumptions sdu_refines_builtin.
