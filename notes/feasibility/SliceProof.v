From Coq Require Import ZArith List Lia Bool.
Require Import PySlice.
Import ListNotations.
Open Scope Z_scope.

(* ---------- positions ---------- *)
Lemma positions_length a c n : length (positions a c n) = n.
Proof. revert a; induction n; simpl; intros; auto. Qed.

Lemma positions_snoc a c n :
  positions a c (S n) = positions a c n ++ [a + Z.of_nat n * c].
Proof.
  revert a; induction n as [|n IH]; intros a.
  - simpl. f_equal. lia.
  - change (positions a c (S (S n))) with (a :: positions (a + c) c (S n)).
    rewrite IH. cbn [positions app]. do 3 f_equal. rewrite Nat2Z.inj_succ. lia.
Qed.

Lemma positions_rev a c n :
  rev (positions a c (S n)) = positions (a + Z.of_nat n * c) (- c) (S n).
Proof.
  revert a; induction n as [|n IH]; intros a.
  - simpl. f_equal. lia.
  - rewrite positions_snoc. rewrite rev_app_distr. cbn [rev app].
    rewrite IH.
    change (positions (a + Z.of_nat (S n) * c) (- c) (S (S n)))
      with ((a + Z.of_nat (S n) * c) :: positions (a + Z.of_nat (S n) * c + - c) (- c) (S n)).
    f_equal. f_equal. rewrite Nat2Z.inj_succ. lia.
Qed.

(* ---------- indices range ---------- *)
Lemma adjust_pos len c x : 0 <= len -> 0 < c -> 0 <= adjust len c x <= len.
Proof.
  intros Hl Hc. unfold adjust.
  destruct (x <? 0) eqn:E1; [destruct (x + len <? 0) eqn:E2|destruct (x >=? len) eqn:E3];
  destruct (c <? 0) eqn:E4; lia.
Qed.
Lemma adjust_neg len c x : 0 <= len -> c < 0 -> -1 <= adjust len c x <= len - 1.
Proof.
  intros Hl Hc. unfold adjust.
  destruct (x <? 0) eqn:E1; [destruct (x + len <? 0) eqn:E2|destruct (x >=? len) eqn:E3];
  destruct (c <? 0) eqn:E4; lia.
Qed.

Lemma indices_pos len a b c s e k :
  0 <= len -> indices len (a,b,c) = (s,e,k) -> 0 < k -> 0 <= s <= len /\ 0 <= e <= len.
Proof.
  intros Hl H Hk. unfold indices in H.
  set (step := match c with None => 1 | Some s0 => s0 end) in *.
  inversion H; subst k. clear H.
  assert (step <? 0 = false) as E by lia. rewrite E in *.
  split; [destruct a|destruct b]; subst; try (apply adjust_pos; lia); lia.
Qed.
Lemma indices_neg len a b c s e k :
  0 <= len -> indices len (a,b,c) = (s,e,k) -> k < 0 -> -1 <= s <= len - 1 /\ -1 <= e <= len - 1.
Proof.
  intros Hl H Hk. unfold indices in H.
  set (step := match c with None => 1 | Some s0 => s0 end) in *.
  inversion H; subst k. clear H.
  assert (step <? 0 = true) as E by lia. rewrite E in *.
  split; [destruct a|destruct b]; subst; try (apply adjust_neg; lia); lia.
Qed.

(* ---------- division facts ---------- *)
Lemma len_pos_spec d k : 0 <= d -> 0 < k ->
  let n := d / k + 1 in d = k * (n - 1) + d mod k /\ 0 <= d mod k < k /\ 1 <= n.
Proof.
  intros Hd Hk n. subst n.
  pose proof (Z.div_mod d k ltac:(lia)). pose proof (Z.mod_pos_bound d k Hk).
  pose proof (Z.div_pos d k Hd Hk). lia.
Qed.

Lemma mod_mul_add_l k q r : 0 < k -> 0 <= r < k -> (k * q + r) mod k = r.
Proof. intros. rewrite Z.add_comm, Z.mul_comm, Z.mod_add by lia. apply Z.mod_small; lia. Qed.
Lemma div_mul_add_l k q r : 0 < k -> 0 <= r < k -> (k * q + r) / k = q.
Proof. intros. rewrite Z.add_comm, Z.mul_comm, Z.div_add by lia. rewrite Z.div_small; lia. Qed.

(* (a-b) mod c for c<0, a>b:  with s=-c, n = (a-b-1)/s+1 :  (a-b) mod c = (a-b) - s*n  *)
Lemma neg_mod_spec d s : 0 < d -> 0 < s ->
  let n := (d - 1) / s + 1 in d mod (- s) = d - s * n.
Proof.
  intros Hd Hs n.
  destruct (len_pos_spec (d-1) s ltac:(lia) Hs) as (E & B & N). fold n in E, N.
  (* d = s*(n-1) + r + 1, so d = (-s) * (-n) + (d - s n) with -s < d - s n <= 0 *)
  symmetry. apply Z.mod_unique_neg with (q := - n); lia.
Qed.
