From Coq Require Import ZArith List Lia Bool.
Import ListNotations.
Open Scope Z_scope.

(* ---- CPython slice.indices ---- *)
Definition adjust (len step x : Z) : Z :=
  if x <? 0 then (let y := x + len in if y <? 0 then (if step <? 0 then -1 else 0) else y)
  else if x >=? len then (if step <? 0 then len - 1 else len) else x.

Definition indices (len : Z) (sl : option Z * option Z * option Z) : Z * Z * Z :=
  let '(a, b, c) := sl in
  let step := match c with None => 1 | Some s => s end in
  let start := match a with
               | None => if step <? 0 then len - 1 else 0
               | Some s => adjust len step s end in
  let stop := match b with
              | None => if step <? 0 then -1 else len
              | Some s => adjust len step s end in
  (start, stop, step).

Definition slicelen (start stop step : Z) : Z :=
  if step <? 0 then (if stop <? start then (start - stop - 1) / (- step) + 1 else 0)
  else (if start <? stop then (stop - start - 1) / step + 1 else 0).

Fixpoint positions (start step : Z) (n : nat) : list Z :=
  match n with O => [] | S n' => start :: positions (start + step) step n' end.

Definition slice_positions (len : Z) sl : list Z :=
  let '(a, b, c) := indices len sl in positions a c (Z.to_nat (slicelen a b c)).

(* ---- what tr_pyfun.py would emit for _normalize_slice_or_index (slice branch) ---- *)
Inductive ios := I (i : Z) | S3 (a b c : Z).

Definition normalize_gen (len : Z) (sl : option Z * option Z * option Z) : bool * ios :=
  let '(start, stop, step) := indices len sl in
  let reversed := step <? 0 in
  let '(start, stop, step) :=
     if reversed then (Z.min (stop - step + (start - stop) mod step) len, start + 1, - step)
     else (start, stop, step) in
  let stop := stop - (stop - start - 1) mod step in
  if (step =? 1) || (stop - start <=? step) then (reversed, I start)
  else (reversed, S3 start stop step).
