From Coq Require Import List Arith Lia Bool PeanoNat Permutation ZifyBool.
Import ListNotations.

(* Spike for C17: AdaptationManager._adapt as a best-first search over offer paths. *)
Section Adapt.
  Definition ty := nat.
  Record offer := { oid_ : nat; ofrom : ty; oto : ty }.
  Definition offer_eqb (a b : offer) : bool :=
    Nat.eqb (oid_ a) (oid_ b) && Nat.eqb (ofrom a) (ofrom b) && Nat.eqb (oto a) (oto b).
  Lemma offer_eqb_spec a b : offer_eqb a b = true <-> a = b.
  Proof.
    destruct a, b; unfold offer_eqb; cbn. rewrite !andb_true_iff, !Nat.eqb_eq.
    split; [intros [[-> ->] ->]; reflexivity|intros [= -> -> ->]; auto].
  Qed.

  Variable sub : ty -> ty -> bool.                 (* issubclass, arbitrary (ABC registration) *)
  Variable dist : ty -> ty -> nat.                 (* mro distance, only used for ordering *)
  Variable offers : list offer.
  Variable target : ty.
  Variable src : ty.
  Variable step_ok : list offer -> offer -> bool.  (* does o's factory succeed on the adapter built by the prefix? *)

  Fixpoint succ_from (pre p : list offer) : bool :=
    match p with [] => true | o :: p' => step_ok pre o && succ_from (pre ++ [o]) p' end.
  Definition succ (p : list offer) := succ_from [] p.

  Definition cur_of (p : list offer) : ty := match rev p with [] => src | o :: _ => oto o end.
  Definition mem (o : offer) (p : list offer) := existsb (offer_eqb o) p.

  (* one edge is usable from path p *)
  Definition usable (p : list offer) (o : offer) : bool := sub (cur_of p) (ofrom o) && negb (mem o p).

  (* a valid chain: every offer usable from the prefix before it, all registered *)
  Fixpoint valid_from (pre p : list offer) : bool :=
    match p with [] => true | o :: p' => usable pre o && existsb (offer_eqb o) offers && valid_from (pre ++ [o]) p' end.
  Definition valid p := valid_from [] p.
  Definition complete (p : list offer) : bool := match p with [] => false | _ => sub (cur_of p) target end.

  (* ---- the search ---- *)
  Definition key := (nat * nat * nat)%type.
  Definition key_ltb (a b : key) : bool :=
    let '(a1, a2, a3) := a in let '(b1, b2, b3) := b in
    (a1 <? b1) || ((a1 =? b1) && ((a2 <? b2) || ((a2 =? b2) && (a3 <? b3)))).
  Definition entry := (key * list offer)%type.

  (* pop the entry with the smallest key *)
  Fixpoint pop_min (q : list entry) : option (entry * list entry) :=
    match q with
    | [] => None
    | e :: q' => match pop_min q' with
                 | None => Some (e, [])
                 | Some (m, rest) => if key_ltb (fst e) (fst m) then Some (e, q') else Some (m, e :: rest)
                 end
    end.

  Variable order : list offer -> list offer.       (* the edge sort; any permutation *)
  Hypothesis order_perm : forall l, Permutation (order l) l.

  Inductive result := Found (p : list offer) | NotFound | OutOfFuel.

  (* process the edges of one popped path *)
  Fixpoint expand (k : key) (p : list offer) (es : list offer) (q : list entry) (cnt : nat)
    : (option (list offer)) * list entry * nat :=
    match es with
    | [] => (None, q, cnt)
    | o :: es' =>
        let np := p ++ [o] in
        if sub (oto o) target then
          if succ np then (Some np, q, cnt) else expand k p es' q cnt
        else
          let '(a, m, _) := k in
          expand k p es' (((S a, m + dist (cur_of p) (ofrom o), cnt), np) :: q) (S cnt)
    end.

  Fixpoint search (fuel : nat) (q : list entry) (cnt : nat) : result :=
    match fuel with
    | O => OutOfFuel
    | S f => match pop_min q with
             | None => NotFound
             | Some ((k, p), rest) =>
                 let es := order (filter (usable p) offers) in
                 match expand k p es rest cnt with
                 | (Some np, _, _) => Found np
                 | (None, q', cnt') => search f q' cnt'
                 end
             end
    end.
  Definition adapt (fuel : nat) : result := search fuel [((0, 0, 0), [])] 1.

  (* ================= soundness ================= *)
  Definition good_path (p : list offer) := valid p = true.
  Definition good_queue (q : list entry) := Forall (fun e => good_path (snd e) /\ fst (fst (fst e)) = length (snd e)) q.

  Lemma valid_from_app pre p o : valid_from pre p = true -> usable (pre ++ p) o = true -> In o offers ->
    valid_from pre (p ++ [o]) = true.
  Proof.
    revert pre. induction p as [|x p IH]; intros pre Hv Hu Hin; cbn in *.
    - rewrite app_nil_r in Hu. rewrite Hu. cbn. rewrite andb_true_r.
      apply existsb_exists. exists o. split; [exact Hin|apply offer_eqb_spec; reflexivity].
    - apply andb_true_iff in Hv. destruct Hv as [H1 H2]. rewrite H1. cbn.
      apply IH; [exact H2| |exact Hin]. rewrite <- app_assoc. exact Hu.
  Qed.

  Lemma cur_of_snoc p o : cur_of (p ++ [o]) = oto o.
  Proof. unfold cur_of. rewrite rev_app_distr. reflexivity. Qed.

  Lemma pop_min_in q e rest : pop_min q = Some (e, rest) -> Permutation (e :: rest) q.
  Proof.
    revert e rest. induction q as [|x q IH]; intros e rest H; [discriminate|]. cbn in H.
    destruct (pop_min q) as [[m r]|] eqn:E.
    - destruct (key_ltb (fst x) (fst m)); inversion H; subst; [reflexivity|].
      rewrite perm_swap. apply perm_skip. apply IH. reflexivity.
    - destruct q; [|cbn in E; destruct (pop_min q) as [[? ?]|]; [destruct (key_ltb _ _)|]; discriminate].
      inversion H; subst. reflexivity.
  Qed.

  Lemma expand_sound k p : good_path p -> fst (fst k) = length p ->
    forall es q cnt, (forall o, In o es -> usable p o = true /\ In o offers) -> good_queue q ->
    match expand k p es q cnt with
    | (Some np, _, _) => valid np = true /\ succ np = true /\ complete np = true
    | (None, q', _) => good_queue q'
    end.
  Proof.
    intros Hp Hk. induction es as [|o es IH]; intros q cnt Hes Hq; cbn [expand]; [exact Hq|].
    destruct (Hes o (or_introl eq_refl)) as [Hu Hin].
    assert (valid (p ++ [o]) = true) as Hv by (apply valid_from_app; auto).
    destruct (sub (oto o) target) eqn:Hc.
    - destruct (succ (p ++ [o])) eqn:Hs.
      + repeat split; auto. unfold complete. destruct (p ++ [o]) eqn:E; [destruct p; discriminate|].
        rewrite <- E, cur_of_snoc. exact Hc.
      + apply IH; [intros; apply Hes; right; assumption|exact Hq].
    - destruct k as [[a m] c0]. apply IH; [intros; apply Hes; right; assumption|].
      constructor; [|exact Hq]. cbn. split; [exact Hv|]. cbn in Hk. rewrite app_length. cbn. lia.
  Qed.

  Theorem search_sound fuel : forall q cnt np, good_queue q -> search fuel q cnt = Found np ->
    valid np = true /\ succ np = true /\ complete np = true.
  Proof.
    induction fuel as [|f IH]; intros q cnt np Hq H; [discriminate|]. cbn [search] in H.
    destruct (pop_min q) as [[[k p] rest]|] eqn:E; [|discriminate].
    pose proof (pop_min_in _ _ _ E) as P.
    assert (good_queue ((k, p) :: rest)) as Hq' by (unfold good_queue; rewrite P; exact Hq).
    inversion Hq' as [|? ? [Hp Hk] Hrest]; subst. cbn in Hp, Hk.
    pose proof (expand_sound k p Hp Hk (order (filter (usable p) offers)) rest cnt) as S.
    assert (forall o, In o (order (filter (usable p) offers)) -> usable p o = true /\ In o offers) as Hes.
    { intros o Ho. apply (Permutation_in _ (order_perm _)) in Ho. apply filter_In in Ho. tauto. }
    specialize (S Hes Hrest).
    destruct (expand k p _ rest cnt) as [[[np'|] q'] cnt'].
    - inversion H; subst. exact S.
    - eapply IH; [exact S|exact H].
  Qed.

  Corollary adapt_sound fuel np : adapt fuel = Found np ->
    valid np = true /\ succ np = true /\ complete np = true.
  Proof.
    apply search_sound. constructor; [|constructor]. cbn. split; reflexivity.
  Qed.

  (* ================= completeness (never NotFound) and minimality ================= *)
  Variable Q : list offer.
  Variable d0 : offer.
  Hypothesis Qvalid : valid Q = true.
  Hypothesis Qsucc : succ Q = true.
  Hypothesis Qcomplete : complete Q = true.
  (* w.l.o.g. (cut Q at its first complete prefix): no proper non-empty prefix is complete *)
  Hypothesis Qreduced : forall i, i < length Q -> i <> 0 -> complete (firstn i Q) = false.

  Definition Inv (q : list entry) : Prop := exists i k, i < length Q /\ In (k, firstn i Q) q.

  Lemma valid_from_nth pre p i : valid_from pre p = true -> i < length p ->
    usable (pre ++ firstn i p) (nth i p d0) = true /\ In (nth i p d0) offers.
  Proof.
    revert pre i. induction p as [|x p IH]; intros pre i Hv Hi; cbn in Hi; [lia|].
    cbn in Hv. apply andb_true_iff in Hv. destruct Hv as [Hv1 Hv2]. apply andb_true_iff in Hv1. destruct Hv1 as [Hu Hin].
    destruct i as [|i]; cbn.
    - rewrite app_nil_r. split; [exact Hu|]. apply existsb_exists in Hin. destruct Hin as (y & Hy & E).
      apply offer_eqb_spec in E. subst. exact Hy.
    - replace (pre ++ x :: firstn i p) with ((pre ++ [x]) ++ firstn i p) by (rewrite <- app_assoc; reflexivity).
      apply IH; [exact Hv2|lia].
  Qed.

  Lemma firstn_S_snoc (p : list offer) i : i < length p -> firstn (S i) p = firstn i p ++ [nth i p d0].
  Proof.
    revert i. induction p as [|x p IH]; intros i Hi; cbn in Hi; [lia|].
    destruct i as [|i]; cbn; [reflexivity|]. f_equal. apply IH. lia.
  Qed.

  Lemma key_ltb_fst a b : key_ltb b a = false -> fst (fst a) <= fst (fst b).
  Proof.
    destruct a as [[a1 a2] a3], b as [[b1 b2] b3]. unfold key_ltb. cbn [fst snd].
    destruct (Nat.ltb_spec b1 a1); cbn [orb]; [intros Hd; discriminate Hd|intros; lia].
  Qed.

  Lemma key_ltb_trans_neg x m r : key_ltb x m = true -> key_ltb r m = false -> key_ltb r x = false.
  Proof.
    destruct x as [[x1 x2] x3], m as [[m1 m2] m3], r as [[r1 r2] r3]. unfold key_ltb. lia.
  Qed.
  Lemma key_ltb_asym x m : key_ltb x m = true -> key_ltb m x = false.
  Proof. destruct x as [[x1 x2] x3], m as [[m1 m2] m3]. unfold key_ltb. lia. Qed.

  Lemma pop_min_least q e rest : pop_min q = Some (e, rest) ->
    forall e', In e' rest -> key_ltb (fst e') (fst e) = false.
  Proof.
    revert e rest. induction q as [|x q IH]; intros e rest H e' Hin; [discriminate|]. cbn in H.
    destruct (pop_min q) as [[m r]|] eqn:E.
    - destruct (key_ltb (fst x) (fst m)) eqn:L; inversion H; subst.
      + (* x is the new minimum; rest = q, a permutation of m :: r *)
        pose proof (pop_min_in _ _ _ E) as P. apply (Permutation_in _ (Permutation_sym P)) in Hin.
        destruct Hin as [<-|Hin].
        * apply key_ltb_asym. exact L.
        * eapply key_ltb_trans_neg; [exact L|]. eapply IH; [reflexivity|exact Hin].
      + destruct Hin as [<-|Hin]; [exact L|]. eapply IH; [reflexivity|exact Hin].
    - inversion H; subst. destruct Hin.
  Qed.

  (* expanding a path that is the Inv-witness either finds something or pushes the next prefix;
     expanding anything keeps every old entry *)
  Lemma expand_keeps k p es : forall q cnt e,
    In e q -> match expand k p es q cnt with (Some _, _, _) => True | (None, q', _) => In e q' end.
  Proof.
    induction es as [|o es IH]; intros q cnt e Hin; cbn [expand]; [exact Hin|].
    destruct (sub (oto o) target); [destruct (succ (p ++ [o])); [exact I|apply IH; exact Hin]|].
    destruct k as [[a m] c0]. apply IH. right. exact Hin.
  Qed.

  Lemma expand_witness k i : i < length Q -> forall es q cnt,
    In (nth i Q d0) es ->
    match expand k (firstn i Q) es q cnt with
    | (Some _, _, _) => True
    | (None, q', _) => S i < length Q /\ exists k', In (k', firstn (S i) Q) q'
    end.
  Proof.
    intros Hi. induction es as [|o es IH]; intros q cnt Hin; [destruct Hin|]. cbn [expand].
    destruct Hin as [->|Hin].
    - (* this edge is the next offer of Q *)
      rewrite <- (firstn_S_snoc Q i Hi).
      assert (sub (oto (nth i Q d0)) target = complete (firstn (S i) Q)) as Ec.
      { unfold complete. rewrite (firstn_S_snoc Q i Hi). destruct (firstn i Q ++ [nth i Q d0]) eqn:E; [destruct (firstn i Q); discriminate|].
        rewrite <- E, cur_of_snoc. reflexivity. }
      rewrite Ec.
      destruct (Nat.eq_dec (S i) (length Q)) as [El|Nl].
      + rewrite El, firstn_all, Qcomplete, Qsucc. exact I.
      + rewrite Qreduced by lia. destruct k as [[a m] c0].
        pose proof (expand_keeps (a, m, c0) (firstn i Q) es
                      (((S a, m + dist (cur_of (firstn i Q)) (ofrom (nth i Q d0)), cnt), firstn (S i) Q) :: q) (S cnt)
                      _ (or_introl eq_refl)) as K.
        destruct (expand _ _ es _ _) as [[[np|] q'] cnt']; [exact I|]. split; [lia|]. eexists. exact K.
    - destruct (sub (oto o) target); [destruct (succ (firstn i Q ++ [o])); [exact I|apply IH; exact Hin]|].
      destruct k as [[a m] c0]. apply IH. exact Hin.
  Qed.

  Lemma expand_len k p es : forall q cnt np q' cnt', expand k p es q cnt = (Some np, q', cnt') -> length np = S (length p).
  Proof.
    induction es as [|o es IH]; intros q cnt np q' cnt' H; cbn [expand] in H; [discriminate|].
    destruct (sub (oto o) target).
    - destruct (succ (p ++ [o])); [inversion H; subst; rewrite app_length; cbn; lia|eapply IH; exact H].
    - destruct k as [[a m] c0]. eapply IH; exact H.
  Qed.

  Theorem search_complete_minimal fuel : forall q cnt, good_queue q -> Inv q ->
    match search fuel q cnt with
    | Found np => length np <= length Q
    | NotFound => False
    | OutOfFuel => True
    end.
  Proof.
    induction fuel as [|f IH]; intros q cnt Hq (i & kw & Hi & Hw); [exact I|]. cbn [search].
    destruct (pop_min q) as [[[k p] rest]|] eqn:E.
    2:{ destruct q; [destruct Hw|]. cbn in E. destruct (pop_min q) as [[? ?]|]; [destruct (key_ltb _ _)|]; discriminate. }
    pose proof (pop_min_in _ _ _ E) as P.
    assert (good_queue ((k, p) :: rest)) as Hq' by (unfold good_queue; rewrite P; exact Hq).
    inversion Hq' as [|? ? [Hp Hk] Hrest]; subst. cbn in Hp, Hk.
    apply (Permutation_in _ (Permutation_sym P)) in Hw.
    set (es := order (filter (usable p) offers)).
    assert (forall o, In o es -> usable p o = true /\ In o offers) as Hes.
    { intros o Ho. apply (Permutation_in _ (order_perm _)) in Ho. apply filter_In in Ho. tauto. }
    pose proof (expand_sound k p Hp Hk es rest cnt Hes Hrest) as Snd.
    (* the popped path is no longer than the witness prefix *)
    assert (length p <= i) as Hmin.
    { destruct Hw as [Ew|Hw].
      - inversion Ew; subst. rewrite firstn_length. lia.
      - pose proof (pop_min_least _ _ _ E _ Hw) as L. apply key_ltb_fst in L. cbn in L.
        rewrite Forall_forall in Hrest. destruct (Hrest _ Hw) as [_ Hkw]. cbn in Hkw.
        rewrite firstn_length in Hkw. lia. }
    destruct (expand k p es rest cnt) as [[[np|] q'] cnt'] eqn:Ex.
    - apply expand_len in Ex. lia.
    - apply IH; [exact Snd|].
      destruct Hw as [Ew|Hw].
      + inversion Ew; subst.
        pose proof (expand_witness kw i Hi es rest cnt) as Wn.
        assert (In (nth i Q d0) es) as Hin.
        { apply (Permutation_in _ (Permutation_sym (order_perm _))). apply filter_In.
          destruct (valid_from_nth [] Q i Qvalid Hi) as [Hu Ho]. cbn in Hu. tauto. }
        specialize (Wn Hin). rewrite Ex in Wn. destruct Wn as (Hlt & k' & Hk').
        exists (S i), k'. split; [exact Hlt|exact Hk'].
      + pose proof (expand_keeps k p es rest cnt _ Hw) as K. rewrite Ex in K.
        exists i, kw. split; [exact Hi|exact K].
  Qed.

  Corollary adapt_complete_minimal fuel : 0 < length Q ->
    match adapt fuel with Found np => length np <= length Q | NotFound => False | OutOfFuel => True end.
  Proof.
    intros HQ. apply search_complete_minimal.
    - constructor; [|constructor]. cbn. split; reflexivity.
    - exists 0, (0, 0, 0). split; [exact HQ|]. left. reflexivity.
  Qed.
End Adapt.
Print Assumptions adapt_sound.
Print Assumptions adapt_complete_minimal.
