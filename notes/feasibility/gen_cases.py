import random, sys
sys.path.insert(0,'/repo')
from traits.trait_list_object import _normalize_slice_or_index
rnd=random.Random(1)
N=int(sys.argv[1])
def o(x): return "None" if x is None else "(Some (%d))"%x
lines=[]
for i in range(N):
    L=rnd.randint(0,12); f=lambda: rnd.choice([None]+list(range(-15,16)))
    a,b=f(),f(); c=rnd.choice([None,1,2,3,5,-1,-2,-3,-7])
    rv,k=_normalize_slice_or_index(slice(a,b,c),L)
    kk = "I (%d)"%k if isinstance(k,int) else "S3 (%d) (%d) (%d)"%(k.start,k.stop,k.step)
    lines.append("  (%d, (%s, %s, %s), (%s, %s))"%(L,o(a),o(b),o(c),"true" if rv else "false",kk))
print("""From Coq Require Import ZArith List Bool.
Require Import PySlice.
Import ListNotations.
Open Scope Z_scope.
Definition ios_eqb (x y : ios) : bool :=
  match x, y with I a, I b => a =? b | S3 a b c, S3 a' b' c' => (a =? a') && (b =? b') && (c =? c') | _, _ => false end.
Definition cases : list (Z * (option Z * option Z * option Z) * (bool * ios)) := [
%s
].
Fixpoint mism (i : nat) (cs : list (Z * (option Z * option Z * option Z) * (bool * ios))) : list nat :=
  match cs with [] => [] | (len, sl, (rv, k)) :: cs' =>
    let '(rv', k') := normalize_gen len sl in
    if Bool.eqb rv rv' && ios_eqb k k' then mism (S i) cs' else i :: mism (S i) cs' end.
Set Printing Width 100000.
Eval vm_compute in (mism 0 cases).
""" % ";\n".join(lines))
