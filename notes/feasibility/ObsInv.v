From Coq Require Import List Arith Lia Bool PeanoNat Permutation Morphisms.
Require Import ObsList.
Import ListNotations.

(* additive / permutation-respecting structure of the sums *)
Definition S_of (h : heap) (M : list graph) (ys : list oid) : list hook :=
  flat_map (fun c => sumexp h [c] ys) M.

Lemma flat_map_perm {A B} (f : A -> list B) l l' :
  Permutation l l' -> Permutation (flat_map f l) (flat_map f l').
Proof.
  induction 1; cbn [flat_map]; auto.
  - apply Permutation_app_head; assumption.
  - rewrite !app_assoc. apply Permutation_app_tail. apply Permutation_app_comm.
  - etransitivity; eassumption.
Qed.

Lemma sumexp_app h cs ys zs : sumexp h cs (ys ++ zs) = sumexp h cs ys ++ sumexp h cs zs.
Proof. unfold sumexp. apply flat_map_app. Qed.

Lemma S_of_app h M ys zs : Permutation (S_of h M (ys ++ zs)) (S_of h M ys ++ S_of h M zs).
Proof.
  unfold S_of. induction M as [|c M IH]; cbn [flat_map]; [reflexivity|].
  rewrite sumexp_app, IH. rewrite <- !app_assoc. apply Permutation_app_head.
  rewrite !app_assoc. apply Permutation_app_tail. apply Permutation_app_comm.
Qed.

Lemma S_of_perm_ys h M ys zs : Permutation ys zs -> Permutation (S_of h M ys) (S_of h M zs).
Proof.
  intros P. unfold S_of. apply Permutation_flat_map_In. intros c _.
  unfold sumexp. apply flat_map_perm. exact P.
Qed.

Lemma S_of_perm_M h M M' ys : Permutation M M' -> Permutation (S_of h M ys) (S_of h M' ys).
Proof. intros P. unfold S_of. apply flat_map_perm. exact P. Qed.

Lemma ffm {A B C} (f : B -> list C) (g : A -> list B) l :
  flat_map f (flat_map g l) = flat_map (fun x => flat_map f (g x)) l.
Proof. induction l; cbn [flat_map]; [reflexivity|]. rewrite flat_map_app, IHl. reflexivity. Qed.

(* maintainers found on a slot *)
Definition maint_of (o : oid) (fo : fname) (hk : hook) : list graph :=
  let '(x, f, k) := hk in
  if slot_eqb x f o fo then match k with KMaint c => [c] | KUser => [] end else [].
Definition maint_on (H : list hook) o fo : list graph := flat_map (maint_of o fo) H.
Lemma maint_of_user o fo x f : maint_of o fo (x, f, KUser) = [].
Proof. unfold maint_of. destruct (slot_eqb x f o fo); reflexivity. Qed.

Lemma maint_on_expected h o fo g : forall x,
  Permutation (maint_on (expected h g x) o fo) (occ h g x o fo).
Proof.
  induction g as [f n cs IH] using graph_ind'. intros x. rewrite Forall_forall in IH.
  cbn [expected occ]. unfold maint_on. rewrite !flat_map_app.
  destruct n; cbn [flat_map]; rewrite ?maint_of_user; cbn [app];
  (apply Permutation_app; [
    destruct (slot_eqb x f o fo) eqn:Hs;
    [ clear IH; induction cs as [|c cs IHcs]; cbn; [reflexivity|]; rewrite Hs; cbn; apply perm_skip; exact IHcs
    | clear IH; induction cs as [|c cs IHcs]; cbn; [reflexivity|]; rewrite Hs; cbn; exact IHcs ]
  | rewrite ffm; apply Permutation_flat_map_In; intros y _;
    rewrite ffm; apply Permutation_flat_map_In; intros c Hc; apply IH; exact Hc ]).
Qed.
(*
  - destruct (slot_eqb x f o fo) eqn:Hs.
    + induction cs as [|c cs IHcs]; cbn; [reflexivity|]. rewrite Hs. cbn. apply perm_skip.
      apply IHcs. intros; apply IH; right; assumption.
    + induction cs as [|c cs IHcs]; cbn; [reflexivity|]. rewrite Hs. cbn.
      apply IHcs. intros; apply IH; right; assumption.
  - rewrite flat_map_concat_map, concat_map, map_map, <- flat_map_concat_map.
    rewrite <- flat_map_concat_map.
    apply Permutation_flat_map_In. intros y _.
    rewrite flat_map_concat_map, concat_map, map_map, <- flat_map_concat_map.
    rewrite <- flat_map_concat_map.
    apply Permutation_flat_map_In. intros c Hc. apply IH. exact Hc.
Qed. *)

Section Step.
  Variables (h : heap) (g : graph) (root : oid) (o : oid) (fo : fname).
  Variables (news removed added : list oid).
  Let olds := h o fo.
  Let h' := upd h o fo news.
  (* the container event is a faithful delta (C05/C06/C07 guarantee this) *)
  Hypothesis delta : Permutation (news ++ removed) (olds ++ added).
  (* the changed slot is not reachable from the objects that are detached or attached *)
  Hypothesis acyc : forall c y, (In y olds \/ In y news) -> visits h c y o fo = false.
  Hypothesis removed_old : incl removed olds.
  Hypothesis added_new : incl added news.

  Variables (H H' : list hook).
  Hypothesis inv : Permutation H (expected h g root).
  (* what the maintainers on the slot do, read in the heap after the change *)
  Hypothesis step :
    Permutation (H' ++ S_of h' (maint_on H o fo) removed) (H ++ S_of h' (maint_on H o fo) added).

  Lemma S_of_frame M ys : (forall y, In y ys -> In y olds \/ In y news) -> S_of h' M ys = S_of h M ys.
  Proof.
    intros Hy. unfold S_of. apply flat_map_ext_In. intros c _. unfold sumexp.
    apply flat_map_ext_In. intros y Iy. apply flat_map_ext_In. intros c0 _.
    apply expected_frame. apply acyc. apply Hy. exact Iy.
  Qed.

  Theorem inv_preserved : Permutation H' (expected h' g root).
  Proof.
    set (M := maint_on H o fo) in *.
    set (O := occ h g root o fo).
    assert (Permutation M O) as MO.
    { subst M O. rewrite <- maint_on_expected. unfold maint_on. apply flat_map_perm. exact inv. }
    rewrite (S_of_frame M removed) in step by (intros y Iy; left; apply removed_old; exact Iy).
    rewrite (S_of_frame M added) in step by (intros y Iy; right; apply added_new; exact Iy).
    pose proof (expected_subst h o fo news acyc g root) as SUB. fold olds h' in SUB.
    change (flat_map (fun c => sumexp h [c] olds) (occ h g root o fo)) with (S_of h O olds) in SUB.
    change (flat_map (fun c => sumexp h [c] news) (occ h g root o fo)) with (S_of h O news) in SUB.
    (* E' + S(removed) ≡ E + S(added) *)
    assert (Permutation (expected h' g root ++ S_of h O removed) (expected h g root ++ S_of h O added)) as KEY.
    { apply (Permutation_app_inv_r (S_of h O olds)).
      rewrite <- !app_assoc.
      rewrite (Permutation_app_comm (S_of h O removed)), (Permutation_app_comm (S_of h O added)).
      rewrite !app_assoc. rewrite SUB. rewrite <- !app_assoc.
      apply Permutation_app_head.
      rewrite <- !S_of_app. apply S_of_perm_ys. exact delta. }
    apply (Permutation_app_inv_r (S_of h O removed)).
    rewrite KEY. rewrite <- inv.
    rewrite <- (S_of_perm_M h M O removed MO), <- (S_of_perm_M h M O added MO).
    exact step.
  Qed.
End Step.
Print Assumptions inv_preserved.
