From Coq Require Import ZArith List Lia Bool.
Require Import PySlice.
Import ListNotations.
Open Scope Z_scope.

Definition list_eqb (a b : list Z) : bool :=
  (Nat.eqb (length a) (length b)) && forallb (fun p => fst p =? snd p) (combine a b).

Definition canon (P : list Z) (rv : bool) := if rv then rev P else P.

Definition spec_ok (len : Z) sl : bool :=
  let '(a, b, c) := indices len sl in
  let n := slicelen a b c in
  let P := positions a c (Z.to_nat n) in
  let '(rv, r) := normalize_gen len sl in
  Bool.eqb rv (c <? 0) &&
  match r with
  | I s => (0 <=? s) && (s <=? len) &&
           ((n =? 0) || (((c =? 1) || (c =? -1) || (n =? 1)) && list_eqb (canon P rv) (positions s 1 (Z.to_nat n))))
  | S3 s e k => (0 <=? s) && (s <? e) && (e <=? len) && (2 <=? k) && (2 <=? n)
                && list_eqb (canon P rv) (positions s k (Z.to_nat n))
                && (slicelen s e k =? n) && (e =? s + (n-1)*k + 1)
  end.

Definition optZ := None :: map Some [-7;-6;-5;-4;-3;-2;-1;0;1;2;3;4;5;6;7].
Definition steps := None :: map Some [-4;-3;-2;-1;1;2;3;4].
Definition grid := flat_map (fun a => flat_map (fun b => map (fun c => (a,b,c)) steps) optZ) optZ.
Definition bad := flat_map (fun len => filter (fun sl => negb (spec_ok len sl)) grid) [0;1;2;3;4;5;6].
Time Eval vm_compute in (length grid, length bad, hd (None,None,None) bad).
