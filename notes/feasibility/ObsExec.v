From Coq Require Import List Arith Lia Bool PeanoNat Permutation.
Require Import ObsList ObsInv.
Import ListNotations.

(* Spike 4 for C08: the executable hook list (remove-first-equal, as notifiers.remove does)
   and its link to the abstract step hypothesis of inv_preserved. *)

(* ---- decidable equality on the nested inductive graph ---- *)
Fixpoint graph_eqb (g1 g2 : graph) {struct g1} : bool :=
  match g1, g2 with
  | G f1 n1 cs1, G f2 n2 cs2 =>
      Nat.eqb f1 f2 && Bool.eqb n1 n2 &&
      (fix go (l1 l2 : list graph) : bool :=
         match l1, l2 with
         | [], [] => true
         | a :: l1', b :: l2' => graph_eqb a b && go l1' l2'
         | _, _ => false
         end) cs1 cs2
  end.

Lemma graph_eqb_spec g1 : forall g2, graph_eqb g1 g2 = true <-> g1 = g2.
Proof.
  induction g1 as [f1 n1 cs1 IH] using graph_ind'. intros [f2 n2 cs2]. cbn [graph_eqb].
  rewrite !andb_true_iff, Nat.eqb_eq, eqb_true_iff.
  assert ((fix go (l1 l2 : list graph) : bool :=
             match l1, l2 with
             | [], [] => true
             | a :: l1', b :: l2' => graph_eqb a b && go l1' l2'
             | _, _ => false
             end) cs1 cs2 = true <-> cs1 = cs2) as L.
  { revert cs2. induction cs1 as [|a cs1 IHcs]; intros [|b cs2]; try (split; [discriminate|discriminate]).
    - split; reflexivity.
    - inversion IH as [|? ? Ha Hcs]; subst. rewrite andb_true_iff, (Ha b), (IHcs Hcs cs2).
      split; [intros [-> ->]; reflexivity|intros [= -> ->]; split; reflexivity]. }
  rewrite L. split; [intros [[-> ->] ->]; reflexivity|intros [= -> -> ->]; repeat split].
Qed.

Definition kind_eqb (a b : kind) : bool :=
  match a, b with KUser, KUser => true | KMaint c, KMaint d => graph_eqb c d | _, _ => false end.
Definition hook_eqb (a b : hook) : bool :=
  let '(x, f, k) := a in let '(y, g, k') := b in Nat.eqb x y && Nat.eqb f g && kind_eqb k k'.
Lemma hook_eqb_spec a b : hook_eqb a b = true <-> a = b.
Proof.
  destruct a as [[x f] k], b as [[y g] k']. cbn.
  rewrite !andb_true_iff, !Nat.eqb_eq.
  assert (kind_eqb k k' = true <-> k = k') as K.
  { destruct k, k'; cbn; try (split; [discriminate|discriminate]); [split; reflexivity|].
    rewrite graph_eqb_spec. split; [intros ->; reflexivity|intros [= ->]; reflexivity]. }
  rewrite K. split; [intros [[-> ->] ->]; reflexivity|intros [= -> -> ->]; repeat split].
Qed.

(* ---- remove first equal element; remove a whole list, failing like NotifierNotFound ---- *)
Fixpoint remove1 (x : hook) (H : list hook) : option (list hook) :=
  match H with
  | [] => None
  | y :: H' => if hook_eqb x y then Some H' else option_map (cons y) (remove1 x H')
  end.
Fixpoint remove_all (R H : list hook) : option (list hook) :=
  match R with
  | [] => Some H
  | x :: R' => match remove1 x H with Some H' => remove_all R' H' | None => None end
  end.

Lemma remove1_perm x H H' : remove1 x H = Some H' -> Permutation (x :: H') H.
Proof.
  revert H'. induction H as [|y H IH]; intros H' E; [discriminate|]. cbn in E.
  destruct (hook_eqb x y) eqn:Q.
  - apply hook_eqb_spec in Q. subst. inversion E; subst. reflexivity.
  - destruct (remove1 x H) as [H0|]; [|discriminate]. inversion E; subst.
    rewrite perm_swap. apply perm_skip. apply IH. reflexivity.
Qed.
Lemma remove_all_perm R : forall H H', remove_all R H = Some H' -> Permutation (H' ++ R) H.
Proof.
  induction R as [|x R IH]; intros H H' E; cbn in E.
  - inversion E; subst. rewrite app_nil_r. reflexivity.
  - destruct (remove1 x H) as [H0|] eqn:E1; [|discriminate].
    rewrite <- (remove1_perm _ _ _ E1). rewrite <- Permutation_middle. apply perm_skip. apply IH. exact E.
Qed.

(* ---- what the notifier loop does: for every maintainer found on the slot (copy of the list),
        remove its child graph from the removed items, add it to the added items ---- *)
Fixpoint run_maints (h' : heap) (M : list graph) (rem add : list oid) (H : list hook) : option (list hook) :=
  match M with
  | [] => Some H
  | c :: M' => match remove_all (sumexp h' [c] rem) H with
               | None => None                               (* NotifierNotFound *)
               | Some H1 => run_maints h' M' rem add (H1 ++ sumexp h' [c] add)
               end
  end.

Lemma run_maints_step h' M rem add : forall H H',
  run_maints h' M rem add H = Some H' ->
  Permutation (H' ++ S_of h' M rem) (H ++ S_of h' M add).
Proof.
  induction M as [|c M IH]; intros H H' E; cbn in E.
  - inversion E; subst. cbn. rewrite !app_nil_r. reflexivity.
  - destruct (remove_all (sumexp h' [c] rem) H) as [H1|] eqn:E1; [|discriminate].
    specialize (IH _ _ E). apply remove_all_perm in E1.
    unfold S_of in *. cbn [flat_map].
    rewrite Permutation_app_swap_app. rewrite IH. rewrite <- E1.
    rewrite <- !app_assoc. apply Permutation_app_swap_app.
Qed.
Print Assumptions run_maints_step.

(* ---- the executable step preserves the invariant ---- *)
Theorem exec_inv_preserved (h : heap) (g : graph) (root o : oid) (fo : fname)
        (news removed added : list oid) (H H' : list hook) :
  Permutation (news ++ removed) (h o fo ++ added) ->
  (forall c y, In y (h o fo) \/ In y news -> visits h c y o fo = false) ->
  incl removed (h o fo) -> incl added news ->
  Permutation H (expected h g root) ->
  run_maints (upd h o fo news) (maint_on H o fo) removed added H = Some H' ->
  Permutation H' (expected (upd h o fo news) g root).
Proof.
  intros Hdelta Hacyc Hrem Hadd Hinv Hrun.
  apply (inv_preserved h g root o fo news removed added Hdelta Hacyc Hrem Hadd H H' Hinv).
  apply run_maints_step. exact Hrun.
Qed.
Print Assumptions exec_inv_preserved.
