From Coq Require Import List Arith Lia Bool PeanoNat Permutation.
Import ListNotations.

(* Spike 2 for C08: uniform list-valued heap.  A slot (x,f) holds a list of next objects:
   0/1 element for an Instance trait, the items for a container (the container is itself an
   object with one pseudo-field). *)
Definition oid := nat.
Definition fname := nat.
Inductive graph := G (f : fname) (notify : bool) (children : list graph).
Definition heap := oid -> fname -> list oid.
Definition slot_eqb (x : oid) (f : fname) (o : oid) (fo : fname) := (Nat.eqb x o && Nat.eqb f fo)%bool.
Definition upd (h : heap) (o : oid) (f : fname) (v : list oid) : heap :=
  fun o' f' => if slot_eqb o' f' o f then v else h o' f'.
Inductive kind := KUser | KMaint (c : graph).
Definition hook := (oid * fname * kind)%type.

Fixpoint expected (h : heap) (g : graph) (x : oid) {struct g} : list hook :=
  match g with
  | G f notify cs =>
      (if notify then [(x, f, KUser)] else []) ++
      map (fun c => (x, f, KMaint c)) cs ++
      flat_map (fun y => flat_map (fun c => expected h c y) cs) (h x f)
  end.

Fixpoint visits (h : heap) (g : graph) (x o : oid) (fo : fname) {struct g} : bool :=
  match g with
  | G f _ cs =>
      slot_eqb x f o fo ||
      existsb (fun y => existsb (fun c => visits h c y o fo) cs) (h x f)
  end.

Fixpoint occ (h : heap) (g : graph) (x o : oid) (fo : fname) {struct g} : list graph :=
  match g with
  | G f _ cs =>
      (if slot_eqb x f o fo then cs else []) ++
      flat_map (fun y => flat_map (fun c => occ h c y o fo) cs) (h x f)
  end.

Lemma graph_ind' (P : graph -> Prop) :
  (forall f n cs, Forall P cs -> P (G f n cs)) -> forall g, P g.
Proof.
  intros H. fix IH 1. intros [f n cs]. apply H.
  induction cs as [|c cs IHcs]; constructor; [apply IH|apply IHcs].
Qed.

Lemma flat_map_ext_In {A B} (f g : A -> list B) l :
  (forall a, In a l -> f a = g a) -> flat_map f l = flat_map g l.
Proof. induction l; simpl; intros H; [reflexivity|]. rewrite H, IHl; auto. Qed.
Lemma flat_map_nil_In {A B} (f : A -> list B) l : (forall a, In a l -> f a = []) -> flat_map f l = [].
Proof. induction l; simpl; intros H; [reflexivity|]. rewrite H, IHl; auto. Qed.

Lemma existsb_false_In {A} (p : A -> bool) l : existsb p l = false -> forall a, In a l -> p a = false.
Proof.
  intros H a Ha. destruct (p a) eqn:E; [|reflexivity].
  assert (existsb p l = true) by (apply existsb_exists; eauto). congruence.
Qed.

Lemma expected_frame h g : forall x o fo v,
  visits h g x o fo = false -> expected (upd h o fo v) g x = expected h g x.
Proof.
  induction g as [f n cs IH] using graph_ind'. intros x o fo v Hv.
  cbn [expected visits] in *. rewrite Forall_forall in IH.
  apply orb_false_iff in Hv. destruct Hv as [Hslot Hrest].
  do 2 f_equal.
  change (upd h o fo v x f) with (if slot_eqb x f o fo then v else h x f). rewrite Hslot.
  apply flat_map_ext_In. intros y Hy. apply flat_map_ext_In. intros c Hc.
  apply IH; [exact Hc|].
  pose proof (existsb_false_In _ _ Hrest y Hy) as E. cbv beta in E.
  exact (existsb_false_In _ _ E c Hc).
Qed.

Lemma occ_nil_of_not_visits h o fo g : forall x, visits h g x o fo = false -> occ h g x o fo = [].
Proof.
  induction g as [f n cs IH] using graph_ind'. intros x V. cbn [visits occ] in *.
  rewrite Forall_forall in IH.
  apply orb_false_iff in V. destruct V as [V1 V2]. rewrite V1. cbn [app].
  apply flat_map_nil_In. intros y Hy. apply flat_map_nil_In. intros c Hc.
  apply IH; [exact Hc|].
  pose proof (existsb_false_In _ _ V2 y Hy) as E. cbv beta in E.
  exact (existsb_false_In _ _ E c Hc).
Qed.

(* Σ_{y ∈ ys} Σ_{c ∈ cs} expected h c y *)
Definition sumexp (h : heap) (cs : list graph) (ys : list oid) : list hook :=
  flat_map (fun y => flat_map (fun c => expected h c y) cs) ys.

Lemma interleave {A B C} (P : A -> list B) (O : A -> list C) (F : C -> list B) cs :
  Permutation (flat_map P cs ++ flat_map F (flat_map O cs))
              (flat_map (fun c => P c ++ flat_map F (O c)) cs).
Proof.
  induction cs as [|c cs IH]; [reflexivity|]. cbn [flat_map].
  rewrite flat_map_app. rewrite <- !app_assoc. apply Permutation_app_head.
  rewrite app_assoc. rewrite (Permutation_app_comm (flat_map P cs)).
  rewrite <- app_assoc. apply Permutation_app_head. exact IH.
Qed.

Lemma Permutation_flat_map_In {A B} (P Q : A -> list B) cs :
  (forall c, In c cs -> Permutation (P c) (Q c)) -> Permutation (flat_map P cs) (flat_map Q cs).
Proof.
  induction cs as [|c cs IH]; intros H; [reflexivity|]. cbn [flat_map].
  apply Permutation_app; [apply H; left; reflexivity|apply IH; intros; apply H; right; assumption].
Qed.

(* Σ_y Σ_c e(c,y)  ≡  Σ_c Σ_y e(c,y) *)
Lemma flat_map_swap {A B C} (e : A -> B -> list C) (xs : list A) (ys : list B) :
  Permutation (flat_map (fun x => flat_map (fun y => e x y) ys) xs)
              (flat_map (fun y => flat_map (fun x => e x y) xs) ys).
Proof.
  induction xs as [|x xs IH]; cbn [flat_map].
  - symmetry. rewrite flat_map_nil_In; auto.
  - rewrite IH. clear IH. induction ys as [|y ys IHy]; cbn [flat_map]; [reflexivity|].
    rewrite <- !app_assoc. apply Permutation_app_head.
    rewrite <- IHy. rewrite !app_assoc. apply Permutation_app_tail. apply Permutation_app_comm.
Qed.

Section Subst.
  Variables (h : heap) (o : oid) (fo : fname) (news : list oid).
  Let olds := h o fo.
  Let h' := upd h o fo news.
  Hypothesis acyc : forall c y, (In y olds \/ In y news) -> visits h c y o fo = false.

  Theorem expected_subst g : forall x,
    Permutation
      (expected h' g x ++ flat_map (fun c => sumexp h [c] olds) (occ h g x o fo))
      (expected h  g x ++ flat_map (fun c => sumexp h [c] news) (occ h g x o fo)).
  Proof.
    induction g as [f n cs IH] using graph_ind'. intros x.
    cbn [expected occ]. rewrite Forall_forall in IH.
    destruct (slot_eqb x f o fo) eqn:Hs.
    - unfold slot_eqb in Hs. apply andb_true_iff in Hs. destruct Hs as [Hx Hf].
      apply Nat.eqb_eq in Hx, Hf. subst x f.
      assert (h' o fo = news) as Hn.
      { unfold h', upd, slot_eqb. rewrite !Nat.eqb_refl. reflexivity. }
      rewrite Hn. fold olds.
      assert (flat_map (fun y => flat_map (fun c => occ h c y o fo) cs) olds = []) as Hbelow.
      { apply flat_map_nil_In. intros y Hy. apply flat_map_nil_In. intros c _.
        apply occ_nil_of_not_visits. apply acyc. left. exact Hy. }
      rewrite Hbelow, app_nil_r.
      assert (flat_map (fun y => flat_map (fun c => expected h' c y) cs) news = sumexp h cs news) as Hfr.
      { unfold sumexp. apply flat_map_ext_In. intros y Hy. apply flat_map_ext_In. intros c _.
        apply expected_frame. apply acyc. right. exact Hy. }
      rewrite Hfr.
      change (flat_map (fun y => flat_map (fun c => expected h c y) cs) olds) with (sumexp h cs olds).
      rewrite <- !app_assoc. do 2 apply Permutation_app_head.
      (* Σ_{c∈cs} sumexp h [c] ys  ≡  sumexp h cs ys *)
      assert (forall ys, Permutation (flat_map (fun c => sumexp h [c] ys) cs) (sumexp h cs ys)) as SW.
      { intros ys. unfold sumexp.
        rewrite (flat_map_swap (fun c y => flat_map (fun c0 => expected h c0 y) [c]) cs ys).
        apply Permutation_flat_map_In. intros y _.
        erewrite flat_map_ext_In; [reflexivity|]. intros c _. cbn [flat_map]. apply app_nil_r. }
      rewrite !SW. apply Permutation_app_comm.
    - assert (h' x f = h x f) as Hsame by (unfold h', upd; rewrite Hs; reflexivity).
      rewrite Hsame. cbn [app].
      rewrite <- !app_assoc. do 2 apply Permutation_app_head.
      rewrite !interleave.
      apply Permutation_flat_map_In. intros y _.
      rewrite !interleave.
      apply Permutation_flat_map_In. intros c Hc. apply IH. exact Hc.
  Qed.
End Subst.
Print Assumptions expected_subst.
