From Coq Require Import List Arith Lia Bool.
Import ListNotations.

(* Spike for C15: token-level grammar of the observe mini-language, parser, soundness/completeness. *)
Inductive conn := CDot | CColon.
Inductive tok := W (n : nat) (* a word; 0 is the keyword "items" *)
               | PLUS | STAR | TC (c : conn) | COMMA | LBR | RBR.
Inductive tree := TTrait (n : nat) | TItems | TMeta (n : nat) | TAny
                | TSeries (l : tree) (c : conn) (r : tree) | TPar (l r : tree).

(* ---------- grammar, rule by rule from _dsl_grammar.lark (the ?-rules inline) ---------- *)
Inductive D_elem : list tok -> tree -> Prop :=
| De_items : D_elem [W 0] TItems
| De_trait n : D_elem [W (S n)] (TTrait (S n))
| De_meta n : D_elem [PLUS; W n] (TMeta n)
| De_br ts t : D_par ts t -> D_elem (LBR :: ts ++ [RBR]) t
with D_ser : list tok -> tree -> Prop :=
| Ds_one ts t : D_elem ts t -> D_ser ts t
| Ds_cons ts1 t1 c ts2 t2 : D_ser ts1 t1 -> D_elem ts2 t2 -> D_ser (ts1 ++ TC c :: ts2) (TSeries t1 c t2)
with D_par : list tok -> tree -> Prop :=
| Dp_one ts t : D_ser ts t -> D_par ts t
| Dp_cons ts1 t1 ts2 t2 : D_par ts1 t1 -> D_ser ts2 t2 -> D_par (ts1 ++ COMMA :: ts2) (TPar t1 t2).

Inductive D_eterm : list tok -> tree -> Prop :=
| Dt_elem ts t : D_elem ts t -> D_eterm ts t
| Dt_any : D_eterm [STAR] TAny.
Inductive D_sert : list tok -> tree -> Prop :=
| Dst_one ts t : D_eterm ts t -> D_sert ts t
| Dst_cons ts1 t1 c ts2 t2 : D_ser ts1 t1 -> D_eterm ts2 t2 -> D_sert (ts1 ++ TC c :: ts2) (TSeries t1 c t2).
Inductive D_part : list tok -> tree -> Prop :=
| Dpt_one ts t : D_sert ts t -> D_part ts t
| Dpt_cons ts1 t1 ts2 t2 : D_part ts1 t1 -> D_sert ts2 t2 -> D_part (ts1 ++ COMMA :: ts2) (TPar t1 t2).
Definition D_start := D_part.

(* ---------- parser (recursive descent, open recursion + fuel) ---------- *)
Definition res := option (tree * list tok).

Definition p_elem (rec : list tok -> res) (ts : list tok) : res :=
  match ts with
  | W 0 :: r => Some (TItems, r)
  | W (S n) :: r => Some (TTrait (S n), r)
  | PLUS :: W n :: r => Some (TMeta n, r)
  | LBR :: r => match rec r with
                | Some (t, RBR :: r') => Some (t, r')
                | _ => None end
  | _ => None
  end.

Fixpoint ser_loop (pe : list tok -> res) (k : nat) (left : tree) (ts : list tok) : res :=
  match k with O => None | S k' =>
    match ts with
    | TC c :: r => match pe r with
                   | Some (e, r') => ser_loop pe k' (TSeries left c e) r'
                   | None => None end
    | _ => Some (left, ts)
    end
  end.

Definition p_ser (rec : list tok -> res) (k : nat) (ts : list tok) : res :=
  match p_elem rec ts with
  | None => None
  | Some (t, r) => ser_loop (p_elem rec) k t r
  end.

Fixpoint par_loop (ps : list tok -> res) (k : nat) (left : tree) (ts : list tok) : res :=
  match k with O => None | S k' =>
    match ts with
    | COMMA :: r => match ps r with
                    | Some (s, r') => par_loop ps k' (TPar left s) r'
                    | None => None end
    | _ => Some (left, ts)
    end
  end.

Definition p_par_body (rec : list tok -> res) (ks kp : nat) (ts : list tok) : res :=
  match p_ser rec ks ts with
  | None => None
  | Some (t, r) => par_loop (p_ser rec ks) kp t r
  end.

Fixpoint p_par (fuel : nat) (ts : list tok) : res :=
  match fuel with O => None | S f => p_par_body (p_par f) f f ts end.

(* ---------- soundness of the bracket-free-of-star part ---------- *)
Definition sound (p : list tok -> res) (D : list tok -> tree -> Prop) : Prop :=
  forall ts t r, p ts = Some (t, r) -> exists pre, ts = pre ++ r /\ D pre t.

Lemma p_elem_sound rec : sound rec D_par -> sound (p_elem rec) D_elem.
Proof.
  intros Hrec ts t r H. unfold p_elem in H.
  destruct ts as [|[n| | |c| | |] ts']; try discriminate.
  - destruct n; inversion H; subst; eexists [_]; split; try reflexivity; constructor.
  - destruct ts' as [|[n| | |c| | |] ts'']; try discriminate. inversion H; subst.
    exists [PLUS; W n]. split; [reflexivity|constructor].
  - destruct (rec ts') as [[t' r']|] eqn:E; [|discriminate].
    destruct r' as [|[n| | |c| | |] r'']; try discriminate. inversion H; subst.
    destruct (Hrec _ _ _ E) as (pre & -> & HD).
    exists (LBR :: pre ++ [RBR]). split; [|constructor; exact HD].
    cbn. rewrite <- app_assoc. reflexivity.
Qed.

Lemma ser_loop_sound pe : sound pe D_elem ->
  forall k left ts t r pre0, D_ser pre0 left -> ser_loop pe k left ts = Some (t, r) ->
  exists pre, ts = pre ++ r /\ D_ser (pre0 ++ pre) t.
Proof.
  intros Hpe. induction k as [|k IH]; intros left ts t r pre0 HD H; [discriminate|].
  cbn [ser_loop] in H.
  destruct ts as [|[n| | |c| | |] ts']; try (inversion H; subst; exists []; split; [reflexivity|rewrite app_nil_r; assumption]).
  destruct (pe ts') as [[e r']|] eqn:E; [|discriminate].
  destruct (Hpe _ _ _ E) as (pe_pre & -> & HE).
  destruct (IH _ _ _ _ (pre0 ++ TC c :: pe_pre) (Ds_cons _ _ c _ _ HD HE) H) as (pre & -> & HD').
  exists (TC c :: pe_pre ++ pre). split.
  - cbn. rewrite <- app_assoc. reflexivity.
  - rewrite <- app_assoc in HD'. exact HD'.
Qed.

Lemma p_ser_sound rec k : sound rec D_par -> sound (p_ser rec k) D_ser.
Proof.
  intros Hrec ts t r H. unfold p_ser in H.
  destruct (p_elem rec ts) as [[e r0]|] eqn:E; [|discriminate].
  destruct (p_elem_sound rec Hrec _ _ _ E) as (pre0 & -> & HE).
  destruct (ser_loop_sound _ (p_elem_sound rec Hrec) _ _ _ _ _ pre0 (Ds_one _ _ HE) H) as (pre & -> & HD).
  exists (pre0 ++ pre). split; [rewrite app_assoc; reflexivity|exact HD].
Qed.

Lemma par_loop_sound ps : sound ps D_ser ->
  forall k left ts t r pre0, D_par pre0 left -> par_loop ps k left ts = Some (t, r) ->
  exists pre, ts = pre ++ r /\ D_par (pre0 ++ pre) t.
Proof.
  intros Hps. induction k as [|k IH]; intros left ts t r pre0 HD H; [discriminate|].
  cbn [par_loop] in H.
  destruct ts as [|[n| | |c| | |] ts']; try (inversion H; subst; exists []; split; [reflexivity|rewrite app_nil_r; assumption]).
  destruct (ps ts') as [[e r']|] eqn:E; [|discriminate].
  destruct (Hps _ _ _ E) as (ps_pre & -> & HE).
  destruct (IH _ _ _ _ (pre0 ++ COMMA :: ps_pre) (Dp_cons _ _ _ _ HD HE) H) as (pre & -> & HD').
  exists (COMMA :: ps_pre ++ pre). split.
  - cbn. rewrite <- app_assoc. reflexivity.
  - rewrite <- app_assoc in HD'. exact HD'.
Qed.

Theorem p_par_sound fuel : sound (p_par fuel) D_par.
Proof.
  induction fuel as [|f IH]; intros ts t r H; [discriminate|].
  cbn [p_par] in H. unfold p_par_body in H.
  destruct (p_ser (p_par f) f ts) as [[s r0]|] eqn:E; [|discriminate].
  destruct (p_ser_sound _ _ IH _ _ _ E) as (pre0 & -> & HS).
  destruct (par_loop_sound _ (p_ser_sound _ _ IH) _ _ _ _ _ pre0 (Dp_one _ _ HS) H) as (pre & -> & HD).
  exists (pre0 ++ pre). split; [rewrite app_assoc; reflexivity|exact HD].
Qed.
Print Assumptions p_par_sound.

(* ---------- completeness ---------- *)
Scheme D_elem_mut := Induction for D_elem Sort Prop
  with D_ser_mut := Induction for D_ser Sort Prop
  with D_par_mut := Induction for D_par Sort Prop.
Combined Scheme D_mutind from D_elem_mut, D_ser_mut, D_par_mut.

Definition no_tc (r : list tok) : Prop := match r with TC _ :: _ => False | _ => True end.
Definition no_comma (r : list tok) : Prop := match r with COMMA :: _ => False | _ => True end.

Lemma ser_loop_mono pe k left ts x : ser_loop pe k left ts = Some x ->
  forall k', k <= k' -> ser_loop pe k' left ts = Some x.
Proof.
  revert left ts. induction k as [|k IH]; intros left ts H k' Hk; [discriminate|].
  destruct k' as [|k']; [lia|]. cbn [ser_loop] in *.
  destruct ts as [|[n| | |c| | |] ts']; try exact H.
  destruct (pe ts') as [[e r']|]; [|discriminate]. apply IH; [exact H|lia].
Qed.
Lemma par_loop_mono ps k left ts x : par_loop ps k left ts = Some x ->
  forall k', k <= k' -> par_loop ps k' left ts = Some x.
Proof.
  revert left ts. induction k as [|k IH]; intros left ts H k' Hk; [discriminate|].
  destruct k' as [|k']; [lia|]. cbn [par_loop] in *.
  destruct ts as [|[n| | |c| | |] ts']; try exact H.
  destruct (ps ts') as [[e r']|]; [|discriminate]. apply IH; [exact H|lia].
Qed.

Definition C_elem (ts : list tok) (t : tree) : Prop :=
  exists n, forall f, n <= f -> forall rest, p_elem (p_par f) (ts ++ rest) = Some (t, rest).
Definition C_ser (ts : list tok) (t : tree) : Prop :=
  exists n, forall f, n <= f -> forall k rest x,
    ser_loop (p_elem (p_par f)) k t rest = Some x ->
    p_ser (p_par f) (k + n) (ts ++ rest) = Some x.
Definition C_par (ts : list tok) (t : tree) : Prop :=
  exists n, forall f, n <= f -> forall ks, n <= ks -> forall kp rest x, no_tc rest ->
    par_loop (p_ser (p_par f) ks) kp t rest = Some x ->
    p_par_body (p_par f) ks (kp + n) (ts ++ rest) = Some x.

Lemma ser_loop_stop pe k left r : no_tc r -> ser_loop pe (S k) left r = Some (left, r).
Proof. intros H. cbn [ser_loop]. destruct r as [|[n| | |c| | |] r']; try reflexivity. destruct H. Qed.
Lemma par_loop_stop ps k left r : no_comma r -> par_loop ps (S k) left r = Some (left, r).
Proof. intros H. cbn [par_loop]. destruct r as [|[n| | |c| | |] r']; try reflexivity. destruct H. Qed.

Lemma complete_mut :
  (forall ts t, D_elem ts t -> C_elem ts t) /\
  (forall ts t, D_ser ts t -> C_ser ts t) /\
  (forall ts t, D_par ts t -> C_par ts t).
Proof.
  apply D_mutind.
  - exists 0. intros; reflexivity.
  - exists 0. intros; reflexivity.
  - exists 0. intros; reflexivity.
  - (* brackets *)
    intros ts t _ (n & Hn). exists (S (S n)). intros f Hf rest.
    destruct f as [|f]; [lia|]. cbn [app p_elem]. rewrite <- app_assoc. cbn [app].
    cbn [p_par].
    assert (exists kp, f = S kp + n) as (kp & Ef) by (exists (f - n - 1); lia).
    assert (p_par_body (p_par f) f (S kp + n) (ts ++ RBR :: rest) = Some (t, RBR :: rest)) as Hcall.
    { apply (Hn f ltac:(lia) f ltac:(lia) (S kp) (RBR :: rest) (t, RBR :: rest) I).
      apply par_loop_stop. exact I. }
    rewrite <- Ef in Hcall. rewrite Hcall. reflexivity.
  - (* series: one element *)
    intros ts t _ (n & Hn). exists n. intros f Hf k rest x Hx.
    unfold p_ser. rewrite (Hn f Hf). eapply ser_loop_mono; [exact Hx|lia].
  - (* series: left recursion *)
    intros ts1 t1 c ts2 t2 _ (n1 & H1) _ (n2 & H2). exists (S (n1 + n2)).
    intros f Hf k rest x Hx. rewrite <- app_assoc. cbn [app].
    replace (k + S (n1 + n2)) with ((S k + n2) + n1) by lia.
    apply (H1 f ltac:(lia)).
    apply ser_loop_mono with (k := S k); [|lia]. cbn [ser_loop].
    rewrite (H2 f ltac:(lia)). exact Hx.
  - (* parallel: one series *)
    intros ts t _ (n & Hn). exists (S n). intros f Hf ks Hks kp rest x Hr Hx.
    unfold p_par_body.
    assert (exists k0, ks = S k0 + n) as (k0 & Ek) by (exists (ks - n - 1); lia).
    assert (p_ser (p_par f) (S k0 + n) (ts ++ rest) = Some (t, rest)) as Hcall.
    { apply (Hn f ltac:(lia) (S k0) rest (t, rest)). apply ser_loop_stop. exact Hr. }
    rewrite <- Ek in Hcall. rewrite Hcall.
    eapply par_loop_mono; [exact Hx|lia].
  - (* parallel: left recursion *)
    intros ts1 t1 ts2 t2 _ (n1 & H1) _ (n2 & H2). exists (S (n1 + n2 + 1)).
    intros f Hf ks Hks kp rest x Hr Hx. rewrite <- app_assoc. cbn [app].
    replace (kp + S (n1 + n2 + 1)) with ((S kp + (n2 + 1)) + n1) by lia.
    apply (H1 f ltac:(lia) ks ltac:(lia)); [exact I|].
    apply par_loop_mono with (k := S kp); [|lia]. cbn [par_loop].
    assert (exists k0, ks = S k0 + n2) as (k0 & Ek) by (exists (ks - n2 - 1); lia).
    assert (p_ser (p_par f) (S k0 + n2) (ts2 ++ rest) = Some (t2, rest)) as Hcall.
    { apply (H2 f ltac:(lia) (S k0) rest (t2, rest)). apply ser_loop_stop. exact Hr. }
    rewrite <- Ek in Hcall. rewrite Hcall. exact Hx.
Qed.

Theorem p_par_complete ts t : D_par ts t ->
  exists n, forall fuel, n <= fuel -> forall rest, no_tc rest -> no_comma rest ->
    p_par fuel (ts ++ rest) = Some (t, rest).
Proof.
  intros HD. destruct (proj2 (proj2 complete_mut) _ _ HD) as (n & Hn).
  exists (S (S n)). intros fuel Hf rest Htc Hco.
  destruct fuel as [|f]; [lia|]. cbn [p_par].
  assert (exists kp, f = S kp + n) as (kp & Ef) by (exists (f - n - 1); lia).
  assert (p_par_body (p_par f) f (S kp + n) (ts ++ rest) = Some (t, rest)) as Hcall.
  { apply (Hn f ltac:(lia) f ltac:(lia) (S kp) rest (t, rest) Htc). apply par_loop_stop. exact Hco. }
  rewrite <- Ef in Hcall. exact Hcall.
Qed.
Print Assumptions p_par_complete.
