From Coq Require Import List Arith Lia Bool PeanoNat.
Import ListNotations.

(* Spike for C05: the list-level half of the replay law for extended-slice assignment/deletion.
   Positions are nat indices here (the Z side is PySlice.v / SliceMain.v). *)
Section L.
Context {A : Type}.

(* value assigned to index i by "for j: l[P_j] = V_j" *)
Fixpoint assoc (P : list nat) (V : list A) (i : nat) : option A :=
  match P, V with
  | p :: P', v :: V' => if Nat.eqb p i then Some v else assoc P' V' i
  | _, _ => None
  end.

Fixpoint mapi_from (k : nat) (f : nat -> A -> A) (l : list A) : list A :=
  match l with [] => [] | x :: l' => f k x :: mapi_from (S k) f l' end.
Definition assign_at (l : list A) (P : list nat) (V : list A) : list A :=
  mapi_from 0 (fun i x => match assoc P V i with Some v => v | None => x end) l.

Fixpoint filteri_from (k : nat) (keep : nat -> bool) (l : list A) : list A :=
  match l with [] => [] | x :: l' => if keep k then x :: filteri_from (S k) keep l' else filteri_from (S k) keep l' end.
Definition delete_at (l : list A) (P : list nat) : list A :=
  filteri_from 0 (fun i => negb (existsb (Nat.eqb i) P)) l.

(* ---- order independence (the reversed-slice half of the replay law) ---- *)
Lemma assoc_app P1 V1 P2 V2 i : length P1 = length V1 ->
  assoc (P1 ++ P2) (V1 ++ V2) i = match assoc P1 V1 i with Some v => Some v | None => assoc P2 V2 i end.
Proof.
  revert V1. induction P1 as [|p P1 IH]; intros [|v V1] H; try discriminate; cbn; [reflexivity|].
  destruct (Nat.eqb p i); [reflexivity|]. apply IH. cbn in H. lia.
Qed.

Lemma assoc_none_notin P V i : ~ In i P -> assoc P V i = None.
Proof.
  revert V. induction P as [|p P IH]; intros [|v V] H; cbn; try reflexivity.
  destruct (Nat.eqb_spec p i); [subst; exfalso; apply H; left; reflexivity|].
  apply IH. intros Hin. apply H. right. exact Hin.
Qed.

Lemma assoc_rev P V i : NoDup P -> length P = length V ->
  assoc (rev P) (rev V) i = assoc P V i.
Proof.
  revert V. induction P as [|p P IH]; intros [|v V] ND HL; try discriminate; [reflexivity|].
  cbn [rev]. inversion ND as [|? ? Hnotin ND']; subst. cbn in HL.
  rewrite assoc_app by (rewrite !rev_length; lia).
  rewrite IH by (auto; lia). cbn [assoc].
  destruct (Nat.eqb_spec p i) as [->|Hne].
  - rewrite (assoc_none_notin P V i Hnotin). reflexivity.
  - destruct (assoc P V i); reflexivity.
Qed.

Lemma mapi_from_ext k f g l : (forall i x, f i x = g i x) -> mapi_from k f l = mapi_from k g l.
Proof. intros H. revert k. induction l; intros k; cbn; [reflexivity|]. rewrite H, IHl. reflexivity. Qed.

Theorem assign_at_rev l P V : NoDup P -> length P = length V ->
  assign_at l (rev P) (rev V) = assign_at l P V.
Proof.
  intros ND HL. unfold assign_at. apply mapi_from_ext. intros i x.
  rewrite assoc_rev by assumption. reflexivity.
Qed.

Lemma existsb_rev (f : nat -> bool) P : existsb f (rev P) = existsb f P.
Proof.
  induction P; cbn; [reflexivity|]. rewrite existsb_app, IHP. cbn. rewrite orb_false_r. apply orb_comm.
Qed.
Lemma filteri_from_ext k f g l : (forall i, f i = g i) -> filteri_from k f l = filteri_from k g l.
Proof. intros H. revert k. induction l; intros k; cbn; [reflexivity|]. rewrite H, IHl. reflexivity. Qed.
Theorem delete_at_rev l P : delete_at l (rev P) = delete_at l P.
Proof. unfold delete_at. apply filteri_from_ext. intros i. rewrite existsb_rev. reflexivity. Qed.

(* ---- contiguous positions = splice (the step ±1 half) ---- *)
Fixpoint upto (s n : nat) : list nat := match n with O => [] | S n' => s :: upto (S s) n' end.

Lemma assoc_upto_lt s n V i : i < s -> assoc (upto s n) V i = None.
Proof.
  revert s V. induction n as [|n IH]; intros s [|v V] H; cbn; try reflexivity.
  destruct (Nat.eqb_spec s i); [lia|]. apply IH. lia.
Qed.

Lemma mapi_from_shift k f l : mapi_from (S k) f l = mapi_from k (fun i => f (S i)) l.
Proof. revert k. induction l; intros k; cbn; [reflexivity|]. rewrite IHl. reflexivity. Qed.

Lemma mapi_from_id k (f : nat -> A -> A) l : (forall i x, k <= i -> f i x = x) -> mapi_from k f l = l.
Proof.
  revert k. induction l as [|a l IH]; intros k H; cbn; [reflexivity|].
  rewrite H by lia. rewrite IH; [reflexivity|]. intros; apply H; lia.
Qed.

Lemma mapi_from_ext_ge k f g l : (forall i x, k <= i -> f i x = g i x) -> mapi_from k f l = mapi_from k g l.
Proof.
  revert k. induction l as [|a l IH]; intros k H; cbn; [reflexivity|].
  rewrite H by lia. rewrite IH; [reflexivity|]. intros; apply H; lia.
Qed.

Definition Fset (p : nat) (V : list A) (i : nat) (x : A) : A :=
  match assoc (upto p (length V)) V i with Some v => v | None => x end.

Lemma splice_gen V : forall s k l, s + length V <= length l ->
  mapi_from k (Fset (k + s) V) l = firstn s l ++ V ++ skipn (s + length V) l.
Proof.
  induction s as [|s IH]; intros k l H.
  - rewrite Nat.add_0_r. cbn [firstn app Nat.add]. revert k l H.
    induction V as [|v V IHV]; intros k l H.
    + cbn. apply mapi_from_id. reflexivity.
    + destruct l as [|a l]; [cbn in H; lia|]. cbn [length skipn app mapi_from].
      unfold Fset at 1. cbn [length upto assoc]. rewrite Nat.eqb_refl. f_equal.
      rewrite <- (IHV (S k) l) by (cbn in H; lia).
      apply mapi_from_ext_ge. intros i x Hi. unfold Fset. cbn [length upto assoc].
      destruct (Nat.eqb_spec k i); [lia|reflexivity].
  - destruct l as [|a l]; [cbn in H; lia|]. cbn [firstn app mapi_from Nat.add skipn].
    unfold Fset at 1. rewrite assoc_upto_lt by lia. f_equal.
    replace (k + S s) with (S k + s) by lia. apply IH. cbn in H. lia.
Qed.

Theorem assign_at_upto l s V : s + length V <= length l ->
  assign_at l (upto s (length V)) V = firstn s l ++ V ++ skipn (s + length V) l.
Proof. intros H. unfold assign_at. exact (splice_gen V s 0 l H). Qed.

(* single element: l[s] = v *)
Corollary assign_at_single l s v : s < length l ->
  assign_at l [s] [v] = firstn s l ++ [v] ++ skipn (S s) l.
Proof.
  intros H. pose proof (assign_at_upto l s [v] ltac:(cbn; lia)) as E. cbn [length upto] in E.
  replace (s + 1) with (S s) in E by lia. exact E.
Qed.
End L.
Print Assumptions assign_at_upto.
Print Assumptions assign_at_rev.
